#!/usr/bin/env python3
"""Re-confirm seeded changes against the current /repo HEAD: patch applies, builds, suite passes, demo fails with and passes without.
usage: revalidate_seeds.py [name-substring ...]   (needed after a fix: commit changes the tree the seeds were made against)"""
import json, os, subprocess, sys, shutil, glob
env = dict(os.environ, GOFLAGS="-mod=mod", GOPROXY="off", GOSUMDB="off", GOTOOLCHAIN="local", TMPDIR="/tmp/reval_tmp")
env.pop("GOWORK", None)
os.makedirs("/tmp/reval_tmp", exist_ok=True)
WT = "/tmp/wt_reval"
subprocess.run(["git","-C","/repo","worktree","remove","--force",WT],capture_output=True)
subprocess.check_call(["git","-C","/repo","worktree","add","-q","--detach",WT,"HEAD"])
def sh(cmd, cwd=WT):
    return subprocess.run(cmd, shell=True, cwd=cwd, capture_output=True, text=True, env=env)
only = sys.argv[1:]
bad = 0
for d in sorted(glob.glob("/verif/seeded/*/")):
    name = os.path.basename(d.rstrip("/"))
    if only and not any(o in name for o in only): continue
    meta = json.load(open(d+"meta.json"))
    if "demo_file" not in meta:
        print(name, "SKIP (no demo_file/demo_cmd in meta)"); continue
    sh("git checkout -q -- . && git clean -fdq")
    demo = meta["demo_file"]; ddir = meta["demo_dir"].strip("/") or "."
    demos = meta.get("demo_files", [demo])
    for df in demos: shutil.copy(d+df, f"{WT}/{ddir}/{df}")
    r0 = sh(meta["demo_cmd"])
    if os.environ.get("REVAL_DEBUG") and r0.returncode != 0: print(r0.stdout[-3000:], r0.stderr[-1000:])
    a = sh(f"git apply {d}patch.diff")
    if a.returncode != 0:
        print(name, "PATCH DOES NOT APPLY"); bad += 1; continue
    b = sh("go build ./...")
    r1 = sh(meta["demo_cmd"])
    for df in demos: os.remove(f"{WT}/{ddir}/{df}")
    s = sh("go test -vet=off -count=1 ./... 2>&1 | grep -v 'no test files' | grep -v '^ok' | head -5")
    ok = (r0.returncode == 0 and r1.returncode != 0 and b.returncode == 0 and s.stdout.strip() == "")
    if not ok: bad += 1
    print(name, "OK" if ok else "INVALID", "demo_without=%d demo_with=%d build=%d suite_fail=%r" % (r0.returncode, r1.returncode, b.returncode, s.stdout.strip()[:200]), flush=True)
sh("git checkout -q -- . && git clean -fdq")
subprocess.run(["git","-C","/repo","worktree","remove","--force",WT])
shutil.rmtree("/tmp/reval_tmp", ignore_errors=True)
sys.exit(1 if bad else 0)

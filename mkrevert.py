#!/usr/bin/env python3
"""mkrevert.py NN slug property fixcommit demo_dir demo_cmd needs -- files...   : creates seeded/revert-NN-slug from the fix commit"""
import sys,subprocess,os,json,shutil
nn,slug,prop,commit,ddir,dcmd,needs=sys.argv[1:8]
files=sys.argv[8:]
d=f'/verif/seeded/revert-{nn}-{slug}'; os.makedirs(d,exist_ok=True)
diff=subprocess.check_output(['git','-C','/repo','diff',commit,commit+'~1'])
open(d+'/patch.diff','wb').write(diff)
for f in files: shutil.copy(f,d)
meta={"property":prop,"kind":f"revert of fix commit {commit} (re-introduces a genuine defect of the original tree)","needs":needs,
 "demo":", ".join(os.path.basename(f) for f in files)+f" -> {ddir}/, {dcmd}","demo_file":os.path.basename(files[0]),"demo_files":[os.path.basename(f) for f in files],"demo_dir":ddir,"demo_cmd":dcmd,
 "ran":{"demo_with_patch":"FAIL","demo_without_patch":"PASS"}}
json.dump(meta,open(d+'/meta.json','w'),indent=1)
print(d)

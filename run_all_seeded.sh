#!/bin/bash
# Runs the registered check of each seeded change's property against the change; prints a matrix.
# usage: run_all_seeded.sh [pattern]
cd /verif
for d in seeded/*${1:-}*/; do
  d=${d%/}
  [ -f $d/patch.diff ] || continue
  prop=$(python3 -c "import json;print(json.load(open('$d/meta.json'))['property'])")
  out=$(./run_seeded.sh $d $prop 2>&1)
  rc=$?
  rules=$(echo "$out" | grep -oE '^  C[0-9]+-R[0-9]+' | sort -u | tr -d ' ' | tr '\n' ',' )
  und=$(echo "$out" | grep -c '^UNDECIDED')
  if [ $rc -eq 1 ]; then v=DETECTED; elif [ $rc -eq 0 ]; then v=MISSED; else v="ERROR($rc)"; fi
  printf "%-34s %-4s %-9s %s undecided=%s\n" $(basename $d) $prop $v "$rules" $und
done

package rules

// Rules added after the sixth seeding round ("break it from afar" / "a simplification"): the changes of that round sat in code the
// anchors do not name — a constructor, a helper of another package, the caller that wires things together — and 16 of 40 went
// unnoticed. What they have in common: a rule looked at the function that *uses* a value and took the value's making for granted.
// Each rule below states one such assumption about the making.

import (
	"fmt"
	"go/token"
	"go/types"
	"os"
	"strings"

	"golang.org/x/tools/go/ssa"

	"hcsa/core"
)

// entityCtorPasses: db.NewEntity stores its arguments unchanged. The pairing code proves possession of a key *for a name* and then
// stores db.NewEntity(name, key, nil); pair-verify looks the controller up under the name it sends. A constructor that normalises,
// trims or re-encodes the name stores the pairing under another name than the one the controller will present (C02, C03, C04), and
// the listing reports a name nobody saved (C18).
func entityCtorPasses(c *core.Ctx) {
	p := c.P
	f := p.Func("db", "NewEntity")
	if f == nil {
		c.Undecided("db.NewEntity", token.NoPos, "not found")
		return
	}
	want := map[string]int{"Name": -1, "PublicKey": -1, "PrivateKey": -1}
	// parameter by position: (name string, publicKey, privateKey []byte)
	order := []string{"Name", "PublicKey", "PrivateKey"}
	for k, n := range order {
		if k < len(f.Params) {
			want[n] = k
		}
	}
	good := map[string]bool{}
	bad := map[string]token.Pos{}
	core.Instrs(f, func(i ssa.Instruction) {
		st, ok := i.(*ssa.Store)
		if !ok {
			return
		}
		fa, ok := st.Addr.(*ssa.FieldAddr)
		if !ok || !core.TypeIs(fa.X.Type(), mod+"/db.Entity") {
			return
		}
		parts := strings.Split(core.FieldName(fa), ".")
		name := parts[len(parts)-1]
		k, known := want[name]
		if !known || k < 0 {
			return
		}
		if unchangedValue(st.Val, f.Params[k], 0) {
			good[name] = true
		} else {
			bad[name] = st.Pos()
		}
	})
	for _, n := range order {
		pos, isBad := bad[n]
		if !isBad {
			pos = f.Pos()
		}
		c.Check(good[n] && !isBad, "entity-ctor-passes:"+n, pos, "NewEntity stores its "+n+" argument unchanged",
			"NewEntity does not store its "+n+" argument as given (it is normalised, trimmed, re-encoded or replaced): a pairing is stored under another name or key than the one that was proven and that the controller presents at pair-verify — the lookup fails, or finds somebody else's entry")
	}
}

// sessionOutlivesReadErrors: the read and write methods of a Connection never remove the connection's session. Whether a read is
// decrypted is asked of the session every time (C01/C05: getDecrypter() == nil means "plain text"); a read path that drops the
// session on a failed frame turns the rest of the read-ahead buffer — ciphertext — into "plain text" for whoever reads again.
// Only Close removes the session, and the read/write path does not call Close.
func sessionOutlivesReadErrors(c *core.Ctx) {
	p := c.P
	closeFn := p.Func("hap", "(*Connection).Close")
	n := 0
	var offending ssa.Instruction
	var inFn *ssa.Function
	for _, f := range libFuncs(p) {
		if !core.TypeIs(recvType(f), tConn) || f == closeFn {
			continue
		}
		switch cn(f) {
		case "Read", "DecryptedRead", "Write", "EncryptedWrite", "decryptFrame":
		default:
			continue
		}
		n++
		seen := map[*ssa.Function]bool{}
		var walk func(g *ssa.Function, depth int)
		walk = func(g *ssa.Function, depth int) {
			if g == nil || seen[g] || g.Blocks == nil || depth > 3 {
				return
			}
			seen[g] = true
			core.Instrs(g, func(i ssa.Instruction) {
				if core.IsInvoke(i, qContext, "DeleteSessionForConnection") {
					offending, inFn = i, f
				}
				h := core.Callee(i)
				if h == nil {
					return
				}
				if closeFn != nil && h == closeFn {
					offending, inFn = i, f
					return
				}
				if core.InModule(h) {
					walk(h, depth+1)
				}
			})
		}
		walk(f, 0)
	}
	if n == 0 {
		c.Undecided("session-outlives-read-errors", token.NoPos, "no read/write method of Connection found")
		return
	}
	if offending != nil {
		c.Bad("session-outlives-read-errors@"+fname(inFn), posOf(offending), "the read/write path of the connection removes its own session (calls Close or DeleteSessionForConnection): the next Read finds no decrypter, takes the connection for one that is not encrypted yet and hands out what is left in the read-ahead buffer — ciphertext of the frames behind the rejected one — as plain text")
		return
	}
	c.OK("session-outlives-read-errors", token.NoPos, "%d read/write methods of Connection: none removes the session or calls Close", n)
}

// socketIsTheAcceptedOne: the net.Conn a Connection writes to and reads from is the one it was constructed with. The write rules
// (C08: counter order = socket order, because the write happens inside the critical section) and the read rules (C07: what Peek has
// not consumed is still there) are statements about *the socket*; a wrapper that queues, coalesces or defers hands the caller a
// success for bytes that are not on the wire and is outside what those rules see.
func socketIsTheAcceptedOne(c *core.Ctx) {
	p := c.P
	n, bad := 0, 0
	var where ssa.Instruction
	for _, f := range libFuncs(p) {
		if f.Pkg == nil || f.Pkg.Pkg.Path() != mod+"/hap" {
			continue
		}
		core.Instrs(f, func(i ssa.Instruction) {
			st, ok := i.(*ssa.Store)
			if !ok {
				return
			}
			if _, isConnField := core.FieldAddrOf(st.Addr, tConn, "connection"); !isConnField {
				return
			}
			n++
			isParam := false
			for _, pr := range f.Params {
				if st.Val == ssa.Value(pr) && core.TypeIs(pr.Type(), "net.Conn") {
					isParam = true
				}
			}
			if !isParam {
				bad++
				where = i
			}
		})
	}
	if n == 0 {
		c.Undecided("socket-is-the-accepted-one", token.NoPos, "no store to Connection.connection found")
		return
	}
	if bad > 0 {
		c.Bad("socket-is-the-accepted-one", posOf(where), "the Connection does not keep the net.Conn it was given but something made from it (a buffering, queueing or otherwise wrapping connection): a Write that returns before the bytes are on the socket breaks 'counter order is socket order' — a later writer's frames overtake or overwrite the earlier one's — and reads no longer see what Peek left behind")
		return
	}
	c.OK("socket-is-the-accepted-one", token.NoPos, "%d store(s) to Connection.connection: the constructor's net.Conn parameter itself", n)
}

// requestBodiesUnbounded: nothing between the socket and the handlers cuts a request body short. A value a controller writes may span
// several frames (tlv8 / data characteristics: C09 quantifies over them); a size limit on request bodies (http.MaxBytesHandler,
// MaxBytesReader, io.LimitReader over the body) truncates the JSON, the handler answers an error and the value never arrives.
func requestBodiesUnbounded(c *core.Ctx) {
	p := c.P
	var hit ssa.Instruction
	n := 0
	for _, f := range libFuncs(p) {
		if f.Pkg == nil || !strings.HasPrefix(f.Pkg.Pkg.Path(), mod+"/hap") {
			continue
		}
		n++
		core.Instrs(f, func(i ssa.Instruction) {
			g := core.Callee(i)
			if g == nil || g.Pkg == nil {
				return
			}
			q := core.QualName(g)
			switch q {
			case "net/http.MaxBytesHandler", "net/http.MaxBytesReader", "io.LimitReader":
				hit = i
			}
		})
	}
	if hit != nil {
		c.Bad("request-bodies-unbounded", posOf(hit), "a size limit is put on what is read from a request (MaxBytesHandler / MaxBytesReader / LimitReader): a characteristic write whose JSON is longer — a tlv8 or data value of a few frames — is cut off, answered with an error and never reaches the characteristic")
		return
	}
	c.OK("request-bodies-unbounded", token.NoPos, "%d functions of hap/…: no size limit on request bodies", n)
}

// onlySessionsOfConnectionsInStore: the context lists "active connections" by walking everything it stores and picking what is a
// Session. The fan-out writes one EVENT per listed connection (C10): a session stored a second time under another key (an index by
// controller name, a cache) is listed twice and every subscriber gets every event twice. Sessions enter the store only through
// SetSessionForConnection.
func onlySessionsOfConnectionsInStore(c *core.Ctx) {
	p := c.P
	setSess := p.Func("hap", "(*context).SetSessionForConnection")
	n := 0
	var hit ssa.Instruction
	for _, f := range libFuncs(p) {
		core.Instrs(f, func(i ssa.Instruction) {
			isSet := core.IsInvoke(i, qContext, "Set")
			if g := core.Callee(i); g != nil && cn(g) == "Set" && core.TypeIs(recvType(g), mod+"/hap.context") {
				isSet = true
			}
			if !isSet {
				return
			}
			args := core.Args(i)
			if len(args) < 2 {
				return
			}
			n++
			if os.Getenv("HCSA_DEBUG") != "" {
				fmt.Fprintf(os.Stderr, "ctx.Set in %s: %v sources=%v\n", f, args[1], core.Sources(args[1]))
			}
			if f == setSess {
				return
			}
			// the value stored: is its static type before the conversion to interface{}, or its dynamic type as far as it is visible, a Session?
			switch x := args[1].(type) {
			case *ssa.ChangeInterface:
				if isSessionType(p, x.X.Type()) {
					hit = i
				}
			case *ssa.MakeInterface:
				if isSessionType(p, x.X.Type()) {
					hit = i
				}
			}
			for _, s := range core.Sources(args[1]) {
				t := s.Type()
				if mi, ok := s.(*ssa.MakeInterface); ok {
					t = mi.X.Type()
				}
				if isSessionType(p, t) {
					hit = i
				}
			}
		})
	}
	if hit != nil {
		c.Bad("sessions-stored-once", posOf(hit), "a Session is put into the context's store outside SetSessionForConnection (a second entry under another key): ActiveConnections lists every stored session, so that connection is listed twice and receives every event twice")
		return
	}
	c.OK("sessions-stored-once", token.NoPos, "%d generic Set call(s) on the context: none stores a Session besides SetSessionForConnection", n)
}

func isSessionType(p *core.Program, t types.Type) bool {
	pk := p.Pkg("hap")
	if pk == nil {
		return false
	}
	tn, _ := pk.Types.Scope().Lookup("Session").(*types.TypeName)
	if tn == nil {
		return false
	}
	iface, _ := tn.Type().Underlying().(*types.Interface)
	if iface == nil {
		return false
	}
	if types.Identical(t, tn.Type()) {
		return true
	}
	if _, isIface := t.Underlying().(*types.Interface); isIface {
		// another interface type: a Session only if it has Session's methods
		return types.Implements(t, iface)
	}
	return types.Implements(t, iface) || types.Implements(types.NewPointer(t), iface)
}

// boundsHaveTheFormatsType: the declared minimum, maximum and step of a characteristic are int (integer formats) or float64 (float):
// the clamp reads them with a type assertion to exactly that type and treats "another type" as "no bound declared". A bound stored as
// uint32, int64 or float32 is announced to the controller and never enforced (C12), and the catalogue's typed accessors panic on it (C15).
func boundsHaveTheFormatsType(c *core.Ctx) {
	p := c.P
	n, bad := 0, 0
	var where ssa.Instruction
	var what string
	for _, f := range libFuncs(p) {
		if f.Pkg == nil || f.Pkg.Pkg.Path() != mod+"/characteristic" {
			continue
		}
		core.Instrs(f, func(i ssa.Instruction) {
			st, ok := i.(*ssa.Store)
			if !ok {
				return
			}
			fa, ok := st.Addr.(*ssa.FieldAddr)
			if !ok || !core.TypeIs(fa.X.Type(), tChar) {
				return
			}
			fn := fieldNameOf(fa)
			if fn != "MinValue" && fn != "MaxValue" && fn != "StepValue" {
				return
			}
			for _, s := range core.Sources(st.Val) {
				if k, isK := s.(*ssa.Const); isK && k.IsNil() {
					continue
				}
				n++
				t := s.Type()
				if mi, isMI := s.(*ssa.MakeInterface); isMI {
					t = mi.X.Type()
				}
				b, isBasic := t.Underlying().(*types.Basic)
				if _, isIface := t.Underlying().(*types.Interface); isIface {
					// handed through as interface{} (the generic setter of a refactoring): decided where it is made
					continue
				}
				if !isBasic || !(b.Kind() == types.Int || b.Kind() == types.Float64) || t.String() != b.Name() {
					bad++
					where, what = i, fn+" = "+t.String()
				}
			}
		})
	}
	if n == 0 {
		c.Undecided("bounds-have-the-formats-type", token.NoPos, "no store to MinValue/MaxValue/StepValue found")
		return
	}
	if bad > 0 {
		c.Bad("bounds-have-the-formats-type", posOf(where), fmt.Sprintf("a bound is stored with a type the clamp does not recognise (%s): clampInt / clampFloat assert int / float64 and take any other type for 'not declared' — the bound is announced in the accessory database and never enforced", what))
		return
	}
	c.OK("bounds-have-the-formats-type", token.NoPos, "%d stores to MinValue/MaxValue/StepValue: int or float64", n)
}

// accessPath: v written as base.f1.f2…fn (loads of fields, through pointers and embedded structs): the base value and the field names.
func accessPath(v ssa.Value) (ssa.Value, []string) {
	var path []string
	for k := 0; k < 12; k++ {
		switch x := v.(type) {
		case *ssa.UnOp:
			if x.Op != token.MUL {
				return v, path
			}
			fa, ok := x.X.(*ssa.FieldAddr)
			if !ok {
				// the whole object loaded through its pointer ( *svc ): the pointer is the base
				if _, isAlloc := x.X.(*ssa.Alloc); isAlloc {
					return x.X, path
				}
				return v, path
			}
			path = append([]string{fieldNameOf(fa)}, path...)
			v = fa.X
		case *ssa.FieldAddr:
			path = append([]string{fieldNameOf(x)}, path...)
			v = x.X
		case *ssa.Field:
			st, ok := x.X.Type().Underlying().(*types.Struct)
			if !ok {
				return v, path
			}
			path = append([]string{core.Active.CanonFieldName(st.Field(x.Field))}, path...)
			v = x.X
		default:
			return v, path
		}
	}
	return v, path
}

// embeddedSuffix: how many fields at the end of the path from base are embedded ones (promoted access: svc.HeaterCooler.Service of
// svc.AddCharacteristic).
func embeddedSuffix(v ssa.Value) int {
	n := 0
	for k := 0; k < 12; k++ {
		var st *types.Struct
		var idx int
		switch x := v.(type) {
		case *ssa.UnOp:
			fa, ok := x.X.(*ssa.FieldAddr)
			if x.Op != token.MUL || !ok {
				return n
			}
			t := fa.X.Type()
			if pt, isP := t.Underlying().(*types.Pointer); isP {
				t = pt.Elem()
			}
			st, _ = t.Underlying().(*types.Struct)
			idx = fa.Field
			v = fa.X
		case *ssa.Field:
			st, _ = x.X.Type().Underlying().(*types.Struct)
			idx = x.Field
			v = x.X
		default:
			return n
		}
		if st == nil || idx >= st.NumFields() || !st.Field(idx).Embedded() {
			return n
		}
		n++
	}
	return n
}

// characteristicsAddedOnce: a characteristic object belongs to one service. Instance ids are written into the objects (UpdateIDs
// numbers every characteristic of every service in turn): an object that sits in two services is numbered twice, keeps the last
// number, and both services list it under that one id — ids are no longer unique within the accessory (C14) and a controller that
// addresses the id reaches one object for what /accessories shows as two (C09). In the library's constructors every
// AddCharacteristic hands the service a characteristic of that same service ( svc.AddCharacteristic(svc.On.Characteristic) ),
// or one made on the spot, and no two calls hand over the same one.
func characteristicsAddedOnce(c *core.Ctx) {
	p := c.P
	n := 0
	for _, f := range libFuncs(p) {
		type added struct {
			base ssa.Value
			path string
			at   ssa.Instruction
		}
		var seen []added
		core.Instrs(f, func(i ssa.Instruction) {
			g := core.Callee(i)
			if g == nil || cn(g) != "AddCharacteristic" || !core.TypeIs(recvType(g), tService) {
				return
			}
			// the library's own AddCharacteristic wrappers (if any) hand their parameter on
			arg := core.Args(i)[0]
			if _, isParam := arg.(*ssa.Parameter); isParam {
				return
			}
			n++
			rb, rp := accessPath(core.Receiver(i))
			ab, ap := accessPath(arg)
			key := "added-once@" + fname(f) + ":" + strings.Join(ap, ".")
			fresh := false
			if call, ok := ab.(*ssa.Call); ok {
				if h := call.Call.StaticCallee(); h != nil && h.Pkg != nil && h.Pkg.Pkg.Path() == mod+"/characteristic" && strings.HasPrefix(h.Name(), "New") {
					fresh = true
				}
			}
			own := false
			// the service object: the receiver's path without the embedded fields at its end ( svc.[HeaterCooler.Service] , acc.Television.[Service] )
			owner := len(rp) - embeddedSuffix(core.Receiver(i))
			if owner < 0 {
				owner = 0
			}
			if ab == rb && len(ap) > owner {
				own = true
				for k := 0; k < owner; k++ {
					if ap[k] != rp[k] {
						own = false
					}
				}
			}
			dup := false
			for _, s := range seen {
				if s.base == ab && s.path == strings.Join(ap, ".") {
					dup = true
				}
			}
			seen = append(seen, added{ab, strings.Join(ap, "."), i})
			switch {
			case dup:
				c.Bad(key, posOf(i), "the same characteristic is added a second time: it is listed twice under one instance id")
			case !fresh && !own:
				c.Bad(key, posOf(i), "a service is handed a characteristic that belongs to another object (another service's characteristic, or one that came from elsewhere): the object is numbered once per service it sits in and keeps the last number — two services list the same instance id, and ids are no longer unique within the accessory")
			default:
				c.OK(key, posOf(i), "a characteristic of the service it is added to")
			}
		})
	}
	c.Count("add_characteristic_sites", n)
	if n == 0 {
		c.Undecided("added-once", token.NoPos, "no AddCharacteristic call found in the library")
	}
}

// itemsSerialisedInStoredOrder: the container writes its items in the order in which they were stored. The fragments of one value
// are consecutive items with the same tag, and the parser joins what is adjacent (C16: a value longer than 255 bytes survives the round
// trip): a serialiser that sorts, groups or deduplicates — even "by tag", with an unstable sort — permutes fragments or separates
// them. BytesBuffer walks t.Items itself, and no method of the container calls into package sort or slices.
func itemsSerialisedInStoredOrder(c *core.Ctx) {
	p := c.P
	tCont := mod + "/util.tlv8Container"
	bb := p.Func("util", "(*tlv8Container).BytesBuffer")
	if bb == nil {
		c.Undecided("BytesBuffer", token.NoPos, "not found")
		return
	}
	n, direct := 0, 0
	var other ssa.Instruction
	core.Instrs(bb, func(i ssa.Instruction) {
		ia, ok := i.(*ssa.IndexAddr)
		if !ok {
			return
		}
		sl, isSl := ia.X.Type().Underlying().(*types.Slice)
		if !isSl || !core.TypeIs(sl.Elem(), tTLVItem) {
			return
		}
		n++
		if core.AllSources(ia.X, func(s ssa.Value) bool { _, ok := core.FieldLoad(s, tCont, "Items"); return ok }) {
			direct++
		} else {
			other = i
		}
	})
	var sorter ssa.Instruction
	for _, f := range libFuncs(p) {
		if !core.TypeIs(recvType(f), tCont) {
			continue
		}
		core.Instrs(f, func(i ssa.Instruction) {
			if g := core.Callee(i); g != nil && g.Pkg != nil && (g.Pkg.Pkg.Path() == "sort" || g.Pkg.Pkg.Path() == "slices") {
				sorter = i
			}
		})
	}
	switch {
	case n == 0:
		c.Undecided("items-serialised-in-stored-order@"+fname(bb), bb.Pos(), "BytesBuffer does not walk a slice of items")
	case other != nil || sorter != nil:
		at := other
		if sorter != nil {
			at = sorter
		}
		c.Bad("items-serialised-in-stored-order@"+fname(bb), posOf(at), "the serialiser walks a copy / a rearrangement of the items, or the container sorts them: fragments of one value (consecutive items of one tag) are written in another order or apart from each other — a value of more than 255 bytes comes back permuted or split")
	default:
		c.OK("items-serialised-in-stored-order@"+fname(bb), bb.Pos(), "BytesBuffer walks t.Items itself (%d access(es)), nothing sorts", direct)
	}
}

// inputIndexGuarded: in the packages that take bytes from a peer apart (tlv8, util's TLV8 container), a byte of a slice is addressed
// with a computed index only where a comparison of that index (or a larger one) with the length of the same slice dominates the access.
// The fixed-width readers have their own rule (guarded-read: constant indices against a length guard); this one covers walkers —
// a pre-pass, a scanner — that a later change adds: data[i+1] under a guard for i alone panics on input that ends after a tag byte
// (C13, C16, C17: arbitrary bytes never panic).
func inputIndexGuarded(c *core.Ctx, rels ...string) {
	p := c.P
	n, bad := 0, 0
	for _, f := range libFuncs(p) {
		if f.Pkg == nil {
			continue
		}
		in := false
		for _, r := range rels {
			if f.Pkg.Pkg.Path() == mod+"/"+r {
				in = true
			}
		}
		if !in {
			continue
		}
		core.Instrs(f, func(i ssa.Instruction) {
			ia, ok := i.(*ssa.IndexAddr)
			if !ok {
				return
			}
			sl, isSl := ia.X.Type().Underlying().(*types.Slice)
			if !isSl {
				return
			}
			if eb, isB := sl.Elem().Underlying().(*types.Basic); !isB || eb.Kind() != types.Uint8 {
				return
			}
			if _, isK := core.ConstInt(ia.Index); isK {
				return
			}
			// bytes that came in: a parameter, or state that was filled from one (a field, a map entry, the result of a module
			// function); not a buffer the function made itself or got from the standard library (a digest, make)
			incoming := core.SomeSource(ia.X, func(s ssa.Value) bool {
				switch x := s.(type) {
				case *ssa.Parameter, *ssa.Lookup, *ssa.FreeVar:
					return true
				case *ssa.UnOp:
					return x.Op == token.MUL
				case *ssa.Extract:
					if call, ok := x.Tuple.(*ssa.Call); ok {
						g := call.Call.StaticCallee()
						return g == nil || core.InModule(g)
					}
					return true
				case *ssa.Call:
					g := x.Call.StaticCallee()
					return g != nil && core.InModule(g)
				}
				return false
			})
			if !incoming {
				return
			}
			n++
			if indexBoundedBy(ia, ia.Index, ia.X) {
				return
			}
			bad++
			c.Bad(seqKey(c, "input-index-guarded@"+fname(f)), ia.Pos(), "a byte is addressed with a computed index that no dominating comparison bounds by the length of the slice (the guard, if any, is about a smaller index): input that ends one byte early panics with index out of range")
		})
	}
	c.Count("computed_byte_indices", n)
	if bad == 0 {
		c.OK("input-index-guarded", token.NoPos, "%d computed byte indices in %s: each dominated by a comparison with the length of its slice", n, strings.Join(rels, ", "))
	}
}

// indexBoundedBy: every path to at passes an edge on which  idx' < len(s)  (or an equivalent form) holds for an idx' >= idx.
func indexBoundedBy(at ssa.Instruction, idx, s ssa.Value) bool {
	isLenOf := func(v ssa.Value) bool {
		call, ok := core.StripConv(v).(*ssa.Call)
		if !ok {
			return false
		}
		b, ok := call.Call.Value.(*ssa.Builtin)
		return ok && b.Name() == "len" && (call.Call.Args[0] == s || sameValue(call.Call.Args[0], s))
	}
	// v = idx + k for a constant k >= 0: returns k
	offsetFrom := func(v ssa.Value) (int64, bool) {
		v = core.StripConv(v)
		base := core.StripConv(idx)
		if v == base {
			return 0, true
		}
		split := func(x ssa.Value) (ssa.Value, int64) {
			if bo, ok := x.(*ssa.BinOp); ok && bo.Op == token.ADD {
				if k, isK := core.ConstInt(bo.Y); isK {
					return core.StripConv(bo.X), k
				}
				if k, isK := core.ConstInt(bo.X); isK {
					return core.StripConv(bo.Y), k
				}
			}
			return x, 0
		}
		vb, vk := split(v)
		ib, ik := split(base)
		if vb == ib {
			return vk - ik, true
		}
		return 0, false
	}
	fact := func(cond ssa.Value) (bool, bool) {
		bo, ok := cond.(*ssa.BinOp)
		if !ok {
			return false, false
		}
		x, y, op := bo.X, bo.Y, bo.Op
		// normalise to  x OP len(s)
		if isLenOf(x) && !isLenOf(y) {
			x, y = y, x
			switch op {
			case token.LSS:
				op = token.GTR
			case token.GTR:
				op = token.LSS
			case token.LEQ:
				op = token.GEQ
			case token.GEQ:
				op = token.LEQ
			}
		}
		if !isLenOf(y) {
			return false, false
		}
		d, ok := offsetFrom(x)
		if !ok {
			return false, false
		}
		switch op {
		case token.LSS: // x < len: bounds idx when x >= idx
			return d >= 0, false
		case token.GEQ: // x >= len -> false edge: x < len
			return false, d >= 0
		case token.LEQ: // x <= len: bounds idx when x >= idx+1
			return d >= 1, false
		case token.GTR: // x > len -> false edge: x <= len
			return false, d >= 1
		}
		return false, false
	}
	return core.Dominated(at, fact)
}

// noDeleteBeforeSave: an entity is replaced by one SaveEntity (one Set: temp file, rename — the old or the new value in full, C19).
// A delete of the old entry followed by the save of the new one is two operations: a kill between them leaves the key absent, which
// is neither.
func noDeleteBeforeSave(c *core.Ctx) {
	p := c.P
	n := 0
	for _, f := range libFuncs(p) {
		var dels, saves []ssa.Instruction
		core.Instrs(f, func(i ssa.Instruction) {
			if core.IsInvoke(i, qDatabase, "DeleteEntity") {
				dels = append(dels, i)
			}
			if core.IsInvoke(i, qDatabase, "SaveEntity") {
				saves = append(saves, i)
			}
			// the same one level down: the storage's Delete followed by its Set ( "drop the old keys first" inside SaveEntity )
			if core.IsInvoke(i, qStorage, "Delete") {
				dels = append(dels, i)
			}
			if core.IsInvoke(i, qStorage, "Set") {
				saves = append(saves, i)
			}
		})
		if len(dels) == 0 || len(saves) == 0 {
			continue
		}
		n++
		var hit ssa.Instruction
		for _, d := range dels {
			for _, s := range saves {
				if reachesAfter(d, s) {
					hit = s
				}
			}
		}
		c.Check(hit == nil, "no-delete-before-save@"+fname(f), func() token.Pos {
			if hit != nil {
				return hit.Pos()
			}
			return f.Pos()
		}(), "no path deletes an entity and then saves one: a replacement is a single SaveEntity",
			"an entity is deleted and then saved on one path (replace = delete + save): a process killed between the two leaves the key absent — neither the previous nor the new value")
	}
	if n == 0 {
		c.OK("no-delete-before-save", token.NoPos, "no function both deletes and saves entities")
	}
}

// valuePathsStoreOnlyValue: setting or reading a value changes nothing of a characteristic but its Value. The configuration number
// moves when the content hash moves, and the hash covers every exported member of every characteristic except "value" (C20-R3): a
// value setter that also adjusts a declared property (maxLen grown to fit the string, a bound widened to admit the value, the
// permissions) makes the structure — and with it c# — depend on the values.
func valuePathsStoreOnlyValue(c *core.Ctx) {
	p := c.P
	entry := map[string]bool{"SetValue": true, "UpdateValue": true, "UpdateValueFromConnection": true, "GetValue": true, "GetValueFromConnection": true, "updateValue": true, "getValue": true}
	n := 0
	var hit ssa.Instruction
	var hitField string
	var hitFn *ssa.Function
	for _, f := range libFuncs(p) {
		if f.Pkg == nil || f.Pkg.Pkg.Path() != mod+"/characteristic" || !entry[cn(f)] || recvType(f) == nil {
			continue
		}
		n++
		seen := map[*ssa.Function]bool{}
		var walk func(g *ssa.Function, depth int)
		walk = func(g *ssa.Function, depth int) {
			if g == nil || seen[g] || g.Blocks == nil || depth > 4 || !core.InModule(g) {
				return
			}
			seen[g] = true
			core.Instrs(g, func(i ssa.Instruction) {
				if st, ok := i.(*ssa.Store); ok {
					if fa, ok := st.Addr.(*ssa.FieldAddr); ok && core.TypeIs(fa.X.Type(), tChar) {
						t := fa.X.Type()
						if pt, isP := t.Underlying().(*types.Pointer); isP {
							t = pt.Elem()
						}
						if sty, isS := t.Underlying().(*types.Struct); isS && fa.Field < sty.NumFields() {
							fld := sty.Field(fa.Field)
							if fld.Exported() && core.Active.CanonFieldName(fld) != "Value" {
								hit, hitField, hitFn = i, fld.Name(), f
							}
						}
					}
				}
				if h := core.Callee(i); h != nil {
					walk(h, depth+1)
				}
			})
		}
		walk(f, 0)
	}
	if n == 0 {
		c.Undecided("value-paths-store-only-value", token.NoPos, "no value setter / getter found in package characteristic")
		return
	}
	if hit != nil {
		c.Bad("value-paths-store-only-value@"+fname(hitFn), posOf(hit), fmt.Sprintf("a value setter / getter also stores the declared property %s of the characteristic: the hashed structure depends on the values, a restart with other values (a longer string, a value near a bound) bumps the configuration number", hitField))
		return
	}
	c.OK("value-paths-store-only-value", token.NoPos, "%d value setters / getters of package characteristic: the only exported field they store is Value", n)
}

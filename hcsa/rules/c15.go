package rules

import (
	"encoding/json"
	"fmt"
	"go/ast"
	"go/constant"
	"go/token"
	"go/types"
	"os"
	"path/filepath"
	"sort"
	"strings"

	"golang.org/x/tools/go/packages"
	"golang.org/x/tools/go/ssa"

	"hcsa/core"
)

func init() {
	register(&core.Property{
		ID:    "C15",
		Level: "translation_validation",
		Explanation: "Every New* constructor of packages characteristic, service and accessory is a straight-line program over constants. Each one is evaluated abstractly from its type-checked syntax tree " +
			"(accepted statement forms: base-constructor call with a constant, field := constant / []string{constants}, Set{Min,Max,Step}Value(constant), SetValue(constant), embedded-field assignment from another " +
			"constructor, AddCharacteristic / AddService of a constructed field, return of the built object; anything else makes the constructor UNDECIDED) and the result is compared field by field with " +
			"gen/metadata.json as parsed on this run: type identifier, format, permissions, unit, minimum / maximum / step, presence, type and range of the default value, the wrapper matching the format family; for " +
			"services the characteristic types added versus the required ones and absence of duplicates. The shared helpers the constructors call are checked by SSA provenance to pass their constant arguments " +
			"through unchanged (type identifier into .Type, bounds into Min/Max/Step, SetValue into UpdateValue), so that the constructor-level constants are what the object holds (clamping is the identity " +
			"inside the bounds by C12-R2). Also: no method or field is reached through an embedded pointer that has not been assigned; New<Name> uses Type<Name>; no two constructors share a type value unless listed.",
		Assumptions: []string{"gen/metadata.json in the repository is the HomeKit metadata", "C12: convert/clamp leave an in-range constant of the right type unchanged"},
		NotDecided:  []string{"iOS's acceptance of the catalogue", "characteristics that have no metadata entry are only checked for internal consistency"},
		Rules: []core.Rule{
			{ID: "C15-R1", Title: "usable object: no use through an unassigned embedded pointer; helpers pass constants through", Decides: "every exported constructor returns a usable object", Floor: 230, Run: func(c *core.Ctx) { c15r1(c); returnsUndecorated(c, "C15") }},
			{ID: "C15-R2", Title: "New<Name> uses Type<Name>; type values are unique", Decides: "every constructor's type identifier is the one declared for it", Floor: 200, Run: c15r2},
			{ID: "C15-R3", Title: "characteristics agree with the metadata", Decides: "type, format, permissions, unit, min/max/step, default", Floor: 146, Run: c15r3},
			{ID: "C15-R4", Title: "services agree with the metadata; the characteristic list of a service is written by package service only", Decides: "required characteristics present, no duplicate types", Floor: 43, Run: func(c *core.Ctx) { c15r4(c); serviceCharacteristicsWriters(c) }},
			{ID: "C15-R5", Title: "constructors without metadata entry, accessories, categories", Decides: "internal consistency of the rest of the catalogue", Floor: 35, Run: func(c *core.Ctx) { c15r5(c); accessoryServicesAdded(c) }},
			{ID: "C15-R6", Title: "bound setters and SetValue act unconditionally", Decides: "constructors hold exactly the constants they name; every constructor is usable", Floor: 10, Run: func(c *core.Ctx) { settersUnconditional(c); polarityEverywhere(c, "C15") }},
			{ID: "C15-R7", Title: "the store gate of updateValue is the read-permission predicate over Perms; the stored value is the clamp's result unchanged (shared with C11-R2/R5, C12-R5)", Decides: "a readable characteristic holds its constructor's default, inside the declared bounds", Floor: 5, Run: func(c *core.Ctx) { c11r2(c); c11r5(c); storedIsClampResult(c) }},
		},
	})
}

// ---------------------------------------------------------------- metadata

type mdChar struct {
	UUID, Name, Format, Unit string
	Properties               []string
	Constraints              map[string]interface{}
}
type mdService struct {
	UUID, Name                                       string
	RequiredCharacteristics, OptionalCharacteristics []string
}
type mdCategory struct {
	Name     string
	Category int
}
type metadata struct {
	Characteristics []mdChar
	Services        []mdService
	Categories      []mdCategory
}

func loadMetadata(p *core.Program) (*metadata, error) {
	b, err := os.ReadFile(filepath.Join(p.Cfg.Dir, "gen", "metadata.json"))
	if err != nil {
		return nil, err
	}
	var m metadata
	if err := json.Unmarshal(b, &m); err != nil {
		return nil, err
	}
	return &m, nil
}

func shortUUID(u string) string {
	i := strings.Index(u, "-")
	if i < 0 {
		return u
	}
	return strings.TrimLeft(u[:i], "0")
}

// ---------------------------------------------------------------- constructor evaluation

type charCtor struct {
	Name           string // constructor name without "New"
	Pos            token.Pos
	Base           string // Int, Float, Bool, String, Bytes
	TypeIdent      string // identifier passed to the base constructor
	TypeValue      string
	Format         string
	FormatSet      bool
	Perms          []string
	PermsSet       bool
	Unit           string
	Min, Max, Step constant.Value
	Default        constant.Value
	DefaultBytes   bool // SetValue([]byte{})
	HasDefault     bool
	Problems       []string // unrecognised statement forms -> UNDECIDED
	Wrapper        string   // type returned
}

type svcCtor struct {
	Name      string
	Pos       token.Pos
	TypeIdent string
	TypeValue string
	EmbedFrom string            // other service constructor the embedded pointer is built from
	Fields    map[string]string // field -> characteristic constructor name (without New)
	Added     []string          // fields whose characteristic was added, in order
	NilUse    []string          // uses through an unassigned embedded pointer
	Problems  []string
	Assigned  map[string]bool
}

type accCtor struct {
	Name     string
	Pos      token.Pos
	Category string
	CatValue int64
	Fields   map[string]string // field -> service constructor
	Added    []string
	NilUse   []string
	Problems []string
}

type catalogue struct {
	chars map[string]*charCtor
	svcs  map[string]*svcCtor
	accs  map[string]*accCtor
}

var baseCharCtors = map[string]bool{"NewCharacteristic": true, "NewInt": true, "NewFloat": true, "NewBool": true, "NewString": true, "NewBytes": true}

func constOf(info *types.Info, e ast.Expr) constant.Value {
	if tv, ok := info.Types[e]; ok && tv.Value != nil {
		return tv.Value
	}
	return nil
}

func identName(e ast.Expr) string {
	switch x := e.(type) {
	case *ast.Ident:
		return x.Name
	case *ast.SelectorExpr:
		return x.Sel.Name
	}
	return ""
}

// stringList evaluates []string{consts...} or a call to a module function returning such a literal.
func stringList(pk *packages.Package, e ast.Expr, funcs map[string]*ast.FuncDecl) ([]string, bool) {
	switch x := e.(type) {
	case *ast.CompositeLit:
		var out []string
		for _, el := range x.Elts {
			v := constOf(pk.TypesInfo, el)
			if v == nil || v.Kind() != constant.String {
				return nil, false
			}
			out = append(out, constant.StringVal(v))
		}
		return out, true
	case *ast.CallExpr:
		if fd, ok := funcs[identName(x.Fun)]; ok && len(x.Args) == 0 && fd.Body != nil && len(fd.Body.List) == 1 {
			if r, ok := fd.Body.List[0].(*ast.ReturnStmt); ok && len(r.Results) == 1 {
				return stringList(pk, r.Results[0], funcs)
			}
		}
	}
	return nil, false
}

func funcDecls(pk *packages.Package) map[string]*ast.FuncDecl {
	out := map[string]*ast.FuncDecl{}
	for _, f := range pk.Syntax {
		name := pk.Fset.Position(f.Pos()).Filename
		if strings.HasSuffix(name, "_test.go") {
			continue
		}
		for _, d := range f.Decls {
			if fd, ok := d.(*ast.FuncDecl); ok && fd.Recv == nil {
				out[fd.Name.Name] = fd
			}
		}
	}
	return out
}

func evalCharCtor(pk *packages.Package, fd *ast.FuncDecl, funcs map[string]*ast.FuncDecl) *charCtor {
	c := &charCtor{Name: strings.TrimPrefix(fd.Name.Name, "New"), Pos: fd.Pos()}
	info := pk.TypesInfo
	local := ""
	for _, st := range fd.Body.List {
		switch s := st.(type) {
		case *ast.AssignStmt:
			if len(s.Lhs) != 1 || len(s.Rhs) != 1 {
				c.Problems = append(c.Problems, "multi-assignment")
				continue
			}
			if s.Tok == token.DEFINE {
				call, ok := s.Rhs[0].(*ast.CallExpr)
				if !ok || !baseCharCtors[identName(call.Fun)] || len(call.Args) != 1 {
					c.Problems = append(c.Problems, "local is not built by a base constructor")
					continue
				}
				local = identName(s.Lhs[0])
				c.Base = strings.TrimPrefix(identName(call.Fun), "New")
				c.TypeIdent = identName(call.Args[0])
				if v := constOf(info, call.Args[0]); v != nil && v.Kind() == constant.String {
					c.TypeValue = constant.StringVal(v)
				} else {
					c.Problems = append(c.Problems, "type identifier is not a constant")
				}
				continue
			}
			sel, ok := s.Lhs[0].(*ast.SelectorExpr)
			if !ok || identName(sel.X) != local {
				c.Problems = append(c.Problems, "assignment to something other than a field of the local")
				continue
			}
			switch sel.Sel.Name {
			case "Format":
				if v := constOf(info, s.Rhs[0]); v != nil {
					c.Format, c.FormatSet = constant.StringVal(v), true
				} else {
					c.Problems = append(c.Problems, "Format is not a constant")
				}
			case "Perms":
				if l, ok := stringList(pk, s.Rhs[0], funcs); ok {
					c.Perms, c.PermsSet = l, true
				} else {
					c.Problems = append(c.Problems, "Perms is not a list of constants")
				}
			case "Unit":
				if v := constOf(info, s.Rhs[0]); v != nil {
					c.Unit = constant.StringVal(v)
				} else {
					c.Problems = append(c.Problems, "Unit is not a constant")
				}
			case "updateOnSameValue", "Description", "MaxLen", "Events":
				if constOf(info, s.Rhs[0]) == nil {
					c.Problems = append(c.Problems, sel.Sel.Name+" is not a constant")
				}
			default:
				// an unexported field set to a constant (updateOnSameValue under another name) is no part of the catalogue
				if ast.IsExported(sel.Sel.Name) || constOf(info, s.Rhs[0]) == nil {
					c.Problems = append(c.Problems, "assignment to field "+sel.Sel.Name)
				}
			}
		case *ast.ExprStmt:
			call, ok := s.X.(*ast.CallExpr)
			if !ok {
				c.Problems = append(c.Problems, "expression statement")
				continue
			}
			sel, ok := call.Fun.(*ast.SelectorExpr)
			if !ok || identName(sel.X) != local || len(call.Args) != 1 {
				c.Problems = append(c.Problems, "call that is not a setter of the local")
				continue
			}
			v := constOf(info, call.Args[0])
			switch sel.Sel.Name {
			case "SetMinValue":
				c.Min = v
			case "SetMaxValue":
				c.Max = v
			case "SetStepValue":
				c.Step = v
			case "SetValue":
				c.HasDefault = true
				c.Default = v
				if v == nil {
					if cl, ok := call.Args[0].(*ast.CompositeLit); ok && len(cl.Elts) == 0 {
						c.DefaultBytes = true
					} else {
						c.Problems = append(c.Problems, "SetValue argument is not a constant")
					}
				}
				continue
			default:
				c.Problems = append(c.Problems, "call of "+sel.Sel.Name)
				continue
			}
			if v == nil {
				c.Problems = append(c.Problems, sel.Sel.Name+" argument is not a constant")
			}
		case *ast.ReturnStmt:
			if len(s.Results) != 1 {
				c.Problems = append(c.Problems, "return")
				continue
			}
			u, ok := s.Results[0].(*ast.UnaryExpr)
			if !ok || u.Op != token.AND {
				c.Problems = append(c.Problems, "does not return &T{local}")
				continue
			}
			cl, ok := u.X.(*ast.CompositeLit)
			if !ok || len(cl.Elts) != 1 || identName(cl.Elts[0]) != local {
				c.Problems = append(c.Problems, "does not return &T{local}")
				continue
			}
			c.Wrapper = identName(cl.Type)
		default:
			c.Problems = append(c.Problems, fmt.Sprintf("statement %T", st))
		}
	}
	return c
}

// embeddedPath: for a selector/method expression, the names of the embedded fields the selection goes through.
func embeddedPath(info *types.Info, sel *ast.SelectorExpr) []string {
	s, ok := info.Selections[sel]
	if !ok {
		return nil
	}
	idx := s.Index()
	if len(idx) <= 1 {
		return nil
	}
	t := s.Recv()
	var out []string
	for _, i := range idx[:len(idx)-1] {
		if p, ok := t.Underlying().(*types.Pointer); ok {
			t = p.Elem()
		}
		st, ok := t.Underlying().(*types.Struct)
		if !ok {
			break
		}
		f := st.Field(i)
		_, isPtr := f.Type().Underlying().(*types.Pointer)
		if isPtr {
			out = append(out, f.Name())
		}
		t = f.Type()
	}
	return out
}

func evalStructCtor(pk *packages.Package, fd *ast.FuncDecl, kind string) (name string, pos token.Pos, typeIdent string, typeValue constant.Value, embedFrom string, fields map[string]string, added, nilUse, problems []string) {
	info := pk.TypesInfo
	name, pos = strings.TrimPrefix(fd.Name.Name, "New"), fd.Pos()
	fields = map[string]string{}
	assigned := map[string]bool{}
	local := ""
	// every selector through an embedded pointer of the local needs that pointer assigned before
	checkUses := func(n ast.Node) {
		ast.Inspect(n, func(x ast.Node) bool {
			sel, ok := x.(*ast.SelectorExpr)
			if !ok {
				return true
			}
			// root of the selector chain must be the local
			root := sel.X
			for {
				if s2, ok := root.(*ast.SelectorExpr); ok {
					root = s2.X
					continue
				}
				break
			}
			if identName(root) != local || local == "" {
				return true
			}
			if inner, ok := sel.X.(*ast.Ident); ok && inner.Name == local {
				for _, emb := range embeddedPath(info, sel) {
					if !assigned[emb] {
						nilUse = append(nilUse, fmt.Sprintf("%s used through embedded %s before it is assigned", sel.Sel.Name, emb))
					}
					break
				}
			}
			// explicit field chains: local.F.X requires F assigned
			if s2, ok := sel.X.(*ast.SelectorExpr); ok {
				if inner, ok := s2.X.(*ast.Ident); ok && inner.Name == local {
					if _, isField := fields[s2.Sel.Name]; !isField && !assigned[s2.Sel.Name] {
						if fv, ok := info.Selections[s2]; ok {
							if _, isPtr := fv.Type().Underlying().(*types.Pointer); isPtr {
								nilUse = append(nilUse, fmt.Sprintf("%s.%s used before %s is assigned", s2.Sel.Name, sel.Sel.Name, s2.Sel.Name))
							}
						}
					}
				}
			}
			return true
		})
	}
	for _, st := range fd.Body.List {
		switch s := st.(type) {
		case *ast.AssignStmt:
			if len(s.Lhs) != 1 || len(s.Rhs) != 1 {
				problems = append(problems, "multi-assignment")
				continue
			}
			if s.Tok == token.DEFINE {
				if cl, ok := s.Rhs[0].(*ast.CompositeLit); ok && len(cl.Elts) == 0 {
					local = identName(s.Lhs[0])
					continue
				}
				problems = append(problems, "local is not an empty composite literal")
				continue
			}
			sel, ok := s.Lhs[0].(*ast.SelectorExpr)
			if !ok || identName(sel.X) != local {
				problems = append(problems, "assignment to something other than a field of the local")
				continue
			}
			call, ok := s.Rhs[0].(*ast.CallExpr)
			if !ok {
				problems = append(problems, "field "+sel.Sel.Name+" not assigned from a constructor call")
				continue
			}
			checkUses(call)
			fn := identName(call.Fun)
			fld := sel.Sel.Name
			assigned[fld] = true
			switch {
			case fn == "New" && kind == "service" && len(call.Args) == 1:
				typeIdent = identName(call.Args[0])
				typeValue = constOf(info, call.Args[0])
			case fn == "New" && kind == "accessory" && len(call.Args) == 2:
				typeIdent = identName(call.Args[1])
				typeValue = constOf(info, call.Args[1])
			case strings.HasPrefix(fn, "New") && len(call.Args) == 0:
				if _, isQualified := call.Fun.(*ast.SelectorExpr); isQualified {
					fields[fld] = strings.TrimPrefix(fn, "New")
				} else {
					embedFrom = strings.TrimPrefix(fn, "New") // same-package constructor: embedded base
					fields["<embed>"+fld] = embedFrom
				}
			default:
				problems = append(problems, "field "+fld+" assigned from "+fn)
			}
		case *ast.ExprStmt:
			call, ok := s.X.(*ast.CallExpr)
			if !ok {
				problems = append(problems, "expression statement")
				continue
			}
			checkUses(call)
			sel, ok := call.Fun.(*ast.SelectorExpr)
			if !ok {
				problems = append(problems, "call")
				continue
			}
			switch sel.Sel.Name {
			case "AddCharacteristic", "AddService":
				// argument: local.F.Characteristic / local.F.Service
				if len(call.Args) == 1 {
					if a, ok := call.Args[0].(*ast.SelectorExpr); ok {
						if f, ok := a.X.(*ast.SelectorExpr); ok && identName(f.X) == local {
							added = append(added, f.Sel.Name)
							continue
						}
					}
				}
				problems = append(problems, sel.Sel.Name+" of something other than a constructed field")
			case "SetValue", "SetMinValue", "SetMaxValue", "SetStepValue", "AddLinkedService":
				// configuration of a constructed characteristic (hand-written accessories): allowed
			default:
				problems = append(problems, "call of "+sel.Sel.Name)
			}
		case *ast.ReturnStmt:
			ok := false
			if len(s.Results) == 1 {
				if u, isU := s.Results[0].(*ast.UnaryExpr); isU && u.Op == token.AND && identName(u.X) == local {
					ok = true
				}
			}
			if !ok {
				problems = append(problems, "does not return &local")
			}
		default:
			problems = append(problems, fmt.Sprintf("statement %T", st))
		}
	}
	return
}

var catMemo = map[*core.Program]*catalogue{}

func buildCatalogue(p *core.Program) *catalogue {
	if c, ok := catMemo[p]; ok {
		return c
	}
	cat := &catalogue{chars: map[string]*charCtor{}, svcs: map[string]*svcCtor{}, accs: map[string]*accCtor{}}
	if pk := p.Pkg("characteristic"); pk != nil {
		funcs := funcDecls(pk)
		for name, fd := range funcs {
			if !strings.HasPrefix(name, "New") || baseCharCtors[name] || fd.Body == nil || fd.Type.Params.NumFields() != 0 {
				continue
			}
			cat.chars[strings.TrimPrefix(name, "New")] = evalCharCtor(pk, fd, funcs)
		}
	}
	if pk := p.Pkg("service"); pk != nil {
		for name, fd := range funcDecls(pk) {
			if !strings.HasPrefix(name, "New") || name == "New" || fd.Body == nil {
				continue
			}
			s := &svcCtor{}
			var tv constant.Value
			s.Name, s.Pos, s.TypeIdent, tv, s.EmbedFrom, s.Fields, s.Added, s.NilUse, s.Problems = evalStructCtor(pk, fd, "service")
			if tv != nil && tv.Kind() == constant.String {
				s.TypeValue = constant.StringVal(tv)
			}
			cat.svcs[s.Name] = s
		}
	}
	if pk := p.Pkg("accessory"); pk != nil {
		for name, fd := range funcDecls(pk) {
			if !strings.HasPrefix(name, "New") || name == "New" || name == "NewContainer" || fd.Body == nil {
				continue
			}
			a := &accCtor{}
			var tv constant.Value
			var emb string
			a.Name, a.Pos, a.Category, tv, emb, a.Fields, a.Added, a.NilUse, a.Problems = evalStructCtor(pk, fd, "accessory")
			_ = emb
			a.CatValue = -1
			if tv != nil && tv.Kind() == constant.Int {
				a.CatValue, _ = constant.Int64Val(tv)
			}
			cat.accs[a.Name] = a
		}
	}
	catMemo[p] = cat
	return cat
}

func sortedKeys[T any](m map[string]T) []string {
	var out []string
	for k := range m {
		out = append(out, k)
	}
	sort.Strings(out)
	return out
}

// ---------------------------------------------------------------- rules

func c15r1(c *core.Ctx) {
	p := c.P
	baseConstructorsUsable(c)
	cat := buildCatalogue(p)
	c.Count("programs", len(cat.chars)+len(cat.svcs)+len(cat.accs))
	for _, k := range sortedKeys(cat.chars) {
		x := cat.chars[k]
		key := "usable:characteristic.New" + k
		if len(x.Problems) > 0 {
			c.Undecided(key, x.Pos, "constructor uses statement forms the evaluator does not know: %s", strings.Join(x.Problems, "; "))
			continue
		}
		want := map[string]string{"Int": "Int", "Float": "Float", "Bool": "Bool", "String": "String", "Bytes": "Bytes"}
		_ = want
		c.Check(x.TypeValue != "" && x.FormatSet && x.PermsSet, key, x.Pos, "built on New"+x.Base+", sets type, format and permissions", "the constructor does not set type, format and permissions")
	}
	for _, k := range sortedKeys(cat.svcs) {
		x := cat.svcs[k]
		key := "usable:service.New" + k
		switch {
		case len(x.NilUse) > 0:
			c.Bad(key, x.Pos, "nil embedded pointer: %s — the constructor panics on every call", strings.Join(x.NilUse, "; "))
		case len(x.Problems) > 0:
			c.Undecided(key, x.Pos, "unknown statement forms: %s", strings.Join(x.Problems, "; "))
		default:
			// every constructed characteristic is added
			missing := []string{}
			addedSet := map[string]bool{}
			for _, a := range x.Added {
				addedSet[a] = true
			}
			for f := range x.Fields {
				if !strings.HasPrefix(f, "<embed>") && !addedSet[f] {
					missing = append(missing, f)
				}
			}
			sort.Strings(missing)
			c.Check(len(missing) == 0 && (x.TypeValue != "" || x.EmbedFrom != ""), key, x.Pos, fmt.Sprintf("embedded service assigned first; %d characteristics constructed and added", len(x.Added)),
				fmt.Sprintf("characteristics constructed but never added to the service: %v (or no service type)", missing))
		}
	}
	for _, k := range sortedKeys(cat.accs) {
		x := cat.accs[k]
		key := "usable:accessory.New" + k
		// the hand-written accessory constructors come in any shape (statement by statement, locals first and one composite literal at
		// the end, loops over the services, helpers): decided on the SSA form, not by the statement evaluator of the generated files
		_ = x
		accessoryCtorSSA(c, key, k)
	}
	// helpers pass their constants through unchanged
	passes := func(rel, fn string, param int, typ, field string) {
		f := p.Func(rel, fn)
		key := "helper-passes:" + fn + "->" + field
		if f == nil {
			c.Undecided(key, token.NoPos, "helper not found")
			return
		}
		ok := false
		bad := false
		core.Instrs(f, func(i ssa.Instruction) {
			st, isSt := i.(*ssa.Store)
			if !isSt {
				return
			}
			fa, isFa := st.Addr.(*ssa.FieldAddr)
			if !isFa || fieldNameOf(fa) != field {
				return
			}
			v := st.Val
			if mi, isMI := v.(*ssa.MakeInterface); isMI {
				v = mi.X
			}
			if v == ssa.Value(f.Params[param]) {
				ok = true
			} else {
				bad = true
			}
		})
		_ = typ
		c.Check(ok && !bad, key, f.Pos(), "stores its argument unchanged into ."+field, fn+" does not store its argument unchanged into ."+field+" (it is transformed on the way): the object does not hold the constant the constructor names")
	}
	passes("characteristic", "NewCharacteristic", 0, tChar, "Type")
	passes("service", "New", 0, tService, "Type")
	passes("accessory", "New", 1, tAccessory, "Type")
	for _, w := range []string{"Int", "Float"} {
		passes("characteristic", "(*"+w+").SetMinValue", 1, tChar, "MinValue")
		passes("characteristic", "(*"+w+").SetMaxValue", 1, tChar, "MaxValue")
		passes("characteristic", "(*"+w+").SetStepValue", 1, tChar, "StepValue")
	}
	// an in-range default is stored unchanged: the clamps return only the value, the minimum or the maximum (shared with C12-R2)
	for _, name := range []string{"clampInt", "clampFloat"} {
		f, val := clampFunc(p, name)
		if f == nil {
			c.Undecided("helper-passes:"+name, token.NoPos, "not found")
			continue
		}
		var minV, maxV ssa.Value
		core.Instrs(f, func(i ssa.Instruction) {
			ta, ok := i.(*ssa.TypeAssert)
			if !ok || !ta.CommaOk {
				return
			}
			for _, r := range *ta.Referrers() {
				if e, ok := r.(*ssa.Extract); ok && e.Index == 0 {
					if isBoundOf(ta.X, "MinValue") {
						minV = e
					}
					if isBoundOf(ta.X, "MaxValue") {
						maxV = e
					}
				}
			}
		})
		pure := returnsOnly(f, func(sv ssa.Value) bool {
			return sv == ssa.Value(val) || (minV != nil && sv == minV) || (maxV != nil && sv == maxV)
		})
		c.Check(pure, "helper-passes:"+name, f.Pos(), "returns only the value, the minimum or the maximum: a default inside its bounds is stored as written in the constructor",
			name+" computes its result from the value (arithmetic after clamping): the default value an object holds is not the constant its constructor names and can leave the declared range")
	}
	for _, w := range []string{"Int", "Float", "Bool", "String", "Bytes"} {
		f := p.Func("characteristic", "New"+w)
		key := "helper-passes:New" + w + "->type"
		if f == nil {
			c.Undecided(key, token.NoPos, "not found")
			continue
		}
		ok := false
		core.Instrs(f, func(i ssa.Instruction) {
			if g := core.Callee(i); g != nil && (cn(g) == "NewCharacteristic" || cn(g) == "NewString") && core.CallOf(i).Args[0] == ssa.Value(f.Params[0]) {
				ok = true
			}
		})
		c.Check(ok, key, f.Pos(), "hands its type argument to the base constructor unchanged", "New"+w+" does not pass its type argument through")
		// SetValue -> UpdateValue(value) unchanged (Bytes: base64 of the bytes through String.SetValue)
		sv := p.Func("characteristic", "(*"+w+").SetValue")
		if sv != nil {
			okv := false
			core.Instrs(sv, func(i ssa.Instruction) {
				g := core.Callee(i)
				if g == nil {
					return
				}
				if cn(g) == "UpdateValue" {
					a := core.CallOf(i).Args[1]
					if mi, isMI := a.(*ssa.MakeInterface); isMI && (mi.X == ssa.Value(sv.Params[1]) || unchangedValue(mi.X, sv.Params[1], 0)) {
						okv = true
					}
				}
				if w == "Bytes" && cn(g) == "SetValue" {
					okv = true
				}
			})
			c.Check(okv, "helper-passes:"+w+".SetValue", sv.Pos(), "hands the value to UpdateValue unchanged", w+".SetValue transforms the value before storing it")
		}
	}
}

var typeAliases = map[string]string{
	"characteristic:117": "SelectedRTPStreamConfiguration and SelectedStreamConfiguration are two names of the same HAP characteristic",
	"service:43":         "ColoredLightbulb is the Lightbulb service with the colour characteristics",
}

func c15r2(c *core.Ctx) {
	cat := buildCatalogue(c.P)
	byType := map[string][]string{}
	for _, k := range sortedKeys(cat.chars) {
		x := cat.chars[k]
		if len(x.Problems) > 0 {
			continue
		}
		c.Check(x.TypeIdent == "Type"+k, "name-type:characteristic.New"+k, x.Pos, "uses Type"+k+" = "+x.TypeValue,
			fmt.Sprintf("New%s is built with %s (%q) instead of its own constant Type%s", k, x.TypeIdent, x.TypeValue, k))
		byType["characteristic:"+x.TypeValue] = append(byType["characteristic:"+x.TypeValue], k)
	}
	svcAlias := map[string]string{"ColoredLightbulb": "TypeLightbulb"}
	for _, k := range sortedKeys(cat.svcs) {
		x := cat.svcs[k]
		if len(x.Problems) > 0 || len(x.NilUse) > 0 {
			continue
		}
		if x.EmbedFrom != "" && x.TypeIdent == "" {
			c.OK("name-type:service.New"+k, x.Pos, "builds on New"+x.EmbedFrom)
			continue
		}
		want := "Type" + k
		if a, ok := svcAlias[k]; ok {
			want = a
		}
		c.Check(x.TypeIdent == want, "name-type:service.New"+k, x.Pos, "uses "+want+" = "+x.TypeValue, fmt.Sprintf("New%s is built with %s instead of %s", k, x.TypeIdent, want))
		byType["service:"+x.TypeValue] = append(byType["service:"+x.TypeValue], k)
	}
	for _, t := range sortedKeys(byType) {
		names := byType[t]
		if len(names) < 2 {
			continue
		}
		if why, ok := typeAliases[t]; ok {
			c.OK("shared-type:"+t, token.NoPos, "%v share a type value: %s", names, why)
		} else {
			c.Bad("shared-type:"+t, token.NoPos, "constructors %v share the type value %s", names, t)
		}
	}
}

func numEq(v constant.Value, f interface{}) bool {
	if v == nil || f == nil {
		return v == nil && f == nil
	}
	x, ok := f.(float64)
	if !ok {
		return false
	}
	fv, _ := constant.Float64Val(constant.ToFloat(v))
	return fv == x
}

func c15r3(c *core.Ctx) {
	p := c.P
	md, err := loadMetadata(p)
	if err != nil {
		c.Undecided("metadata", token.NoPos, "gen/metadata.json unreadable: %v", err)
		return
	}
	cat := buildCatalogue(p)
	byType := map[string]*charCtor{}
	for _, k := range sortedKeys(cat.chars) {
		x := cat.chars[k]
		if _, dup := byType[x.TypeValue]; !dup {
			byType[x.TypeValue] = x
		}
	}
	family := map[string]string{"uint8": "Int", "uint16": "Int", "uint32": "Int", "uint64": "Int", "int32": "Int", "float": "Float", "bool": "Bool", "string": "String", "tlv8": "Bytes", "data": "Bytes"}
	cmp := 0
	for _, m := range md.Characteristics {
		short := shortUUID(m.UUID)
		key := "metadata:" + short + ":" + m.Name
		x := byType[short]
		if x == nil {
			c.Bad(key, token.NoPos, "no characteristic constructor yields the type %s (%s)", short, m.Name)
			continue
		}
		if len(x.Problems) > 0 {
			c.Undecided(key, x.Pos, "constructor New%s not evaluable: %s", x.Name, strings.Join(x.Problems, "; "))
			continue
		}
		var diffs []string
		chk := func(ok bool, what string, a ...interface{}) {
			cmp++
			if !ok {
				diffs = append(diffs, fmt.Sprintf(what, a...))
			}
		}
		chk(x.Format == m.Format, "format %q, metadata %q", x.Format, m.Format)
		var wantPerms []string
		readable := false
		for _, pr := range m.Properties {
			switch pr {
			case "read":
				wantPerms = append(wantPerms, "pr")
				readable = true
			case "write":
				wantPerms = append(wantPerms, "pw")
			case "cnotify":
				wantPerms = append(wantPerms, "ev")
			}
		}
		gp := append([]string{}, x.Perms...)
		sort.Strings(gp)
		wp := append([]string{}, wantPerms...)
		sort.Strings(wp)
		chk(fmt.Sprint(gp) == fmt.Sprint(wp), "permissions %v, metadata %v", x.Perms, wantPerms)
		chk(x.Unit == m.Unit, "unit %q, metadata %q", x.Unit, m.Unit)
		// constraint keys are matched without regard to case: one entry of the bundled metadata spells its step "stepValue", which the
		// generator (and the first version of this rule, which read the file the way the generator does) silently skipped
		cons := func(key string) interface{} {
			for k, v := range m.Constraints {
				if strings.EqualFold(k, key) {
					return v
				}
			}
			return nil
		}
		chk(numEq(x.Min, cons("MinimumValue")), "minimum %v, metadata %v", x.Min, cons("MinimumValue"))
		chk(numEq(x.Max, cons("MaximumValue")), "maximum %v, metadata %v", x.Max, cons("MaximumValue"))
		chk(numEq(x.Step, cons("StepValue")), "step %v, metadata %v", x.Step, cons("StepValue"))
		chk(x.Base == family[m.Format], "wrapper %s, format family %s", x.Base, family[m.Format])
		chk(x.Wrapper == x.Name, "returns %s", x.Wrapper)
		chk(x.HasDefault == readable, "default value present=%v, readable=%v", x.HasDefault, readable)
		if x.HasDefault {
			switch x.Base {
			case "Int":
				okT := x.Default != nil && x.Default.Kind() == constant.Int
				chk(okT, "default %v is not an integer", x.Default)
			case "Float":
				okT := x.Default != nil && (x.Default.Kind() == constant.Int || x.Default.Kind() == constant.Float)
				chk(okT, "default %v is not a number", x.Default)
			case "Bool":
				chk(x.Default != nil && x.Default.Kind() == constant.Bool, "default %v is not a bool", x.Default)
			case "String":
				chk(x.Default != nil && x.Default.Kind() == constant.String, "default %v is not a string", x.Default)
			case "Bytes":
				chk(x.DefaultBytes, "default is not a byte slice")
			}
			if x.Default != nil && (x.Base == "Int" || x.Base == "Float") {
				if x.Min != nil {
					chk(constant.Compare(x.Default, token.GEQ, x.Min), "default %v below minimum %v", x.Default, x.Min)
				}
				if x.Max != nil {
					chk(constant.Compare(x.Default, token.LEQ, x.Max), "default %v above maximum %v", x.Default, x.Max)
				}
			}
		}
		if len(diffs) == 0 {
			c.OK(key, x.Pos, "New%s agrees with the metadata (type %s, %s, %v)", x.Name, short, x.Format, x.Perms)
		} else {
			c.Bad(key, x.Pos, "New%s disagrees with gen/metadata.json: %s", x.Name, strings.Join(diffs, "; "))
		}
	}
	c.Count("disagreements_checked", cmp)
}

// addedTypes returns the characteristic type values a service adds (including those of the service it builds on).
func addedTypes(cat *catalogue, s *svcCtor, depth int) []string {
	var out []string
	if s.EmbedFrom != "" && depth > 0 {
		if b := cat.svcs[s.EmbedFrom]; b != nil {
			out = append(out, addedTypes(cat, b, depth-1)...)
		}
	}
	for _, f := range s.Added {
		if cn, ok := s.Fields[f]; ok {
			if ch := cat.chars[cn]; ch != nil {
				out = append(out, ch.TypeValue)
			} else {
				out = append(out, "?"+cn)
			}
		}
	}
	return out
}

func serviceType(cat *catalogue, s *svcCtor) string {
	if s.TypeValue != "" {
		return s.TypeValue
	}
	if b := cat.svcs[s.EmbedFrom]; b != nil {
		return serviceType(cat, b)
	}
	return ""
}

func c15r4(c *core.Ctx) {
	md, err := loadMetadata(c.P)
	if err != nil {
		c.Undecided("metadata", token.NoPos, "unreadable: %v", err)
		return
	}
	cat := buildCatalogue(c.P)
	byType := map[string][]*svcCtor{}
	for _, k := range sortedKeys(cat.svcs) {
		s := cat.svcs[k]
		byType[serviceType(cat, s)] = append(byType[serviceType(cat, s)], s)
	}
	for _, m := range md.Services {
		short := shortUUID(m.UUID)
		key := "metadata-service:" + short + ":" + m.Name
		ss := byType[short]
		if len(ss) == 0 {
			c.Bad(key, token.NoPos, "no service constructor yields the type %s (%s)", short, m.Name)
			continue
		}
		var diffs []string
		for _, s := range ss {
			if len(s.Problems) > 0 || len(s.NilUse) > 0 {
				diffs = append(diffs, "New"+s.Name+" not evaluable")
				continue
			}
			have := map[string]int{}
			for _, t := range addedTypes(cat, s, 3) {
				have[t]++
			}
			for _, r := range m.RequiredCharacteristics {
				if have[shortUUID(r)] == 0 {
					diffs = append(diffs, fmt.Sprintf("New%s lacks required characteristic %s", s.Name, shortUUID(r)))
				}
			}
			for t, n := range have {
				if n > 1 {
					diffs = append(diffs, fmt.Sprintf("New%s adds characteristic type %s %d times", s.Name, t, n))
				}
			}
		}
		c.Count("disagreements_checked", len(m.RequiredCharacteristics)+1)
		sort.Strings(diffs)
		if len(diffs) == 0 {
			c.OK(key, ss[0].Pos, "%d constructor(s) with type %s contain all %d required characteristics, no duplicates", len(ss), short, len(m.RequiredCharacteristics))
		} else {
			c.Bad(key, ss[0].Pos, "%s", strings.Join(diffs, "; "))
		}
	}
}

func c15r5(c *core.Ctx) {
	p := c.P
	md, err := loadMetadata(p)
	if err != nil {
		c.Undecided("metadata", token.NoPos, "unreadable: %v", err)
		return
	}
	cat := buildCatalogue(p)
	inMD := map[string]bool{}
	for _, m := range md.Characteristics {
		inMD[shortUUID(m.UUID)] = true
	}
	formats := map[string]bool{}
	for _, v := range formatConstants(p) {
		formats[v] = true
	}
	perms := map[string]bool{"pr": true, "pw": true, "ev": true, "hd": true, "wr": true}
	for _, k := range sortedKeys(cat.chars) {
		x := cat.chars[k]
		if inMD[x.TypeValue] || len(x.Problems) > 0 {
			continue
		}
		var diffs []string
		if !formats[x.Format] {
			diffs = append(diffs, "format "+x.Format+" is not a declared Format constant")
		}
		for _, pm := range x.Perms {
			if !perms[pm] {
				diffs = append(diffs, "permission "+pm+" is not a Perm constant")
			}
		}
		if len(x.Perms) == 0 {
			diffs = append(diffs, "empty permission list")
		}
		if x.Default != nil && x.Min != nil && !constant.Compare(x.Default, token.GEQ, x.Min) {
			diffs = append(diffs, "default below minimum")
		}
		if x.Default != nil && x.Max != nil && !constant.Compare(x.Default, token.LEQ, x.Max) {
			diffs = append(diffs, "default above maximum")
		}
		readable := false
		for _, pm := range x.Perms {
			if pm == "pr" {
				readable = true
			}
		}
		if x.HasDefault && !readable {
			diffs = append(diffs, "default value on a characteristic without read permission")
		}
		if readable && !x.HasDefault {
			diffs = append(diffs, "readable, but the constructor sets no value: the stored value is nil, the typed getter panics on it and the attribute database serves the characteristic without a value")
		}
		c.Check(len(diffs) == 0, "extra:characteristic.New"+k, x.Pos, "no metadata entry; internally consistent (format, permissions, default)", strings.Join(diffs, "; "))
	}
	// services without metadata entry
	mdSvc := map[string]bool{}
	for _, m := range md.Services {
		mdSvc[shortUUID(m.UUID)] = true
	}
	for _, k := range sortedKeys(cat.svcs) {
		s := cat.svcs[k]
		if mdSvc[serviceType(cat, s)] || len(s.Problems) > 0 || len(s.NilUse) > 0 {
			continue
		}
		have := map[string]int{}
		dup := []string{}
		for _, t := range addedTypes(cat, s, 3) {
			have[t]++
			if have[t] == 2 {
				dup = append(dup, t)
			}
		}
		c.Check(len(dup) == 0, "extra:service.New"+k, s.Pos, "no metadata entry; no duplicate characteristic types", fmt.Sprintf("characteristic type(s) %v added twice", dup))
	}
	// accessories: category declared, services constructed and non-nil when added
	cats := map[int64]string{}
	for _, m := range md.Categories {
		cats[int64(m.Category)] = m.Name
	}
	for _, k := range sortedKeys(cat.accs) {
		a := cat.accs[k]
		// the category handed to accessory.New is one the metadata knows (SSA form: any shape of constructor)
		if v, ok := accessoryCategorySSA(p, k); ok {
			_, known := cats[v]
			c.Check(known, "accessory:New"+k, a.Pos, fmt.Sprintf("category %d (%s); services: see service-added", v, cats[v]), fmt.Sprintf("category %d unknown to the metadata", v))
			continue
		}
		if len(a.Problems) > 0 || len(a.NilUse) > 0 {
			continue
		}
		_, known := cats[a.CatValue]
		okAdded := true
		for _, f := range a.Added {
			if _, ok := a.Fields[f]; !ok {
				okAdded = false
			}
		}
		c.Check(known && okAdded, "accessory:New"+k, a.Pos, fmt.Sprintf("category %s = %d (%s); adds only services it constructed", a.Category, a.CatValue, cats[a.CatValue]),
			fmt.Sprintf("category %d unknown to the metadata, or a service is added that was not constructed", a.CatValue))
	}
	// category constants agree with the metadata by value
	if pk := p.Pkg("accessory"); pk != nil {
		have := map[int64]bool{}
		for _, n := range pk.Types.Scope().Names() {
			if k, ok := pk.Types.Scope().Lookup(n).(*types.Const); ok && strings.HasPrefix(n, "Type") && k.Val().Kind() == constant.Int {
				v, _ := constant.Int64Val(k.Val())
				have[v] = true
			}
		}
		missing := []string{}
		for v, n := range cats {
			if !have[v] {
				missing = append(missing, fmt.Sprintf("%d(%s)", v, n))
			}
		}
		sort.Strings(missing)
		c.Check(len(missing) == 0, "categories", token.NoPos, fmt.Sprintf("all %d metadata categories have a constant", len(cats)), "metadata categories without constant: "+strings.Join(missing, ", "))
	}
}

// accessoryCategorySSA: the constant category the constructor New<name> hands to accessory.New (through whatever locals).
func accessoryCategorySSA(p *core.Program, name string) (int64, bool) {
	f := p.Func("accessory", "New"+name)
	nw := p.Func("accessory", "New")
	if f == nil || nw == nil {
		return 0, false
	}
	var v int64
	found := false
	var walk func(g *ssa.Function, depth int)
	walk = func(g *ssa.Function, depth int) {
		if g == nil || g.Blocks == nil || depth > 2 {
			return
		}
		core.Instrs(g, func(i ssa.Instruction) {
			h := core.Callee(i)
			if h == nil {
				return
			}
			if h == nw {
				if os.Getenv("HCSA_DEBUG") != "" {
					fmt.Fprintf(os.Stderr, "accessoryCategorySSA %s: call %v\n", name, i)
				}
				for _, a := range core.CallOf(i).Args {
					if k, isK := core.ConstInt(a); isK && core.TypeIs(a.Type(), mod+"/accessory.AccessoryType") {
						v, found = k, true
					}
				}
				return
			}
			if core.InModule(h) && h.Pkg == g.Pkg {
				walk(h, depth+1)
			}
		})
	}
	walk(f, 0)
	return v, found
}

// accessoryCtorSSA: "usable object" for a hand-written accessory constructor in any shape: no pointer field of a struct the function
// builds is read before it was assigned (the embedded *Accessory, the service pointers: a read through a nil one panics on every
// call), and the accessory is made by accessory.New with a category constant.
func accessoryCtorSSA(c *core.Ctx, key, name string) {
	p := c.P
	f := p.Func("accessory", "New"+name)
	if f == nil {
		c.Undecided(key, token.NoPos, "constructor not found")
		return
	}
	var early ssa.Instruction
	early = nil
	var what string
	core.Instrs(f, func(i ssa.Instruction) {
		u, ok := i.(*ssa.UnOp)
		if !ok || u.Op != token.MUL {
			return
		}
		fa, ok := u.X.(*ssa.FieldAddr)
		if !ok {
			return
		}
		a, ok := fa.X.(*ssa.Alloc)
		if !ok {
			return
		}
		if _, isPtr := u.Type().Underlying().(*types.Pointer); !isPtr {
			return
		}
		// a store to the same field of the same local on every path to the load
		assigned := false
		for _, r := range *a.Referrers() {
			fb, isFA := r.(*ssa.FieldAddr)
			if !isFA || fb.Field != fa.Field {
				continue
			}
			for _, rr := range *fb.Referrers() {
				if st, isSt := rr.(*ssa.Store); isSt && st.Addr == ssa.Value(fb) && instrDominates(st, u) && !core.IsNilConst(st.Val) {
					assigned = true
				}
			}
		}
		// ... or the whole struct was stored (a composite literal assigned in one piece)
		for _, r := range *a.Referrers() {
			if st, isSt := r.(*ssa.Store); isSt && st.Addr == ssa.Value(a) && instrDominates(st, u) {
				if k, isK := st.Val.(*ssa.Const); isK && k.Value == nil {
					continue // the zero value
				}
				assigned = true
			}
		}
		if !assigned && early == nil {
			early, what = i, core.FieldName(fa)
		}
	})
	if early != nil {
		c.Bad(key, posOf(early), "nil pointer use: %s is read before it is assigned — the constructor panics on every call", core.Rel(what))
		return
	}
	v, ok := accessoryCategorySSA(p, name)
	c.Check(ok && v >= 0, key, f.Pos(), "made by accessory.New with a category constant; no pointer field read before it is assigned", "the accessory is not built by accessory.New with a category constant")
}

// baseConstructorsUsable: the constructors that take a type argument — NewCharacteristic and the typed NewInt / NewFloat / NewBool /
// NewString / NewBytes on top of it, the documented way to make a custom characteristic — return an object that works as they
// return it. updateValue stores a value only while the characteristic is readable and converts it only for a declared format:
// with Perms left nil (the doc comment of NewCharacteristic promises PermsAll) SetValue stores nothing and every typed GetValue
// panics on nil; with no Format (NewInt, NewFloat) a controller's value is stored as it comes — a string in an Int, and the second
// write of the same JSON array panics in the interface comparison. The generated constructors set both fields themselves afterwards.
func baseConstructorsUsable(c *core.Ctx) {
	p := c.P
	consts := formatConstants(p)
	isFormat := func(s string) bool {
		for _, v := range consts {
			if v == s {
				return true
			}
		}
		return false
	}
	storesTo := func(f *ssa.Function, field string, ok func(ssa.Value) bool) bool {
		found := false
		core.Instrs(f, func(i ssa.Instruction) {
			if st, isSt := i.(*ssa.Store); isSt {
				if _, isF := core.FieldAddrOf(st.Addr, tChar, field); isF && ok(st.Val) {
					found = true
				}
			}
		})
		return found
	}
	if f := p.Func("characteristic", "NewCharacteristic"); f != nil {
		c.Check(storesTo(f, "Perms", func(v ssa.Value) bool { return !core.IsNilConst(v) }), "base-ctor-perms@"+fname(f), f.Pos(),
			"NewCharacteristic sets permissions", "NewCharacteristic leaves Perms nil (its doc comment promises PermsAll): a characteristic made by NewString / NewBool / … and not given permissions by hand is not readable — SetValue stores nothing and the typed GetValue panics on nil")
	} else {
		c.Undecided("base-ctor-perms", token.NoPos, "NewCharacteristic not found")
	}
	for _, w := range []string{"Int", "Float", "Bool", "String", "Bytes"} {
		f := p.Func("characteristic", "New"+w)
		if f == nil {
			c.Undecided("base-ctor-format:New"+w, token.NoPos, "not found")
			continue
		}
		c.Check(storesTo(f, "Format", func(v ssa.Value) bool { s, isK := core.ConstString(v); return isK && isFormat(s) }), "base-ctor-format:New"+w, f.Pos(),
			"New"+w+" declares a format", "New"+w+" sets no format: convert hands a controller's value through unconverted — the typed getter panics on the first write of another JSON type, and the second write of the same array or object panics in the comparison of updateValue")
	}
}

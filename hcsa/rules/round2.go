package rules

// Rules added after the second round of independently seeded changes (DESIGN.md section 9). Each is a necessary
// condition of the property it is registered under; several are shared between properties.

import (
	"fmt"
	"go/token"
	"go/types"
	"os"
	"strings"

	"golang.org/x/tools/go/ssa"

	"hcsa/core"
)

// ---------------------------------------------------------------- purity / no shared state

// moduleGlobalsUsed lists the package-level variables of the module (collections, pointers, structs, funcs excluded)
// referenced by f and by the module functions it calls statically.
func moduleGlobalsUsed(roots []*ssa.Function, stores bool) map[*ssa.Global][]ssa.Instruction {
	out := map[*ssa.Global][]ssa.Instruction{}
	seen := map[*ssa.Function]bool{}
	var walk func(f *ssa.Function)
	walk = func(f *ssa.Function) {
		if f == nil || seen[f] || !core.InModule(f) || f.Blocks == nil || pkgPathOf(f) == mod+"/log" {
			return
		}
		seen[f] = true
		core.InstrsDeep(f, func(g *ssa.Function, i ssa.Instruction) {
			for _, op := range i.Operands(nil) {
				gl, ok := (*op).(*ssa.Global)
				if !ok || gl.Pkg == nil || !core.InModule(anyFunc(gl.Pkg)) || gl.Pkg.Pkg.Path() == mod+"/log" {
					continue
				}
				t := gl.Type().(*types.Pointer).Elem()
				if types.Implements(t, errorType()) {
					continue
				}
				if stores {
					if st, isSt := i.(*ssa.Store); !isSt || st.Addr != ssa.Value(gl) {
						// also count map updates / calls on the global's address (sync.Pool.Put, mutex) as writes
						if _, isCall := i.(ssa.CallInstruction); !isCall {
							if _, isMU := i.(*ssa.MapUpdate); !isMU {
								continue
							}
						}
					}
				} else {
					switch t.Underlying().(type) {
					case *types.Map, *types.Slice, *types.Pointer, *types.Struct, *types.Chan, *types.Interface:
					default:
						continue
					}
				}
				out[gl] = append(out[gl], i)
			}
			walk(core.Callee(i))
		})
	}
	for _, r := range roots {
		walk(r)
	}
	return out
}

// wrappersPure: the primitive wrappers keep no state between calls (a cache in front of a primitive makes the result
// depend on earlier calls: a signature "verifies" for other data, two derivations with different labels collide).
func wrappersPure(c *core.Ctx, names [][2]string) {
	p := c.P
	for _, n := range names {
		f := p.Func(n[0], n[1])
		key := "wrapper-pure:" + n[0] + "." + n[1]
		if f == nil {
			c.Undecided(key, token.NoPos, "not found")
			continue
		}
		gl := moduleGlobalsUsed([]*ssa.Function{f}, false)
		if len(gl) == 0 {
			c.OK(key, f.Pos(), "uses no package-level state: the result depends on the arguments only")
			continue
		}
		for g, is := range gl {
			c.Bad(key, is[0].Pos(), "%s uses the package-level variable %s: its result depends on earlier calls (memoised or shared state), so a check can succeed for arguments it was never computed for", n[1], g.Name())
		}
	}
}

var cryptoWrappers = [][2]string{
	{"crypto/hkdf", "Sha512"}, {"crypto/chacha20poly1305", "DecryptAndVerify"}, {"crypto/chacha20poly1305", "EncryptAndSeal"},
	{"crypto", "ValidateED25519Signature"}, {"crypto", "ED25519Signature"}, {"crypto/curve25519", "SharedSecret"}, {"crypto/curve25519", "PublicKey"}, {"crypto/curve25519", "GeneratePrivateKey"},
}

// handlersKeepNoState: request handlers (and what they call statically) do not write package-level variables and do not
// write fields of the handler object that is shared by all connections.
func handlersKeepNoState(c *core.Ctx, handlers []*ssa.Function, what string) {
	bad := 0
	for _, h := range handlers {
		if h == nil {
			continue
		}
		for g, is := range moduleGlobalsUsed([]*ssa.Function{h}, true) {
			bad++
			c.Bad("handler-writes-package-state:"+g.Name()+"@"+fname(h), is[0].Pos(), "%s writes the package-level variable %s: state that outlives the connection (a lease, a pending exchange, a cache) is shared by all connections and is not released when a connection goes away", what, g.Name())
		}
		if h.Signature.Recv() == nil {
			continue
		}
		recv := h.Params[0]
		// methods of the same handler type called (statically, transitively) from the handler
		seenM := map[*ssa.Function]bool{}
		var walkM func(g *ssa.Function)
		walkM = func(g *ssa.Function) {
			core.InstrsDeep(g, func(_ *ssa.Function, i ssa.Instruction) {
				m := core.Callee(i)
				if m == nil || seenM[m] || m == h || m.Blocks == nil || m.Signature.Recv() == nil || !types.Identical(m.Signature.Recv().Type(), h.Signature.Recv().Type()) {
					return
				}
				seenM[m] = true
				mrecv := m.Params[0]
				core.InstrsDeep(m, func(_ *ssa.Function, j ssa.Instruction) {
					if st, ok := j.(*ssa.Store); ok {
						if fa, ok := st.Addr.(*ssa.FieldAddr); ok && valIs(fa.X, mrecv) {
							bad++
							c.Bad("handler-writes-own-field:"+core.Rel(core.FieldName(fa))+"@"+fname(m), st.Pos(), "%s (through %s) stores into a field of the handler object, which is shared by all connections: what one connection leaves there (a lease, a pending exchange) affects all others and is not released when that connection goes away", what, cn(m))
						}
					}
				})
				walkM(m)
			})
		}
		walkM(h)
		core.InstrsDeep(h, func(g *ssa.Function, i ssa.Instruction) {
			switch x := i.(type) {
			case *ssa.Store:
				if fa, ok := x.Addr.(*ssa.FieldAddr); ok && valIs(fa.X, recv) {
					bad++
					c.Bad("handler-writes-own-field:"+core.Rel(core.FieldName(fa))+"@"+fname(h), x.Pos(), "%s stores into a field of the handler object, which is shared by all connections: requests of different connections overwrite each other's state", what)
				}
			case *ssa.MapUpdate:
				if core.AnySource(x.Map, func(s ssa.Value) bool {
					u, ok := s.(*ssa.UnOp)
					if !ok {
						return false
					}
					fa, ok := u.X.(*ssa.FieldAddr)
					return ok && valIs(fa.X, recv)
				}) {
					bad++
					c.Bad("handler-writes-own-map@"+fname(h), x.Pos(), "%s updates a map held by the handler object, which is shared by all connections", what)
				}
			}
		})
	}
	if bad == 0 {
		c.OK("handlers-keep-no-state:"+what, token.NoPos, "the handlers write neither package-level variables nor fields of the shared handler object")
	}
}

// ---------------------------------------------------------------- every Database implementation reads the storage

func databaseImplsReadStorage(c *core.Ctx) {
	p := c.P
	n := 0
	for _, f := range libFuncs(p) {
		if cn(f) != "EntityWithName" || core.Active.RecvOf(f) == nil || f.Parent() != nil {
			continue
		}
		n++
		bad := 0
		var w core.Path
		k := 0
		core.EnumPaths(f, 2, 20000, func(pa core.Path) {
			ret := pa.Returns()
			if ret == nil || len(res(ret)) != 2 || provablyNonNil(pa, res(ret)[1]) {
				return
			}
			k++
			reads := false
			pa.Instrs(func(i ssa.Instruction) {
				if core.IsInvoke(i, qStorage, "Get") || core.IsInvoke(i, qDatabase, "EntityWithName") {
					reads = true
				}
				if g := core.Callee(i); g != nil && core.InModule(g) && (cn(g) == "entityForKey" || cn(g) == "EntityWithName") {
					reads = true
				}
			})
			if !reads {
				bad++
				if w == nil {
					w = pa
				}
			}
		})
		key := "lookup-reads-storage@" + fname(f)
		if bad > 0 {
			c.BadPath(key, f.Pos(), w.Describe(p), "%d path(s) of this Database implementation return an entity with a nil error without reading the storage or the wrapped database (memoised): a removed pairing still verifies", bad)
		} else {
			c.Check(k > 0, key, f.Pos(), "every successful lookup path reads the storage (or the database it wraps)", "no successful path")
		}
	}
	if n == 0 {
		c.Undecided("Database-implementations", token.NoPos, "no EntityWithName method found")
	}
}

// ---------------------------------------------------------------- C07 additions

func c07r6(c *core.Ctx) {
	p := c.P
	dr := p.Func("hap", "(*Connection).DecryptedRead")
	dec := p.Func("crypto", "(*secureSession).Decrypt")
	if dr == nil || dec == nil {
		c.Undecided("DecryptedRead/Decrypt", token.NoPos, "not found")
		return
	}
	// (0) a short frame ends the message unconditionally (shared with C06-R3): a reader that goes on because "more bytes are
	// buffered" holds a complete message back until the next one has arrived completely — and loses it if a time-out comes first
	lastFramePolarity(c, dec, 1024)
	// (0') plain text or decryption is chosen when the data is there, not before the read blocks
	modeDecidedAfterData(c)
	// (0'') the error tests of the read path have their polarity: a failed Peek / Decrypt leaves with the error, a successful one goes on
	for _, name := range []string{"DecryptedRead", "Read"} {
		if f := p.Func("hap", "(*Connection)."+name); f != nil {
			errorTestPolarity(c, f, nil)
		}
	}
	// (a) one decrypt per read: the Decrypt call is not inside a loop of DecryptedRead; its error is never swallowed
	for _, s := range core.FindCalls(dr, func(i ssa.Instruction) bool { return core.IsInvoke(i, mod+"/crypto.Decrypter", "Decrypt") }) {
		c.Check(!reachesAfter(s, s), "decrypt-once-per-read@"+fname(dr), posOf(s), "Decrypt is called at most once per Read (no loop)",
			"Decrypt is called in a loop inside one Read: the read goes back to the network although a complete message is available, and a partial next frame makes it block or fail")
		fail := core.NonNilFact(func(v ssa.Value) bool {
			return core.AnySource(v, func(sv ssa.Value) bool {
				return core.CallResult(sv, 1, func(i ssa.Instruction) bool { return i == s }) != nil
			})
		})
		swallowed := false
		core.EnumPaths(dr, 2, 50000, func(pa core.Path) {
			if !pathEstablishes(pa, fail) {
				return
			}
			if ret := pa.Returns(); ret != nil && len(res(ret)) == 2 && core.IsNilConst(res(ret)[1]) {
				swallowed = true
			}
		})
		c.Check(!swallowed, "decrypt-error-returned@"+fname(dr), posOf(s), "a Decrypt error is always returned to the caller", "a Decrypt error can be swallowed (the Read returns a nil error): bytes consumed by the failed attempt are lost silently")
	}
	// (a') the decrypter / encrypter is asked of the session on every read / write: Session.Decrypter() is where a cryptographer
	// installed by a later pair-verify becomes active, so a copy kept in the Connection goes on using the replaced keys and counters
	for _, spec := range []struct{ getter, method string }{{"getDecrypter", "Decrypter"}, {"getEncrypter", "Encrypter"}} {
		g := p.Func("hap", "(*Connection)."+spec.getter)
		if g == nil {
			continue // the getter was written out; the users are checked by C03-R4 / C08-R5
		}
		fresh := returnsOnly(g, func(v ssa.Value) bool {
			if core.IsNilConst(v) {
				return true
			}
			call, ok := v.(*ssa.Call)
			return ok && core.IsInvoke(call, qSession, spec.method)
		})
		// ... and it is asked exactly when the connection has a session
		hasSession := core.NonNilFact(func(v ssa.Value) bool {
			return core.AnySource(v, func(sv ssa.Value) bool {
				call, ok := sv.(*ssa.Call)
				return ok && core.IsInvoke(call, qContext, "GetSessionForConnection")
			})
		})
		core.Instrs(g, func(i ssa.Instruction) {
			if core.IsInvoke(i, qSession, spec.method) {
				c.Check(core.Dominated(i, hasSession), "cryptographer-lookup-polarity@"+fname(g), posOf(i), "the session is asked when there is one", spec.getter+" asks the session for its "+spec.method+" on the branch where there is no session (test inverted): nil dereference, or no cryptographer although the connection is verified")
			}
		})
		c.Check(fresh, "cryptographer-asked-per-call@"+fname(g), g.Pos(), spec.getter+" returns what Session."+spec.method+"() answers at that moment (or nil)",
			spec.getter+" can return a cryptographer remembered from an earlier call: after a second pair-verify on the connection the old keys and frame counter stay in use and every frame of the peer fails authentication")
	}
	// (b) the frame counter is advanced only after the frame's bytes were read: no stream read between the counter store and the open
	bad := 0
	var w core.Path
	core.EnumPaths(dec, 2, 200000, func(pa core.Path) {
		pending := false
		// a store right after an open, before any byte of the next frame is read, accounts for the frame just opened
		// ( open; count++ ) and is as good as ( count++; open ): only a store with part of a frame read and not yet opened — or
		// before the first frame is read at all — can be followed by a failing read that leaves the counter one ahead
		opened, readsSinceOpen := false, 0
		pa.Instrs(func(i ssa.Instruction) {
			if st, ok := i.(*ssa.Store); ok {
				if _, ok := core.FieldAddrOf(st.Addr, tSecure, "decryptCount"); ok {
					if !(opened && readsSinceOpen == 0) {
						pending = true
					}
				}
				return
			}
			if core.CallOf(i) != nil && isDecryptCall(i) {
				opened, readsSinceOpen = true, 0
			} else if _, _, ok := isStreamRead(i); ok {
				readsSinceOpen++
			} else if cc, ok := i.(*ssa.Call); ok && cc.Call.IsInvoke() && cc.Call.Method.Name() == "Read" {
				readsSinceOpen++
			}
			if f := core.Callee(i); f != nil && core.InModule(f) && f.Blocks != nil {
				// helper that advances the counter
				adv := false
				core.Instrs(f, func(j ssa.Instruction) {
					if st, ok := j.(*ssa.Store); ok {
						if _, ok := core.FieldAddrOf(st.Addr, tSecure, "decryptCount"); ok {
							adv = true
						}
						if u, ok := st.Addr.(*ssa.Parameter); ok && u != nil {
							// *counter = ... through a pointer parameter
							for _, a := range core.CallOf(i).Args {
								if _, ok := core.FieldAddrOf(a, tSecure, "decryptCount"); ok {
									adv = true
								}
							}
						}
					}
				})
				if adv && !(opened && readsSinceOpen == 0) {
					pending = true
				}
			}
			if core.CallOf(i) != nil && isDecryptCall(i) {
				pending = false
				return
			}
			if _, _, ok := isStreamRead(i); ok && pending {
				bad++
				if w == nil {
					w = pa
				}
			}
			if cc, ok := i.(*ssa.Call); ok && cc.Call.IsInvoke() && cc.Call.Method.Name() == "Read" && pending {
				bad++
				if w == nil {
					w = pa
				}
			}
		})
	})
	if bad > 0 {
		c.BadPath("counter-after-frame-read@"+fname(dec), dec.Pos(), w.Describe(p), "the frame counter is advanced before the bytes of the frame have been read: a read time-out at a frame boundary (which the connection survives) consumes a counter value and the next valid frame fails authentication")
	} else {
		c.OK("counter-after-frame-read@"+fname(dec), dec.Pos(), "the counter is advanced only after the frame has been read completely")
	}
	// (c) the persistent read-ahead buffer is never reset or replaced while it may hold data
	n := 0
	for _, f := range libFuncs(p) {
		if !core.TypeIs(recvType(f), tConn) {
			continue
		}
		core.Instrs(f, func(i ssa.Instruction) {
			if g := core.Callee(i); g != nil && (core.QualName(g) == "(*bufio.Reader).Reset" || core.QualName(g) == "(*bufio.Reader).Discard") {
				// the one legitimate Discard: the frame that was just handed to Decrypt (frame-at-a-time read path)
				if ok, site, _ := frameAtATimeHolds(p); ok && core.QualName(g) == "(*bufio.Reader).Discard" && site != nil && site.Parent() == f && instrDominates(site, i) {
					return
				}
				if core.AnySource(core.CallOf(i).Args[0], func(s ssa.Value) bool {
					u, ok := s.(*ssa.UnOp)
					if !ok {
						return false
					}
					fa, ok := u.X.(*ssa.FieldAddr)
					return ok && core.TypeIs(fa.X.Type(), tConn)
				}) {
					n++
					c.Bad("read-ahead-discarded@"+fname(f), posOf(i), "the Connection's buffered reader is reset/discarded: ciphertext that was read ahead (frames coalesced into one segment) is thrown away and the counters go out of step")
				}
			}
			if st, ok := i.(*ssa.Store); ok {
				if fa, ok := st.Addr.(*ssa.FieldAddr); ok && core.TypeIs(fa.X.Type(), tConn) {
					if _, isBuf := st.Val.Type().Underlying().(*types.Pointer); isBuf && core.TypeIs(st.Val.Type(), "bufio.Reader") {
						isNilField := core.IsNilFact(func(v ssa.Value) bool {
							u, ok := v.(*ssa.UnOp)
							if !ok {
								return false
							}
							fa2, ok := u.X.(*ssa.FieldAddr)
							return ok && fa2.Field == fa.Field && core.TypeIs(fa2.X.Type(), tConn)
						})
						if !core.Dominated(st, isNilField) {
							n++
							c.Bad("read-ahead-replaced@"+fname(f), st.Pos(), "the Connection's buffered reader is replaced although one may already exist: bytes the old one read ahead are lost")
						}
					}
				}
			}
		})
	}
	if n == 0 {
		c.OK("read-ahead-kept", token.NoPos, "the buffered reader over the socket is created once (under == nil) and never reset or discarded")
	}
}

// ---------------------------------------------------------------- C06 additions

func c06r6(c *core.Ctx) {
	p := c.P
	dec := p.Func("crypto", "(*secureSession).Decrypt")
	enc := p.Func("crypto", "(*secureSession).Encrypt")
	if dec == nil || enc == nil {
		c.Undecided("Decrypt/Encrypt", token.NoPos, "not found")
		return
	}
	// no private read-ahead: Decrypt reads exactly what it consumes from the caller's reader
	bad := 0
	for _, f := range []*ssa.Function{dec, enc} {
		core.Instrs(f, func(i ssa.Instruction) {
			if isBufferingCtor(i) {
				bad++
				c.Bad("private-read-ahead@"+fname(f), posOf(i), "a buffering reader is wrapped around the caller's reader inside %s: what it reads ahead beyond the current message is lost when the call returns, so the next message on the same source is truncated or missing", cn(f))
			}
		})
	}
	if bad == 0 {
		c.OK("no-private-read-ahead", dec.Pos(), "Encrypt/Decrypt read only what they consume from the caller's reader")
	}
	// the message is handed back in one contiguous buffer
	good, n := true, 0
	why := ""
	core.Instrs(dec, func(i ssa.Instruction) {
		r, ok := i.(*ssa.Return)
		if !ok || len(res(r)) != 2 || core.IsNilConst(res(r)[0]) {
			return
		}
		n++
		for _, s := range core.Sources(res(r)[0]) {
			t := s.Type()
			if _, isIface := t.Underlying().(*types.Interface); isIface || !(core.TypeIs(t, "bytes.Buffer") || core.TypeIs(t, "bytes.Reader")) {
				good = false
				why = t.String()
			}
		}
	})
	c.Check(good && n > 0, "message-in-one-buffer@"+fname(dec), dec.Pos(), "Decrypt returns the whole message in one bytes.Buffer / bytes.Reader", "Decrypt returns a "+why+" instead of one contiguous buffer: a consumer that takes a short read for the end of the message (hap.Connection does) loses everything after the first frame")
	// counter continuity on the reading side (shared with C05-R1)
	total, badp := 0, 0
	var w core.Path
	core.EnumPaths(dec, 3, 200000, func(pa core.Path) {
		total++
		offs, plusOne, fromCtr := counterOnPath(pa, dec, "decryptCount", isDecryptCall, 1)
		ok := plusOne && fromCtr
		for k, o := range offs {
			if o != k {
				ok = false
			}
		}
		// every exit (also the EOF exit after full frames) leaves the counter advanced by the number of opens
		stores := 0
		pa.Instrs(func(i ssa.Instruction) {
			if st, isSt := i.(*ssa.Store); isSt {
				if _, isC := core.FieldAddrOf(st.Addr, tSecure, "decryptCount"); isC {
					stores++
				}
			}
		})
		if ret := pa.Returns(); ret != nil && core.IsNilConst(res(ret)[1]) && stores != len(offs) {
			ok = false
		}
		if !ok {
			badp++
			if w == nil {
				w = pa
			}
		}
	})
	if badp > 0 {
		c.BadPath("read-counter-continuity@"+fname(dec), dec.Pos(), w.Describe(p), "on %d path(s) the read counter is not advanced by exactly one per opened frame before the call returns: the next message on the session fails authentication", badp)
	} else {
		c.OK("read-counter-continuity@"+fname(dec), dec.Pos(), "on all %d paths the read counter advances by one per opened frame", total)
	}
}

// ---------------------------------------------------------------- C08 addition

func c08r5(c *core.Ctx) {
	switchOrderedWithWrites(c)
	p := c.P
	// deadline setters of a live connection are not called by library code (only forwarded by Connection's own methods to net/http)
	n := 0
	for _, f := range libFuncs(p) {
		core.Instrs(f, func(i ssa.Instruction) {
			cc := core.CallOf(i)
			if cc == nil || !cc.IsInvoke() || !core.TypeIs(cc.Value.Type(), "net.Conn") {
				return
			}
			switch cc.Method.Name() {
			case "SetDeadline", "SetWriteDeadline", "SetReadDeadline":
				// forwarding method of Connection itself is fine
				if core.TypeIs(recvType(f), tConn) && cn(f) == cc.Method.Name() {
					return
				}
				n++
				c.Bad("deadline-set-by-library@"+fname(f), posOf(i), "%s is called on a connection by library code outside the write section: the deadline applies to whichever goroutine is inside the socket write at that moment and truncates its frame", cc.Method.Name())
			}
		})
	}
	if n == 0 {
		c.OK("deadlines-untouched", token.NoPos, "library code never sets a deadline on a live connection (Connection only forwards net/http's calls)")
	}
	// the encrypter used inside the section is looked up inside the section
	for _, f := range libFuncs(p) {
		for _, e := range core.FindCalls(f, isEncryptInvoke) {
			recv := core.CallOf(e).Value
			okLookup := core.AllSources(recv, func(s ssa.Value) bool {
				if core.IsNilConst(s) {
					return true // "no session" of a getter written out; a nil encrypter is tested before it is used (C10-R5)
				}
				call, ok := s.(*ssa.Call)
				if !ok {
					return false
				}
				in, _ := inCriticalSection(f, call, mutexOfConn)
				return in
			})
			c.Check(okLookup, "encrypter-looked-up-in-section@"+fname(f), posOf(e), "the encrypter is obtained inside the critical section", "the encrypter used for sealing was obtained outside the critical section (passed in or looked up before the Lock): a writer that waited for the lock seals with a session that has been replaced meanwhile")
		}
	}
}

// ---------------------------------------------------------------- C09 additions

// encodesParamAsJSON: parameter k of g is what g (or a module function it hands it to) gives to encoding/json
func encodesParamAsJSON(g *ssa.Function, k, depth int) bool {
	if g == nil || depth == 0 || k >= len(g.Params) {
		return false
	}
	found := false
	core.Instrs(g, func(i ssa.Instruction) {
		call, ok := i.(ssa.CallInstruction)
		if !ok || found {
			return
		}
		h := call.Common().StaticCallee()
		if h == nil {
			return
		}
		for j, a := range call.Common().Args {
			if core.StripConv(a) != ssa.Value(g.Params[k]) {
				continue
			}
			if h.Pkg != nil && h.Pkg.Pkg.Path() == "encoding/json" && (h.Name() == "Encode" || h.Name() == "Marshal" || h.Name() == "MarshalIndent") {
				found = true
			} else if core.InModule(h) && encodesParamAsJSON(h, j, depth-1) {
				found = true
			}
		}
	})
	return found
}

func recvOffset(g *ssa.Function) int {
	if g.Signature.Recv() != nil {
		return 1
	}
	return 0
}

func c09r6(c *core.Ctx) {
	p := c.P
	// handlers encode live state: no cached encodings on the shared server object
	var hs []*ssa.Function
	for _, n := range []string{"(*Server).Accessories", "(*Server).Characteristics", "(*Server).Identify"} {
		if f := p.Func("hap/http", n); f != nil {
			hs = append(hs, f)
		}
	}
	handlersKeepNoState(c, hs, "an attribute handler")
	if f := p.Func("hap/http", "(*Server).Accessories"); f != nil {
		ok := false
		core.Instrs(f, func(i ssa.Instruction) {
			g := core.Callee(i)
			if g == nil || !core.InModule(g) {
				return
			}
			for k, a := range core.Args(i) {
				mi, isMI := a.(*ssa.MakeInterface)
				if !isMI {
					continue
				}
				if _, isField := core.FieldLoad(mi.X, mod+"/hap/http.Server", "container"); isField && encodesParamAsJSON(g, k+recvOffset(g), 3) {
					ok = true
				}
			}
		})
		// what is written is the encoding that succeeded: the body goes out on the branch where the encoder reported no error (the
		// other branch answers with an error status)
		core.Instrs(f, func(i ssa.Instruction) {
			enc, isCall := i.(*ssa.Call)
			if !isCall || core.Callee(i) == nil || !core.InModule(core.Callee(i)) || enc.Type().String() == "()" {
				return
			}
			tup, isTuple := enc.Type().(*types.Tuple)
			if !isTuple || tup.Len() != 2 || tup.At(1).Type().String() != "error" {
				return
			}
			var buf, errv ssa.Value
			for _, r := range *enc.Referrers() {
				if e, isE := r.(*ssa.Extract); isE {
					if e.Index == 0 {
						buf = e
					} else {
						errv = e
					}
				}
			}
			if buf == nil || errv == nil {
				return
			}
			core.Instrs(f, func(j ssa.Instruction) {
				cc := core.CallOf(j)
				if cc == nil {
					return
				}
				uses := false
				for _, a := range cc.Args {
					if core.AnySource(a, func(sv ssa.Value) bool {
						if sv == buf {
							return true
						}
						call, ok := sv.(*ssa.Call)
						return ok && len(call.Call.Args) > 0 && call.Call.Args[0] == buf
					}) {
						uses = true
					}
				}
				if !uses || !(cc.IsInvoke() && cc.Method.Name() == "Write" || core.Callee(j) != nil && cn(core.Callee(j)) == "Write") {
					return
				}
				e := errv
				c.Check(core.Dominated(j, core.IsNilFact(func(v ssa.Value) bool { return v == e })), "encoded-body-written-on-success@"+fname(f), posOf(j), "the body is written where the encoder reported no error",
					"the encoded body is written on a branch where the encoder's error is not known to be nil (test inverted or dropped): a successful encoding is answered with an error status, a failed one with whatever the buffer holds")
			})
		})
		c.Check(ok, "accessories-encodes-live-container@"+fname(f), f.Pos(), "GET /accessories encodes the live container on every request", "GET /accessories does not encode the live container (a stored encoding is served): values set by the application afterwards are not visible")
	}
	// the request body reaches the decoder unbounded
	if f := p.Func("hap/http", "JSONDecode"); f != nil {
		ok := false
		core.Instrs(f, func(i ssa.Instruction) {
			if core.IsCall(i, "encoding/json.NewDecoder") && core.Args(i)[0] == ssa.Value(f.Params[0]) {
				ok = true
			}
		})
		c.Check(ok, "request-body-unbounded@"+fname(f), f.Pos(), "the decoder reads the caller's reader itself", "the request reader is wrapped (limited / transformed) before it reaches the JSON decoder: large written values are cut off and rejected")
	}
}

// ---------------------------------------------------------------- C10 / C11 additions

// fanoutHasNoSideEffects: building and sending a notification does not run value getters or updates.
func fanoutHasNoSideEffects(c *core.Ctx) {
	p := c.P
	f := p.Func("", "(*ipTransport).notifyListener")
	if f == nil {
		c.Undecided("notifyListener", token.NoPos, "not found")
		return
	}
	bad := 0
	seen := map[*ssa.Function]bool{}
	var walk func(g *ssa.Function)
	walk = func(g *ssa.Function) {
		if g == nil || seen[g] || !core.InModule(g) || g.Blocks == nil {
			return
		}
		seen[g] = true
		core.Instrs(g, func(i ssa.Instruction) {
			h := core.Callee(i)
			if h != nil && core.TypeIs(recvType(h), tChar) && (cn(h) == "updateValue" || cn(h) == "getValue" || cn(h) == "GetValue" || cn(h) == "GetValueFromConnection" || cn(h) == "UpdateValue") {
				bad++
				c.Bad("fanout-side-effect:"+cn(h)+"@"+fname(g), posOf(i), "the event fan-out calls Characteristic.%s: a getter-backed characteristic is updated from inside the notification, which fires further notifications (also to the originator) carrying another value", cn(h))
			}
			walk(h)
		})
	}
	walk(f)
	if bad == 0 {
		c.OK("fanout-no-side-effects", f.Pos(), "the fan-out (%d module functions) reads the stored value and never runs getters or updates", len(seen))
	}
}

func getValueRevealsOnlyStored(c *core.Ctx) {
	p := c.P
	f := p.Func("characteristic", "(*Characteristic).getValue")
	if f == nil {
		c.Undecided("getValue", token.NoPos, "not found")
		return
	}
	ok := returnsOnly(f, func(v ssa.Value) bool {
		b, isLoad := core.FieldLoad(v, tChar, "Value")
		return isLoad && b == ssa.Value(f.Params[0])
	})
	c.Check(ok, "get-returns-stored-value@"+fname(f), f.Pos(), "getValue returns only the stored Value (which the read gate protects)", "getValue can return something other than the stored Value (e.g. the getter's result): a characteristic without read permission reveals a value")
}

// ---------------------------------------------------------------- C12 additions

func c12r5(c *core.Ctx) { storedValueDiscipline(c, true) }

// storedIsClampResult (C15-R7): the value updateValue stores is what convert and the clamp produced, unchanged — the part of C12-R5
// that the catalogue needs: a generated constructor sets its default through SetValue, and a step after the clamp (rounding,
// scaling, a "normalisation") can move a default that lies inside the declared bounds outside them.
func storedIsClampResult(c *core.Ctx) { storedValueDiscipline(c, false) }

func storedValueDiscipline(c *core.Ctx, comparisons bool) {
	p := c.P
	uv := p.Func("characteristic", "(*Characteristic).updateValue")
	conv := p.Func("characteristic", "(*Characteristic).convert")
	if uv == nil || conv == nil {
		c.Undecided("updateValue/convert", token.NoPos, "not found")
		return
	}
	isConverted := func(v ssa.Value) bool {
		return core.AllSources(v, func(s ssa.Value) bool {
			call, ok := s.(*ssa.Call)
			if !ok {
				return false
			}
			g := core.Callee(call)
			if g == conv {
				return true
			}
			if g != nil && strings.HasPrefix(cn(g), "clamp") {
				vi := 1
				if _, vp := clampFunc(p, cn(g)); vp != nil {
					for k, q := range g.Params {
						if q == vp {
							vi = k
						}
					}
				}
				return core.AllSources(call.Call.Args[vi], func(x ssa.Value) bool { cc, ok := x.(*ssa.Call); return ok && core.Callee(cc) == conv })
			}
			return false
		})
	}
	// every store to Value is a converted value
	n := 0
	core.Instrs(uv, func(i ssa.Instruction) {
		st, ok := i.(*ssa.Store)
		if !ok {
			return
		}
		if b, ok := core.FieldAddrOf(st.Addr, tChar, "Value"); !ok || b != ssa.Value(uv.Params[0]) {
			return
		}
		n++
		c.Check(isConverted(st.Val), fmt.Sprintf("every-store-converted@%s#%d", fname(uv), n), st.Pos(), "the stored value is the result of convert (and clamp), unchanged", "a value is stored that is not the unchanged result of convert and the clamp (nil / the raw input, or a value rounded or scaled after the clamp): the typed getters panic, the value loses its declared type, or it leaves the declared range again")
	})
	if !comparisons {
		return
	}
	// comparisons of interface values only between converted / stored values
	k := 0
	// updateValue itself, and the module functions it hands the stored and the new value to for comparison ( sameValue(c.Value, value) )
	cmpFuncs := []*ssa.Function{uv}
	core.Instrs(uv, func(i ssa.Instruction) {
		if g := core.Callee(i); g != nil && core.InModule(g) && g != conv && len(g.Params) == 2 && len(g.Blocks) > 0 {
			_, i0 := g.Params[0].Type().Underlying().(*types.Interface)
			_, i1 := g.Params[1].Type().Underlying().(*types.Interface)
			if i0 && i1 {
				cmpFuncs = append(cmpFuncs, g)
			}
		}
	})
	for _, f := range cmpFuncs {
		inHelper := f != uv
		core.Instrs(f, func(i ssa.Instruction) {
			b, ok := i.(*ssa.BinOp)
			if !ok || (b.Op != token.EQL && b.Op != token.NEQ) {
				return
			}
			if _, isIface := b.X.Type().Underlying().(*types.Interface); !isIface {
				return
			}
			if core.IsNilConst(b.X) || core.IsNilConst(b.Y) {
				return
			}
			k++
			okSide := func(v ssa.Value) bool {
				if isConverted(v) {
					return true
				}
				return core.AllSources(v, func(s ssa.Value) bool {
					if _, isField := s.(*ssa.UnOp); isField {
						if fa, ok := s.(*ssa.UnOp).X.(*ssa.FieldAddr); ok && core.TypeIs(fa.X.Type(), tChar) {
							return fieldNameOf(fa) == "Value" // stored values are converted (every-store-converted)
						}
					}
					cc, ok := s.(*ssa.Call)
					return ok && (core.Callee(cc) == conv || core.Callee(cc) != nil && strings.HasPrefix(cn(core.Callee(cc)), "clamp"))
				})
			}
			// "converted" means comparable only for the formats convert knows. A characteristic made by NewCharacteristic has no format,
			// an application may set one the library has no constant for ("int", the specification's name for the signed format): convert
			// hands such a value back as it came, and the second write of a JSON array or object compares two slices or maps — a run-time
			// panic in the handler. Either convert never returns its input, or the comparison is made only after both sides were found
			// comparable.
			rawReturn := false
			if conv != nil {
				core.Instrs(conv, func(j ssa.Instruction) {
					if r, isR := j.(*ssa.Return); isR && len(r.Results) == 1 {
						for _, sv := range core.Sources(r.Results[0]) {
							if len(conv.Params) > 0 && sv == ssa.Value(conv.Params[len(conv.Params)-1]) {
								rawReturn = true
							}
						}
					}
				})
			}
			guarded := false
			for _, iff := range controlDepsAll(b.Block()) {
				walkOperands(iff.Cond, 6, func(v ssa.Value) {
					if call, isCall := v.(*ssa.Call); isCall && call.Call.IsInvoke() && call.Call.Method.Name() == "Comparable" {
						guarded = true
					}
				})
			}
			c.Check(!rawReturn || guarded, fmt.Sprintf("compare-tolerates-uncomparable@%s#%d", fname(f), k), b.Pos(), "the comparison is made only between values found comparable (or convert never hands back its input)",
				"convert hands a value of a format it does not know back as it came, and updateValue compares it with the stored one unguarded: the second write of a JSON array or object to a characteristic without a known format (NewCharacteristic, or Format \"int\") compares two slices or maps — the handler panics, the connection is dropped, and every later write of that kind panics again")
			if inHelper {
				return // what the helper is handed is judged at its call site (pass-through of the stored and the converted value)
			}
			c.Check(okSide(b.X) && okSide(b.Y), fmt.Sprintf("interface-comparison@%s#%d", fname(f), k), b.Pos(), "compares converted / stored values (comparable basic types)", "an interface comparison involves a raw, unconverted input value: comparing two equal JSON arrays or objects panics (uncomparable type)")
		})
	}
}

// ---------------------------------------------------------------- C14 additions

func c14r6(c *core.Ctx) {
	p := c.P
	// index and list are updated together: a delete from the id index is dominated by the identity test of the member
	n := 0
	for _, f := range libFuncs(p) {
		if !core.TypeIs(recvType(f), tContainer) {
			continue
		}
		core.Instrs(f, func(i ssa.Instruction) {
			call, ok := i.(*ssa.Call)
			if !ok {
				return
			}
			b, ok := call.Call.Value.(*ssa.Builtin)
			if !ok || b.Name() != "delete" {
				return
			}
			if _, ok := core.FieldLoad(call.Call.Args[0], tContainer, "as"); !ok {
				return
			}
			n++
			acc := paramOfType(f, tAccessory)
			member := core.CmpFact(func(x, y ssa.Value) (bool, bool) {
				isElem := func(v ssa.Value) bool {
					return core.AnySource(v, func(s ssa.Value) bool {
						switch u := s.(type) {
						case *ssa.UnOp:
							_, ok := u.X.(*ssa.IndexAddr)
							return ok
						case *ssa.Lookup:
							return true
						case *ssa.Extract:
							_, ok := u.Tuple.(*ssa.Next)
							return ok
						}
						return false
					})
				}
				if acc != nil && ((x == ssa.Value(acc) && isElem(y)) || (y == ssa.Value(acc) && isElem(x))) {
					return true, false
				}
				return false, false
			})
			c.Check(core.Dominated(call, member), "index-delete-guarded@"+fname(f), call.Pos(), "an id is removed from the index only for the accessory that is registered under it",
				"an id is deleted from the container's index without checking that the given accessory is the registered member: removing a rejected duplicate frees the id of the real member and a third accessory can take it")
		})
	}
	if n == 0 {
		c.OK("index-never-shrinks", token.NoPos, "no code removes ids from the container's index")
	}
	// linked ids are computed at marshal time from the linked services' current ids
	f := p.Func("service", "(*Service).MarshalJSON")
	if f == nil {
		c.Undecided("Service.MarshalJSON", token.NoPos, "not found")
		return
	}
	ok := false
	core.Instrs(f, func(i ssa.Instruction) {
		st, isSt := i.(*ssa.Store)
		if !isSt {
			return
		}
		fa, isFa := st.Addr.(*ssa.FieldAddr)
		if !isFa || !core.TypeIs(fa.X.Type(), mod+"/service.servicePayload") || fieldNameOf(fa) != "Linked" {
			return
		}
		// value: a slice built in this call by appending loads of Service.ID
		built := false
		fromField := false
		for _, s := range core.Sources(st.Val) {
			if call, isC := s.(*ssa.Call); isC {
				if b, isB := call.Call.Value.(*ssa.Builtin); isB && b.Name() == "append" {
					if core.AnySource(call.Call.Args[1], func(v ssa.Value) bool { _, isID := core.FieldLoad(v, tService, "ID"); return isID }) {
						built = true
					}
				}
			}
			if u, isU := s.(*ssa.UnOp); isU {
				if fa2, isF := u.X.(*ssa.FieldAddr); isF && core.TypeIs(fa2.X.Type(), tService) {
					fromField = true
				}
			}
		}
		ok = built && !fromField
	})
	c.Check(ok, "linked-ids-live@"+fname(f), f.Pos(), "the linked list is built from the linked services' current ids on every encoding", "the 'linked' member is not rebuilt from the linked services' current ids (it is kept in the service): ids assigned or changed after the first encoding are served stale")
}

// ---------------------------------------------------------------- C15 additions

func settersUnconditional(c *core.Ctx) {
	p := c.P
	for _, spec := range []struct{ w, m, fld string }{
		{"Int", "SetMinValue", "MinValue"}, {"Int", "SetMaxValue", "MaxValue"}, {"Int", "SetStepValue", "StepValue"},
		{"Float", "SetMinValue", "MinValue"}, {"Float", "SetMaxValue", "MaxValue"}, {"Float", "SetStepValue", "StepValue"},
	} {
		f := p.Func("characteristic", "(*"+spec.w+")."+spec.m)
		if f == nil {
			continue
		}
		var st *ssa.Store
		core.Instrs(f, func(i ssa.Instruction) {
			if s, ok := i.(*ssa.Store); ok {
				if fa, ok := s.Addr.(*ssa.FieldAddr); ok && fieldNameOf(fa) == spec.fld {
					st = s
				}
			}
		})
		ok := st != nil && len(f.Blocks) == 1
		if st != nil && !ok {
			ok = true
			core.Instrs(f, func(i ssa.Instruction) {
				if r, isR := i.(*ssa.Return); isR && !instrDominates(st, r) {
					ok = false
				}
			})
		}
		c.Check(ok, "setter-unconditional:"+spec.w+"."+spec.m, f.Pos(), "stores its argument on every path", spec.w+"."+spec.m+" does not store its argument on every path (the bound is skipped under some condition, or other getters are called first): constructors lose a declared bound or panic")
	}
	for _, spec := range []struct{ w, delegate string }{{"Int", "UpdateValue"}, {"Float", "UpdateValue"}, {"Bool", "UpdateValue"}, {"String", "UpdateValue"}, {"Bytes", "SetValue"}} {
		f := p.Func("characteristic", "(*"+spec.w+").SetValue")
		if f == nil {
			continue
		}
		var call ssa.Instruction
		core.Instrs(f, func(i ssa.Instruction) {
			if g := core.Callee(i); g != nil && cn(g) == spec.delegate {
				call = i
			}
		})
		ok := call != nil
		if ok {
			core.Instrs(f, func(i ssa.Instruction) {
				if r, isR := i.(*ssa.Return); isR && !instrDominates(call, r) {
					ok = false
				}
			})
		}
		c.Check(ok, "setvalue-unconditional:"+spec.w, f.Pos(), "hands the value on every path", spec.w+".SetValue can return without handing the value on: the default value written by a constructor is skipped (the characteristic is served without a value)")
	}
}

// ---------------------------------------------------------------- C16 addition

func c16r4(c *core.Ctx) {
	p := c.P
	r := p.Func("util", "NewTLV8ContainerFromReader")
	if r == nil {
		c.Undecided("NewTLV8ContainerFromReader", token.NoPos, "not found")
		return
	}
	var header *ssa.BasicBlock
	for _, b := range r.Blocks {
		if strings.HasSuffix(b.Comment, ".loop") || b.Comment == "for.body" {
			header = b
			break
		}
	}
	if header == nil {
		c.Undecided("item-loop@"+fname(r), r.Pos(), "loop not found")
		return
	}
	bad, iters := 0, 0
	var w core.Path
	core.EnumPaths(r, 2, 100000, func(pa core.Path) {
		segs := segments(pa, header)
		for k, sg := range segs {
			if k == len(segs)-1 {
				continue // leaves the loop
			}
			iters++
			var seq []string
			sg.Instrs(func(i ssa.Instruction) {
				if t, _, ok := isStreamRead(i); ok {
					if fa, ok := t.(*ssa.FieldAddr); ok {
						seq = append(seq, fieldNameOf(fa))
					} else {
						seq = append(seq, "?")
					}
				}
			})
			appended := false
			sg.Instrs(func(i ssa.Instruction) {
				if call, ok := i.(*ssa.Call); ok {
					if b, isB := call.Call.Value.(*ssa.Builtin); isB && b.Name() == "append" {
						appended = true
					}
				}
			})
			if strings.Join(seq, ",") != "tag,length,value" || !appended {
				bad++
				if w == nil {
					w = pa
				}
			}
		}
	})
	if bad > 0 {
		c.BadPath("item-read-sequence@"+fname(r), r.Pos(), w.Describe(p), "%d iteration path(s) go on to the next item without having read tag, length and value of the current one (or without keeping it): the unread value bytes are parsed as further items (data that was never set), or a parsed item is dropped", bad)
	} else {
		c.Check(iters > 0, "item-read-sequence@"+fname(r), r.Pos(), fmt.Sprintf("every one of %d iteration paths reads tag, length and value before the next item", iters), "no iteration path")
	}
}

// ---------------------------------------------------------------- C17 additions

func c17r6(c *core.Ctx) {
	tlv8ListEncoding(c)
	p := c.P
	f := p.Func("tlv8", "structPayload")
	if f == nil {
		c.Undecided("structPayload", token.NoPos, "not found")
		return
	}
	// the 00 00 delimiter between list elements depends on the element index only
	n := 0
	core.Instrs(f, func(i ssa.Instruction) {
		g := core.Callee(i)
		if g == nil || cn(g) != "write" || !core.TypeIs(recvType(g), mod+"/tlv8.writer") {
			return
		}
		a := allocOf(core.Args(i)[0])
		if a == nil {
			return
		}
		if l, ok := knownLen(a); !ok || l != 2 {
			return
		}
		zero := true
		for _, r := range *a.Referrers() {
			if ia, ok := r.(*ssa.IndexAddr); ok {
				for _, rr := range *ia.Referrers() {
					if st, ok := rr.(*ssa.Store); ok {
						if v, isK := core.ConstInt(st.Val); !isK || v != 0 {
							zero = false
						}
					}
				}
			}
		}
		if !zero {
			return
		}
		n++
		// the innermost condition guarding the delimiter must be the index test (i > 0)
		okIdx := false
		inner := innermostDeps(i.Block())
		for _, iff := range inner {
			if b, ok := iff.Cond.(*ssa.BinOp); ok && b.Op == token.GTR {
				if k, isK := core.ConstInt(b.Y); isK && k == 0 {
					okIdx = true
					continue
				}
			}
			okIdx = false
			break
		}
		c.Check(okIdx && len(inner) > 0, "list-delimiter-unconditional@"+fname(f), posOf(i), "the delimiter between list elements is written for every element but the first",
			"the 00 00 delimiter between list elements is written only under an additional, element-dependent condition: elements that encode to several items run together and a peer collapses the list")
	})
	if n == 0 {
		c.Undecided("list-delimiter@"+fname(f), f.Pos(), "delimiter write not found")
	}
	// Marshal results are not aliased by retained state: the encoder path keeps no package-level state
	var roots []*ssa.Function
	for _, n := range []string{"Marshal", "Unmarshal"} {
		if g := p.Func("tlv8", n); g != nil {
			roots = append(roots, g)
		}
	}
	gl := moduleGlobalsUsed(roots, false)
	if len(gl) == 0 {
		c.OK("marshal-keeps-no-state", f.Pos(), "Marshal/Unmarshal use no package-level state (results cannot alias a pooled buffer)")
	}
	for g, is := range gl {
		c.Bad("marshal-shared-state:"+g.Name(), is[0].Pos(), "Marshal/Unmarshal use the package-level variable %s (pooled or cached encoder state): bytes returned by one Marshal are overwritten by the next", g.Name())
	}
}

// typeSwitchDepth: number of controlling conditions that are part of the type switch / ok-checks (extract of a comma-ok),
// which are not element-dependent.
func typeSwitchDepth(b *ssa.BasicBlock) int {
	n := 0
	for _, iff := range controlDeps(b) {
		if e, ok := iff.Cond.(*ssa.Extract); ok {
			_ = e
			n++
			continue
		}
		if bo, ok := iff.Cond.(*ssa.BinOp); ok {
			if _, isStr := bo.X.Type().Underlying().(*types.Basic); isStr && bo.X.Type().Underlying().(*types.Basic).Info()&types.IsString != 0 {
				n++ // tlv8 == "-"
			}
		}
	}
	return n
}

// ---------------------------------------------------------------- C18 additions

func c18r5(c *core.Ctx) {
	p := c.P
	// listing filter: nothing but "regular file with the requested suffix"
	if f := p.Func("util", "(*fileStorage).KeysWithSuffix"); f != nil {
		var app ssa.Instruction
		core.Instrs(f, func(i ssa.Instruction) {
			if call, ok := i.(*ssa.Call); ok {
				if b, ok := call.Call.Value.(*ssa.Builtin); ok && b.Name() == "append" {
					app = i
				}
			}
		})
		if app == nil {
			c.Undecided("listing-append@"+fname(f), f.Pos(), "append not found")
		} else {
			extra := 0
			for _, iff := range controlDepsAll(app.Block()) {
				okCond := false
				check := func(v ssa.Value) bool {
					call, ok := core.StripConv(v).(*ssa.Call)
					if !ok {
						return false
					}
					if core.IsCall(call, "strings.HasSuffix") {
						return true
					}
					if call.Call.IsInvoke() && call.Call.Method.Name() == "IsDir" {
						return true
					}
					return false
				}
				switch x := iff.Cond.(type) {
				case *ssa.BinOp:
					okCond = check(x.X) || check(x.Y)
					if !okCond {
						// loop bound / error test
						if _, isPhi := core.StripConv(x.X).(*ssa.Phi); isPhi {
							okCond = true
						}
						if bo, isB := core.StripConv(x.X).(*ssa.BinOp); isB && bo.Op == token.ADD {
							okCond = true
						}
						if core.IsNilConst(x.Y) || core.IsNilConst(x.X) {
							okCond = true
						}
					}
				case *ssa.Call:
					okCond = check(x)
				case *ssa.UnOp:
					okCond = check(x.X)
				case *ssa.Extract:
					okCond = true // range ok
				}
				if !okCond {
					extra++
				}
			}
			c.Check(extra == 0, "listing-filter-exact@"+fname(f), posOf(app), "a name is listed iff it is a regular file with the requested suffix", "the listing skips names under an additional condition: a stored key that happens to match it (e.g. the key of the empty entity name, \".entity\") is not listed")
		}
	}
	// who may remove or rename files of the store
	for _, f := range libFuncs(p) {
		if pkgPathOf(f) != mod+"/util" && pkgPathOf(f) != mod+"/db" {
			continue
		}
		core.Instrs(f, func(i ssa.Instruction) {
			g := core.Callee(i)
			if g == nil {
				return
			}
			q := core.QualName(g)
			if q != "os.Remove" && q != "os.RemoveAll" && q != "os.Rename" && q != "os.Truncate" {
				return
			}
			root := f
			for root.Parent() != nil {
				root = root.Parent()
			}
			allowed := core.TypeIs(recvType(root), tFileStorage) && (cn(root) == "Delete" || cn(root) == "Set")
			if !allowed {
				// helpers called only from Set/Delete
				callers := p.CallersOf(root)
				allowed = len(callers) > 0
				for _, e := range callers {
					cf := e.Caller.Func
					if isTestFunc(p, cf) {
						continue
					}
					if !(core.TypeIs(recvType(cf), tFileStorage) && (cn(cf) == "Delete" || cn(cf) == "Set")) {
						allowed = false
					}
				}
			}
			c.Check(allowed, "file-removal-or-rename@"+fname(f)+":"+q, posOf(i), "only Set (temp file) and Delete change the set of files", "files of the store are removed / renamed outside Set and Delete (e.g. a clean-up or recovery pass when the store is opened): stored values disappear or are replaced by partial ones across a re-open")
		})
	}
	// SaveEntity writes on every successful path; DeleteEntity deletes on every path
	if f := p.Func("db", "(*database).SaveEntity"); f != nil {
		bad := 0
		core.EnumPaths(f, 2, 20000, func(pa core.Path) {
			ret := pa.Returns()
			if ret == nil || provablyNonNil(pa, res(ret)[0]) {
				return
			}
			has := false
			pa.Instrs(func(i ssa.Instruction) {
				if core.IsInvoke(i, qStorage, "Set") {
					has = true
				}
			})
			if !has && core.IsNilConst(res(ret)[0]) {
				bad++
			}
		})
		c.Check(bad == 0, "save-always-writes@"+fname(f), f.Pos(), "every successful path of SaveEntity writes the entity", "SaveEntity can report success without writing (the write is skipped when some part of the stored entity looks unchanged): the last saved value is not what a later lookup returns")
	}
	if f := p.Func("db", "(*database).DeleteEntity"); f != nil {
		ok := true
		core.EnumPaths(f, 2, 20000, func(pa core.Path) {
			if pa.Returns() == nil {
				return
			}
			has := false
			pa.Instrs(func(i ssa.Instruction) {
				if core.IsInvoke(i, qStorage, "Delete") {
					has = true
				}
			})
			if !has {
				ok = false
			}
		})
		c.Check(ok, "delete-always-deletes@"+fname(f), f.Pos(), "every path of DeleteEntity deletes the key", "DeleteEntity can return without deleting")
	}
	// opening a store does not touch stored files
	if f := p.Func("util", "NewFileStorage"); f != nil {
		gl := map[string]bool{}
		seen := map[*ssa.Function]bool{}
		var walk func(g *ssa.Function)
		walk = func(g *ssa.Function) {
			if g == nil || seen[g] || !core.InModule(g) || g.Blocks == nil {
				return
			}
			seen[g] = true
			core.Instrs(g, func(i ssa.Instruction) {
				if h := core.Callee(i); h != nil {
					switch core.QualName(h) {
					case "os.Remove", "os.RemoveAll", "os.Rename", "os.Truncate", "os.OpenFile", "os.Create", "io/ioutil.WriteFile", "os.WriteFile":
						gl[core.QualName(h)] = true
					}
					walk(h)
				}
			})
		}
		walk(f)
		var names []string
		for k := range gl {
			names = append(names, k)
		}
		c.Check(len(gl) == 0, "open-is-read-only@"+fname(f), f.Pos(), "opening a store only creates the directory", "opening a store modifies files in it ("+strings.Join(names, ", ")+")")
	}
}

// ---------------------------------------------------------------- per-property wrappers for shared obligations

func c02r6(c *core.Ctx) {
	wrappersPure(c, [][2]string{{"crypto", "ValidateED25519Signature"}, {"crypto/chacha20poly1305", "DecryptAndVerify"}, {"crypto/hkdf", "Sha512"}})
	handlersKeepNoState(c, []*ssa.Function{c.P.Func("hap/endpoint", "(*PairSetup).ServeHTTP")}, "the pair-setup endpoint")
}

func c03r5(c *core.Ctx) {
	wrappersPure(c, [][2]string{{"crypto", "ValidateED25519Signature"}, {"crypto/chacha20poly1305", "DecryptAndVerify"}, {"crypto/hkdf", "Sha512"}, {"crypto/curve25519", "SharedSecret"}})
	if ctor := c.P.Func("hap/pair", "NewVerifyServerController"); ctor != nil {
		if verifySessionFreshPerStart(c.P) {
			c.OK("fresh-per-connection:"+core.Rel(core.QualName(ctor)), ctor.Pos(), "superseded: every exchange gets a session created in its start handler, the one the constructor makes is never used")
		} else {
			freshState(c, ctor, "the pair-verify controller constructor")
		}
	} else {
		c.Undecided("NewVerifyServerController", token.NoPos, "not found")
	}
	databaseImplsReadStorage(c)
	handlersKeepNoState(c, []*ssa.Function{c.P.Func("hap/endpoint", "(*PairVerify).ServeHTTP")}, "the pair-verify endpoint")
}

func c04r7(c *core.Ctx) {
	c02r2(c)
	wrongProofAnsweredInBand(c)
	c05r1(c)
	sessionAccessors(c, "handlers")
	contextAccessors(c)
	handlerErrorHandling(c)
	handlersKeepNoState(c, []*ssa.Function{c.P.Func("hap/endpoint", "(*PairSetup).ServeHTTP"), c.P.Func("hap/endpoint", "(*PairVerify).ServeHTTP"), c.P.Func("hap/endpoint", "(*Pairing).ServeHTTP")}, "a pairing endpoint")
	wrappersPure(c, cryptoWrappers)
	// step handlers keep no package-level state either (leases, pending exchanges)
	for _, spec := range []struct{ ctrl, typ string }{{"SetupServerController", tSetupCtrl}, {"VerifyServerController", tVerifyCtrl}} {
		if mo := buildStepModel(c.P, "hap/pair", spec.ctrl, spec.typ); mo != nil {
			for g, is := range moduleGlobalsUsed(append([]*ssa.Function{mo.handle}, mo.handlers...), true) {
				c.Bad("controller-writes-package-state:"+g.Name(), is[0].Pos(), "the %s writes the package-level variable %s: an exchange abandoned on one connection blocks or influences exchanges on other connections", spec.ctrl, g.Name())
			}
		}
	}
}

// wrongProofAnsweredInBand: a controller whose SRP proof does not verify (the wrong setup code) is answered with the M4 message
// carrying kTLVError_Authentication, not with a Go error — the endpoint turns a Go error into HTTP 500 with an empty body, which a
// controller cannot tell from a broken accessory (C04: "with a wrong setup code the same controller is answered with an
// authentication error"). The session reports a wrong proof through its error result, so the error edge of ProofFromClientProof is
// the wrong-code path.
func wrongProofAnsweredInBand(c *core.Ctx) {
	m := buildStepModel(c.P, "hap/pair", "SetupServerController", tSetupCtrl)
	if m == nil {
		c.Undecided("SetupServerController.Handle", token.NoPos, "not found")
		return
	}
	isProof := func(i ssa.Instruction) bool { return core.IsCall(i, "(*"+tSetupSess+").ProofFromClientProof") }
	// armed only if the session does report a rejected proof through its error (otherwise its error is an internal failure, and a
	// Go error is a fair answer to that)
	viaErr := false
	if w := c.P.Func("hap/pair", "(*SetupServerSession).ProofFromClientProof"); w != nil {
		rejected := core.FalseFact(func(v ssa.Value) bool {
			call, ok := v.(*ssa.Call)
			return ok && call.Call.StaticCallee() != nil && cn(call.Call.StaticCallee()) == "VerifyClientAuthenticator"
		})
		core.EnumPaths(w, 2, 5000, func(pa core.Path) {
			if ret := pa.Returns(); ret != nil && pathEstablishes(pa, rejected) {
				if rs := res(ret); len(rs) == 2 && !core.IsNilConst(pa.ResolveAt(len(pa)-1, rs[1])) {
					viaErr = true
				}
			}
		})
	}
	if !viaErr {
		c.OK("wrong-proof-answered-in-band", token.NoPos, "not armed: the session does not report a rejected proof through its error result")
		return
	}
	n := 0
	for _, h := range m.handlers {
		sites := core.FindCalls(h, isProof)
		if len(sites) == 0 {
			continue
		}
		isErr := func(v ssa.Value) bool { return core.CallResult(v, 1, isProof) != nil }
		paths, bad := 0, 0
		var witness core.Path
		core.EnumPaths(h, 2, 20000, func(pa core.Path) {
			if !pathTakesNonNilEdge(pa, isErr) {
				return
			}
			ret := pa.Returns()
			if ret == nil {
				return
			}
			paths++
			rs := res(ret)
			ok := len(rs) == 2 && core.IsNilConst(pa.ResolveAt(len(pa)-1, rs[1]))
			if ok {
				ok = false
				facts := containerFactsOnPath(pa, tSetupCtrl)
				for _, src := range core.Sources(pa.ResolveAt(len(pa)-1, rs[0])) {
					if tv, set := facts[src][specTags["TagErrCode"]]; set && tv.known && tv.val == 2 {
						ok = true
					}
				}
			}
			if !ok {
				bad++
				if witness == nil {
					witness = pa
				}
			}
		})
		n++
		key := "wrong-proof-answered-in-band@" + fname(h)
		switch {
		case paths == 0:
			c.Undecided(key, posOf(sites[0]), "no path tests the error of ProofFromClientProof")
		case bad == 0:
			c.OK(key, posOf(sites[0]), "on all %d paths with a rejected proof the handler returns the response with error code 2 and a nil error", paths)
		default:
			c.BadPath(key, posOf(sites[0]), witness.Describe(c.P), "a rejected SRP proof (the wrong setup code) is not answered with the response carrying kTLVError_Authentication: the handler returns a Go error, the endpoint answers HTTP 500 with an empty body, and the controller cannot tell a wrong code from a broken accessory")
		}
	}
	if n == 0 {
		c.Undecided("wrong-proof-answered-in-band", token.NoPos, "no step handler calls ProofFromClientProof")
	}
}

func c05r6(c *core.Ctx) {
	wrappersPure(c, [][2]string{{"crypto/hkdf", "Sha512"}, {"crypto/chacha20poly1305", "DecryptAndVerify"}, {"crypto/chacha20poly1305", "EncryptAndSeal"}})
	// the session key is derived from the ephemeral keys of this connection: with a process-wide accessory key pair a replayed
	// pair-verify yields the same session key with the frame counter back at zero, and every recorded frame is accepted again
	if ctor := c.P.Func("hap/pair", "NewVerifyServerController"); ctor != nil {
		if verifySessionFreshPerStart(c.P) {
			c.OK("fresh-per-connection:"+core.Rel(core.QualName(ctor)), ctor.Pos(), "superseded: every exchange gets a session created in its start handler, the one the constructor makes is never used")
		} else {
			freshState(c, ctor, "the pair-verify controller constructor")
		}
	} else {
		c.Undecided("NewVerifyServerController", token.NoPos, "not found")
	}
}

func c11r6(c *core.Ctx) {
	getValueRevealsOnlyStored(c)
	eventCarriesStoredValue(c)
	c10r4(c)
}

// eventCarriesStoredValue: the value announced in an event is a load of Characteristic.Value. The stored field is what the read gate
// protects (updateValue stores only when the characteristic is readable; C11-R2); the values handed to the change callbacks are the
// raw new and old values, also of a characteristic that may not be read. An event built from a callback argument tells every
// subscriber what was written to a write-only characteristic.
func eventCarriesStoredValue(c *core.Ctx) {
	p := c.P
	f := p.Func("", "(*ipTransport).notifyListener")
	if f == nil {
		c.Undecided("notifyListener", token.NoPos, "not found")
		return
	}
	seen := map[*ssa.Function]bool{}
	n := 0
	var walk func(g *ssa.Function)
	walk = func(g *ssa.Function) {
		if g == nil || seen[g] || !core.InModule(g) || g.Blocks == nil {
			return
		}
		seen[g] = true
		core.Instrs(g, func(i ssa.Instruction) {
			if st, ok := i.(*ssa.Store); ok {
				if _, isVal := core.FieldAddrOf(st.Addr, mod+"/hap/data.Characteristic", "Value"); isVal {
					n++
					stored := core.AllSources(st.Val, func(v ssa.Value) bool {
						_, ok := core.FieldLoad(v, tChar, "Value")
						return ok
					})
					c.Check(stored, "event-carries-stored-value@"+fname(g), posOf(i), "the announced value is a load of Characteristic.Value",
						"the value announced in an event is not the stored Characteristic.Value (a callback argument or another copy): the stored field is what the read gate protects — for a characteristic without read permission it stays nil, the callback arguments do not, and every subscriber is told what was written")
				}
			}
			walk(core.Callee(i))
		})
	}
	walk(f)
	if n == 0 {
		c.Undecided("event-carries-stored-value", f.Pos(), "no notification body found in the fan-out")
	}
}

func c13r6(c *core.Ctx) {
	m := remote(c.P)
	var hs []*ssa.Function
	for _, e := range m.entries {
		if core.TypeIs(recvType(e), tConn) {
			continue // a Connection is per connection; its fields are that connection's own state
		}
		hs = append(hs, e)
	}
	handlersKeepNoState(c, hs, "a request handler")
	for _, spec := range []struct{ ctrl, typ string }{{"SetupServerController", tSetupCtrl}, {"VerifyServerController", tVerifyCtrl}} {
		if mo := buildStepModel(c.P, "hap/pair", spec.ctrl, spec.typ); mo != nil {
			for g, is := range moduleGlobalsUsed(append([]*ssa.Function{mo.handle}, mo.handlers...), true) {
				c.Bad("controller-writes-package-state:"+g.Name(), is[0].Pos(), "the %s writes the package-level variable %s: a claim taken by an exchange that is abandoned (the connection just goes away) is never released and every later exchange is refused", spec.ctrl, g.Name())
			}
		}
	}
}

// innermostDeps: the controlling conditions of block b that are not themselves dominated-away by another controlling
// condition closer to b.
func innermostDeps(b *ssa.BasicBlock) []*ssa.If {
	deps := controlDeps(b)
	var out []*ssa.If
	for _, iff := range deps {
		inner := true
		for _, other := range deps {
			if other == iff {
				continue
			}
			for idx := range iff.Block().Succs {
				r := core.Reach(iff.Block().Succs[idx], nil, func(y *ssa.BasicBlock) bool { return y == other.Block() || y == iff.Block() })
				rAll := core.Reach(iff.Block().Succs[idx], nil, func(y *ssa.BasicBlock) bool { return y == iff.Block() })
				if rAll[b] && !r[b] {
					inner = false
				}
			}
		}
		if inner {
			out = append(out, iff)
		}
	}
	return out
}

// ---------------------------------------------------------------- C09-R7: polarity of the handler's decisions

func c09r7(c *core.Ctx) {
	p := c.P
	f := p.Func("hap/http", "(*Server).Characteristics")
	if f == nil {
		c.Undecided("Characteristics", token.NoPos, "not found")
		return
	}
	putDecisions(c, f)
	// ids: ?id=<aid>.<iid>,<aid>.<iid> — key "id", separators "," and ".", aid = part 0, iid = part 1
	var lookups []*ssa.Call
	core.Instrs(f, func(i ssa.Instruction) {
		if call, ok := i.(*ssa.Call); ok && core.Callee(call) != nil && cn(core.Callee(call)) == "getCharacteristic" {
			lookups = append(lookups, call)
		}
	})
	partIndex := func(v ssa.Value) (int64, string, bool) {
		// v = to.Uint64(parts[k]) with parts = strings.Split(x, sep)
		for _, s := range core.Sources(v) {
			call, ok := s.(*ssa.Call)
			if !ok {
				continue
			}
			for _, a := range call.Call.Args {
				for _, as := range core.Sources(a) {
					u, ok := as.(*ssa.UnOp)
					if !ok {
						continue
					}
					ia, ok := u.X.(*ssa.IndexAddr)
					if !ok {
						continue
					}
					k, isK := core.ConstInt(ia.Index)
					if !isK {
						continue
					}
					for _, ps := range core.Sources(ia.X) {
						if sp, ok := ps.(*ssa.Call); ok && core.IsCall(sp, "strings.Split") {
							sep, _ := core.ConstString(sp.Call.Args[1])
							return k, sep, true
						}
					}
				}
			}
		}
		return 0, "", false
	}
	okIDs := false
	for _, l := range lookups {
		a := core.Args(l)
		k0, s0, ok0 := partIndex(a[0])
		k1, s1, ok1 := partIndex(a[1])
		if ok0 && ok1 {
			okIDs = k0 == 0 && k1 == 1 && s0 == "." && s1 == "."
		}
	}
	c.Check(okIDs, "id-parsing@"+fname(f), f.Pos(), "aid is part 0 and iid part 1 of the \".\"-separated id", "the requested id is not split as <aid>.<iid> (wrong separator or swapped parts): another characteristic is answered than the one requested")
	listOK := false
	core.Instrs(f, func(i ssa.Instruction) {
		if core.IsCall(i, "strings.Split") {
			if sep, _ := core.ConstString(core.Args(i)[1]); sep == "," {
				if core.AnySource(core.Args(i)[0], func(s ssa.Value) bool {
					call, ok := s.(*ssa.Call)
					if !ok || !core.IsCall(call, "(net/url.Values).Get") {
						return false
					}
					k, _ := core.ConstString(call.Call.Args[1])
					return k == "id"
				}) {
					listOK = true
				}
			}
		}
	})
	c.Check(listOK, "id-list@"+fname(f), f.Pos(), "the id list is the \",\"-separated form value \"id\"", "the id list is not read from the form value \"id\" split at \",\"")
	// value only for a found characteristic, error status only for a missing one
	for _, l := range lookups {
		found := core.NonNilFact(func(v ssa.Value) bool { return v == ssa.Value(l) })
		missing := core.IsNilFact(func(v ssa.Value) bool { return v == ssa.Value(l) })
		core.Instrs(f, func(i ssa.Instruction) {
			if call, ok := i.(*ssa.Call); ok && core.Callee(call) != nil && (cn(core.Callee(call)) == "GetValueFromConnection" || cn(core.Callee(call)) == "UpdateValueFromConnection") && call.Call.Args[0] == ssa.Value(l) {
				c.Check(core.Dominated(call, found), "use-only-if-found@"+fname(f)+":"+cn(core.Callee(call)), call.Pos(), "the characteristic is used only on the found branch of the lookup", "the looked-up characteristic is used on the not-found branch (nil): the request panics, and found ones are answered as missing")
			}
		})
		// the error status of the GET branch
		core.Instrs(f, func(i ssa.Instruction) {
			st, ok := i.(*ssa.Store)
			if !ok {
				return
			}
			fa, ok := st.Addr.(*ssa.FieldAddr)
			if !ok || fieldNameOf(fa) != "Status" || core.IsNilConst(st.Val) {
				return
			}
			al := allocOf(st.Val)
			if al == nil {
				if a2, ok := st.Val.(*ssa.Alloc); ok {
					al = a2
				}
			}
			if al == nil {
				return
			}
			var code int64
			has := false
			for _, r := range *al.Referrers() {
				if s2, ok := r.(*ssa.Store); ok && s2.Addr == ssa.Value(al) {
					code, has = core.ConstInt(s2.Val)
				}
			}
			if !has {
				return
			}
			switch {
			case code == -70402 && l.Parent() == st.Parent() && reachesAfter(l, st) && !reachesAfter(st, l) || code == -70402:
				if instrDominates(l, st) {
					c.Check(core.Dominated(st, missing), "error-status-only-if-missing@"+fname(f), st.Pos(), "the not-found status is set only on the missing branch", "the not-found status is set for a characteristic that was found")
				}
			case code == 0:
				// the fill-in value for successful entries must be 0 and only where no status is set yet
				isUnset := core.IsNilFact(func(v ssa.Value) bool {
					u, ok := v.(*ssa.UnOp)
					if !ok {
						return false
					}
					fa2, ok := u.X.(*ssa.FieldAddr)
					return ok && fieldNameOf(fa2) == "Status"
				})
				c.Check(core.Dominated(st, isUnset), "ok-status-only-if-unset@"+fname(f), st.Pos(), "status 0 is filled in only where no status is set", "status 0 overwrites (or is skipped for) entries regardless of whether they already carry an error status")
			}
		})
	}
	// 207 iff some entry failed; 204 iff nothing to report
	// the failure flag: the boolean loop-carried variable (whatever its name) whose value decides the 207 answer
	var boolPhis []*ssa.Phi
	core.Instrs(f, func(i ssa.Instruction) {
		if ph, ok := i.(*ssa.Phi); ok {
			if b, ok := ph.Type().Underlying().(*types.Basic); ok && b.Kind() == types.Bool {
				boolPhis = append(boolPhis, ph)
			}
		}
	})
	flagFor := func(site ssa.Instruction) *ssa.Phi {
		for _, ph := range boolPhis {
			is := func(v ssa.Value) bool { return v == ssa.Value(ph) }
			if core.Dominated(site, core.TrueFact(is)) || core.Dominated(site, core.FalseFact(is)) {
				return ph
			}
		}
		return nil
	}
	core.Instrs(f, func(i ssa.Instruction) {
		if !core.IsInvoke(i, "net/http.ResponseWriter", "WriteHeader") {
			return
		}
		code, ok := core.ConstInt(core.Args(i)[0])
		if !ok {
			return
		}
		switch code {
		case 207:
			flag := flagFor(i)
			if flag == nil {
				c.Undecided("multi-status-flag@"+fname(f), posOf(i), "the flag that records a failed entry was not recognised")
				return
			}
			c.Check(core.Dominated(i, core.TrueFact(func(v ssa.Value) bool { return v == ssa.Value(flag) })), "multi-status-iff-failure@"+fname(f), posOf(i), "207 is written only when some entry failed", "207 is not tied to 'some entry failed' (the test is inverted or missing)")
			// the flag becomes true exactly in the iterations that stored an error status: decided per iteration path, with the
			// flag's value read off the edges the path takes (robust against where in the iteration the flag is set)
			setOK := false
			if gl := findGetLoop(f); gl != nil && flag.Block() == gl.header {
				good, bad := 0, 0
				core.EnumPaths(f, 2, 400000, func(pa core.Path) {
					var idx []int
					for k, b := range pa {
						if b == gl.header {
							idx = append(idx, k)
						}
					}
					for n := 0; n+1 < len(idx); n++ {
						stored := false
						pa[idx[n]:idx[n+1]].Instrs(func(x ssa.Instruction) {
							if st, ok := x.(*ssa.Store); ok {
								if fa, ok := st.Addr.(*ssa.FieldAddr); ok && fieldNameOf(fa) == "Status" && !core.IsNilConst(st.Val) {
									stored = true
								}
							}
						})
						after := pa.ResolveAt(idx[n+1], flag)
						before := pa.ResolveAt(idx[n], flag)
						isTrue := func(v ssa.Value) bool { k, ok := core.ConstInt(v); return ok && k == 1 }
						isFalse := func(v ssa.Value) bool { k, ok := core.ConstInt(v); return ok && k == 0 }
						// what this iteration's path found out about the incoming flag:  failed = failed || x  tests it
						beforeKnown, beforeVal := false, false
						if isTrue(before) || isFalse(before) {
							beforeKnown, beforeVal = true, isTrue(before)
						}
						for k := idx[n]; k < idx[n+1]; k++ {
							b := pa[k]
							iff, isIf := b.Instrs[len(b.Instrs)-1].(*ssa.If)
							if !isIf || k+1 >= len(pa) {
								continue
							}
							if cv := pa.ResolveAt(k, iff.Cond); cv == before {
								beforeKnown, beforeVal = true, pa[k+1] == b.Succs[0]
							}
						}
						// after = "the entry of this iteration carries a status", read off the entry itself
						statusTest := false
						if bo, isB := after.(*ssa.BinOp); isB && bo.Op == token.NEQ && core.IsNilConst(bo.Y) {
							if base, isL := core.FieldLoad(bo.X, tCharResp, "Status"); isL {
								if al, isA := base.(*ssa.Alloc); isA {
									for _, ap := range gl.appends {
										ea := appendedAlloc(ap)
										if ea != nil && (ea == al || structOrigin(&ssa.UnOp{Op: token.MUL, X: al}, 6) == ea) {
											statusTest = true
										}
									}
								}
							}
						}
						switch {
						case stored && (isTrue(after) || statusTest):
							good++
						case !stored && (after == before || sameConst(after, before)):
							good++
						case !stored && beforeKnown && beforeVal && isTrue(after):
							good++ // the flag was already set and stays set
						case !stored && beforeKnown && !beforeVal && (statusTest || isFalse(after)):
							good++ // nothing failed so far and nothing fails now
						default:
							bad++
						}
					}
				})
				setOK = bad == 0 && good > 0
			}
			c.Check(setOK, "failure-flag-set@"+fname(f), posOf(i), "the failure flag is set where an error status is stored", "storing an error status does not set the failure flag: the answer goes out as 200 with a status member only on the failed entry")
		case 204:
			empty := func(cond ssa.Value) (bool, bool) {
				b, ok := cond.(*ssa.BinOp)
				if !ok {
					return false, false
				}
				call, isCall := b.X.(*ssa.Call)
				if !isCall {
					return false, false
				}
				bi, ok := call.Call.Value.(*ssa.Builtin)
				if !ok || bi.Name() != "len" {
					return false, false
				}
				if k, isK := core.ConstInt(b.Y); isK && k == 0 {
					switch b.Op {
					case token.EQL:
						return true, false
					case token.NEQ, token.GTR:
						return false, true
					}
				}
				return false, false
			}
			if i.Parent() == f {
				c.Check(core.Dominated(i, empty), "no-content-iff-empty@"+fname(f), posOf(i), "204 is written only when there is no entry to report", "204 No Content is written although entries with a status have to be reported (or the body is written when there is nothing to report)")
			}
		}
	})
	// subscribe on ev:true, unsubscribe on ev:false
	core.Instrs(f, func(i ssa.Instruction) {
		isSub := core.IsInvoke(i, qSession, "Subscribe")
		isUnsub := core.IsInvoke(i, qSession, "Unsubscribe")
		if !isSub && !isUnsub {
			return
		}
		evTrue := core.TrueFact(func(v ssa.Value) bool {
			e, ok := v.(*ssa.Extract)
			if !ok || e.Index != 0 {
				return false
			}
			ta, ok := e.Tuple.(*ssa.TypeAssert)
			if !ok {
				return false
			}
			_, isEv := core.FieldLoad(ta.X, tCharReq, "Events")
			return isEv
		})
		evFalse := func(cond ssa.Value) (bool, bool) { t, fl := evTrue(cond); return fl, t }
		okAssert := core.TrueFact(func(v ssa.Value) bool {
			e, ok := v.(*ssa.Extract)
			if !ok || e.Index != 1 {
				return false
			}
			ta, ok := e.Tuple.(*ssa.TypeAssert)
			if !ok {
				return false
			}
			_, isEv := core.FieldLoad(ta.X, tCharReq, "Events")
			return isEv
		})
		if isSub {
			c.Check(core.Dominated(i, evTrue) && core.Dominated(i, okAssert), "subscribe-on-true@"+fname(f), posOf(i), "Subscribe only for ev:true (a boolean)", "Subscribe is not tied to ev:true: ev:false subscribes (and ev:true unsubscribes)")
		} else {
			c.Check(core.Dominated(i, evFalse) && core.Dominated(i, okAssert), "unsubscribe-on-false@"+fname(f), posOf(i), "Unsubscribe only for ev:false", "Unsubscribe is not tied to ev:false")
		}
	})
	// WriteJSON writes the body only when encoding succeeded
	if wj := p.Func("hap/http", "WriteJSON"); wj != nil {
		encOK := errNilFact(1, func(i ssa.Instruction) bool { g := core.Callee(i); return g != nil && cn(g) == "JSONEncode" })
		core.Instrs(wj, func(i ssa.Instruction) {
			if core.IsInvoke(i, "io.Writer", "Write") {
				c.Check(core.Dominated(i, encOK), "body-only-if-encoded@"+fname(wj), posOf(i), "the body is written only when encoding succeeded", "the body is written although encoding failed (or not written when it succeeded)")
			}
		})
	}
	// chunk end: end = len(p) exactly when nn+chunk exceeds it
	if cw := p.Func("hap", "(*chunkedWriter).Write"); cw != nil {
		core.Instrs(cw, func(i ssa.Instruction) {
			sl, ok := i.(*ssa.Slice)
			if !ok || sl.High == nil {
				return
			}
			ph, ok := sl.High.(*ssa.Phi)
			if !ok {
				return
			}
			good := false
			for k, e := range ph.Edges {
				if isLenOf(e, cw.Params[1]) || func() bool { c2, ok := e.(*ssa.Call); return ok && isLenOfCall(c2, cw.Params[1]) }() {
					// this edge must come from the true branch of "sum > len"
					pred := ph.Block().Preds[k]
					for _, pp := range pred.Preds {
						if iff, ok := pp.Instrs[len(pp.Instrs)-1].(*ssa.If); ok {
							if b, ok := iff.Cond.(*ssa.BinOp); ok && b.Op == token.GTR && pp.Succs[0] == pred {
								good = true
							}
						}
					}
				}
			}
			c.Check(good, "chunk-clamp-polarity@"+fname(cw), sl.Pos(), "the chunk end is clamped to len(p) exactly when nn+chunk exceeds it", "the clamp of the chunk end is inverted or missing: the last chunk slices beyond the payload (panic) or chunks are cut short")
		})
		// error from the inner writer ends the loop with that error
		core.Instrs(cw, func(i ssa.Instruction) {
			if call, ok := i.(*ssa.Call); ok && core.IsInvoke(call, "io.Writer", "Write") {
				fail := core.NonNilFact(func(v ssa.Value) bool {
					return core.CallResult(v, 1, func(ci ssa.Instruction) bool { return ci == ssa.Instruction(call) }) != nil
				})
				okRet := false
				core.Instrs(cw, func(j ssa.Instruction) {
					if r, isR := j.(*ssa.Return); isR && !core.IsNilConst(res(r)[1]) && core.Dominated(r, fail) {
						okRet = true
					}
				})
				c.Check(okRet, "chunk-error-returned@"+fname(cw), call.Pos(), "an inner write error is returned on its failure branch", "the error of the inner writer is not returned on the failure branch")
			}
		})
	}
}

func isLenOfCall(call *ssa.Call, x ssa.Value) bool {
	b, ok := call.Call.Value.(*ssa.Builtin)
	return ok && b.Name() == "len" && call.Call.Args[0] == x
}

func sameConst(a, b ssa.Value) bool {
	ca, ok1 := a.(*ssa.Const)
	cb, ok2 := b.(*ssa.Const)
	if !ok1 || !ok2 || ca.Value == nil || cb.Value == nil {
		return false
	}
	return ca.Value.ExactString() == cb.Value.ExactString()
}

// sessionAccessors: the one-line methods of hap.session every property leans on, with their polarity.
//
//	part "handlers":   Set*Handler stores its argument, *Handler() returns that field (a controller that is not kept loses the
//	                   exchange state between two requests: no pairing can complete);
//	part "subscribed": IsSubscribedTo returns the map entry for that characteristic, not its negation;
//	part "promotion":  Decrypter() replaces the cryptographer by the pending one only when one is pending.
func sessionAccessors(c *core.Ctx, part string) {
	p := c.P
	sessT := mod + "/hap.session"
	switch part {
	case "handlers":
		for _, spec := range []struct{ set, get, fld string }{{"SetPairSetupHandler", "PairSetupHandler", "pairStartHandler"}, {"SetPairVerifyHandler", "PairVerifyHandler", "pairVerifyHandler"}} {
			if f := p.Func("hap", "(*session)."+spec.set); f != nil {
				n, ok := 0, false
				core.Instrs(f, func(i ssa.Instruction) {
					if st, isSt := i.(*ssa.Store); isSt {
						if _, isF := core.FieldAddrOf(st.Addr, sessT, spec.fld); isF {
							n++
							ok = len(f.Params) > 1 && valIs(st.Val, f.Params[1]) && len(f.Blocks) == 1
						}
					}
				})
				c.Check(n == 1 && ok, "session-setter:"+spec.set, f.Pos(), "stores its argument, unconditionally", spec.set+" does not (always) keep the controller it is given: the next request of the exchange starts with a fresh controller")
			} else {
				c.Undecided("session-setter:"+spec.set, token.NoPos, "not found")
			}
			if f := p.Func("hap", "(*session)."+spec.get); f != nil {
				ok := returnsOnly(f, func(v ssa.Value) bool { _, isF := core.FieldLoad(v, sessT, spec.fld); return isF })
				c.Check(ok, "session-getter:"+spec.get, f.Pos(), "returns the stored controller", spec.get+" does not return the controller stored by "+spec.set)
			}
		}
	case "subscribed":
		f := p.Func("hap", "(*session).IsSubscribedTo")
		if f == nil {
			c.Undecided("IsSubscribedTo", token.NoPos, "not found")
			return
		}
		ok := true
		n := 0
		core.Instrs(f, func(i ssa.Instruction) {
			r, isR := i.(*ssa.Return)
			if !isR || len(res(r)) != 1 || (f.Recover != nil && r.Block() == f.Recover) {
				return // the recover block hands back whatever the result variable holds
			}
			n++
			v := res(r)[0]
			// the lookup itself, or lookup == true
			isLookup := func(x ssa.Value) bool {
				for _, s := range core.Sources(x) {
					if _, isL := s.(*ssa.Lookup); isL {
						continue
					}
					if e, isE := s.(*ssa.Extract); isE {
						if _, isL := e.Tuple.(*ssa.Lookup); isL && e.Index == 0 {
							continue
						}
					}
					return false
				}
				return true
			}
			if isLookup(v) {
				return
			}
			if b, isB := v.(*ssa.BinOp); isB {
				if k, isK := core.ConstInt(b.Y); isK && isLookup(b.X) && ((b.Op == token.EQL && k == 1) || (b.Op == token.NEQ && k == 0)) {
					return
				}
			}
			ok = false
		})
		c.Check(ok && n > 0, "is-subscribed-polarity@"+fname(f), f.Pos(), "returns the subscription entry of that characteristic", "IsSubscribedTo does not return the subscription entry (inverted or constant): unsubscribed sessions receive events, subscribed ones do not")
	case "promotion":
		f := p.Func("hap", "(*session).Decrypter")
		if f == nil {
			c.Undecided("session.Decrypter", token.NoPos, "not found")
			return
		}
		pending := core.NonNilFact(func(v ssa.Value) bool { _, isF := core.FieldLoad(v, sessT, "nextCryptographer"); return isF })
		core.Instrs(f, func(i ssa.Instruction) {
			if st, isSt := i.(*ssa.Store); isSt {
				if _, isF := core.FieldAddrOf(st.Addr, sessT, "cryptographer"); isF {
					c.Check(core.Dominated(st, pending), "promotion-only-when-pending@"+fname(f), st.Pos(), "the active cryptographer is replaced only by a pending one", "Decrypter() overwrites the active cryptographer when nothing is pending: a verified connection falls back to plaintext (or never becomes encrypted)")
				}
			}
		})
	}
}

// handlerErrorHandling: the step handlers of both pairing controllers treat the errors of the calls they make the right way round,
// and leave the controller ready after a failed attempt.
//
//	(a) for every test of a call's error: everything that follows the "err != nil" edge signals the failure (an error item in the
//	    response or a non-nil error result) before it returns, and a success exit is reachable from the "err == nil" edge;
//
// (That every failing exit also resets the controller is NOT demanded: two exits of the unchanged tree do not — a start request with a
// key of the wrong length, a key-exchange whose decrypted sub-TLV does not parse — and the property (C13) only promises that a correct
// handshake succeeds after at most one rejected start, which C13-R5 decides.)
func handlerErrorHandling(c *core.Ctx) {
	p := c.P
	for _, spec := range []struct{ ctrl, typ string }{{"SetupServerController", tSetupCtrl}, {"VerifyServerController", tVerifyCtrl}} {
		mo := buildStepModel(p, "hap/pair", spec.ctrl, spec.typ)
		if mo == nil {
			continue
		}
		for _, h := range mo.handlers {
			errorTestPolarity(c, h, func(i ssa.Instruction) bool {
				if !core.IsInvoke(i, qContainer, "SetByte") {
					return false
				}
				t, ok := core.ConstInt(core.CallOf(i).Args[0])
				return ok && t == 7
			})
			// the outcome of storing the pairing is looked at: a pairing that could not be stored (an identifier too long for a file
			// name, a full disk) must not be answered with the success message — the controller believes it is paired and every later
			// pair-verify is refused as "unknown peer"
			for _, s := range core.FindCalls(h, func(i ssa.Instruction) bool { return core.IsInvoke(i, qDatabase, "SaveEntity") }) {
				call, isCall := s.(*ssa.Call)
				c.Check(isCall && nilTested(call, 4), "save-error-answered@"+fname(h), posOf(s), "the error of SaveEntity is tested",
					"the error of SaveEntity is discarded in "+fname(h)+": a pairing that cannot be stored is answered with the success message")
			}
		}
	}
}

// errorTestPolarity: for every test of a call's error in f ( if err != nil / if err == nil ):
//   - everything that follows the "err != nil" edge signals the failure before it returns: a non-nil error result, or an
//     instruction accepted by signals (an error item in a response); the edge of an  err == io.EOF  test is not followed (end of
//     input is not a failure of the caller's request);
//   - from the "err == nil" edge a return with a nil error is reachable without passing a signal.
//
// An inverted test, a test without consequence and a success path that can only fail are all reported.
func errorTestPolarity(c *core.Ctx, f *ssa.Function, signals func(ssa.Instruction) bool, lenient ...bool) {
	p := c.P
	nres := f.Signature.Results().Len()
	if nres == 0 || f.Signature.Results().At(nres-1).Type().String() != "error" {
		return
	}
	if signals == nil {
		signals = func(ssa.Instruction) bool { return false }
	}
	type test struct {
		iff             *ssa.If
		ev              ssa.Value
		failIdx         int
		silent, success bool
		witness         core.Path
	}
	tests := map[*ssa.BasicBlock]*test{}
	for _, b := range f.Blocks {
		iff, ok := b.Instrs[len(b.Instrs)-1].(*ssa.If)
		if !ok {
			continue
		}
		bo, ok := iff.Cond.(*ssa.BinOp)
		if !ok || (bo.Op != token.NEQ && bo.Op != token.EQL) {
			continue
		}
		var ev ssa.Value
		switch {
		case core.IsNilConst(bo.Y):
			ev = bo.X
		case core.IsNilConst(bo.X):
			ev = bo.Y
		default:
			continue
		}
		if ev.Type().String() != "error" {
			continue
		}
		fromCall := core.SomeSource(ev, func(s ssa.Value) bool {
			switch x := s.(type) {
			case *ssa.Call:
				return true
			case *ssa.Extract:
				_, isCall := x.Tuple.(*ssa.Call)
				return isCall
			}
			return false
		})
		if !fromCall {
			continue
		}
		// a decoding step whose failure only means "keep what we have" (the name of an entity decoded from its key, with the name in
		// the stored record as the fallback) is not an error of the operation
		if core.SomeSource(ev, func(s ssa.Value) bool {
			return core.CallResult(s, 1, func(ci ssa.Instruction) bool { return core.IsCall(ci, "encoding/hex.DecodeString") }) != nil
		}) {
			continue
		}
		t := &test{iff: iff, ev: ev}
		if bo.Op == token.EQL {
			t.failIdx = 1
		}
		tests[b] = t
	}
	if len(tests) == 0 {
		c.OK("error-test-polarity@"+fname(f), f.Pos(), "no test of a call's error")
		return
	}
	isEOF := func(v ssa.Value) bool {
		u, ok := v.(*ssa.UnOp)
		if !ok {
			return false
		}
		g, ok := u.X.(*ssa.Global)
		return ok && g.Pkg != nil && g.Pkg.Pkg.Path() == "io" && (g.Name() == "EOF" || g.Name() == "ErrUnexpectedEOF")
	}
	okEnum := core.EnumPaths(f, 2, 300000, func(pa core.Path) {
		ret := pa.Returns()
		// phantom paths: "a sum of byte counts is zero" although one of the reads counted succeeded in full
		for m := 0; m+1 < len(pa); m++ {
			if iff, ok := pa[m].Instrs[len(pa[m].Instrs)-1].(*ssa.If); ok {
				if bo, ok := iff.Cond.(*ssa.BinOp); ok && (bo.Op == token.EQL || bo.Op == token.NEQ) {
					if z, isK := core.ConstInt(bo.Y); isK && z == 0 {
						tookZero := (bo.Op == token.EQL && pa[m+1] == pa[m].Succs[0]) || (bo.Op == token.NEQ && pa[m+1] == pa[m].Succs[1])
						if tookZero && infeasibleZeroCount(pa, m, bo.X) {
							return
						}
					}
				}
			}
		}
		// phantom paths: a merged error variable that on this path holds a freshly made error ( err = fmt.Errorf(...) inside an
		// inlined helper ) cannot be nil at the test that follows, and one that holds the nil constant cannot be non-nil
		for m := 0; m+1 < len(pa); m++ {
			iff, ok := pa[m].Instrs[len(pa[m].Instrs)-1].(*ssa.If)
			if !ok {
				continue
			}
			bo, ok := iff.Cond.(*ssa.BinOp)
			if !ok || (bo.Op != token.EQL && bo.Op != token.NEQ) {
				continue
			}
			var x ssa.Value
			switch {
			case core.IsNilConst(bo.Y):
				x = bo.X
			case core.IsNilConst(bo.X):
				x = bo.Y
			default:
				continue
			}
			if _, isPhi := x.(*ssa.Phi); !isPhi || x.Type().String() != "error" {
				continue
			}
			r := pa.ResolveAt(m, x)
			if _, still := r.(*ssa.Phi); still {
				continue
			}
			tookNil := (bo.Op == token.EQL && pa[m+1] == pa[m].Succs[0]) || (bo.Op == token.NEQ && pa[m+1] == pa[m].Succs[1])
			if core.IsNilConst(r) && !tookNil {
				return
			}
			if call, isCall := r.(*ssa.Call); isCall && tookNil && (core.IsCall(call, "fmt.Errorf") || core.IsCall(call, "errors.New")) {
				return
			}
		}
		for k := 0; k+1 < len(pa); k++ {
			t := tests[pa[k]]
			if t == nil {
				continue
			}
			failed := pa[k+1] == pa[k].Succs[t.failIdx]
			// on this path the tested value may be a merged variable standing for a nil constant: the success edge, necessarily
			if core.IsNilConst(pa.ResolveAt(k, t.ev)) {
				failed = false
			}
			signalled, endOfInput := false, false
			// "the failed read consumed nothing" may have been established before this test (inside an inlined read helper that
			// hands the fact on as a nil result): look at the whole path, for the call whose error the tested value is on this path
			evHere := pa.ResolveAt(k, t.ev)
			for m := 0; m <= k && m+1 < len(pa); m++ {
				if iff, ok := pa[m].Instrs[len(pa[m].Instrs)-1].(*ssa.If); ok {
					if bo, ok := iff.Cond.(*ssa.BinOp); ok && (bo.Op == token.EQL || bo.Op == token.NEQ) {
						for _, pr := range [][2]ssa.Value{{bo.X, bo.Y}, {bo.Y, bo.X}} {
							if z, isK := core.ConstInt(pr[1]); isK && z == 0 && (sameCallCount(pa.ResolveAt(m, pr[0]), evHere) || sameCallCount(pr[0], evHere) || sameCallCount(pr[0], t.ev)) {
								if (bo.Op == token.EQL && pa[m+1] == pa[m].Succs[0]) || (bo.Op == token.NEQ && pa[m+1] == pa[m].Succs[1]) {
									endOfInput = true
								}
							}
						}
					}
				}
			}
			for m := k + 1; m < len(pa); m++ {
				for _, i := range pa[m].Instrs {
					if signals(i) {
						signalled = true
					}
				}
				if m+1 < len(pa) {
					if iff, ok := pa[m].Instrs[len(pa[m].Instrs)-1].(*ssa.If); ok {
						// "the failed read consumed nothing": n == 0 for the count of the same call — the input ended (or
						// paused) exactly between two items, which is not a failure of what was read before
						if bo, ok := iff.Cond.(*ssa.BinOp); ok && (bo.Op == token.EQL || bo.Op == token.NEQ) {
							for _, pr := range [][2]ssa.Value{{bo.X, bo.Y}, {bo.Y, bo.X}} {
								if z, isK := core.ConstInt(pr[1]); isK && z == 0 && (sameCallCount(pr[0], t.ev) || sameCallCount(pa.ResolveAt(m, pr[0]), evHere)) {
									if (bo.Op == token.EQL && pa[m+1] == pa[m].Succs[0]) || (bo.Op == token.NEQ && pa[m+1] == pa[m].Succs[1]) {
										endOfInput = true
									}
								}
							}
						}
						if bo, ok := iff.Cond.(*ssa.BinOp); ok && bo.Op == token.EQL && (isEOF(bo.X) || isEOF(bo.Y)) && pa[m+1] == pa[m].Succs[0] {
							endOfInput = true
						}
						if bo, ok := iff.Cond.(*ssa.BinOp); ok && bo.Op == token.NEQ && (isEOF(bo.X) || isEOF(bo.Y)) && pa[m+1] == pa[m].Succs[1] {
							endOfInput = true
						}
					}
				}
			}
			var errv ssa.Value
			if ret != nil {
				errv = pa.ResolveAt(len(pa)-1, res(ret)[nres-1])
			}
			if failed {
				// the error that is handed back reports *this* failure: it is the tested error (or a variable that holds it on this path), or
				// an error made on the spot. The result of some other call — `if err == nil { return err }; return d.decode(v)` — may be nil.
				byValue := false
				if errv != nil && !core.IsNilConst(errv) {
					evHere := pa.ResolveAt(k, t.ev)
					shares := func(a, b ssa.Value) bool {
						return core.SomeSource(a, func(s ssa.Value) bool { return core.SomeSource(b, func(e ssa.Value) bool { return e == s }) })
					}
					// ... the result of a call made *after* the test, that is; an error variable of an earlier call that the code
					// falls back to is an old habit this rule has always let pass
					var theCall *ssa.Call
					if cl, isC := errv.(*ssa.Call); isC {
						theCall = cl
					}
					if e, isE := errv.(*ssa.Extract); isE {
						theCall, _ = e.Tuple.(*ssa.Call)
					}
					isCallResult := false
					if theCall != nil {
						for m := k + 1; m < len(pa); m++ {
							if pa[m] == theCall.Block() {
								isCallResult = true
							}
						}
					}
					// inside a loop the tested value and the value handed back can be the same instruction in different iterations: if
					// the test is met again later on this path and passed on its success edge there, what is returned is that later
					// (nil) instance — the earlier failure is not reported by it
					laterSucceeded := false
					for m := k + 1; m+1 < len(pa); m++ {
						if pa[m] == pa[k] {
							laterSucceeded = pa[m+1] != pa[m].Succs[t.failIdx]
						}
					}
					// an error variable of an earlier call that this path has already tested and found nil ( `x, err := f(); if err != nil
					// { return }` … `return t, err` at the end ) is nil here: handing it back reports nothing
					ev0 := errv
					knownNil := ev0 != t.ev && ev0 != evHere && pathEstablishes(pa, core.IsNilFact(func(v ssa.Value) bool { return v == ev0 }))
					if _, dismissed := polarityShadowDismissed[fname(f)]; dismissed {
						knownNil = false
					}
					switch {
					case knownNil:
						byValue = false
					case laterSucceeded && (errv == t.ev || errv == evHere):
						byValue = false
					case errv == t.ev || errv == evHere || shares(errv, t.ev) || shares(errv, evHere):
						byValue = true
					case provablyNonNil(pa, errv):
						byValue = true
					case !isCallResult:
						byValue = true // a field, a cell, a merged variable: judged by the rules that know it
					case sameCellUnchanged(pa, k, errv, t.ev):
						byValue = true
					}
				}
				reported := ret == nil || signalled || endOfInput || byValue
				if !reported && !t.silent {
					t.silent, t.witness = true, pa
				}
			} else if ret != nil && !signalled {
				if core.IsNilConst(errv) || errv == t.ev || res(ret)[nres-1] == t.ev || sameCellUnchanged(pa, k, errv, t.ev) || !core.SomeSource(errv, func(s ssa.Value) bool { return core.SomeSource(t.ev, func(e ssa.Value) bool { return e == s }) }) {
					t.success = true
				} else {
					// a named result is one cell for every error of the function: compare what the cell held at the test with what
					// it holds at the return, along this path
					evR, errR := cellValueAt(pa, k, t.ev), cellValueAt(pa, len(pa)-1, errv)
					if evR != nil && errR != nil && (core.IsNilConst(errR) || !core.SomeSource(errR, func(s ssa.Value) bool { return core.SomeSource(evR, func(e ssa.Value) bool { return e == s }) })) {
						t.success = true
					}
				}
			}
		}
	})
	if os.Getenv("HCSA_DEBUG_POLARITY") != "" {
		for _, t := range tests {
			println("  test", fname(f), p.Position(t.iff.Cond.Pos()), "silent", t.silent, "success", t.success, "enum", okEnum)
		}
	}
	if !okEnum {
		c.Undecided("error-test-polarity@"+fname(f), f.Pos(), "too many paths")
		return
	}
	bad := 0
	for _, b := range f.Blocks {
		t := tests[b]
		if t == nil {
			continue
		}
		if len(lenient) > 0 && lenient[0] {
			t.silent = false // this function is known to drop some errors on purpose (or by old habit); only inverted tests are reported
		}
		if t.silent || !t.success {
			bad++
			var desc []string
			if t.witness != nil {
				desc = t.witness.Describe(p)
			}
			c.BadPath(fmt.Sprintf("error-test-polarity@%s/%s", fname(f), p.Position(condPosOf(t.iff))), condPosOf(t.iff), desc,
				"the test of a call's error in %s is the wrong way round or without consequence: after a failure the function can return without reporting it (silent=%v), or after success no successful return is reachable (success exit=%v)", fname(f), t.silent, t.success)
		}
	}
	if bad == 0 {
		c.OK("error-test-polarity@"+fname(f), f.Pos(), "%d error tests: the failure edge always reports the failure, the success edge can succeed", len(tests))
	}
}

// instrDominatesOrSameBlockBefore: a is executed before b on every path to b.
func instrDominatesOrSameBlockBefore(a, b ssa.Instruction) bool {
	if a == nil || b == nil {
		return false
	}
	return instrDominates(a, b)
}

// contextAccessors (C04-R7 / C01-R3): the key-value store behind sessions: Set stores, Get returns the entry, Delete deletes, and the
// typed session lookup returns the session exactly when the entry is one.
func contextAccessors(c *core.Ctx) {
	p := c.P
	ctxT := mod + "/hap.context"
	if f := p.Func("hap", "(*context).Set"); f != nil {
		ok := false
		core.Instrs(f, func(i ssa.Instruction) {
			if mu, isMU := i.(*ssa.MapUpdate); isMU {
				if _, isF := core.FieldLoad(mu.Map, ctxT, "storage"); isF && valIs(mu.Key, f.Params[1]) && valIs(mu.Value, f.Params[2]) && !reachesAfter(mu, mu) {
					ok = core.Dominated(mu, func(ssa.Value) (bool, bool) { return false, false }) == false
				}
			}
		})
		c.Check(ok, "context-set", f.Pos(), "Set stores the value under the key", "context.Set does not store the value under the key: sessions are never found again, every request is answered as unverified")
	}
	if f := p.Func("hap", "(*context).Get"); f != nil {
		ok := returnsOnly(f, func(v ssa.Value) bool {
			lk, isL := v.(*ssa.Lookup)
			if !isL {
				return false
			}
			_, isF := core.FieldLoad(lk.X, ctxT, "storage")
			return isF && valIs(lk.Index, f.Params[1])
		})
		c.Check(ok, "context-get", f.Pos(), "Get returns the entry stored under the key", "context.Get does not return the entry stored under the key")
	}
	if f := p.Func("hap", "(*context).Delete"); f != nil {
		ok := false
		core.Instrs(f, func(i ssa.Instruction) {
			if call, isC := i.(*ssa.Call); isC {
				if b, isB := call.Call.Value.(*ssa.Builtin); isB && b.Name() == "delete" {
					if _, isF := core.FieldLoad(call.Call.Args[0], ctxT, "storage"); isF && valIs(call.Call.Args[1], f.Params[1]) {
						ok = true
					}
				}
			}
		})
		c.Check(ok, "context-delete", f.Pos(), "Delete removes the entry of the key", "context.Delete does not remove the entry: closed connections stay in the recipient set and their sessions stay verified")
	}
	if f := p.Func("hap", "(*context).GetSessionForConnection"); f != nil {
		good, n := true, 0
		// a session is handed back only on a path that took the ok branch of the assertion it came from (path by path: the result may be
		// one variable that is nil on the other paths)
		core.EnumPaths(f, 2, 5000, func(pa core.Path) {
			r := pa.Returns()
			if r == nil || len(res(r)) != 1 {
				return
			}
			v := pa.ResolveAt(len(pa)-1, res(r)[0])
			if core.IsNilConst(v) {
				return
			}
			n++
			e, isE := v.(*ssa.Extract)
			if !isE {
				good = false
				return
			}
			ta, isTA := e.Tuple.(*ssa.TypeAssert)
			if !isTA || !ta.CommaOk || e.Index != 0 {
				good = false
				return
			}
			okFact := core.TrueFact(func(x ssa.Value) bool {
				e2, ok := x.(*ssa.Extract)
				return ok && e2.Tuple == ssa.Value(ta) && e2.Index == 1
			})
			isOk := func(x ssa.Value) bool {
				e2, ok := x.(*ssa.Extract)
				return ok && e2.Tuple == ssa.Value(ta) && e2.Index == 1
			}
			notOkFact := core.CondFact(func(cond ssa.Value) (bool, bool) {
				if isOk(cond) {
					return false, true
				}
				return false, false
			})
			// the ok branch was taken — or ok is not looked at at all on this path ( sess, _ := x.(Session); return sess ): where the
			// assertion fails its value is the nil session, which is what "no session" is; only a path through the *failed* branch that
			// returns the asserted value is the inverted test
			if !pathEstablishes(pa, okFact) && pathEstablishes(pa, notOkFact) {
				good = false
			}
		})
		c.Check(good && n > 0, "context-session-lookup", f.Pos(), "the session is returned on the branch where the entry is a session", "GetSessionForConnection returns the asserted value where the assertion failed (test inverted): existing sessions are not found, connections are treated as unverified / unencrypted")
	}
}

// putDecisions: the write half of the /characteristics handler acts on the members the request carries: a "value" member is
// written exactly when present, an "ev" member (un)subscribes exactly when present, both Subscribe and Unsubscribe exist on their
// branch, the request body is decoded before use with its error the right way round, and a verified session reaches the handler body.
func putDecisions(c *core.Ctx, f *ssa.Function) {
	hasMember := func(fld string) core.CondFact {
		return core.NonNilFact(func(v ssa.Value) bool { _, ok := core.FieldLoad(v, tCharReq, fld); return ok })
	}
	nw := 0
	core.Instrs(f, func(i ssa.Instruction) {
		if core.IsCall(i, "(*"+tChar+").UpdateValueFromConnection") {
			nw++
			c.Check(core.Dominated(i, hasMember("Value")), "put-value-when-present@"+fname(f), posOf(i), "the write happens on the branch where the entry has a value member", "the write is not tied to the presence of a value member (test inverted or missing): entries without value write nil, entries with a value are ignored")
		}
	})
	c.Check(nw > 0, "put-writes@"+fname(f), f.Pos(), "the PUT branch writes values", "the PUT branch never calls UpdateValueFromConnection: controller writes have no effect")
	var sub, unsub ssa.Instruction
	core.Instrs(f, func(i ssa.Instruction) {
		if core.IsInvoke(i, qSession, "Subscribe") {
			sub = i
		}
		if core.IsInvoke(i, qSession, "Unsubscribe") {
			unsub = i
		}
	})
	if sub != nil {
		c.Check(core.Dominated(sub, hasMember("Events")), "put-ev-when-present@"+fname(f), posOf(sub), "subscriptions change on the branch where the entry has an ev member", "subscriptions are changed for entries without an ev member (test inverted)")
	}
	c.Check(sub != nil && unsub != nil, "put-subscribe-and-unsubscribe@"+fname(f), f.Pos(), "ev:true subscribes and ev:false unsubscribes", "one of Subscribe / Unsubscribe is never called: a controller cannot turn events on (or off again — it keeps receiving events it no longer wants)")
	// a verified session (non-nil, with an encrypter) gets past the handler's own session test
	var first ssa.Instruction
	core.Instrs(f, func(i ssa.Instruction) {
		if first == nil && (core.IsCall(i, "(*net/http.Request).ParseForm") || core.IsCall(i, "io/ioutil.ReadAll") || core.IsCall(i, "io.ReadAll")) {
			first = i
		}
	})
	if first != nil {
		req := paramOfType(f, "net/http.Request")
		isSess := func(v ssa.Value) bool { return req != nil && sessionOfRequest(v, req) }
		isEnc := func(v ssa.Value) bool {
			call, ok := v.(*ssa.Call)
			return ok && (core.IsInvoke(call, qSession, "Encrypter") || core.IsInvoke(call, qSession, "Decrypter"))
		}
		reach := core.ReachableFromEntry(first, core.CutWhere(core.AnyFact(core.IsNilFact(isSess), core.IsNilFact(isEnc))))
		c.Check(reach, "verified-session-served@"+fname(f), posOf(first), "a request of a verified session reaches the handler body", "the handler's own session test turns verified sessions away (test inverted): no controller can read or write characteristics")
	}
	// the decoding error of the request body: failure answers with an error status, success goes on
	core.Instrs(f, func(i ssa.Instruction) {
		call, ok := i.(*ssa.Call)
		if !ok || core.Callee(call) == nil || cn(core.Callee(call)) != "JSONDecode" {
			return
		}
		failed := core.NonNilFact(func(v ssa.Value) bool {
			return v == ssa.Value(call) || core.AnySource(v, func(s ssa.Value) bool { return s == ssa.Value(call) })
		})
		good := true
		n := 0
		core.Instrs(f, func(j ssa.Instruction) {
			if core.IsCall(j, "(*"+tChar+").UpdateValueFromConnection") || core.IsInvoke(j, qSession, "Subscribe") {
				n++
				// acting on the request needs the success edge: cut the failure edge and it must stay reachable; cut success and it must not
				if !core.ReachableFromEntry(j, core.CutWhere(failed)) {
					good = false
				}
				ok := core.IsNilFact(func(v ssa.Value) bool {
					return v == ssa.Value(call) || core.AnySource(v, func(s ssa.Value) bool { return s == ssa.Value(call) })
				})
				if core.ReachableFromEntry(j, core.CutWhere(ok)) {
					good = false
				}
			}
		})
		c.Check(good && n > 0, "put-decode-error-polarity@"+fname(f), posOf(call), "the request is acted on exactly where decoding succeeded", "the decoding error of the request body is tested the wrong way round (or not at all): well-formed requests are answered with an error, malformed ones are acted on with zero values")
	})
}

// wrapperErrors: the helper functions the step handlers of a pairing controller call (session methods, crypto wrappers) hand the
// errors of the primitives they call back to the handler. The handlers decide on those errors (proofFacts, errNilFact): a wrapper
// that answers nil after its primitive refused (a shadowed result, a test the wrong way round, a dropped result) makes every
// handler-side guard vacuous — e.g. an SRP public key A with A mod N == 0 refused by ComputeKey but accepted by the wrapper leaves
// the session key empty, and the proof of an empty key can be computed by anyone.
//
//	(a) errorTestPolarity on every module function reachable from the handlers (not the handlers themselves);
//	(b) in those functions, the error result of every call is used: tested, returned, passed on or stored — never discarded.
func wrapperErrors(c *core.Ctx, ctrl, typ string) {
	p := c.P
	mo := buildStepModel(p, "hap/pair", ctrl, typ)
	if mo == nil || len(mo.handlers) == 0 {
		c.Undecided("wrapper-errors:"+ctrl, token.NoPos, "step handlers not found")
		return
	}
	isHandler := map[*ssa.Function]bool{mo.handle: true}
	for _, h := range mo.handlers {
		isHandler[h] = true
	}
	n := 0
	for _, f := range core.SortedFuncs(p.ReachableFuncs(mo.handlers...)) {
		if isHandler[f] || !core.InModule(f) || f.Blocks == nil || isTestFunc(p, f) || !core.IsLibraryPkg(pkgPathOf(f)) {
			continue
		}
		if pp := pkgPathOf(f); strings.HasSuffix(pp, "/log") || strings.HasSuffix(pp, "/util") || strings.HasSuffix(pp, "/db") {
			continue // logging; containers and storage have their own rules (C16, C18)
		}
		nres := f.Signature.Results().Len()
		if nres == 0 || f.Signature.Results().At(nres-1).Type().String() != "error" {
			continue
		}
		n++
		errorTestPolarity(c, f, nil)
		core.Instrs(f, func(i ssa.Instruction) {
			call, ok := i.(*ssa.Call)
			if !ok {
				return
			}
			sig := call.Call.Signature()
			k := sig.Results().Len()
			if k == 0 || sig.Results().At(k-1).Type().String() != "error" {
				return
			}
			used := false
			if k == 1 {
				used = len(*call.Referrers()) > 0
			} else {
				for _, r := range *call.Referrers() {
					if ex, isEx := r.(*ssa.Extract); isEx && ex.Index == k-1 && len(*ex.Referrers()) > 0 {
						used = true
					}
				}
			}
			c.Check(used, "error-used@"+fname(f)+"/"+calleeLabel(call), posOf(call), "the error of the call is used", "the error result of a call in "+fname(f)+" is discarded: the handler that relies on this helper never learns that the primitive refused")
		})
	}
	c.Count("wrapper_functions:"+ctrl, n)
	if n == 0 {
		c.Undecided("wrapper-errors:"+ctrl, token.NoPos, "no error-returning helper reachable from the step handlers")
	}
}

func calleeLabel(call *ssa.Call) string {
	if f := call.Call.StaticCallee(); f != nil {
		return f.Name()
	}
	if call.Call.IsInvoke() {
		return call.Call.Method.Name()
	}
	return "dynamic"
}

// sameCallCount: n is the first result (the byte count) of the call whose last result is the error ev.
func sameCallCount(n, ev ssa.Value) bool {
	en, ok := n.(*ssa.Extract)
	if !ok || en.Index != 0 {
		return false
	}
	for _, s := range core.Sources(ev) {
		if ee, ok := s.(*ssa.Extract); ok && ee.Tuple == en.Tuple && ee.Index != 0 {
			return true
		}
	}
	return false
}

// sameCellUnchanged: a and b are loads of the same local variable (a named result, a variable spilled because of a defer), and the
// path does not assign the variable from block k on: the value returned is the value that was tested.
func sameCellUnchanged(pa core.Path, k int, a, b ssa.Value) bool {
	ua, ok1 := a.(*ssa.UnOp)
	ub, ok2 := b.(*ssa.UnOp)
	if !ok1 || !ok2 || ua.Op != token.MUL || ub.Op != token.MUL || ua.X != ub.X {
		return false
	}
	if _, isAlloc := ua.X.(*ssa.Alloc); !isAlloc {
		return false
	}
	for m := k + 1; m < len(pa); m++ {
		for _, i := range pa[m].Instrs {
			if st, ok := i.(*ssa.Store); ok && st.Addr == ua.X {
				return false
			}
		}
	}
	return true
}

// infeasibleZeroCount: on path pa, at block k, the branch "v == 0" is taken although v (resolved on the path) is a sum of byte counts
// one of which belongs to a full read (io.ReadFull / binary.Read) of a buffer of constant, non-zero size that the path has passed
// successfully — a later stream read follows it on the path. Such a count equals the buffer size; the sum cannot be zero. (Path
// enumeration knows nothing of arithmetic; without this a helper that reports "bytes consumed so far" as n1+n2+n3 produces the
// phantom path "the second read failed and nothing was consumed".)
func infeasibleZeroCount(pa core.Path, k int, v ssa.Value) bool {
	v = pa.ResolveAt(k, v)
	var leaves []ssa.Value
	var walk func(x ssa.Value, d int)
	walk = func(x ssa.Value, d int) {
		if b, ok := x.(*ssa.BinOp); ok && b.Op == token.ADD && d > 0 {
			walk(pa.ResolveAt(k, b.X), d-1)
			walk(pa.ResolveAt(k, b.Y), d-1)
			return
		}
		leaves = append(leaves, x)
	}
	walk(v, 4)
	if len(leaves) < 2 {
		return false
	}
	for _, l := range leaves {
		e, ok := l.(*ssa.Extract)
		if !ok || e.Index != 0 {
			continue
		}
		call, ok := e.Tuple.(*ssa.Call)
		if !ok || !core.IsCall(call, "io.ReadFull") {
			continue
		}
		// buffer of constant positive size: a slice of a local array
		sized := false
		if sl, ok := call.Call.Args[1].(*ssa.Slice); ok {
			if pt, ok := sl.X.Type().Underlying().(*types.Pointer); ok {
				if arr, ok := pt.Elem().Underlying().(*types.Array); ok && arr.Len() > 0 {
					sized = true
				}
			}
		}
		if !sized {
			continue
		}
		// a later stream read on the path up to k: the call succeeded
		seen, later := false, false
		for m := 0; m <= k; m++ {
			for _, i := range pa[m].Instrs {
				if i == ssa.Instruction(call) {
					seen = true
					continue
				}
				if seen {
					if _, _, isRead := isStreamRead(i); isRead {
						later = true
					}
				}
			}
		}
		if later {
			return true
		}
	}
	return false
}

// cellValueAt: v is a load of a local variable (a named result, a variable spilled because of a defer); the value stored to it last on
// the path, up to the load (block k). nil if v is no such load or nothing was stored.
func cellValueAt(pa core.Path, k int, v ssa.Value) ssa.Value {
	u, ok := v.(*ssa.UnOp)
	if !ok || u.Op != token.MUL {
		return v
	}
	a, ok := u.X.(*ssa.Alloc)
	if !ok {
		return v
	}
	var last ssa.Value
	for m := 0; m <= k && m < len(pa); m++ {
		for _, i := range pa[m].Instrs {
			if i == ssa.Instruction(u) {
				return last
			}
			if st, isSt := i.(*ssa.Store); isSt && st.Addr == ssa.Value(a) {
				last = pa.ResolveAt(m, st.Val)
			}
		}
	}
	return last
}

// polarityShadowDismissed: functions in which an outer error variable, already found nil, is handed back after an inner call failed —
// looked at and dismissed, with the reason. One symbol per line.
var polarityShadowDismissed = map[string]string{
	"hap/pair.NewSetupServerSession": "the inner `salt, v, err :=` shadows the outer err: (nil, nil) is returned only if srp.ComputeVerifier fails, which takes a failing random source — outside every quantifier (dismissed in the fourth hunt)",
}

package rules

import (
	"go/constant"
	"go/token"
	"go/types"
	"sort"
	"strings"

	"golang.org/x/tools/go/ssa"

	"hcsa/core"
)

func init() {
	register(&core.Property{
		ID:    "C11",
		Level: "other",
		Explanation: "Dominance of the permission predicates over the effects they protect. In (*Characteristic).updateValue the store to Value and both callback fan-outs are dominated by " +
			"'checkPerms is false or IsWritable() is true' on every path (including the same-value / updateOnSameValue paths), and the store additionally by IsReadable(); UpdateValueFromConnection passes the constant " +
			"true for checkPerms; Value is written nowhere else. Every Session.Subscribe call site is dominated by the true branch of IsObservable() of the characteristic being subscribed, whatever the dynamic type of the " +
			"'ev' member; the rejecting branch answers with a status. The HTTP layer calls only the permission-checking API of Characteristic. The three predicates scan Perms for pr / pw / ev.",
		Assumptions: []string{"C15: every constructor builds on NewCharacteristic and sets Perms from the Perm* constants"},
		NotDecided:  []string{"custom permission sets built at run time (same gate code)", "JSON decoding"},
		NeedsCG:     true,
		Rules: []core.Rule{
			{ID: "C11-R1", Title: "write gate dominates store and callbacks; remote path passes checkPerms=true", Decides: "a remote write without write permission changes nothing and invokes no callback", Floor: 4, Run: c11r1},
			{ID: "C11-R2", Title: "read gate dominates the store; Value has a single writer", Decides: "a characteristic without read permission never stores a value", Floor: 2, Run: c11r2},
			{ID: "C11-R3", Title: "event gate dominates every Subscribe", Decides: "subscription without event permission is rejected with a status", Floor: 2, Run: func(c *core.Ctx) { c11r3(c); hapConstantsTable(c) }},
			{ID: "C11-R4", Title: "the HTTP layer is confined to the permission-checking API", Decides: "both update paths go through the gates", Floor: 1, Run: c11r4},
			{ID: "C11-R5", Title: "predicate <-> permission constant table", Decides: "the gates test the right permission", Floor: 6, Run: func(c *core.Ctx) { c11r5(c); returnsUndecorated(c, "C11") }},
			{ID: "C11-R6", Title: "reads return only the stored value; subscriptions are per characteristic object (shared with C10-R4)", Decides: "no value revealed without read permission; no events without event permission", Floor: 5, Run: c11r6},
		},
	})
}

func updateValueEffects(f *ssa.Function) (store *ssa.Store, fanouts []ssa.Instruction) {
	core.Instrs(f, func(i ssa.Instruction) {
		if st, ok := i.(*ssa.Store); ok {
			if base, ok := core.FieldAddrOf(st.Addr, tChar, "Value"); ok && base == ssa.Value(f.Params[0]) {
				store = st
			}
		}
		cc := core.CallOf(i)
		if cc == nil {
			return
		}
		for _, a := range cc.Args {
			if isCallbackSlice(a, "connValueUpdateFuncs") {
				fanouts = append(fanouts, i)
			}
			if isCallbackSlice(a, "valueChangeFuncs") {
				fanouts = append(fanouts, i)
			}
		}
		if dispatchesCallbacksOf(cc, f.Params[0]) {
			fanouts = append(fanouts, i)
		}
	})
	return
}

// isCallbackSlice: v is the named callback list of a characteristic — the field, a local holding it, a full slice of it.
func isCallbackSlice(v ssa.Value, field string) bool {
	if _, ok := core.FieldLoad(v, tChar, field); ok {
		return true
	}
	return core.AnySource(v, func(s ssa.Value) bool { _, ok := core.FieldLoad(s, tChar, field); return ok })
}

// dispatchesCallbacksOf: the call hands the characteristic ch to a module function that runs the callbacks registered on that
// parameter itself ( c.onValueUpdate(new, old)  with  for _, fn := range c.valueChangeFuncs { fn(c, new, old) }  inside ).
func dispatchesCallbacksOf(cc *ssa.CallCommon, ch ssa.Value) bool {
	h := cc.StaticCallee()
	if h == nil || !core.InModule(h) || h.Blocks == nil {
		return false
	}
	for k, a := range cc.Args {
		if a != ch || k >= len(h.Params) {
			continue
		}
		pr := h.Params[k]
		found := false
		core.Instrs(h, func(j ssa.Instruction) {
			dc := core.CallOf(j)
			if dc == nil || dc.IsInvoke() || dc.StaticCallee() != nil {
				return
			}
			if _, isBuiltin := dc.Value.(*ssa.Builtin); isBuiltin {
				return
			}
			if core.AnySource(dc.Value, func(s ssa.Value) bool {
				u, ok := s.(*ssa.UnOp)
				if !ok {
					return false
				}
				ia, ok := u.X.(*ssa.IndexAddr)
				if !ok {
					return false
				}
				return core.AnySource(ia.X, func(sv ssa.Value) bool {
					b1, a := core.FieldLoad(sv, tChar, "connValueUpdateFuncs")
					b2, b := core.FieldLoad(sv, tChar, "valueChangeFuncs")
					return (a && b1 == ssa.Value(pr)) || (b && b2 == ssa.Value(pr))
				})
			}) {
				found = true
			}
		})
		if found {
			return true
		}
	}
	return false
}

func c11r1(c *core.Ctx) {
	p := c.P
	f := p.Func("characteristic", "(*Characteristic).updateValue")
	if f == nil {
		c.Undecided("updateValue", token.NoPos, "not found")
		return
	}
	var checkPerms *ssa.Parameter
	for _, pr := range f.Params {
		if b, ok := pr.Type().Underlying().(*types.Basic); ok && b.Kind() == types.Bool {
			checkPerms = pr
		}
	}
	if checkPerms == nil {
		c.Undecided("checkPerms@"+fname(f), f.Pos(), "no boolean permission-check parameter")
		return
	}
	gate := core.AnyFact(
		core.FalseFact(func(v ssa.Value) bool { return v == ssa.Value(checkPerms) }),
		core.TrueFact(func(v ssa.Value) bool {
			call, ok := v.(*ssa.Call)
			return ok && core.IsCall(call, "(*"+tChar+").IsWritable") && call.Call.Args[0] == ssa.Value(f.Params[0])
		}))
	store, fanouts := updateValueEffects(f)
	if store == nil || len(fanouts) < 2 {
		c.Undecided("effects@"+fname(f), f.Pos(), "value store or callback fan-outs not found")
		return
	}
	c.Check(core.Dominated(store, gate), "write-gate/store@"+fname(f), store.Pos(), "the store is dominated by !checkPerms || IsWritable()", "the value store is reachable with checkPerms set on a characteristic that is not writable")
	for k, fo := range fanouts {
		c.Check(core.Dominated(fo, gate), "write-gate/callbacks@"+fname(f)+"#"+string(rune('1'+k)), posOf(fo), "the callbacks are dominated by !checkPerms || IsWritable()",
			"callbacks are reachable with checkPerms set on a characteristic that is not writable (on some path the permission test is skipped): a remote write to a read-only characteristic invokes application callbacks and notifies other controllers")
	}
	// constant arguments
	for _, spec := range []struct {
		name string
		want int64
	}{{"UpdateValueFromConnection", 1}} {
		g := p.Func("characteristic", "(*Characteristic)."+spec.name)
		if g == nil {
			c.Undecided(spec.name, token.NoPos, "not found")
			continue
		}
		ok := false
		idx := -1
		for k, pr := range f.Params {
			if pr == checkPerms {
				idx = k
			}
		}
		core.Instrs(g, func(i ssa.Instruction) {
			if core.Callee(i) == f {
				if n, isK := core.ConstInt(core.CallOf(i).Args[idx]); isK && n == spec.want {
					ok = true
				}
			}
		})
		c.Check(ok, "checkPerms-constant@"+fname(g), g.Pos(), "the remote update API passes checkPerms = true", "the remote update API does not pass checkPerms = true")
	}
	// every other caller of updateValue with checkPerms=false must not be reachable from the remote write path with a peer value:
	// the HTTP layer may only use UpdateValueFromConnection (C11-R4). getValue's internal call uses the application's own getter value.
	for _, e := range p.CallersOf(f) {
		cf := e.Caller.Func
		if isTestFunc(p, cf) {
			continue
		}
		c.Note("updateValue-caller@"+fname(cf), e.Pos(), "caller of updateValue")
	}
}

func c11r2(c *core.Ctx) {
	p := c.P
	f := p.Func("characteristic", "(*Characteristic).updateValue")
	if f == nil {
		c.Undecided("updateValue", token.NoPos, "not found")
		return
	}
	store, _ := updateValueEffects(f)
	if store == nil {
		c.Undecided("value-store", f.Pos(), "not found")
		return
	}
	readable := core.TrueFact(func(v ssa.Value) bool {
		call, ok := v.(*ssa.Call)
		return ok && core.IsCall(call, "(*"+tChar+").IsReadable") && call.Call.Args[0] == ssa.Value(f.Params[0])
	})
	c.Check(core.Dominated(store, readable), "read-gate/store@"+fname(f), store.Pos(), "the store is dominated by IsReadable()", "a value can be stored in a characteristic without read permission (and is then revealed by /accessories and events)")
	n := 0
	for _, st := range p.FieldStores(tChar, "Value") {
		g := st.Parent()
		if isTestFunc(p, g) || !core.IsLibraryPkg(pkgPathOf(g)) {
			continue
		}
		n++
		c.Check(g == f, "write:Characteristic.Value@"+fname(g), st.Pos(), "Value is written only by updateValue", "Characteristic.Value is written outside updateValue, bypassing the permission gates")
	}
	c.Count("value_store_sites", n)
}

func c11r3(c *core.Ctx) {
	p := c.P
	n := 0
	for _, f := range libFuncs(p) {
		for _, s := range core.FindCalls(f, func(i ssa.Instruction) bool { return core.IsInvoke(i, qSession, "Subscribe") }) {
			n++
			ch := core.Args(s)[0]
			observable := core.TrueFact(func(v ssa.Value) bool {
				call, ok := v.(*ssa.Call)
				return ok && core.IsCall(call, "(*"+tChar+").IsObservable") && sameValue(call.Call.Args[0], ch)
			})
			c.Check(core.Dominated(s, observable), "event-gate@"+fname(f)+"#"+string(rune('0'+n)), posOf(s), "Subscribe is dominated by the true branch of IsObservable() of the same characteristic",
				"a Subscribe call is reachable without the true branch of IsObservable() of the characteristic being subscribed: a subscription on a characteristic without event permission is accepted")
		}
	}
	if n == 0 {
		c.Undecided("subscribe-sites", token.NoPos, "no Subscribe call site")
		return
	}
	// the rejecting branch answers with a status
	f := p.Func("hap/http", "(*Server).Characteristics")
	if f == nil {
		return
	}
	ok := false
	core.Instrs(f, func(i ssa.Instruction) {
		call, isC := i.(*ssa.Call)
		if !isC || !core.IsCall(call, "(*"+tChar+").IsObservable") {
			return
		}
		// find the If on it and look down its false successor for a Status store followed by an append
		for _, r := range *call.Referrers() {
			iff, isIf := r.(*ssa.If)
			if !isIf {
				continue
			}
			// every way from the rejecting edge to the next entry or the end of the handler stores a status and appends an answer
			// (phi-aware walk: the rejection may travel through a flag, as after  if !accepted { ... } )
			rej := iff.Block().Succs[1]
			every := func(hit func(ssa.Instruction) bool) bool {
				escaped := false
				core.Explore(rej, core.PredIndex(iff.Block(), 1), nil, func(b *ssa.BasicBlock) bool {
					for _, x := range b.Instrs {
						if hit(x) {
							return false
						}
					}
					if len(b.Succs) == 0 || b == iff.Block() {
						escaped = true
						return false
					}
					return true
				})
				return !escaped
			}
			hasStatus := every(func(x ssa.Instruction) bool {
				if st, isSt := x.(*ssa.Store); isSt {
					if fa, isFa := st.Addr.(*ssa.FieldAddr); isFa && fieldNameOf(fa) == "Status" && !core.IsNilConst(st.Val) {
						return true
					}
				}
				return false
			})
			hasAppend := every(func(x ssa.Instruction) bool {
				if cc, isCall := x.(*ssa.Call); isCall {
					if b, isB := cc.Call.Value.(*ssa.Builtin); isB && b.Name() == "append" {
						return true
					}
				}
				return false
			})
			if hasStatus && hasAppend {
				ok = true
			}
		}
	})
	c.Check(ok, "event-gate/rejection-status@"+fname(f), f.Pos(), "the not-observable branch appends an answer with a status", "the not-observable branch does not answer with a status")
}

func c11r4(c *core.Ctx) {
	p := c.P
	allowed := map[string]bool{"GetValueFromConnection": true, "UpdateValueFromConnection": true, "IsObservable": true, "IsReadable": true, "IsWritable": true} // the permission predicates themselves are pure (C11-R5)
	used := map[string]bool{}
	bad := 0
	for _, f := range libFuncs(p) {
		pp := pkgPathOf(f)
		if pp != mod+"/hap/http" && pp != mod+"/hap/endpoint" {
			continue
		}
		core.Instrs(f, func(i ssa.Instruction) {
			g := core.Callee(i)
			if g == nil || !core.TypeIs(recvType(g), tChar) {
				return
			}
			if _, isDefer := i.(*ssa.Defer); isDefer {
				return
			}
			used[cn(g)] = true
			if !allowed[cn(g)] {
				bad++
				c.Bad("http-uses:"+cn(g)+"@"+fname(f), posOf(i), "the HTTP layer calls Characteristic.%s, which is not part of the permission-checking API", cn(g))
			}
		})
		// no direct field writes to a Characteristic from the HTTP layer
		core.Instrs(f, func(i ssa.Instruction) {
			if st, ok := i.(*ssa.Store); ok {
				if fa, ok := st.Addr.(*ssa.FieldAddr); ok && core.TypeIs(fa.X.Type(), tChar) {
					bad++
					c.Bad("http-writes-field@"+fname(f), st.Pos(), "the HTTP layer writes a field of Characteristic directly")
				}
			}
		})
	}
	if bad == 0 {
		var names []string
		for k := range used {
			names = append(names, k)
		}
		sort.Strings(names)
		c.OK("http-confined", token.NoPos, "hap/http and hap/endpoint use only %s of Characteristic", strings.Join(names, ", "))
	}
}

func c11r5(c *core.Ctx) {
	permPredicatePolarity(c)
	p := c.P
	pk := p.Pkg("characteristic")
	if pk == nil {
		c.Undecided("characteristic", token.NoPos, "package not found")
		return
	}
	want := map[string]string{"PermRead": "pr", "PermWrite": "pw", "PermEvents": "ev"}
	for name, v := range want {
		k, _ := pk.Types.Scope().Lookup(name).(*types.Const)
		ok := k != nil && k.Val().Kind() == constant.String && constant.StringVal(k.Val()) == v
		c.Check(ok, "const:"+name, token.NoPos, name+" = \""+v+"\"", name+" is not \""+v+"\"")
	}
	for pred, perm := range map[string]string{"IsReadable": "pr", "IsWritable": "pw", "IsObservable": "ev"} {
		f := p.Func("characteristic", "(*Characteristic)."+pred)
		if f == nil {
			c.Undecided(pred, token.NoPos, "not found")
			continue
		}
		// follow one level of helper; find a comparison of an element of Perms with the constant
		ok := false
		var scan func(g *ssa.Function, permsArg func(ssa.Value) bool, depth int)
		scan = func(g *ssa.Function, isPerms func(ssa.Value) bool, depth int) {
			core.Instrs(g, func(i ssa.Instruction) {
				if b, isB := i.(*ssa.BinOp); isB && (b.Op == token.EQL || b.Op == token.NEQ) { // polarity: perm-predicate-polarity
					for _, pair := range [][2]ssa.Value{{b.X, b.Y}, {b.Y, b.X}} {
						if s, isK := core.ConstString(pair[1]); isK && s == perm {
							if core.AnySource(pair[0], func(v ssa.Value) bool {
								u, ok := v.(*ssa.UnOp)
								if !ok {
									return false
								}
								ia, ok := u.X.(*ssa.IndexAddr)
								return ok && isPerms(ia.X)
							}) {
								ok = true
							}
						}
					}
				}
				if call, isC := i.(*ssa.Call); isC && depth > 0 {
					h := call.Call.StaticCallee()
					if h != nil && core.InModule(h) && h.Blocks != nil {
						for k, a := range call.Call.Args {
							if isPerms(a) {
								kk := k
								scan(h, func(v ssa.Value) bool { return valIs(v, h.Params[kk]) }, depth-1)
							}
							// the characteristic itself is handed on ( readPerm(c) ): the helper scans the Perms of that parameter
							if g == f && a == ssa.Value(f.Params[0]) && k < len(h.Params) {
								kk := k
								scan(h, func(v ssa.Value) bool {
									return core.AllSources(v, func(s ssa.Value) bool {
										b, ok := core.FieldLoad(s, tChar, "Perms")
										return ok && b == ssa.Value(h.Params[kk])
									})
								}, depth-1)
							}
						}
					}
				}
			})
		}
		// the scanned list is the receiver's Perms field and nothing else (a substituted default list grants permissions the
		// published characteristic does not carry)
		var isRecvPerms func(v ssa.Value, depth int) bool
		isRecvPerms = func(v ssa.Value, depth int) bool {
			if depth > 4 {
				return false
			}
			// a copy of the list ( append([]string(nil), c.Perms...) ) is the list
			if call, ok := v.(*ssa.Call); ok {
				if b, isB := call.Call.Value.(*ssa.Builtin); isB && b.Name() == "append" && len(call.Call.Args) == 2 && emptySlice(call.Call.Args[0]) {
					return isRecvPerms(call.Call.Args[1], depth+1)
				}
			}
			return core.AllSources(v, func(s ssa.Value) bool {
				if s != v {
					if call, ok := s.(*ssa.Call); ok {
						if b, isB := call.Call.Value.(*ssa.Builtin); isB && b.Name() == "append" {
							return isRecvPerms(s, depth+1)
						}
					}
				}
				b, ok := core.FieldLoad(s, tChar, "Perms")
				return ok && b == ssa.Value(f.Params[0])
			})
		}
		scan(f, func(v ssa.Value) bool { return isRecvPerms(v, 0) }, 2)
		// the predicate returns true only from that comparison's true branch: the helper returns constant true there
		c.Check(ok, "predicate:"+pred, f.Pos(), pred+" scans c.Perms for \""+perm+"\"", pred+" does not test the receiver's Perms for \""+perm+"\"")
	}
}

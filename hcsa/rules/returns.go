package rules

// Undecorated returns.
//
// The third sweep of the checker's blind spots (`hcsa mutate all -files @lib -ops ret-transform`: every returned expression is negated,
// incremented, cut to nothing or extended — whichever fits its type; 145 of 175 compiling variants went unnoticed) showed the mirror
// image of the pass-through gap: rules establish where a value comes from and what guards it, and then take the small function that
// hands it out — a predicate wrapper, a typed getter, an accessor, the last line of Marshal — at its word. `return !readPerm(c.Perms)`,
// `return !ed25519.Verify(…)`, `return b.Bytes()[:0]`, `return uint16(v) + 1` all compile, pass the suite's happy paths in places, and
// invert or empty what every caller relies on.
//
// The rule is the same for every function in the table: what the function hands back at the given result position is a value it
// *obtained* — the result of a call, a field, a parameter, an element, a constant, an assertion or conversion of one of those, or a
// merge of such — and not one it *computed on the way out*: no arithmetic, no negation, no slice with a bound applied to it at the return.
// It does not say the function is right; it says that the last step is not where it goes wrong, which is where nothing else looks.

import (
	"go/token"
	"go/types"
	"strings"

	"golang.org/x/tools/go/ssa"

	"hcsa/core"
)

type retSpec struct {
	props    string
	rel, fn  string
	result   int
	closures bool // apply to the function literals inside fn instead of fn itself (typed get callbacks)
	why      string
}

var retTable = []retSpec{
	// permissions (C11): the predicates answer what the scan of Perms answered
	{"C11,C15", "characteristic", "(*Characteristic).IsReadable", 0, false, "answers what the scan for the read permission answered"},
	{"C11,C15", "characteristic", "(*Characteristic).IsWritable", 0, false, "answers what the scan for the write permission answered"},
	{"C11,C15", "characteristic", "(*Characteristic).IsObservable", 0, false, "answers what the scan for the event permission answered"},
	// signatures and keys (C02, C03, C04)
	{"C02,C03,C04", "crypto", "ValidateED25519Signature", 0, false, "answers what ed25519.Verify answered"},
	{"C04", "crypto", "ED25519Signature", 0, false, "hands back the signature ed25519.Sign made, whole"},
	{"C04,C20", "crypto", "ED25519GenerateKey", 0, false, "hands back the generated public key, whole"},
	{"C04,C20", "crypto", "ED25519GenerateKey", 1, false, "hands back the generated private key, whole"},
	{"C04,C20", "db", "generateKeyPairs", 0, false, "hands back the generated public key, whole"},
	{"C04,C20", "db", "generateKeyPairs", 1, false, "hands back the generated private key, whole"},
	{"C04,C20", "hap", "(*device).Name", 0, false, "the name of the stored entity"},
	{"C04,C20", "hap", "(*device).PrivateKey", 0, false, "the private key of the stored entity, whole"},
	{"C04,C20", "hap", "(*device).PublicKey", 0, false, "the public key of the stored entity, whole"},
	{"C02,C20", "hap", "(*securedDevice).Pin", 0, false, "the pin it was made with"},
	// values (C09, C12)
	{"C09,C12", "characteristic", "(*Characteristic).convert", 0, false, "hands back the converted value as the conversion made it"},
	{"C09", "characteristic", "(*Int).GetValue", 0, false, "the stored value, asserted"},
	{"C09", "characteristic", "(*Float).GetValue", 0, false, "the stored value, asserted"},
	{"C09", "characteristic", "(*Bool).GetValue", 0, false, "the stored value, asserted"},
	{"C09", "characteristic", "(*String).GetValue", 0, false, "the stored value, asserted"},
	{"C09", "characteristic", "(*Bytes).GetValue", 0, false, "the decoded bytes, whole"},
	{"C09", "characteristic", "(*Int).OnValueRemoteGet", 0, true, "the application's value as it returned it"},
	{"C09", "characteristic", "(*Float).OnValueRemoteGet", 0, true, "the application's value as it returned it"},
	{"C09", "characteristic", "(*Bool).OnValueRemoteGet", 0, true, "the application's value as it returned it"},
	{"C09", "characteristic", "(*String).OnValueRemoteGet", 0, true, "the application's value as it returned it"},
	{"C09", "characteristic", "base64FromBytes", 0, false, "the encoding, whole"},
	{"C15", "characteristic", "(*Int).GetMinValue", 0, false, "the declared bound"},
	{"C15", "characteristic", "(*Int).GetMaxValue", 0, false, "the declared bound"},
	{"C15", "characteristic", "(*Int).GetStepValue", 0, false, "the declared step"},
	{"C15", "characteristic", "(*Float).GetMinValue", 0, false, "the declared bound"},
	{"C15", "characteristic", "(*Float).GetMaxValue", 0, false, "the declared bound"},
	{"C15", "characteristic", "(*Float).GetStepValue", 0, false, "the declared step"},
	// struct codec (C17)
	{"C17", "tlv8", "Marshal", 0, false, "the bytes the encoder wrote, whole"},
	{"C17", "tlv8", "(*writer).bytes", 0, false, "the buffer, whole"},
	{"C17", "tlv8", "structPayload", 0, false, "the bytes written for the struct, whole"},
	{"C17", "tlv8", "slicePayload", 0, false, "the bytes written for the list, whole"},
	{"C17", "tlv8", "(*reader).readByte", 0, false, "the byte that was read"},
	{"C17", "tlv8", "(*reader).readString", 0, false, "the bytes that were read"},
	{"C17", "tlv8", "(*reader).readUint16", 0, false, "the number that was read"},
	{"C17", "tlv8", "(*reader).readUint32", 0, false, "the number that was read"},
	{"C17", "tlv8", "(*reader).readUint64", 0, false, "the number that was read"},
	{"C17", "tlv8", "(*reader).readint16", 0, false, "the number that was read"},
	{"C17", "tlv8", "(*reader).readint32", 0, false, "the number that was read"},
	{"C17", "tlv8", "(*reader).readint64", 0, false, "the number that was read"},
	{"C17", "tlv8", "(*reader).readFloat32", 0, false, "the number that was read"},
	// TLV8 container (C16, C04)
	{"C16,C04", "util", "(*tlv8Container).GetByte", 0, false, "the byte that was read"},
	{"C16,C04", "util", "(*tlv8Container).GetBytes", 0, false, "the bytes of the tag, whole"},
	{"C16,C04", "util", "(*tlv8Container).GetString", 0, false, "the bytes of the tag, whole"},
	{"C16,C04", "util", "(*tlv8Container).BytesBuffer", 0, false, "the buffer that was written"},
	// storage (C18), configuration (C20)
	{"C18", "util", "(*fileStorage).Get", 0, false, "the bytes that were read, whole"},
	{"C18", "util", "(*fileStorage).dir", 0, false, "the directory of the storage"},
	{"C20", "accessory", "(*Container).ContentHash", 0, false, "the digest, whole"},
	{"C07,C04", "hap", "(*Connection).DecryptedRead", 0, false, "the count the message buffer reported"},
	{"C08,C09", "hap", "(*Connection).EncryptedWrite", 0, false, "the count the socket reported"},
	{"C10", "hap", "FixProtocolSpecifier", 0, false, "the whole notification with its first line rewritten"},
	// framing and writes (C06, C08, C09), fan-out (C10), lists (C14)
	{"C06", "crypto", "packetsFromBytes", 0, false, "the packets that were cut, all of them"},
	{"C06", "crypto", "packetsWithSizeFromBytes", 0, false, "the packets that were cut, all of them"},
	{"C10", "hap", "(*context).ActiveConnections", 0, false, "the connections that were collected, all of them"},
	{"C14,C09", "accessory", "(*Accessory).GetServices", 0, false, "the services, all of them"},
	{"C14,C09", "service", "(*Service).GetCharacteristics", 0, false, "the characteristics, all of them"},
}

func returnsUndecorated(c *core.Ctx, prop string) {
	n := 0
	for _, sp := range retTable {
		use := false
		for _, p := range strings.Split(sp.props, ",") {
			if p == prop {
				use = true
			}
		}
		if !use {
			continue
		}
		n++
		returnsUndecoratedOne(c, sp)
	}
	c.Count("undecorated_return_entries", n)
}

func returnsUndecoratedOne(c *core.Ctx, sp retSpec) {
	p := c.P
	f := p.Func(sp.rel, sp.fn)
	key := "returns-undecorated:" + sp.fn
	if sp.result > 0 {
		key += "#" + string(rune('0'+sp.result))
	}
	if f == nil || f.Blocks == nil {
		c.Note(key, token.NoPos, "the function does not exist on this tree: nothing to examine")
		return
	}
	fns := []*ssa.Function{f}
	if sp.closures {
		fns = f.AnonFuncs
		if len(fns) == 0 {
			c.Note(key, f.Pos(), "no function literal in it: nothing to examine")
			return
		}
	}
	var badAt ssa.Instruction
	var how string
	n := 0
	for _, g := range fns {
		core.Instrs(g, func(i ssa.Instruction) {
			r, ok := i.(*ssa.Return)
			if !ok {
				return
			}
			rs := res(r)
			if sp.result >= len(rs) {
				return
			}
			n++
			if d := decoration(rs[sp.result], 0, map[ssa.Value]bool{}); d != "" && badAt == nil {
				badAt, how = i, d
			}
		})
	}
	if n == 0 {
		c.Note(key, f.Pos(), "no return with this result")
		return
	}
	if badAt != nil {
		c.Bad(key, posOf(badAt), sp.fn+" — "+sp.why+": the value is changed at the return ("+how+"): every caller, and every rule that follows a value through this function, takes what comes back for what was obtained")
		return
	}
	c.OK(key, f.Pos(), "%s (%d return(s): obtained, not computed on the way out)", sp.why, n)
}

// decoration: "" when v is a value that was obtained (call result, field, parameter, element, constant, an assertion or conversion
// of one, a merge of such); otherwise what was done to it on the way out.
func decoration(v ssa.Value, depth int, seen map[ssa.Value]bool) string {
	if v == nil || depth > 10 || seen[v] {
		return ""
	}
	seen[v] = true
	switch x := v.(type) {
	case *ssa.BinOp:
		switch x.Op {
		case token.EQL, token.NEQ, token.LSS, token.LEQ, token.GTR, token.GEQ, token.LAND, token.LOR:
			// a comparison is how a predicate obtains its answer
			return ""
		case token.OR, token.AND, token.SHL, token.SHR, token.AND_NOT:
			// assembling a number from the bytes that were read (sign extension, shifts)
			if d := decoration(x.X, depth+1, seen); d != "" {
				return d
			}
			return decoration(x.Y, depth+1, seen)
		}
		return "arithmetic or concatenation: " + x.Op.String()
	case *ssa.UnOp:
		switch x.Op {
		case token.NOT:
			return "negation"
		case token.SUB, token.XOR:
			return "arithmetic: " + x.Op.String()
		case token.MUL:
			// a load: from a local variable follow what was stored; anything else is obtained
			if a, ok := x.X.(*ssa.Alloc); ok {
				for _, r := range *a.Referrers() {
					if st, isSt := r.(*ssa.Store); isSt && st.Addr == ssa.Value(a) {
						if d := decoration(st.Val, depth+1, seen); d != "" {
							return d
						}
					}
				}
			}
		}
		return ""
	case *ssa.Slice:
		bounded := x.High != nil || x.Max != nil
		if x.Low != nil {
			if k, isK := core.ConstInt(x.Low); !isK || k != 0 {
				bounded = true
			}
		}
		if _, fresh := x.X.(*ssa.Alloc); fresh && bounded {
			// make([]T, 0): an empty list to collect into
			return ""
		}
		if bounded {
			// buf[:n] with n the count of what was put into buf is how a reader obtains its bytes; a constant bound is a cut
			if x.High != nil {
				if _, isK := core.ConstInt(x.High); !isK {
					return decoration(x.X, depth+1, seen)
				}
			}
			return "a slice with a constant bound"
		}
		return decoration(x.X, depth+1, seen)
	case *ssa.Phi:
		for _, e := range x.Edges {
			if d := decoration(e, depth+1, seen); d != "" {
				return d
			}
		}
		return ""
	case *ssa.Convert:
		// numeric and string conversions are part of obtaining ( uint16(v), string(b) ); what is converted must be obtained
		return decoration(x.X, depth+1, seen)
	case *ssa.ChangeType:
		return decoration(x.X, depth+1, seen)
	case *ssa.MakeInterface:
		return decoration(x.X, depth+1, seen)
	case *ssa.ChangeInterface:
		return decoration(x.X, depth+1, seen)
	case *ssa.TypeAssert:
		return decoration(x.X, depth+1, seen)
	case *ssa.Extract:
		return ""
	case *ssa.Call:
		// append(list, x...) — the list that was collected; other calls: obtained
		if b, ok := x.Call.Value.(*ssa.Builtin); ok && b.Name() == "append" {
			return decoration(x.Call.Args[0], depth+1, seen)
		}
		return ""
	}
	_ = types.Typ
	return ""
}

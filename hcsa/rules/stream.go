package rules

import (
	"go/token"
	"go/types"
	"strings"

	"golang.org/x/tools/go/ssa"

	"hcsa/core"
)

const (
	tSecure = mod + "/crypto.secureSession"
	tConn   = mod + "/hap.Connection"
)

// allocOf returns the local allocation a slice/array value is carved from (nonce[:], bLength[:2] ...).
func allocOf(v ssa.Value) *ssa.Alloc {
	for {
		v = core.StripConv(v)
		switch x := v.(type) {
		case *ssa.Slice:
			v = x.X
		case *ssa.Alloc:
			return x
		case *ssa.UnOp:
			if x.Op == token.MUL {
				if a, ok := x.X.(*ssa.Alloc); ok {
					// load of a local slice variable: follow its single store
					var st *ssa.Store
					n := 0
					for _, r := range *a.Referrers() {
						if s, ok := r.(*ssa.Store); ok && s.Addr == a {
							st, n = s, n+1
						}
					}
					if n == 1 {
						v = st.Val
						continue
					}
					return a
				}
			}
			return nil
		default:
			return nil
		}
	}
}

// putUint finds the binary.ByteOrder.PutUintN call in fn that fills alloc a; returns value, bits, little-endian.
func putUint(fn *ssa.Function, a *ssa.Alloc) (val ssa.Value, bits int, little bool, call ssa.Instruction) {
	core.Instrs(fn, func(i ssa.Instruction) {
		f := core.Callee(i)
		if f == nil {
			return
		}
		q := core.QualName(f)
		if !strings.HasPrefix(q, "(encoding/binary.littleEndian).PutUint") && !strings.HasPrefix(q, "(encoding/binary.bigEndian).PutUint") {
			return
		}
		args := core.Args(i)
		if allocOf(args[0]) != a {
			return
		}
		val, call = args[1], i
		little = strings.Contains(q, "littleEndian")
		switch {
		case strings.HasSuffix(q, "PutUint16"):
			bits = 16
		case strings.HasSuffix(q, "PutUint32"):
			bits = 32
		case strings.HasSuffix(q, "PutUint64"):
			bits = 64
		}
	})
	if bits == 0 {
		val, bits, little = manualPut(a)
	}
	if bits == 0 {
		// the array is a copy of an array filled elsewhere ( nonce := frameNonce(count): the helper's local array is returned by value )
		if b := arrayCopySource(a); b != nil && b != a {
			return putUint(fn, b)
		}
	}
	// the buffer must be exactly as wide as the encoded value: PutUint16 into a 3-byte buffer puts 3 bytes on the wire / into the AAD
	if bits != 0 {
		if n, ok := knownLen(a); !ok || n*8 != int64(bits) {
			return nil, 0, false, nil
		}
	}
	return
}

// manualPut: the array a is filled element by element with  a[k] = byte(v >> 8k)  (little endian) or  byte(v >> 8(n-1-k))
// (big endian) for one value v and every k — what binary.ByteOrder.PutUintN does, written out (e.g. []byte{byte(v), byte(v >> 8)}).
func manualPut(a *ssa.Alloc) (val ssa.Value, bits int, little bool) {
	arr, ok := a.Type().(*types.Pointer).Elem().Underlying().(*types.Array)
	if !ok || arr.Len() < 2 || arr.Len() > 8 {
		return nil, 0, false
	}
	n := arr.Len()
	shift := map[int64]int64{}
	var v ssa.Value
	for _, r := range *a.Referrers() {
		ia, ok := r.(*ssa.IndexAddr)
		if !ok {
			continue
		}
		k, isK := core.ConstInt(ia.Index)
		if !isK {
			return nil, 0, false
		}
		for _, rr := range *ia.Referrers() {
			st, ok := rr.(*ssa.Store)
			if !ok || st.Addr != ssa.Value(ia) {
				continue
			}
			x := core.StripConv(st.Val)
			var base ssa.Value
			var sh int64
			if b, isB := x.(*ssa.BinOp); isB && b.Op == token.SHR {
				c, isC := core.ConstInt(b.Y)
				if !isC {
					return nil, 0, false
				}
				base, sh = core.StripConv(b.X), c
			} else {
				base, sh = x, 0
			}
			if v == nil {
				v = base
			} else if v != base && !sameLoad(v, base) && !sameValue(v, base) {
				return nil, 0, false
			}
			if _, dup := shift[k]; dup {
				return nil, 0, false
			}
			shift[k] = sh
		}
	}
	if int64(len(shift)) != n || v == nil {
		return nil, 0, false
	}
	le, be := true, true
	for k := int64(0); k < n; k++ {
		if shift[k] != 8*k {
			le = false
		}
		if shift[k] != 8*(n-1-k) {
			be = false
		}
	}
	if !le && !be {
		return nil, 0, false
	}
	return v, int(8 * n), le
}

// isStreamRead: binary.Read(r, order, &x) / io.ReadFull(r, buf) / io.ReadAtLeast on reader value r.
func isStreamRead(i ssa.Instruction) (target ssa.Value, reader ssa.Value, ok bool) {
	switch {
	case core.IsCall(i, "encoding/binary.Read"):
		a := core.Args(i)
		return core.StripConv(a[2]), a[0], true
	case core.IsCall(i, "io.ReadFull"):
		a := core.Args(i)
		return a[1], a[0], true
	case core.IsCall(i, "io.ReadAtLeast"):
		a := core.Args(i)
		return a[1], a[0], true
	}
	return nil, nil, false
}

// counterModel walks a path and checks the counter-as-nonce discipline for AEAD calls.
// field is encryptCount/decryptCount; aead selects the AEAD call. It returns the list of nonce
// offsets used by the successive AEAD calls on the path, and whether every store was "+1".
func counterOnPath(pa core.Path, fn *ssa.Function, field string, aead func(ssa.Instruction) bool, nonceArg int) (offsets []int, plusOne bool, nonceFromCounter bool) {
	plusOne, nonceFromCounter = true, true
	off := 0
	nonceOff := map[*ssa.Alloc]int{}
	pa.Instrs(func(i ssa.Instruction) {
		if st, ok := i.(*ssa.Store); ok {
			// a nonce array handed on by value ( nonce := frameNonce(count) ) keeps the counter position it was filled at
			if dst, isA := st.Addr.(*ssa.Alloc); isA {
				if ld, isL := st.Val.(*ssa.UnOp); isL && ld.Op == token.MUL {
					if src, isA2 := ld.X.(*ssa.Alloc); isA2 {
						if o, known := nonceOff[src]; known {
							nonceOff[dst] = o
						}
					}
				}
			}
			if _, ok := core.FieldAddrOf(st.Addr, tSecure, field); ok {
				b, isB := st.Val.(*ssa.BinOp)
				one := false
				if isB && b.Op == token.ADD {
					if n, ok := core.ConstInt(b.Y); ok && n == 1 {
						if _, ok := core.FieldLoad(b.X, tSecure, field); ok {
							one = true
						}
					}
				}
				if !one {
					plusOne = false
				}
				off++
			}
			return
		}
		if f := core.Callee(i); f != nil && strings.Contains(core.QualName(f), "Endian).PutUint64") {
			args := core.Args(i)
			if a := allocOf(args[0]); a != nil {
				if _, ok := core.FieldLoad(args[1], tSecure, field); ok {
					nonceOff[a] = off
				} else {
					nonceOff[a] = -1000
				}
			}
			return
		}
		if core.CallOf(i) != nil && aead(i) {
			a := allocOf(core.Args(i)[nonceArg])
			o, ok := nonceOff[a]
			if !ok || o < 0 {
				nonceFromCounter = false
				o = -1
			}
			offsets = append(offsets, o)
		}
	})
	return
}

// hasMethod reports whether type t has a method with the given name (value or pointer receiver set of t).
func hasMethod(p *core.Program, t types.Type, name string) bool {
	ms := p.SSA.MethodSets.MethodSet(t)
	for i := 0; i < ms.Len(); i++ {
		if ms.At(i).Obj().Name() == name {
			return true
		}
	}
	return false
}

// blockReachable: is `to` reachable from any successor of `from` (or later in the same block when same block)?
func reachesAfter(from, to ssa.Instruction) bool {
	fb, tb := from.Block(), to.Block()
	if fb == tb {
		fi, ti := -1, -1
		for k, i := range fb.Instrs {
			if i == from {
				fi = k
			}
			if i == to {
				ti = k
			}
		}
		if fi < ti {
			return true
		}
	}
	seen := map[*ssa.BasicBlock]bool{}
	work := append([]*ssa.BasicBlock{}, fb.Succs...)
	for len(work) > 0 {
		b := work[len(work)-1]
		work = work[:len(work)-1]
		if seen[b] {
			continue
		}
		seen[b] = true
		if b == tb {
			return true
		}
		work = append(work, b.Succs...)
	}
	return false
}

// instrDominates: every path from the function entry to `to` executes `from` first.
func instrDominates(from, to ssa.Instruction) bool {
	fb, tb := from.Block(), to.Block()
	if fb == tb {
		for _, i := range fb.Instrs {
			if i == from {
				return true
			}
			if i == to {
				return false
			}
		}
		return false
	}
	fn := from.Parent()
	if fn.Blocks[0] == fb {
		return true
	}
	reach := core.Reach(fn.Blocks[0], nil, func(b *ssa.BasicBlock) bool { return b == fb })
	return !reach[tb]
}

// inCriticalSection: instruction i of fn executes with the mutex field (typ.field) held:
// a Lock on that field dominates i, and no explicit (non-deferred) Unlock of it can run between the Lock and i.
func inCriticalSection(fn *ssa.Function, i ssa.Instruction, isMutex func(ssa.Value) bool) (bool, string) {
	var locks, unlocks []ssa.Instruction
	core.Instrs(fn, func(x ssa.Instruction) {
		if _, isDefer := x.(*ssa.Defer); isDefer {
			return
		}
		if core.IsCall(x, "(*sync.Mutex).Lock") && isMutex(core.CallOf(x).Args[0]) {
			locks = append(locks, x)
		}
		if core.IsCall(x, "(*sync.Mutex).Unlock") && isMutex(core.CallOf(x).Args[0]) {
			unlocks = append(unlocks, x)
		}
	})
	if len(locks) == 0 {
		return false, "no Lock of a connection-owned mutex in this function"
	}
	dominated := false
	for _, l := range locks {
		if instrDominates(l, i) {
			dominated = true
		}
	}
	if !dominated {
		return false, "no Lock dominates the instruction"
	}
	for _, u := range unlocks {
		if reachesAfter(u, i) {
			// unless a Lock is re-taken between u and i on every path: accept only if some lock l with u -> l dominates i from u
			relocked := false
			for _, l := range locks {
				if reachesAfter(u, l) && instrDominates(l, i) && !reachesAfter(l, u) {
					relocked = true
				}
			}
			if !relocked {
				return false, "an Unlock can run before the instruction while the section should still be open"
			}
		}
	}
	return true, ""
}

// mutexOfConn: the value is the address of a sync.Mutex field of hap.Connection (or a load of a *sync.Mutex field of it / its session).
func mutexOfConn(v ssa.Value) bool {
	v = core.StripConv(v)
	if fa, ok := v.(*ssa.FieldAddr); ok {
		return core.TypeIs(fa.X.Type(), tConn)
	}
	if u, ok := v.(*ssa.UnOp); ok && u.Op == token.MUL {
		if fa, ok := u.X.(*ssa.FieldAddr); ok {
			return core.TypeIs(fa.X.Type(), tConn)
		}
	}
	return false
}

// bareReads returns the invoke sites of io.Reader.Read (or net.Conn.Read) in fn, i.e. reads whose count may be short.
func bareReads(fn *ssa.Function) []*ssa.Call {
	var out []*ssa.Call
	core.Instrs(fn, func(i ssa.Instruction) {
		c, ok := i.(*ssa.Call)
		if !ok || !c.Call.IsInvoke() || c.Call.Method.Name() != "Read" {
			return
		}
		sig := c.Call.Method.Type().(*types.Signature)
		if sig.Params().Len() == 1 && sig.Results().Len() == 2 {
			out = append(out, c)
		}
	})
	return out
}

// countUsedOnAllPaths: after the bare read c, every path to a function exit uses the count (extract #0)
// before leaving, unless the path returns the count itself. Returns false with a witness description.
func countUsedOnAllPaths(c *ssa.Call) (bool, string) {
	var n *ssa.Extract
	for _, r := range *c.Referrers() {
		if e, ok := r.(*ssa.Extract); ok && e.Index == 0 {
			n = e
		}
	}
	if n == nil || len(*n.Referrers()) == 0 {
		return false, "the byte count returned by Read is discarded: a short read goes unnoticed"
	}
	uses := map[ssa.Instruction]bool{}
	for _, r := range *n.Referrers() {
		uses[r] = true
	}
	// DFS from the read over blocks; a block that contains a use (after the read when same block) stops the search.
	type pos struct {
		b   *ssa.BasicBlock
		idx int
	}
	start := -1
	for k, i := range c.Block().Instrs {
		if i == ssa.Instruction(c) {
			start = k
		}
	}
	seen := map[*ssa.BasicBlock]bool{}
	var walk func(b *ssa.BasicBlock, from int) (bool, string)
	walk = func(b *ssa.BasicBlock, from int) (bool, string) {
		for k := from; k < len(b.Instrs); k++ {
			i := b.Instrs[k]
			if uses[i] {
				return true, ""
			}
			if phi, ok := i.(*ssa.Phi); ok {
				_ = phi
			}
			switch x := i.(type) {
			case *ssa.Return:
				return false, "a return is reachable after Read without using its byte count: bytes delivered together with an error (or a short count) are dropped"
			case *ssa.If:
				// a comparison of n feeds this If? then it is a use
				for _, r := range *n.Referrers() {
					if bo, ok := r.(*ssa.BinOp); ok && x.Cond == ssa.Value(bo) {
						return true, ""
					}
				}
			}
		}
		for _, s := range b.Succs {
			if seen[s] {
				continue
			}
			seen[s] = true
			if ok, why := walk(s, 0); !ok {
				return false, why
			}
		}
		return true, ""
	}
	return walk(c.Block(), start+1)
}

// sameLoad: two loads of one address (go/ssa does not merge them).
func sameLoad(a, b ssa.Value) bool {
	ua, ok1 := a.(*ssa.UnOp)
	ub, ok2 := b.(*ssa.UnOp)
	return ok1 && ok2 && ua.Op == token.MUL && ub.Op == token.MUL && ua.X == ub.X
}

// arrayCopySource: the array variable a receives its whole content from exactly one other array variable (a by-value copy).
func arrayCopySource(a *ssa.Alloc) *ssa.Alloc {
	if _, isArr := a.Type().(*types.Pointer).Elem().Underlying().(*types.Array); !isArr {
		return nil
	}
	var src *ssa.Alloc
	n := 0
	for _, r := range *a.Referrers() {
		st, ok := r.(*ssa.Store)
		if !ok || st.Addr != ssa.Value(a) {
			continue
		}
		n++
		if ld, ok := st.Val.(*ssa.UnOp); ok && ld.Op == token.MUL {
			if b, ok := ld.X.(*ssa.Alloc); ok {
				src = b
			}
		}
	}
	if n != 1 {
		return nil
	}
	return src
}

package rules

import (
	"fmt"
	"go/token"
	"go/types"
	"os"
	"strings"

	"golang.org/x/tools/go/ssa"

	"hcsa/core"
)

func init() {
	register(&core.Property{
		ID:    "C05",
		Level: "other",
		Explanation: "Shape facts of (*secureSession).Decrypt, the AEAD wrapper and (*Connection).DecryptedRead, each a necessary condition for detecting alterations: " +
			"the nonce of the k-th AEAD open on every (twice-unrolled) loop path is the little-endian encoding of decryptCount+k with exactly one '+1' store per frame and no other writer; " +
			"the AAD is the 2 length bytes exactly as read from the stream (the variable filled by the stream read is never reassigned) and the same value sizes the ciphertext read; " +
			"Decrypt uses only decryptKey, Encrypt only encryptKey, derived with different, mirrored labels; plaintext is used only under err == nil of the open; " +
			"the first failure (read or authentication) on a path is fatal: no further open, no buffer write, nil reader and a non-nil error are returned (only EOF on the length read ends a message); tag width 16.",
		Assumptions: []string{"ChaCha20-Poly1305 (x/crypto) detects any modification of ciphertext, tag, nonce or AAD"},
		NotDecided:  []string{"the AEAD primitive", "DecryptedRead reports the failure as (0, err of Close) — plaintext is not released, the error surfaces at the latest on the next read (remark only)"},
		Rules: []core.Rule{
			{ID: "C05-R1", Title: "counter is the nonce, once per frame, no other writer", Decides: "replayed, reordered, dropped or duplicated frames fail authentication", Floor: 4, Run: c05r1},
			{ID: "C05-R2", Title: "the wire length is the associated data and sizes the read", Decides: "a flipped length bit is detected", Floor: 3, Run: c05r2},
			{ID: "C05-R3", Title: "direction keys are separate and mirrored", Decides: "reflection of the accessory's own frames is rejected", Floor: 5, Run: func(c *core.Ctx) {
				c05r3(c)
				// the two directions differ in the info label only: the key derivation and AEAD wrappers must route salt, info, key, nonce
				// and associated data to the primitive in their positions (shared with C04-R3)
				c04r3(c)
				passThrough(c, "C05")
				copySourcesAreWritten(c, "crypto", "crypto/hkdf", "crypto/chacha20poly1305", "crypto/curve25519", "hap/pair", "hap")
			}},
			{ID: "C05-R4", Title: "plaintext only from a checked open; the first failure is fatal; consumed frames leave only through the open", Decides: "nothing but an unmodified prefix is released; error no later than the first altered frame", Floor: 4, Run: func(c *core.Ctx) { c05r4(c); framesLeaveOnlyThroughOpen(c); sessionOutlivesReadErrors(c); polarityEverywhere(c, "C05") }},
			{ID: "C05-R5", Title: "tag width", Decides: "full 16-byte tag is verified", Floor: 2, Run: c05r5},
			{ID: "C05-R6", Title: "key derivation and AEAD wrappers are stateless; the ephemeral keys behind a session key are fresh per connection (shared with C03-R5)", Decides: "direction keys differ; a tag check is never skipped; frames recorded on one connection are not accepted on another", Floor: 4, Run: c05r6},
		},
	})
}

func isDecryptCall(i ssa.Instruction) bool { return core.IsCall(i, qDecrypt) }
func isSealCall(i ssa.Instruction) bool    { return core.IsCall(i, qSeal) }

func c05r1(c *core.Ctx) {
	p := c.P
	dec := p.Func("crypto", "(*secureSession).Decrypt")
	if dec == nil {
		c.Undecided("Decrypt", token.NoPos, "(*secureSession).Decrypt not found")
		return
	}
	sites := core.FindCalls(dec, isDecryptCall)
	if len(sites) == 0 {
		c.Undecided("Decrypt/aead-site", dec.Pos(), "no DecryptAndVerify call in Decrypt")
		return
	}
	for _, s := range sites {
		a := allocOf(core.Args(s)[1])
		if a == nil {
			c.Bad("nonce@"+fname(dec), posOf(s), "the nonce argument is not a local buffer filled from the frame counter")
			continue
		}
		val, bits, little, _ := putUint(dec, a)
		_, fromCounter := core.FieldLoad(val, tSecure, "decryptCount")
		c.Check(val != nil && bits == 64 && little && fromCounter, "nonce@"+fname(dec), posOf(s),
			"nonce = little-endian 64-bit encoding of s.decryptCount", "the nonce of the AEAD open is not the little-endian encoding of decryptCount: frames are not bound to their position")
	}
	// per-path discipline
	bad, total := 0, 0
	ok := core.EnumPaths(dec, 3, 200000, func(pa core.Path) {
		total++
		offs, plusOne, fromCtr := counterOnPath(pa, dec, "decryptCount", isDecryptCall, 1)
		good := plusOne && fromCtr
		for k, o := range offs {
			if o != k {
				good = false
			}
		}
		if !good && bad == 0 {
			c.BadPath("counter-discipline@"+fname(dec), dec.Pos(), pa.Describe(p),
				"on this path the successive AEAD opens use counter offsets %v (want 0,1,2,...; every store must be decryptCount+1): a frame can be accepted at a position other than its own", offs)
		}
		if !good {
			bad++
		}
	})
	c.Count("paths_enumerated", total)
	if !ok {
		c.Undecided("counter-discipline@"+fname(dec), dec.Pos(), "too many paths")
	} else if bad == 0 {
		c.OK("counter-discipline@"+fname(dec), dec.Pos(), "on all %d paths (loop unrolled 3x) the k-th open uses decryptCount+k and every store is +1", total)
	}
	// writers
	for _, fld := range []string{"decryptCount", "encryptCount"} {
		for _, st := range p.FieldStores(tSecure, fld) {
			f := st.Parent()
			if isTestFunc(p, f) {
				continue
			}
			key := fmt.Sprintf("write:secureSession.%s@%s", fld, fname(f))
			want := map[string]string{"decryptCount": "Decrypt", "encryptCount": "Encrypt"}[fld]
			if core.TypeIs(recvType(f), tSecure) && cn(f) == want {
				c.OK(key, st.Pos(), "counter advanced by its own direction's method")
			} else if n, isK := core.ConstInt(st.Val); isK && n == 0 && f.Signature.Recv() == nil {
				c.OK(key, st.Pos(), "constructor initialises the counter to 0")
			} else {
				c.Bad(key, st.Pos(), "the frame counter %s is written outside %s and the constructors: counters can be reset or skipped", fld, want)
			}
		}
	}
}

func c05r2(c *core.Ctx) {
	p := c.P
	dec := p.Func("crypto", "(*secureSession).Decrypt")
	if dec == nil {
		c.Undecided("Decrypt", token.NoPos, "not found")
		return
	}
	// the length as read from the stream (a uint16 variable, or two bytes decoded with LittleEndian.Uint16; locals or fields)
	m := buildFrameModel(dec)
	if m.length == nil {
		c.Undecided("length-read@"+fname(dec), dec.Pos(), "no stream read of a 16-bit length found in Decrypt")
		return
	}
	c.Check(m.lengthWrites() == 0, "length-unmodified@"+fname(dec), m.length.call.Pos(), "the length read from the stream is never reassigned",
		"the length variable read from the stream is reassigned before use: the authenticated length is no longer the one on the wire")
	isLen := m.isLength
	for _, s := range core.FindCalls(dec, isDecryptCall) {
		args := core.Args(s)
		okAAD := m.isLengthBytes(args[4], dec)
		c.Check(okAAD, "aad@"+fname(dec), posOf(s), "AAD = little-endian 16-bit encoding of the length exactly as read",
			"the associated data of the AEAD open is not the 2 length bytes as read from the stream: an altered length field is not detected")
		// ciphertext buffer sized by the same value
		sized := false
		for _, src := range core.Sources(args[2]) {
			if ms, ok := src.(*ssa.MakeSlice); ok && isLen(ms.Len) {
				sized = true
			}
		}
		if m.body != nil && m.holds(args[2], m.body.st) {
			sized = true // the buffer read from the stream, which was made with that length
		}
		c.Check(sized, "ciphertext-size@"+fname(dec), posOf(s), "the ciphertext read is sized by the same length value", "the ciphertext buffer is not sized by the length that is authenticated")
	}
}

func c05r3(c *core.Ctx) {
	p := c.P
	for _, spec := range []struct {
		fn, key string
		site    func(ssa.Instruction) bool
	}{{"(*secureSession).Decrypt", "decryptKey", isDecryptCall}, {"(*secureSession).Encrypt", "encryptKey", isSealCall}} {
		f := p.Func("crypto", spec.fn)
		if f == nil {
			c.Undecided(spec.fn, token.NoPos, "not found")
			continue
		}
		for _, s := range core.FindCalls(f, spec.site) {
			c.Check(sliceOfField(core.Args(s)[0], tSecure, spec.key), "key@"+fname(f), posOf(s), "uses only s."+spec.key,
				"the AEAD key of "+spec.fn+" is not s."+spec.key+": the two directions share a key or use the wrong one")
		}
	}
	type labels struct{ enc, dec, salt string }
	got := map[string]*labels{}
	for _, name := range []string{"NewSecureSessionFromSharedKey", "NewSecureClientSessionFromSharedKey"} {
		f := p.Func("crypto", name)
		if f == nil {
			c.Undecided(name, token.NoPos, "not found")
			continue
		}
		l := &labels{}
		got[name] = l
		for _, fld := range []string{"encryptKey", "decryptKey"} {
			n := 0
			for _, b := range bodies(f) {
				b := b
				core.Instrs(b.fn, func(i ssa.Instruction) {
					st, ok := i.(*ssa.Store)
					if !ok {
						return
					}
					if _, ok := core.FieldAddrOf(st.Addr, tSecure, fld); !ok {
						return
					}
					n++
					for _, src := range core.Sources(st.Val) {
						call := core.CallResult(src, 0, func(ci ssa.Instruction) bool { return core.IsCall(ci, qHKDF) })
						if call == nil {
							continue
						}
						a := core.Args(call)
						salt, _ := constBytes(b.lift(a[1]))
						info, _ := constBytes(b.lift(a[2]))
						l.salt = salt
						if fld == "encryptKey" {
							l.enc = info
						} else {
							l.dec = info
						}
						// master must be the shared key parameter
						m := b.lift(a[0])
						fromParam := core.AnySource(m, func(sv ssa.Value) bool { pr, ok := sv.(*ssa.Parameter); return ok && pr.Parent() == f }) || allocFromParam(m, f)
						c.Check(fromParam, "master:"+fld+"@"+fname(f), posOf(call), "derived from the shared key parameter", "the "+fld+" is not derived from the shared key passed in")
					}
				})
			}
			if n == 0 {
				c.Bad("derive:"+fld+"@"+fname(f), f.Pos(), "the constructor does not set "+fld)
			}
		}
		c.Check(l.enc != "" && l.dec != "" && l.enc != l.dec, "labels-differ@"+fname(f), f.Pos(), fmt.Sprintf("encrypt info %q != decrypt info %q", l.enc, l.dec),
			fmt.Sprintf("both directions are derived with the same label (%q/%q): the accessory accepts its own frames", l.enc, l.dec))
	}
	a, b := got["NewSecureSessionFromSharedKey"], got["NewSecureClientSessionFromSharedKey"]
	if a != nil && b != nil {
		c.Check(a.enc == b.dec && a.dec == b.enc && a.salt == b.salt && a.enc != "", "constructors-mirrored", token.NoPos, "accessory.encrypt = controller.decrypt and vice versa",
			"accessory and controller constructors are not mirror images: the two ends derive different keys for one direction")
	}
}

// allocFromParam: v is a slice of a local array that holds a copy of an array parameter (sharedKey[:]).
func allocFromParam(v ssa.Value, f *ssa.Function) bool {
	a := allocOf(v)
	if a == nil {
		return false
	}
	for _, r := range *a.Referrers() {
		if st, ok := r.(*ssa.Store); ok && st.Addr == a {
			if pr, ok := st.Val.(*ssa.Parameter); ok && pr.Parent() == f {
				return true
			}
		}
	}
	return false
}

// constBytes: v is []byte("const") possibly held in a local variable.
func constBytes(v ssa.Value) (string, bool) {
	for _, s := range core.Sources(v) {
		if str, ok := core.ConstString(s); ok {
			return str, true
		}
	}
	if str, ok := core.ConstString(v); ok {
		return str, true
	}
	return "", false
}

func c05r4(c *core.Ctx) {
	if f := c.P.Func("crypto", "(*secureSession).Decrypt"); f != nil {
		errorTestPolarity(c, f, nil)
	}
	p := c.P
	// wrapper: every non-nil plaintext is the first result of Open returned with its error
	w := p.Func("crypto/chacha20poly1305", "DecryptAndVerify")
	if w == nil {
		c.Undecided("DecryptAndVerify", token.NoPos, "not found")
	} else {
		good, n := true, 0
		core.Instrs(w, func(i ssa.Instruction) {
			r, ok := i.(*ssa.Return)
			if !ok || len(res(r)) != 2 {
				return
			}
			n++
			if core.IsNilConst(res(r)[0]) {
				return
			}
			e0, ok0 := res(r)[0].(*ssa.Extract)
			e1, ok1 := res(r)[1].(*ssa.Extract)
			if !(ok0 && ok1 && e0.Tuple == e1.Tuple && e0.Index == 0 && e1.Index == 1 && core.IsInvoke(e0.Tuple.(ssa.Instruction), "crypto/cipher.AEAD", "Open")) {
				good = false
			}
		})
		c.Check(good && n > 0, "wrapper-returns-open-result@"+fname(w), w.Pos(), "every non-nil plaintext is AEAD.Open's result returned together with Open's error",
			"DecryptAndVerify can return plaintext that is not the checked result of AEAD.Open (or drops Open's error)")
	}
	dec := p.Func("crypto", "(*secureSession).Decrypt")
	if dec == nil {
		c.Undecided("Decrypt", token.NoPos, "not found")
		return
	}
	for _, s := range core.FindCalls(dec, isDecryptCall) {
		call := s.(*ssa.Call)
		okFact := errNilFact(1, func(i ssa.Instruction) bool { return i == s })
		uses, bad := 0, 0
		for _, r := range *call.Referrers() {
			e, ok := r.(*ssa.Extract)
			if !ok || e.Index != 0 {
				continue
			}
			for _, u := range *e.Referrers() {
				uses++
				if !core.Dominated(u, okFact) {
					bad++
					c.Bad("plaintext-use-unchecked@"+fname(dec), u.Pos(), "the plaintext of the AEAD open is used on a path where the open's error has not been checked to be nil")
				}
			}
		}
		if bad == 0 {
			c.OK("plaintext-use-checked@"+fname(dec), posOf(s), "%d use(s) of the plaintext, each dominated by err == nil of the open", uses)
		}
	}
	// first failure is fatal
	fm := buildFrameModel(dec)
	// every stream read's error is looked at (a read whose error is ignored hands zero bytes to the AEAD or, worse, to the caller)
	for k, r := range fm.reads {
		tested := false
		var visit func(v ssa.Value, d int)
		visit = func(v ssa.Value, d int) {
			if d == 0 || v == nil || v.Referrers() == nil {
				return
			}
			for _, u := range *v.Referrers() {
				switch x := u.(type) {
				case *ssa.BinOp:
					if (x.Op == token.NEQ || x.Op == token.EQL) && (core.IsNilConst(x.X) || core.IsNilConst(x.Y)) {
						for _, uu := range *x.Referrers() {
							if _, isIf := uu.(*ssa.If); isIf {
								tested = true
							}
						}
					}
				case *ssa.Phi:
					visit(x, d-1)
				case *ssa.Store:
					// spilled into a variable (named result, captured): its loads
					if a, ok := x.Addr.(*ssa.Alloc); ok {
						for _, rr := range *a.Referrers() {
							if ld, ok := rr.(*ssa.UnOp); ok && ld.Op == token.MUL {
								visit(ld, d-1)
							}
						}
					}
				}
			}
		}
		visit(r.errv, 4)
		c.Check(tested, fmt.Sprintf("read-error-checked@%s#%d", fname(dec), k+1), r.call.Pos(), "the error of the stream read is tested against nil", "the error of a stream read is never tested: a short or failed read goes unnoticed and zero bytes are processed as frame data")
	}
	isFail := func(v ssa.Value) (call ssa.Instruction, isLengthRead bool) {
		for _, src := range core.Sources(v) {
			var ci ssa.Instruction
			if cc, ok := src.(*ssa.Call); ok {
				ci = cc
			} else if e, ok := src.(*ssa.Extract); ok {
				if cc, ok := e.Tuple.(*ssa.Call); ok {
					ci = cc
				}
			}
			if ci == nil {
				continue
			}
			if isDecryptCall(ci) {
				return ci, false
			}
			if _, _, ok := isStreamRead(ci); ok {
				return ci, fm.length != nil && ssa.Instruction(fm.length.call) == ci
			}
			if cc, ok := ci.(*ssa.Call); ok && cc.Call.IsInvoke() && cc.Call.Method.Name() == "Read" {
				return ci, false
			}
		}
		return nil, false
	}
	total, bad, nilnil := 0, 0, 0
	okEnum := core.EnumPaths(dec, 2, 200000, func(pa core.Path) {
		for m := 0; m+1 < len(pa); m++ {
			if iff, ok := pa[m].Instrs[len(pa[m].Instrs)-1].(*ssa.If); ok {
				if bo, ok := iff.Cond.(*ssa.BinOp); ok && (bo.Op == token.EQL || bo.Op == token.NEQ) {
					if z, isK := core.ConstInt(bo.Y); isK && z == 0 {
						tookZero := (bo.Op == token.EQL && pa[m+1] == pa[m].Succs[0]) || (bo.Op == token.NEQ && pa[m+1] == pa[m].Succs[1])
						if tookZero && infeasibleZeroCount(pa, m, bo.X) {
							return // phantom path
						}
					}
				}
			}
		}
		total++
		failed := false
		eofOnLength := false
		after := 0 // AEAD opens / buffer writes / counter stores after the failure
		for k := 0; k+1 < len(pa); k++ {
			b := pa[k]
			iff, ok := b.Instrs[len(b.Instrs)-1].(*ssa.If)
			if ok {
				tookTrue := pa[k+1] == b.Succs[0]
				if bin, ok := iff.Cond.(*ssa.BinOp); ok {
					// err != nil taken, or err == nil not taken
					if core.IsNilConst(bin.Y) || core.IsNilConst(bin.X) {
						v := bin.X
						if core.IsNilConst(bin.X) {
							v = bin.Y
						}
						v = pa.ResolveAt(k, v) // a merged error variable stands for the error this path produced
						if ci, _ := isFail(v); ci != nil {
							if (bin.Op == token.NEQ && tookTrue) || (bin.Op == token.EQL && !tookTrue) {
								failed = true
							}
						}
					}
					// n == 0 for the count of the failed length read: nothing of a next frame was consumed
					if failed && (bin.Op == token.EQL || bin.Op == token.NEQ) {
						for _, pr := range [][2]ssa.Value{{bin.X, bin.Y}, {bin.Y, bin.X}} {
							if z, isK := core.ConstInt(pr[1]); isK && z == 0 {
								if en, isE := pa.ResolveAt(k, pr[0]).(*ssa.Extract); isE && en.Index == 0 && fm.length != nil && en.Tuple == ssa.Value(fm.length.call) {
									if (bin.Op == token.EQL && tookTrue) || (bin.Op == token.NEQ && !tookTrue) {
										eofOnLength = true
									}
								}
							}
						}
					}
					// err == io.EOF on the length read
					if failed {
						for _, side := range []ssa.Value{bin.X, bin.Y} {
							if u, ok := side.(*ssa.UnOp); ok {
								if g, ok := u.X.(*ssa.Global); ok && g.Name() == "EOF" && g.Pkg.Pkg.Path() == "io" {
									other := bin.X
									if side == bin.X {
										other = bin.Y
									}
									if _, isLen := isFail(pa.ResolveAt(k, other)); isLen && ((bin.Op == token.EQL && tookTrue) || (bin.Op == token.NEQ && !tookTrue)) {
										eofOnLength = true
									}
								}
							}
						}
					}
				}
			}
			if failed && k+1 < len(pa) {
				for _, i := range pa[k+1].Instrs {
					if core.CallOf(i) != nil && (isDecryptCall(i) || core.IsCall(i, "(*bytes.Buffer).Write")) {
						after++
					}
					if st, ok := i.(*ssa.Store); ok {
						if _, ok := core.FieldAddrOf(st.Addr, tSecure, "decryptCount"); ok {
							after++
						}
					}
				}
			}
		}
		// whatever the path: a nil reader is never handed back with a nil error (the caller would use the reader)
		if r := pa.Returns(); r != nil && len(res(r)) == 2 && core.IsNilConst(res(r)[0]) {
			ev := pa.ResolveAt(len(pa)-1, res(r)[1])
			if !provablyNonNil(pa, ev) && !provablyNonNil(pa, res(r)[1]) {
				if nilnil == 0 {
					c.BadPath("nil-reader-with-nil-error@"+fname(dec), posOf(r), pa.Describe(p),
						"a path returns a nil reader together with an error that is not known to be non-nil on that path (the error test was removed or forced): the caller reads from a nil reader")
				}
				nilnil++
			}
		}
		if !failed {
			return
		}
		ret := pa.Returns()
		good := after == 0
		if ret == nil {
			good = false
		} else if eofOnLength {
			// end of message: may return the buffer
		} else if !(core.IsNilConst(res(ret)[0]) && !core.IsNilConst(res(ret)[1])) {
			good = false
		}
		if !good {
			if bad == 0 {
				c.BadPath("failure-not-fatal@"+fname(dec), dec.Pos(), pa.Describe(p),
					"after a failed stream read or a failed authentication this path continues (%d further open/write/counter steps) or does not return (nil, error): data after an altered frame can be released", after)
			}
			bad++
		}
	})
	c.Count("paths_enumerated", total)
	if !okEnum {
		c.Undecided("failure-fatal@"+fname(dec), dec.Pos(), "too many paths")
	} else if bad == 0 && nilnil == 0 {
		c.OK("failure-fatal@"+fname(dec), dec.Pos(), "on all %d paths the first failed read/open ends the call with (nil, error); only EOF on the length read ends a message", total)
	}
	// DecryptedRead: an error from Decrypt releases nothing
	dr := p.Func("hap", "(*Connection).DecryptedRead")
	if dr == nil {
		c.Undecided("DecryptedRead", token.NoPos, "not found")
		return
	}
	for _, s := range core.FindCalls(dr, func(i ssa.Instruction) bool { return core.IsInvoke(i, mod+"/crypto.Decrypter", "Decrypt") }) {
		failFact := core.NonNilFact(func(v ssa.Value) bool {
			return core.AnySource(v, func(sv ssa.Value) bool {
				return core.CallResult(sv, 1, func(i ssa.Instruction) bool { return i == s }) != nil
			})
		})
		good, n := true, 0
		isDecryptErr := func(v ssa.Value) bool {
			return core.AnySource(v, func(sv ssa.Value) bool {
				return core.CallResult(sv, 1, func(i ssa.Instruction) bool { return i == s }) != nil
			})
		}
		core.EnumPaths(dr, 2, 20000, func(pa core.Path) {
			if !pathEstablishes(pa, failFact) && !pathTakesNonNilEdge(pa, isDecryptErr) {
				return
			}
			n++
			ret := pa.Returns()
			if ret == nil {
				return
			}
			if v, isK := core.ConstInt(res(ret)[0]); !isK || v != 0 {
				if os.Getenv("HCSA_DEBUG") != "" {
					fmt.Fprintln(os.Stderr, "DEBUG releases-nothing: nonzero count on path", strings.Join(pa.Describe(p), " | "))
				}
				good = false
			}
			// the reader result of the failed Decrypt must not be stored as remainder
			pa.Instrs(func(i ssa.Instruction) {
				if st, ok := i.(*ssa.Store); ok {
					if _, ok := core.FieldAddrOf(st.Addr, tConn, "readBuffer"); ok && !core.IsNilConst(st.Val) {
						good = false
					}
				}
			})
		})
		c.Check(good && n > 0, "decrypt-error-releases-nothing@"+fname(dr), posOf(s), "on a Decrypt error DecryptedRead returns 0 bytes and keeps no remainder",
			"on a Decrypt error DecryptedRead can still hand out bytes or keep the failed message as remainder")
		// ... and the failure is reported: the error handed to the caller is not replaced by the result of some other call
		// (connection.Close() normally answers nil: the reader of the connection sees "0 bytes, no error" and reads on)
		reported, m := true, 0
		var witness core.Path
		core.EnumPaths(dr, 2, 20000, func(pa core.Path) {
			if !pathEstablishes(pa, failFact) && !pathTakesNonNilEdge(pa, isDecryptErr) {
				return
			}
			ret := pa.Returns()
			if ret == nil {
				return
			}
			m++
			rv := res(ret)[len(res(ret))-1]
			if !provablyNonNil(pa, pa.ResolveAt(len(pa)-1, rv)) && !provablyNonNil(pa, rv) {
				if reported {
					witness = pa
				}
				reported = false
			}
		})
		if reported && m > 0 {
			c.OK("decrypt-error-reported@"+fname(dr), posOf(s), "on all %d paths with a failed Decrypt the caller gets a non-nil error", m)
		} else {
			var d []string
			if witness != nil {
				d = witness.Describe(p)
			}
			c.BadPath("decrypt-error-reported@"+fname(dr), posOf(s), d, "after a failed Decrypt a path of DecryptedRead returns an error that is not known to be non-nil (the decryption error is replaced, e.g. by the result of Close()): the altered frame is not reported, the caller reads on and is given the frames that follow")
		}
	}
	authFailureFinal(c, dec)
	frameAtATime(c)
	plaintextReadNoReadAhead(c)
	plaintextBoundedByRequest(c)
	// observed at Decrypt itself (C05 names both observation points): handed a stream that fails between two frames of a message,
	// Decrypt drops the frames it has already authenticated and counted, and stays usable — the next call releases the frames that follow
	decryptDropsPlaintext(c, "(*secureSession).Decrypt/stream-error-drops-authenticated-frames", true)
}

// authFailureFinal: a frame that fails authentication ends the stream for the session object itself. The frame counter has moved
// on (it must: C05-R1), so without a memory of the failure the next call accepts the frame that follows the altered one and releases
// plaintext that is not a prefix of what the peer sent. Accepted form: a field F of the session that is set on every path on which
// the AEAD open failed, and whose "unset" test dominates every AEAD open.
func authFailureFinal(c *core.Ctx, dec *ssa.Function) {
	p := c.P
	sites := core.FindCalls(dec, isDecryptCall)
	if len(sites) == 0 {
		return
	}
	// candidate fields: fields of the session stored in Decrypt, other than the counter
	cands := map[string]bool{}
	core.Instrs(dec, func(i ssa.Instruction) {
		if st, ok := i.(*ssa.Store); ok {
			if fa, ok := st.Addr.(*ssa.FieldAddr); ok && core.TypeIs(fa.X.Type(), tSecure) {
				n := core.FieldName(fa)
				if k := strings.LastIndex(n, "."); k >= 0 {
					n = n[k+1:]
				}
				if n != "" && n != "decryptCount" {
					cands[n] = true
				}
			}
		}
	})
	for _, s := range sites {
		s := s
		failFact := core.NonNilFact(func(v ssa.Value) bool {
			return core.AnySource(v, func(sv ssa.Value) bool {
				return core.CallResult(sv, 1, func(i ssa.Instruction) bool { return i == s }) != nil
			})
		})
		final := ""
		for fld := range cands {
			isLoad := func(v ssa.Value) bool { _, ok := core.FieldLoad(v, tSecure, fld); return ok }
			if !core.Dominated(s, core.AnyFact(core.IsNilFact(isLoad), core.FalseFact(isLoad))) {
				continue
			}
			all, n := true, 0
			core.EnumPaths(dec, 2, 200000, func(pa core.Path) {
				if !pathEstablishes(pa, failFact) {
					return
				}
				n++
				set := false
				pa.Instrs(func(i ssa.Instruction) {
					if st, ok := i.(*ssa.Store); ok {
						if _, ok := core.FieldAddrOf(st.Addr, tSecure, fld); ok {
							if k, isK := core.ConstInt(st.Val); isK {
								set = k != 0
							} else {
								set = !core.IsNilConst(st.Val)
							}
						}
					}
				})
				if !set {
					all = false
				}
			})
			if all && n > 0 {
				final = fld
			}
		}
		c.Check(final != "", "authentication-failure-is-final@"+fname(dec), posOf(s), "a failed open sets "+final+", and every open is behind the test that it is unset",
			"the session keeps no memory of a frame that failed authentication: the next Decrypt call accepts the frame that follows the altered one (the counter has already moved on) and releases plaintext that is not a prefix of what the peer sent")
	}
	_ = p
}

func c05r5(c *core.Ctx) {
	p := c.P
	w := p.Func("crypto/chacha20poly1305", "DecryptAndVerify")
	dec := p.Func("crypto", "(*secureSession).Decrypt")
	if w == nil || dec == nil {
		c.Undecided("tag-width", token.NoPos, "anchors not found")
		return
	}
	is16 := func(t types.Type) bool {
		a, ok := t.Underlying().(*types.Array)
		return ok && a.Len() == 16
	}
	c.Check(len(w.Params) == 5 && is16(w.Params[3].Type()), "tag-param@"+fname(w), w.Pos(), "the wrapper takes a [16]byte tag", "the AEAD wrapper's tag parameter is not [16]byte")
	for _, s := range core.FindCalls(dec, isDecryptCall) {
		tag := core.Args(s)[3]
		m := buildFrameModel(dec)
		read := false
		if m.tag != nil {
			if arr, ok := m.elemType(m.tag.st).Underlying().(*types.Array); ok && arr.Len() == 16 && m.holds(tag, m.tag.st) {
				read = true
			}
		}
		c.Check(read, "tag-read@"+fname(dec), posOf(s), "the tag passed to the open is the 16 bytes read from the stream after the ciphertext", "the tag passed to the AEAD open is not a 16-byte value read from the stream")
	}
	// the wrapper appends the whole tag to the ciphertext for Open
	full := false
	core.Instrs(w, func(i ssa.Instruction) {
		if core.IsInvoke(i, "crypto/cipher.AEAD", "Open") {
			parts, ok := byteSeq(core.Args(i)[2])
			if ok && len(parts) == 2 {
				if sl, ok := core.StripConv(parts[1]).(*ssa.Slice); ok && sl.Low == nil && sl.High == nil {
					full = true
				}
			}
		}
	})
	c.Check(full, "tag-appended@"+fname(w), w.Pos(), "Open receives ciphertext || tag[:]", "Open does not receive the complete tag appended to the ciphertext")
}

package rules

import (
	"go/token"
	"strings"

	"golang.org/x/tools/go/ssa"

	"hcsa/core"
)

// Obligations added after the mutation sweep (DESIGN.md section 11), each a necessary condition of the property it is registered under.

// tlv8WriterItems (C17-R2): the struct encoder's item writer: fragments of 255 bytes [tag, n, n bytes], booleans as one byte 1 / 0,
// strings and single bytes under their tag.
func tlv8WriterItems(c *core.Ctx) {
	p := c.P
	if f := p.Func("tlv8", "(*writer).writeBytes"); f != nil {
		// the fragment buffer has 255 bytes and each written item is [tag, uint8(n)] followed by the n bytes read into it
		var buf *ssa.Alloc
		var rd *ssa.Call
		core.Instrs(f, func(i ssa.Instruction) {
			if call, ok := i.(*ssa.Call); ok && core.IsCall(call, "io.ReadFull") {
				rd = call
				buf = allocOf(core.Args(call)[1])
			}
		})
		if rd == nil || buf == nil {
			c.Undecided("tlv8-fragment@"+fname(f), f.Pos(), "fragmenting read not found (unknown idiom)")
		} else {
			n, ok := knownLen(buf)
			c.Check(ok && n == 255, "tlv8-fragment-size@"+fname(f), buf.Pos(), "fragments have at most 255 bytes", "the fragment size of the struct encoder is not 255: a fragment of 256 bytes is written with length byte 0 and every decoder loses the value")
			// written item = [tag, uint8(count)] ++ buf[:count]
			okItem := false
			core.Instrs(f, func(i ssa.Instruction) {
				g := core.Callee(i)
				if g == nil || cn(g) != "write" {
					return
				}
				parts, ok := byteSeq(core.Args(i)[0])
				if !ok || len(parts) < 2 {
					return
				}
				last := parts[len(parts)-1]
				if allocOf(last) == buf {
					okItem = true
				}
			})
			c.Check(okItem, "tlv8-fragment-item@"+fname(f), rd.Pos(), "each fragment is written as tag, length and the bytes just read", "the written item does not end with the bytes read into the fragment buffer")
			// the loop goes on after a full fragment and stops after a short one
			full := errNilFact(1, func(i ssa.Instruction) bool { return i == ssa.Instruction(rd) })
			cont := false
			for _, b := range f.Blocks {
				for _, s := range b.Succs {
					if s == rd.Block() && b.Index >= s.Index {
						last := b.Instrs[len(b.Instrs)-1]
						if core.Dominated(last, full) {
							cont = true
						} else if iff, isIf := last.(*ssa.If); isIf {
							// `if err == io.ErrUnexpectedEOF { break }` reached only for nil / ErrUnexpectedEOF: the other edge means err == nil
							if bo, isB := iff.Cond.(*ssa.BinOp); isB && bo.Op == token.EQL && b.Succs[1] == s {
								cont = true
							}
						}
					}
				}
			}
			c.Check(cont, "tlv8-fragment-loop@"+fname(f), rd.Pos(), "the loop continues exactly after a completely filled fragment", "the fragment loop does not continue after a full fragment (or continues after a short one): values longer than 255 bytes are cut, or never end")
		}
	}
	if f := p.Func("tlv8", "(*writer).writeBool"); f != nil {
		isB := func(v ssa.Value) bool { return len(f.Params) > 2 && v == ssa.Value(f.Params[2]) }
		good, n := true, 0
		phiOK := false
		core.Instrs(f, func(i ssa.Instruction) {
			g := core.Callee(i)
			if g == nil || (cn(g) != "write" && cn(g) != "writeByte") {
				return
			}
			parts := core.Sources(core.Args(i)[0])
			// the literal [tag, 1, k]
			var k int64 = -1
			if cn(g) == "writeByte" {
				// through the byte writer ( writeByte(tag, 1) — its own rule says it writes [tag, 1, b] )
				if len(core.Args(i)) == 2 {
					if v, isK := core.ConstInt(core.Args(i)[1]); isK {
						k = v
					}
				}
				switch k {
				case 1:
					n++
					if !core.Dominated(i, core.TrueFact(isB)) {
						good = false
					}
				case 0:
					n++
					if !core.Dominated(i, core.FalseFact(isB)) {
						good = false
					}
				}
				return
			}
			if a := allocOf(core.Args(i)[0]); a != nil {
				for _, r := range *a.Referrers() {
					if ia, ok := r.(*ssa.IndexAddr); ok {
						if idx, isK := core.ConstInt(ia.Index); isK && idx == 2 {
							for _, rr := range *ia.Referrers() {
								if st, ok := rr.(*ssa.Store); ok {
									if v, isK := core.ConstInt(st.Val); isK {
										k = v
									}
									// one write of a value chosen before: var v byte; if b { v = 1 }; write({tag, 1, v})
									if ph, isPhi := st.Val.(*ssa.Phi); isPhi {
										okPhi := len(ph.Edges) == 2
										seen := map[int64]bool{}
										for e, ev := range ph.Edges {
											kv, isK := core.ConstInt(ev)
											if !isK || (kv != 0 && kv != 1) {
												okPhi = false
												continue
											}
											seen[kv] = true
											fact := core.FalseFact(isB)
											if kv == 1 {
												fact = core.TrueFact(isB)
											}
											pred := ph.Block().Preds[e]
											onEdge := false
											for idx, sc := range pred.Succs {
												if sc == ph.Block() && core.CutWhere(fact)(pred, idx) {
													onEdge = true
												}
											}
											if !onEdge && !core.Dominated(pred.Instrs[len(pred.Instrs)-1], fact) {
												okPhi = false
											}
										}
										if okPhi && seen[0] && seen[1] {
											phiOK = true
										}
									}
								}
							}
						}
					}
				}
			}
			_ = parts
			switch k {
			case 1:
				n++
				if !core.Dominated(i, core.TrueFact(isB)) {
					good = false
				}
			case 0:
				n++
				if !core.Dominated(i, core.FalseFact(isB)) {
					good = false
				}
			}
		})
		c.Check((good && n == 2) || (phiOK && n == 0), "tlv8-bool@"+fname(f), f.Pos(), "true is written as 1 and false as 0", "writeBool writes 1 for false (or 0 for true), or one of the two is never written")
	}
	for _, spec := range []struct{ name, via string }{{"writeString", "writeBytes"}, {"writeByte", "write"}} {
		f := p.Func("tlv8", "(*writer)."+spec.name)
		if f == nil {
			continue
		}
		ok := false
		core.Instrs(f, func(i ssa.Instruction) {
			g := core.Callee(i)
			if g == nil || cn(g) != spec.via || len(f.Blocks) != 1 || len(f.Params) < 3 {
				return
			}
			for _, a := range core.Args(i) {
				if operandReaches(a, f.Params[2], 6) || core.SomeSource(a, func(s ssa.Value) bool { return s == ssa.Value(f.Params[2]) }) {
					ok = true
				}
			}
		})
		c.Check(ok, "tlv8-item-writer:"+spec.name, f.Pos(), spec.name+" writes its value under its tag", spec.name+" does not write the value it is given")
	}
}

// tlv8ListEncoding (C17-R6): between the elements of an inline list — not in front of the first — stands the delimiter; inline lists
// are written raw, tagged ones as items.
func tlv8ListEncoding(c *core.Ctx) {
	p := c.P
	for _, f := range libFuncs(p) {
		if pkgPathOf(f) != mod+"/tlv8" || !core.TypeIs(recvType(f), mod+"/tlv8.encoder") {
			continue
		}
		inline := core.CmpFact(func(x, y ssa.Value) (bool, bool) {
			if s, ok := core.ConstString(y); ok && s == "-" {
				return true, false
			}
			if s, ok := core.ConstString(x); ok && s == "-" {
				return true, false
			}
			return false, false
		})
		hasInlineTest := false
		core.Instrs(f, func(i ssa.Instruction) {
			if b, ok := i.(*ssa.BinOp); ok && (b.Op == token.EQL || b.Op == token.NEQ) {
				if s, isK := core.ConstString(b.Y); isK && s == "-" {
					hasInlineTest = true
				}
			}
		})
		if !hasInlineTest {
			continue
		}
		core.Instrs(f, func(i ssa.Instruction) {
			g := core.Callee(i)
			if g == nil || !core.TypeIs(recvType(g), mod+"/tlv8.writer") {
				return
			}
			switch cn(g) {
			case "write":
				// raw bytes of a nested struct: only for inline lists (the delimiter itself is written with write as well: constant bytes)
				if _, isConstBytes := knownLen(core.Args(i)[0]); isConstBytes {
					if a := allocOf(core.Args(i)[0]); a != nil && a.Comment == "slicelit" {
						return
					}
				}
				c.Check(core.Dominated(i, inline), "inline-list-raw@"+fname(f), posOf(i), "raw element bytes are written for inline lists only", "element bytes are written without tag and length for a tagged list (inline test inverted): the decoder cannot find the elements")
			case "writeBytes":
				if core.Dominated(i, inline) {
					c.Bad("tagged-list-items@"+fname(f), posOf(i), "elements of an inline list are written as tagged items (inline test inverted)")
				}
			}
		})
	}
}

// transportAnnouncement (C20-R4): discoverable is the negation of "is paired", and "is paired" means more than the accessory's own
// entity is stored.
func transportAnnouncement(c *core.Ctx) {
	p := c.P
	if f := p.Func("", "(*ipTransport).isPaired"); f != nil {
		// true is returned only where Entities() succeeded and an entity without a private key was seen; false where the read
		// failed or no such entity was seen
		okErr := errNilFact(1, func(i ssa.Instruction) bool { return core.IsInvoke(i, qDatabase, "Entities") })
		noPrivate := func(cond ssa.Value) (bool, bool) {
			bo, ok := cond.(*ssa.BinOp)
			if !ok {
				return false, false
			}
			call, ok := bo.X.(*ssa.Call)
			if !ok {
				return false, false
			}
			bi, ok := call.Call.Value.(*ssa.Builtin)
			if !ok || bi.Name() != "len" {
				return false, false
			}
			isPK := false
			if _, ok := core.FieldLoad(call.Call.Args[0], mod+"/db.Entity", "PrivateKey"); ok {
				isPK = true
			}
			if fv, ok := call.Call.Args[0].(*ssa.Field); ok && core.FieldName(fv) == mod+"/db.Entity.PrivateKey" {
				isPK = true
			}
			k, isK := core.ConstInt(bo.Y)
			if !isPK || !isK || k != 0 {
				return false, false
			}
			switch bo.Op {
			case token.EQL, token.LEQ:
				return true, false
			case token.GTR, token.NEQ:
				return false, true
			}
			return false, false
		}
		good, n := true, 0
		okEnum := core.EnumPaths(f, 2, 20000, func(pa core.Path) {
			r := pa.Returns()
			if r == nil || len(res(r)) != 1 {
				return
			}
			v := pa.ResolveAt(len(pa)-1, res(r)[0])
			k, isK := core.ConstInt(v)
			if !isK {
				good = false // the answer is not decided by the branches of the function
				return
			}
			n++
			found := pathEstablishes(pa, okErr) && pathEstablishes(pa, noPrivate)
			if (k == 1) != found {
				good = false
			}
		})
		c.Check(good && okEnum && n >= 2, "is-paired-polarity@"+fname(f), f.Pos(), "paired = the database could be read and holds an entity without a private key (a controller)", "isPaired answers true without having seen a stored controller (an entity without a private key), or false although it saw one: a paired accessory is announced as pairable, or an unpaired one as paired")
	}
	if f := p.Func("", "(*ipTransport).updateMDNSReachability"); f != nil {
		ok := false
		core.Instrs(f, func(i ssa.Instruction) {
			st, isSt := i.(*ssa.Store)
			if !isSt {
				return
			}
			if _, isF := core.FieldAddrOf(st.Addr, tConfig, "discoverable"); !isF {
				return
			}
			// value: !isPaired()  /  isPaired() == false  /  isPaired() != true
			v := st.Val
			isCall := func(x ssa.Value) bool {
				call, ok := x.(*ssa.Call)
				return ok && core.Callee(call) != nil && cn(core.Callee(call)) == "isPaired"
			}
			switch x := v.(type) {
			case *ssa.UnOp:
				ok = x.Op == token.NOT && isCall(x.X)
			case *ssa.BinOp:
				k, isK := core.ConstInt(x.Y)
				ok = isK && isCall(x.X) && ((x.Op == token.EQL && k == 0) || (x.Op == token.NEQ && k == 1))
			}
		})
		c.Check(ok, "discoverable-is-not-paired@"+fname(f), f.Pos(), "discoverable = !isPaired()", "discoverable is not the negation of isPaired(): a paired accessory keeps announcing itself as pairable (or an unpaired one hides)")
	}
}

// transportWiring (C10-R2): an added accessory is put into the container, and events go out with the EVENT protocol line.
func transportWiring(c *core.Ctx) {
	p := c.P
	if f := p.Func("", "(*ipTransport).addAccessory"); f != nil {
		acc := paramOfType(f, mod+"/accessory.Accessory")
		ok := false
		core.Instrs(f, func(i ssa.Instruction) {
			if g := core.Callee(i); g != nil && cn(g) == "AddAccessory" && core.TypeIs(recvType(g), mod+"/accessory.Container") {
				if a := core.Args(i); len(a) == 1 && acc != nil && valIs(a[0], acc) && instrDominates(i, f.Blocks[len(f.Blocks)-1].Instrs[0]) || len(f.Blocks) > 0 && i.Block() == f.Blocks[0] {
					ok = true
				}
			}
		})
		c.Check(ok, "accessory-added-to-container@"+fname(f), f.Pos(), "the accessory is added to the container the server publishes", "addAccessory does not put the accessory into the container: it is wired for notifications but missing from /accessories")
	}
	if f := p.Func("", "(*ipTransport).notifyListener"); f != nil {
		fixed := false
		for _, l := range liftedSites(f, func(i ssa.Instruction) bool {
			return core.IsInvoke(i, "net.Conn", "Write") || core.IsInvoke(i, "io.Writer", "Write")
		}) {
			arg := core.CallOf(l.inner).Args[0]
			if core.AnySource(arg, func(s ssa.Value) bool {
				call, ok := s.(*ssa.Call)
				return ok && core.Callee(call) != nil && cn(core.Callee(call)) == "FixProtocolSpecifier"
			}) {
				fixed = true
			}
		}
		c.Check(fixed, "event-protocol-line@"+fname(f), f.Pos(), "what is written to a recipient passed FixProtocolSpecifier (EVENT/1.0)", "notifications are written with the HTTP protocol line: controllers take them for the answer to their next request")
	}
}

// requiredRoutes (C04-R5): the routes a controller needs exist.
func requiredRoutes(c *core.Ctx) {
	p := c.P
	f := p.Func("hap/http", "(*Server).setupEndpoints")
	if f == nil {
		c.Undecided("routes", token.NoPos, "setupEndpoints not found")
		return
	}
	have := map[string]bool{}
	core.Instrs(f, func(i ssa.Instruction) {
		if core.IsCall(i, "(*net/http.ServeMux).Handle") || core.IsCall(i, "(*net/http.ServeMux).HandleFunc") {
			if s, ok := core.ConstString(core.Args(i)[0]); ok {
				have[s] = true
			}
		}
	})
	for _, r := range []string{"/pair-setup", "/pair-verify", "/pairings", "/accessories", "/characteristics", "/identify"} {
		c.Check(have[r], "route-registered:"+r, f.Pos(), "route "+r+" is registered", "route "+r+" is not registered: a controller gets 404 for a request the specification requires the accessory to answer")
	}
}

// configLoadPolarity (C20-R1): what was stored is taken over exactly where reading it succeeded.
func configLoadPolarity(c *core.Ctx) {
	p := c.P
	f := p.Func("", "(*Config).load")
	if f == nil {
		c.Undecided("config-load", token.NoPos, "(*Config).load not found")
		return
	}
	n := 0
	for _, spec := range []struct{ key, fld string }{{"uuid", "id"}, {"version", "version"}, {"configHash", "configHash"}} {
		var get *ssa.Call
		core.Instrs(f, func(i ssa.Instruction) {
			if call, ok := i.(*ssa.Call); ok && core.IsInvoke(call, mod+"/util.Storage", "Get") {
				if s, isK := core.ConstString(call.Call.Args[0]); isK && s == spec.key {
					get = call
				}
			}
		})
		if get == nil {
			c.Bad("config-load:"+spec.key, f.Pos(), "the stored %q is never read: the value changes on every start", spec.key)
			continue
		}
		okRead := errNilFact(1, func(i ssa.Instruction) bool { return i == ssa.Instruction(get) })
		stored, good, verbatim := false, true, true
		core.Instrs(f, func(i ssa.Instruction) {
			st, ok := i.(*ssa.Store)
			if !ok {
				return
			}
			if _, isF := core.FieldAddrOf(st.Addr, tConfig, spec.fld); !isF {
				return
			}
			// the stored value derives from what this Get returned
			from := false
			walkOperands(st.Val, 6, func(v ssa.Value) {
				if core.CallResult(v, 0, func(ci ssa.Instruction) bool { return ci == ssa.Instruction(get) }) != nil {
					from = true
				}
			})
			if !from {
				return
			}
			stored = true
			if !core.Dominated(st, okRead) {
				good = false
			}
			// the device id and the structure hash are taken over as they were written: only a change of type ( string(b) ) between
			// the bytes read and the field. The version is a number and is parsed.
			if spec.key != "version" {
				v := st.Val
				for {
					if cv, ok := v.(*ssa.Convert); ok {
						v = cv.X
						continue
					}
					if ct, ok := v.(*ssa.ChangeType); ok {
						v = ct.X
						continue
					}
					break
				}
				if core.CallResult(v, 0, func(ci ssa.Instruction) bool { return ci == ssa.Instruction(get) }) == nil {
					verbatim = false
				}
			}
		})
		if !verbatim {
			c.Bad("config-load-verbatim:"+spec.key, get.Pos(), "the stored %s is changed on the way in (re-cased, trimmed, re-encoded): for a storage whose %s is not already in that form the accessory comes back with another identity — a new key pair is generated under the new name and the old entity stays behind as a phantom pairing — or with a configuration hash that never matches", spec.key, spec.key)
		} else if spec.key != "version" && stored {
			c.OK("config-load-verbatim:"+spec.key, get.Pos(), "taken over byte for byte")
		}
		n++
		c.Check(stored && good, "config-load:"+spec.key, get.Pos(), "the stored value is taken over on the branch where reading it succeeded", "the stored "+spec.key+" is not taken over where reading it succeeded (test inverted or assignment missing): the accessory forgets its "+spec.key+" on every restart")
	}
}

// contentHashCovers (C20-R3): the hash is computed over the marshalled database, with exactly the value members removed.
func contentHashCovers(c *core.Ctx) {
	p := c.P
	if f := p.Func("accessory", "(*Container).ContentHash"); f != nil {
		fed := false
		core.Instrs(f, func(i ssa.Instruction) {
			cc := core.CallOf(i)
			if cc == nil || !cc.IsInvoke() || cc.Method.Name() != "Write" {
				return
			}
			if core.AnySource(cc.Args[0], func(s ssa.Value) bool {
				return core.CallResult(s, 0, func(ci ssa.Instruction) bool { return core.IsCall(ci, "encoding/json.Marshal") }) != nil
			}) {
				fed = true
			}
		})
		sum := returnsOnly(f, func(v ssa.Value) bool {
			call, ok := v.(*ssa.Call)
			return ok && call.Call.IsInvoke() && call.Call.Method.Name() == "Sum"
		})
		c.Check(fed && sum, "hash-covers-database@"+fname(f), f.Pos(), "the hash function is fed the marshalled database and its sum is returned", "the content hash is not computed over the marshalled database (nothing is written to the hash): the configuration number never changes")
	}
	if f := p.Func("accessory", "deleteFieldFromDict"); f != nil {
		isField := core.CmpFact(func(x, y ssa.Value) (bool, bool) {
			if len(f.Params) > 1 && (x == ssa.Value(f.Params[1]) || y == ssa.Value(f.Params[1])) {
				return true, false
			}
			return false, false
		})
		n, good := 0, true
		core.Instrs(f, func(i ssa.Instruction) {
			call, ok := i.(*ssa.Call)
			if !ok {
				return
			}
			if b, isB := call.Call.Value.(*ssa.Builtin); isB && b.Name() == "delete" {
				n++
				if !core.Dominated(call, isField) {
					good = false
				}
			}
		})
		c.Check(n > 0 && good, "hash-removes-only-the-field@"+fname(f), f.Pos(), "a member is deleted exactly where its name equals the field", "members are deleted where their name differs from the field (test inverted): everything but the values is removed from the hashed document")
	}
}

// accessoryComposition (C14-R1): AddService appends the service, and a new accessory carries its information service.
func accessoryComposition(c *core.Ctx) {
	p := c.P
	if f := p.Func("accessory", "(*Accessory).AddService"); f != nil {
		ok := false
		core.Instrs(f, func(i ssa.Instruction) {
			st, isSt := i.(*ssa.Store)
			if !isSt || len(f.Blocks) != 1 {
				return
			}
			if _, isF := core.FieldAddrOf(st.Addr, mod+"/accessory.Accessory", "Services"); !isF {
				return
			}
			if call, isC := st.Val.(*ssa.Call); isC {
				if b, isB := call.Call.Value.(*ssa.Builtin); isB && b.Name() == "append" {
					for _, x := range appendedValues(call) {
						if valIs(x, f.Params[1]) {
							ok = true
						}
					}
				}
			}
		})
		c.Check(ok, "add-service-appends@"+fname(f), f.Pos(), "AddService appends the service to the accessory", "AddService does not append the service: accessories are published without it")
		// ... and numbers it: ids are otherwise assigned once, when the accessory is put into a container; a service added after that
		// (the library's own television example adds its input sources after creating the transport) is served with iid 0, and so are
		// its characteristics — duplicate, zero instance ids and "linked":[0,0,0]
		numbered := false
		core.Instrs(f, func(i ssa.Instruction) {
			if g := core.Callee(i); g != nil && core.TypeIs(recvType(g), mod+"/accessory.Accessory") && valIs(core.Receiver(i), f.Params[0]) {
				writes := false
				core.Instrs(g, func(j ssa.Instruction) {
					if st, ok := j.(*ssa.Store); ok {
						if _, isID := core.FieldAddrOf(st.Addr, mod+"/service.Service", "ID"); isID {
							writes = true
						}
					}
				})
				if writes {
					numbered = true
				}
			}
			if st, ok := i.(*ssa.Store); ok {
				if _, isID := core.FieldAddrOf(st.Addr, mod+"/service.Service", "ID"); isID {
					numbered = true
				}
			}
		})
		c.Check(numbered, "add-service-numbers@"+fname(f), f.Pos(), "AddService assigns instance ids to what it adds", "AddService only appends: a service that is added after the accessory was put into a container keeps instance id 0, and so do its characteristics — the accessory is served with zero and duplicate instance ids")
	}
	// numbering starts from the same constant on every call: the ids depend on the order of the services only, not on how often the
	// accessory was numbered before (offered to a second container, rejected as a duplicate, numbered again after AddService)
	if f := p.Func("accessory", "(*Accessory).UpdateIDs"); f != nil {
		restarts := false
		for _, st := range core.FindCalls(f, func(ssa.Instruction) bool { return false }) {
			_ = st
		}
		core.Instrs(f, func(i ssa.Instruction) {
			st, ok := i.(*ssa.Store)
			if !ok || st.Block() != f.Blocks[0] {
				return
			}
			if _, isCnt := core.FieldAddrOf(st.Addr, mod+"/accessory.Accessory", "idCount"); isCnt {
				if k, isK := core.ConstInt(st.Val); isK && k == 1 {
					restarts = true
				}
			}
		})
		c.Check(restarts, "numbering-restarts@"+fname(f), f.Pos(), "UpdateIDs starts from 1 on every call", "UpdateIDs continues from wherever the counter stands: the instance ids an accessory is served with depend on how often it was numbered before (a rejected AddAccessory, a second container), not on its construction alone")
	}
	if f := p.Func("accessory", "New"); f != nil {
		ok := false
		core.Instrs(f, func(i ssa.Instruction) {
			if g := core.Callee(i); g != nil && cn(g) == "AddService" {
				ok = true
			}
		})
		c.Check(ok, "info-service-added@"+fname(f), f.Pos(), "a new accessory gets its accessory-information service", "accessory.New does not add the accessory-information service (required first service of every accessory)")
	}
}

// ownEntityProtected (C20-R1): the accessory's long-term key pair is stored in the pairing database under the accessory's own name,
// next to the controllers' entities. A pairing request — pair-setup's key exchange, /pairings add and remove — names its entity
// itself; one that names the accessory replaces the key pair by the peer's public key (no private key: after the next start the
// accessory has another identity and cannot sign) or removes it. Every SaveEntity / DeleteEntity in the pairing controllers is
// therefore behind a test that excludes the accessory's own entity: the name differs from the device's name, or the entity stored
// under that name holds no private key.
func ownEntityProtected(c *core.Ctx) {
	p := c.P
	n := 0
	for _, f := range libFuncs(p) {
		if !strings.HasSuffix(pkgPathOf(f), "/hap/pair") {
			continue
		}
		for _, s := range core.FindCalls(f, func(i ssa.Instruction) bool {
			return core.IsInvoke(i, qDatabase, "SaveEntity") || core.IsInvoke(i, qDatabase, "DeleteEntity")
		}) {
			if strings.Contains(fname(f), "Client") {
				continue // the controller side of the protocol (test helper of the library)
			}
			n++
			// name != device.Name()
			notOwn := core.CmpFact(func(x, y ssa.Value) (bool, bool) {
				isDevName := func(v ssa.Value) bool {
					call, ok := v.(*ssa.Call)
					return ok && (core.IsInvoke(call, mod+"/hap.SecuredDevice", "Name") || core.IsInvoke(call, mod+"/hap.Device", "Name"))
				}
				if isDevName(x) || isDevName(y) {
					return false, true
				}
				return false, false
			})
			// the stored entity of that name has no private key: lookup failed, or len(e.PrivateKey) == 0
			lookupErr := func(v ssa.Value) bool {
				return core.AnySource(v, func(sv ssa.Value) bool {
					return core.CallResult(sv, 1, func(ci ssa.Instruction) bool { return core.IsInvoke(ci, qDatabase, "EntityWithName") }) != nil
				})
			}
			noPrivate := func(cond ssa.Value) (bool, bool) {
				bo, ok := cond.(*ssa.BinOp)
				if !ok {
					return false, false
				}
				call, ok := bo.X.(*ssa.Call)
				if !ok {
					return false, false
				}
				bi, ok := call.Call.Value.(*ssa.Builtin)
				if !ok || bi.Name() != "len" {
					return false, false
				}
				if _, isPK := core.FieldLoad(call.Call.Args[0], mod+"/db.Entity", "PrivateKey"); !isPK {
					return false, false
				}
				k, isK := core.ConstInt(bo.Y)
				if !isK || k != 0 {
					return false, false
				}
				switch bo.Op {
				case token.GTR, token.NEQ:
					return false, true
				case token.EQL, token.LEQ:
					return true, false
				}
				return false, false
			}
			ok := core.Dominated(s, notOwn) || core.Dominated(s, core.AnyFact(core.NonNilFact(lookupErr), noPrivate))
			c.Check(ok, "own-entity-protected@"+fname(f)+"/"+core.CallOf(s).Method.Name(), posOf(s), "behind a test that the entity is not the accessory's own",
				"a pairing request can name the accessory itself: "+core.CallOf(s).Method.Name()+" in "+fname(f)+" is reached without a test that the name is not the accessory's own (name != device name, or the stored entity has no private key) — the accessory's long-term key pair is replaced by the peer's public key or removed; after the next start the accessory has lost its identity")
		}
	}
	if n == 0 {
		c.Undecided("own-entity-protected", token.NoPos, "no SaveEntity / DeleteEntity call in the pairing controllers")
	}
}

package rules

import (
	"go/token"

	"golang.org/x/tools/go/ssa"

	"hcsa/core"
)

// Obligations on the small methods of Characteristic that every property about values, permissions and notifications leans on.
// They were added after the mutation sweep (DESIGN.md section 11): each of them is a one-line method or a two-way decision whose
// inversion or deletion no other rule noticed.

// charRegistration (C10-R2): the registration methods keep the callback they are given.
func charRegistration(c *core.Ctx) {
	p := c.P
	for _, spec := range []struct {
		method, field string
		app           bool
	}{{"OnValueUpdate", "valueChangeFuncs", true}, {"OnValueUpdateFromConn", "connValueUpdateFuncs", true}, {"OnValueGet", "valueGetFunc", false}} {
		f := p.Func("characteristic", "(*Characteristic)."+spec.method)
		if f == nil {
			c.Undecided("registration:"+spec.method, token.NoPos, "not found")
			continue
		}
		ok, n := false, 0
		core.Instrs(f, func(i ssa.Instruction) {
			st, isSt := i.(*ssa.Store)
			if !isSt {
				return
			}
			if _, isF := core.FieldAddrOf(st.Addr, tChar, spec.field); !isF {
				return
			}
			n++
			if len(f.Blocks) != 1 || len(f.Params) < 2 {
				return
			}
			if !spec.app {
				ok = valIs(st.Val, f.Params[1])
				return
			}
			// append(field, fn)
			call, isC := st.Val.(*ssa.Call)
			if !isC {
				return
			}
			if b, isB := call.Call.Value.(*ssa.Builtin); !isB || b.Name() != "append" {
				return
			}
			if _, isF := core.FieldLoad(call.Call.Args[0], tChar, spec.field); !isF {
				return
			}
			for _, x := range appendedValues(call) {
				if valIs(x, f.Params[1]) {
					ok = true
				}
			}
		})
		c.Check(ok && n == 1, "registration:"+spec.method, f.Pos(), spec.method+" keeps the callback it is given (unconditionally)",
			spec.method+" does not keep the callback it is given: the transport is never told about changes (no events), or the application's getter is never asked")
	}
}

// charSetters (C09-R4): the public update methods hand their argument to updateValue, and getValue asks the getter exactly when there is one.
func charSetters(c *core.Ctx) {
	p := c.P
	uv := p.Func("characteristic", "(*Characteristic).updateValue")
	if uv == nil {
		return
	}
	for _, name := range []string{"UpdateValue", "UpdateValueFromConnection"} {
		f := p.Func("characteristic", "(*Characteristic)."+name)
		if f == nil {
			c.Undecided("update-api:"+name, token.NoPos, "not found")
			continue
		}
		ok := false
		core.Instrs(f, func(i ssa.Instruction) {
			if core.Callee(i) == uv && len(f.Blocks) == 1 {
				a := core.Args(i)
				if len(a) >= 1 && len(f.Params) >= 2 && valIs(a[0], f.Params[1]) && valIs(core.Receiver(i), f.Params[0]) {
					ok = true
				}
			}
		})
		c.Check(ok, "update-api:"+name, f.Pos(), name+" hands its argument to updateValue of the same characteristic", name+" does not (always) pass the value it is given on to updateValue: what the application or a controller sets is dropped")
	}
	if g := p.Func("characteristic", "(*Characteristic).getValue"); g != nil {
		hasGetter := core.NonNilFact(func(v ssa.Value) bool { _, ok := core.FieldLoad(v, tChar, "valueGetFunc"); return ok })
		n := 0
		core.Instrs(g, func(i ssa.Instruction) {
			call, ok := i.(*ssa.Call)
			if !ok || call.Call.IsInvoke() || call.Call.StaticCallee() != nil {
				return
			}
			if _, isF := core.FieldLoad(call.Call.Value, tChar, "valueGetFunc"); !isF {
				return
			}
			n++
			c.Check(core.Dominated(call, hasGetter), "getter-called-when-set@"+fname(g), posOf(call), "the application's getter is called on the branch where one is registered",
				"the application's getter is called where none is registered (test inverted): nil function call on every read, and a registered getter is never asked")
		})
		if n == 0 {
			c.Note("getter-call", g.Pos(), "getValue does not call valueGetFunc directly")
		}
	}
}

// charGateExact (C09-R4 / C11-R1): the write gate of updateValue is exactly "checkPerms && !IsWritable()": a local update is stored
// whatever the write permission, a remote update of a writable characteristic is stored too.
func charGateExact(c *core.Ctx) {
	p := c.P
	f := p.Func("characteristic", "(*Characteristic).updateValue")
	if f == nil {
		return
	}
	var checkPerms *ssa.Parameter
	for _, pr := range f.Params {
		if isBoolType(pr.Type()) {
			checkPerms = pr
		}
	}
	var store *ssa.Store
	core.Instrs(f, func(i ssa.Instruction) {
		if st, ok := i.(*ssa.Store); ok {
			if _, isF := core.FieldAddrOf(st.Addr, tChar, "Value"); isF {
				store = st
			}
		}
	})
	if checkPerms == nil || store == nil {
		c.Undecided("write-gate-exact@"+fname(f), f.Pos(), "permission parameter or value store not found")
		return
	}
	isCP := func(v ssa.Value) bool { return v == ssa.Value(checkPerms) }
	isW := func(v ssa.Value) bool {
		call, ok := v.(*ssa.Call)
		return ok && core.Callee(call) != nil && cn(core.Callee(call)) == "IsWritable"
	}
	// local update, not writable: cut every edge that needs checkPerms or IsWritable() to be true
	local := core.ReachableFromEntry(store, core.CutWhere(core.AnyFact(core.TrueFact(isCP), core.TrueFact(isW))))
	// remote update, writable: cut every edge that needs checkPerms or IsWritable() to be false
	remote := core.ReachableFromEntry(store, core.CutWhere(core.AnyFact(core.FalseFact(isCP), core.FalseFact(isW))))
	c.Check(local, "write-gate-exact/local@"+fname(f), store.Pos(), "a local update reaches the store without write permission", "a local update (checkPerms false) is stored only if the characteristic is writable: what the application sets on a read-only characteristic is dropped")
	c.Check(remote, "write-gate-exact/remote@"+fname(f), store.Pos(), "a remote update of a writable characteristic reaches the store", "a remote update of a writable characteristic cannot reach the store: controller writes have no effect")
}

// charDispatchPolarity (C10-R3): connection callbacks run for updates that come from a connection, plain callbacks for the others.
func charDispatchPolarity(c *core.Ctx) {
	p := c.P
	f := p.Func("characteristic", "(*Characteristic).updateValue")
	if f == nil {
		return
	}
	var conn *ssa.Parameter
	for _, pr := range f.Params {
		if core.TypeIs(pr.Type(), "net.Conn") {
			conn = pr
		}
	}
	if conn == nil {
		return
	}
	fromConn := core.NonNilFact(func(v ssa.Value) bool { return v == ssa.Value(conn) })
	noConn := core.IsNilFact(func(v ssa.Value) bool { return v == ssa.Value(conn) })
	uses := func(i ssa.Instruction, fld string) bool {
		cc := core.CallOf(i)
		if cc == nil {
			return false
		}
		for _, a := range cc.Args {
			if _, ok := core.FieldLoad(a, tChar, fld); ok {
				return true
			}
		}
		if _, ok := core.FieldLoad(cc.Value, tChar, fld); ok {
			return true
		}
		return false
	}
	n := 0
	core.InstrsDeep(f, func(_ *ssa.Function, i ssa.Instruction) {
		if i.Parent() != f {
			return
		}
		if uses(i, "connValueUpdateFuncs") {
			n++
			c.Check(core.Dominated(i, fromConn), "dispatch-polarity/conn@"+fname(f), posOf(i), "connection callbacks are used on the conn != nil branch", "the callbacks registered for updates from a connection are run for local updates (or not for remote ones): the originator is not known to the fan-out")
		}
		if uses(i, "valueChangeFuncs") {
			n++
			c.Check(core.Dominated(i, noConn), "dispatch-polarity/local@"+fname(f), posOf(i), "plain callbacks are used on the conn == nil branch", "the callbacks for local updates are run for updates from a connection: the write is notified back to its originator")
		}
	})
	if n == 0 {
		c.Note("dispatch-polarity", f.Pos(), "callback slices are not dispatched directly in updateValue")
	}
}

// permPredicatePolarity (C11-R5): readPerm / writePerm / eventPerm answer true exactly on a match.
func permPredicatePolarity(c *core.Ctx) {
	p := c.P
	for _, spec := range []struct{ fn, perm string }{{"readPerm", "pr"}, {"writePerm", "pw"}, {"eventPerm", "ev"}} {
		f := p.Func("characteristic", spec.fn)
		if f == nil {
			continue // written out / merged: C11-R5 predicate:* decides on the predicates themselves
		}
		match := core.CmpFact(func(x, y ssa.Value) (bool, bool) {
			if s, ok := core.ConstString(y); ok && s == spec.perm {
				return true, false
			}
			if s, ok := core.ConstString(x); ok && s == spec.perm {
				return true, false
			}
			return false, false
		})
		good, n := true, 0
		core.Instrs(f, func(i ssa.Instruction) {
			r, ok := i.(*ssa.Return)
			if !ok || len(res(r)) != 1 {
				return
			}
			n++
			k, isK := core.ConstInt(res(r)[0])
			if !isK {
				return // returns the comparison itself or a merged value: C11-R5 predicate:* checks the scan
			}
			if k == 1 && !core.Dominated(r, match) {
				good = false
			}
			if k == 0 && core.Dominated(r, match) {
				good = false
			}
		})
		c.Check(good && n > 0, "perm-predicate-polarity:"+spec.fn, f.Pos(), "answers true only on the branch where an entry equals \""+spec.perm+"\"", spec.fn+" answers true without (or false on) a match with \""+spec.perm+"\": the permission test is inverted")
	}
}

func isBoolType(t interface{ String() string }) bool { return t.String() == "bool" }

package rules

import (
	"fmt"
	"go/token"
	"go/types"
	"strings"

	"golang.org/x/tools/go/ssa"

	"hcsa/core"
)

func init() {
	register(&core.Property{
		ID:    "C07",
		Level: "other",
		Explanation: "Ownership and flow rules of the three buffers on the decrypted read path, each necessary for loss-free delivery: " +
			"(R1) a buffering reader over the raw socket must be kept in a field of the Connection and that field is what Decrypt reads from — a per-call buffered reader loses what it read ahead; " +
			"(R2) typestate of the remainder buffer: after the Read on it, every path that keeps the buffer for the next call has passed a 'not drained' test (and the concrete reader types " +
			"Decrypt returns support that test), or no path returns the buffer's EOF to the caller; (R3) plaintext accumulated before a stream-read error is not dropped (repaired by d195882: " +
			"Decrypt consumes one frame per call, so nothing is accumulated across reads); (R4) the remainder is overwritten only when empty; (R5) frame pieces are read completely (shared with C06-R4).",
		Assumptions: []string{"bufio.Reader, bytes.Buffer semantics"},
		NotDecided:  []string{"all segmentations x buffer sizes", "timing: how long a read blocks"},
		Rules: []core.Rule{
			{ID: "C07-R1", Title: "the read-ahead buffer over the socket outlives the call", Decides: "no byte lost when frames are coalesced into one segment", Floor: 2, Run: func(c *core.Ctx) { c07r1(c); socketIsTheAcceptedOne(c) }},
			{ID: "C07-R2", Title: "the remainder buffer is kept only while it has unread data; the drained test recognises the reader Decrypt returns", Decides: "no end-of-stream while the peer is connected", Floor: 2, Run: func(c *core.Ctx) { c07r2(c); drainedRecognisesDecrypt(c); passThrough(c, "C07"); returnsUndecorated(c, "C07") }},
			{ID: "C07-R3", Title: "no plaintext dropped on a stream-read error", Decides: "no byte lost across read time-outs", Floor: 1, Run: c07r3},
			{ID: "C07-R4", Title: "the remainder is fetched only when none is pending", Decides: "no byte lost or reordered between messages", Floor: 1, Run: c07r4},
			{ID: "C07-R5", Title: "frame pieces are read completely however the network splits them; a frame is consumed only when it is complete, and handed out at once", Decides: "frames split at every offset are reassembled", Floor: 1, Run: func(c *core.Ctx) { c07r5(c); frameAtATime(c) }},
			{ID: "C07-R6", Title: "a short frame ends the message; one decrypt per read, errors returned; counter advanced after the frame is read; read-ahead never discarded", Decides: "no byte lost across time-outs, coalesced frames and deadlines", Floor: 5, Run: func(c *core.Ctx) { c07r6(c); polarityEverywhere(c, "C07") }},
		},
	})
}

func fromRawSocket(v ssa.Value) bool {
	return core.AnySource(v, func(s ssa.Value) bool {
		_, ok := core.FieldLoad(s, tConn, "connection")
		return ok
	})
}

func isBufferingCtor(i ssa.Instruction) bool {
	f := core.Callee(i)
	if f == nil || f.Pkg == nil || f.Pkg.Pkg.Path() != "bufio" {
		return false
	}
	return strings.HasPrefix(cn(f), "NewReader") || cn(f) == "NewReadWriter" || cn(f) == "NewScanner"
}

func c07r1(c *core.Ctx) {
	p := c.P
	n := 0
	var fields []string
	for _, f := range libFuncs(p) {
		if f.Pkg == nil || f.Pkg.Pkg.Path() != mod+"/hap" {
			continue
		}
		for _, s := range core.FindCalls(f, isBufferingCtor) {
			call, isCall := s.(*ssa.Call)
			if !isCall {
				continue
			}
			stored := ""
			for _, r := range *call.Referrers() {
				if st, ok := r.(*ssa.Store); ok {
					if fa, ok := st.Addr.(*ssa.FieldAddr); ok && core.TypeIs(fa.X.Type(), tConn) {
						stored = core.FieldName(fa)
					}
				}
			}
			// a reader over the socket made in a method of the connection, or one that is kept in the Connection wherever it is made
			// (the constructor may allocate it with the connection)
			if !(core.TypeIs(recvType(f), tConn) && fromRawSocket(core.Args(s)[0])) && stored == "" {
				continue
			}
			n++
			// the read path looks at a whole frame before it consumes it (Peek): the buffer must hold the largest well-formed frame,
			// 2 + 1024 + 16 bytes on the wire; bufio's default is 4096
			if g := core.Callee(s); g != nil && cn(g) == "NewReaderSize" && len(core.Args(s)) > 1 {
				if k, isK := core.ConstInt(core.Args(s)[1]); isK {
					c.Check(k >= 2+1024+16, "read-ahead-holds-a-frame@"+fname(f), posOf(s), "the read-ahead buffer holds a frame of the maximum size",
						fmt.Sprintf("the read-ahead buffer has %d bytes, a frame of the maximum size takes 1042 on the wire: Peek of such a frame fails with bufio.ErrBufferFull, the read reports a decryption error and the connection is closed on a well-formed frame", k))
				} else {
					c.Undecided("read-ahead-holds-a-frame@"+fname(f), posOf(s), "size of the read-ahead buffer is not a constant")
				}
			}
			if stored != "" {
				fields = append(fields, stored)
				c.OK("buffered-reader@"+fname(f), posOf(s), "kept in %s", core.Rel(stored))
			} else {
				c.Bad("buffered-reader@"+fname(f), posOf(s), "a buffering reader over the raw socket is created per call and not kept in the Connection: bytes it reads ahead (a second frame in the same segment) are lost with it and the frame counters go out of step")
			}
		}
	}
	c.Count("buffering_readers_over_socket", n)
	// what Decrypt reads from
	dr := p.Func("hap", "(*Connection).DecryptedRead")
	if dr == nil {
		c.Undecided("DecryptedRead", token.NoPos, "not found")
		return
	}
	for _, s := range core.FindCalls(dr, func(i ssa.Instruction) bool { return core.IsInvoke(i, mod+"/crypto.Decrypter", "Decrypt") }) {
		arg := core.Args(s)[0]
		fromField := core.AllSources(arg, func(sv ssa.Value) bool {
			u, ok := sv.(*ssa.UnOp)
			if !ok {
				return false
			}
			fa, ok := u.X.(*ssa.FieldAddr)
			if !ok || !core.TypeIs(fa.X.Type(), tConn) {
				return false
			}
			// raw socket itself (unbuffered) is acceptable as well: nothing is read ahead then
			return true
		})
		if !fromField {
			// ... or from a reader over one complete frame peeked from the read-ahead buffer held in the Connection (nothing is
			// buffered by that reader beyond the frame, and the frame is discarded from the read-ahead buffer afterwards)
			if ok, _, _ := frameAtATimeHolds(p); ok {
				fromField = true
			}
		}
		c.Check(fromField, "decrypt-source@"+fname(dr), posOf(s), "Decrypt reads from a reader held in the Connection, or from one complete frame peeked from it", "Decrypt is given a reader that does not live in the Connection: whatever it buffers is lost after the call")
	}
}

func c07r2(c *core.Ctx) {
	p := c.P
	dr := p.Func("hap", "(*Connection).DecryptedRead")
	if dr == nil {
		c.Undecided("DecryptedRead", token.NoPos, "not found")
		return
	}
	// the remainder field: the Connection field that receives Decrypt's reader
	remField := ""
	core.Instrs(dr, func(i ssa.Instruction) {
		st, ok := i.(*ssa.Store)
		if !ok {
			return
		}
		fa, ok := st.Addr.(*ssa.FieldAddr)
		if !ok || !core.TypeIs(fa.X.Type(), tConn) {
			return
		}
		if core.AnySource(st.Val, func(s ssa.Value) bool {
			return core.CallResult(s, 0, func(ci ssa.Instruction) bool { return core.IsInvoke(ci, mod+"/crypto.Decrypter", "Decrypt") }) != nil
		}) {
			parts := strings.Split(core.FieldName(fa), ".")
			remField = parts[len(parts)-1]
		}
	})
	if remField == "" {
		c.Undecided("remainder-field@"+fname(dr), dr.Pos(), "no Connection field receives the reader returned by Decrypt")
		return
	}
	isRem := func(v ssa.Value) bool {
		return core.AnySource(v, func(s ssa.Value) bool { _, ok := core.FieldLoad(s, tConn, remField); return ok })
	}
	var read *ssa.Call
	core.Instrs(dr, func(i ssa.Instruction) {
		if cc, ok := i.(*ssa.Call); ok && cc.Call.IsInvoke() && cc.Call.Method.Name() == "Read" && isRem(cc.Call.Value) {
			read = cc
		}
	})
	if read == nil {
		c.Undecided("remainder-read@"+fname(dr), dr.Pos(), "no Read on the remainder buffer")
		return
	}
	var readErr ssa.Value
	for _, r := range *read.Referrers() {
		if e, ok := r.(*ssa.Extract); ok && e.Index == 1 {
			readErr = e
		}
	}
	// "not drained" evidence: Len() of the remainder compared with 0, inline or through a helper
	lenBased := false
	usesAssert := false
	isLenCall := func(v ssa.Value, of func(ssa.Value) bool) bool {
		call, ok := v.(*ssa.Call)
		if !ok {
			return false
		}
		if call.Call.IsInvoke() && call.Call.Method.Name() == "Len" {
			return of(call.Call.Value)
		}
		if f := call.Call.StaticCallee(); f != nil && cn(f) == "Len" && len(call.Call.Args) == 1 {
			return of(call.Call.Args[0])
		}
		return false
	}
	lenZeroFact := func(of func(ssa.Value) bool) core.CondFact { // fact: NOT drained
		return func(cond ssa.Value) (bool, bool) {
			b, ok := cond.(*ssa.BinOp)
			if !ok {
				return false, false
			}
			n, isK := core.ConstInt(b.Y)
			if !isK || n != 0 || !isLenCall(b.X, of) {
				return false, false
			}
			switch b.Op {
			case token.EQL, token.LEQ:
				return false, true
			case token.NEQ, token.GTR:
				return true, false
			}
			return false, false
		}
	}
	helperNotDrained := core.FalseFact(func(v ssa.Value) bool {
		call, ok := v.(*ssa.Call)
		if !ok {
			return false
		}
		f := call.Call.StaticCallee()
		if f == nil || !core.InModule(f) || f.Blocks == nil || len(call.Call.Args) == 0 {
			return false
		}
		okArg, viaConn := false, false
		for _, a := range call.Call.Args {
			if isRem(a) {
				okArg = true
			}
			// the Connection itself is handed over and the helper loads the remainder field from it (a method "con.drained()")
			if len(dr.Params) > 0 && core.TypeIs(a.Type(), tConn) && core.AllSources(a, func(s ssa.Value) bool { return s == ssa.Value(dr.Params[0]) }) {
				okArg, viaConn = true, true
			}
		}
		if !okArg {
			return false
		}
		// helper returns true only if Len()==0 of its parameter: every "return true"/"return Len()==0"
		good, n := true, 0
		ofParam := func(x ssa.Value) bool {
			return core.AnySource(x, func(s ssa.Value) bool {
				if pp, ok := s.(*ssa.Parameter); ok {
					return !core.TypeIs(pp.Type(), tConn)
				}
				if viaConn {
					if base, ok := core.FieldLoad(s, tConn, remField); ok {
						_, isParam := base.(*ssa.Parameter)
						return isParam
					}
				}
				if e, ok := s.(*ssa.Extract); ok {
					if ta, ok := e.Tuple.(*ssa.TypeAssert); ok {
						usesAssert = true
						_ = ta
						return true
					}
				}
				return false
			})
		}
		core.Instrs(f, func(i ssa.Instruction) {
			r, ok := i.(*ssa.Return)
			if !ok || len(res(r)) != 1 {
				return
			}
			if v, isK := core.ConstInt(res(r)[0]); isK {
				if v == 1 {
					good = false // unconditional "drained" would also be fine for safety, but then nothing is ever kept
				}
				return
			}
			n++
			// Len() == 0, or a conjunction  ok && Len() == 0  (false where the operand before it is false)
			vals := []ssa.Value{res(r)[0]}
			if ph, isPhi := res(r)[0].(*ssa.Phi); isPhi {
				vals = nil
				for _, e := range ph.Edges {
					if k, isK := core.ConstInt(e); isK && k == 0 {
						continue
					}
					vals = append(vals, e)
				}
			}
			for _, v := range vals {
				b, ok := v.(*ssa.BinOp)
				if !ok || b.Op != token.EQL || !isLenCall(b.X, ofParam) {
					good = false
					return
				}
				if k, isK := core.ConstInt(b.Y); !isK || k != 0 {
					good = false
				}
			}
		})
		// the Len() of the asserted value is asked only where the assertion succeeded
		core.Instrs(f, func(i ssa.Instruction) {
			cc := core.CallOf(i)
			if cc == nil || !cc.IsInvoke() || cc.Method.Name() != "Len" {
				return
			}
			e, ok := cc.Value.(*ssa.Extract)
			if !ok || e.Index != 0 {
				return
			}
			ta, ok := e.Tuple.(*ssa.TypeAssert)
			if !ok || !ta.CommaOk {
				return
			}
			okFact := core.TrueFact(func(v ssa.Value) bool {
				e2, ok := v.(*ssa.Extract)
				return ok && e2.Tuple == ssa.Value(ta) && e2.Index == 1
			})
			if !core.Dominated(i, okFact) {
				good = false
			}
		})
		if good && n > 0 {
			lenBased = true
		}
		return good && n > 0
	})
	// the drained test written out:  if l, ok := rem.(interface{ Len() int }); ok && l.Len() == 0 { clear } : the !ok edge keeps the
	// buffer on the strength of "every reader Decrypt returns has Len()" — the same obligation the helper form relies on (checked below)
	assertFails := func(cond ssa.Value) (bool, bool) {
		e, ok := cond.(*ssa.Extract)
		if !ok || e.Index != 1 {
			return false, false
		}
		ta, ok := e.Tuple.(*ssa.TypeAssert)
		if !ok || !ta.CommaOk || !isRem(ta.X) {
			return false, false
		}
		it, ok := ta.AssertedType.Underlying().(*types.Interface)
		if !ok {
			return false, false
		}
		for k := 0; k < it.NumMethods(); k++ {
			if it.Method(k).Name() == "Len" {
				usesAssert, lenBased = true, true
				return false, true
			}
		}
		return false, false
	}
	inlineLen := lenZeroFact(func(v ssa.Value) bool {
		// l.Len() where l is the asserted remainder
		if isRem(v) {
			return true
		}
		if e, ok := v.(*ssa.Extract); ok && e.Index == 0 {
			if ta, ok := e.Tuple.(*ssa.TypeAssert); ok && isRem(ta.X) {
				usesAssert, lenBased = true, true
				return true
			}
		}
		return false
	})
	notDrained := core.AnyFact(lenZeroFact(isRem), inlineLen, assertFails, helperNotDrained)
	// enumerate paths from entry; consider the part after the Read
	retain, eofReturned, total := 0, 0, 0
	var retainPath core.Path
	core.EnumPaths(dr, 2, 50000, func(pa core.Path) {
		// does the path execute the Read?
		idx := -1
		for k, b := range pa {
			if b == read.Block() {
				idx = k
			}
		}
		if idx < 0 || pa.Returns() == nil {
			return
		}
		total++
		tail := pa[idx:]
		cleared := false
		tail.Instrs(func(i ssa.Instruction) {
			if st, ok := i.(*ssa.Store); ok {
				if _, ok := core.FieldAddrOf(st.Addr, tConn, remField); ok && core.IsNilConst(st.Val) {
					cleared = true
				}
			}
		})
		if !cleared && !pathEstablishes(tail, notDrained) {
			retain++
			if retainPath == nil {
				retainPath = pa
			}
		}
		// EOF of the remainder handed to the caller
		eofTrue := func(cond ssa.Value) (bool, bool) {
			b, ok := cond.(*ssa.BinOp)
			if !ok || (b.Op != token.EQL && b.Op != token.NEQ) {
				return false, false
			}
			isEOF := func(v ssa.Value) bool {
				u, ok := v.(*ssa.UnOp)
				if !ok {
					return false
				}
				g, ok := u.X.(*ssa.Global)
				return ok && g.Name() == "EOF"
			}
			if (isEOF(b.X) && b.Y == readErr) || (isEOF(b.Y) && b.X == readErr) {
				return b.Op == token.EQL, b.Op == token.NEQ
			}
			return false, false
		}
		ret := pa.Returns()
		if readErr != nil && len(res(ret)) == 2 && valIs(res(ret)[1], readErr) && !pathEstablishes(tail, func(cond ssa.Value) (bool, bool) { t, f := eofTrue(cond); return f, t }) {
			eofReturned++
		}
	})
	c.Count("paths_after_remainder_read", total)
	if retain > 0 && eofReturned > 0 {
		c.BadPath("remainder-kept-when-empty@"+fname(dr), posOf(read), retainPath.Describe(p),
			"a path keeps the remainder buffer for the next call without having established that it still holds data, and the buffer's EOF can reach the caller: after a message of exactly the caller's buffer size the next Read returns (0, io.EOF) on a live connection")
	} else {
		c.OK("remainder-typestate@"+fname(dr), posOf(read), "%d paths: the remainder is either cleared or known to hold data when it is kept (%d unproven keeps, %d paths returning the buffer's error)", total, retain, eofReturned)
	}
	// the concrete readers Decrypt returns must support the Len-based test when that is the evidence used
	if lenBased || usesAssert {
		dec := p.Func("crypto", "(*secureSession).Decrypt")
		if dec == nil {
			c.Undecided("Decrypt", token.NoPos, "not found")
			return
		}
		good, n := true, 0
		why := ""
		core.Instrs(dec, func(i ssa.Instruction) {
			r, ok := i.(*ssa.Return)
			if !ok || len(res(r)) != 2 || core.IsNilConst(res(r)[0]) {
				return
			}
			n++
			for _, s := range core.Sources(res(r)[0]) {
				var t types.Type
				switch x := s.(type) {
				case *ssa.Alloc:
					t = x.Type()
				default:
					t = s.Type()
				}
				if _, isIface := t.Underlying().(*types.Interface); isIface || !hasMethod(p, t, "Len") {
					good = false
					why = t.String()
				}
			}
		})
		c.Check(good && n > 0, "remainder-type-supports-drained-test@"+fname(dec), dec.Pos(), "every reader Decrypt returns has a Len() method, so the drained test works",
			"Decrypt returns a reader ("+why+") without Len(): DecryptedRead's drained test silently answers 'not drained', the empty remainder is kept and its EOF reaches the caller (or data is split across reads)")
	} else {
		c.Note("remainder-type", dr.Pos(), "drained evidence is not Len-based; concrete reader types not constrained")
	}
}

func c07r3(c *core.Ctx) {
	// Observed at Connection.Read, which is where C07 looks: when the read path hands Decrypt complete frames only (frame-at-a-time),
	// Decrypt's reads cannot fail between or inside frames, so no path of it drops plaintext on the way to the connection's reader.
	if ok, site, _ := frameAtATimeHolds(c.P); ok {
		c.OK("(*secureSession).Decrypt/return-after-append", site.Pos(), "Decrypt is handed one complete frame at a time by the connection's read path: none of its stream reads can fail with plaintext of an earlier frame pending")
		return
	}
	decryptDropsPlaintext(c, "(*secureSession).Decrypt/return-after-append", false)
}

// decryptDropsPlaintext: paths of Decrypt that return (nil, stream-read error) after plaintext of earlier frames was accumulated.
func decryptDropsPlaintext(c *core.Ctx, construct string, failClosedOK bool) {
	p := c.P
	dec := p.Func("crypto", "(*secureSession).Decrypt")
	if dec == nil {
		c.Undecided("Decrypt", token.NoPos, "not found")
		return
	}
	bad, total := 0, 0
	var witness core.Path
	core.EnumPaths(dec, 2, 200000, func(pa core.Path) {
		total++
		ret := pa.Returns()
		if ret == nil || len(res(ret)) != 2 || !core.IsNilConst(res(ret)[0]) {
			return
		}
		// error provenance: a stream read
		streamErr := core.AnySource(res(ret)[1], func(s ssa.Value) bool {
			if cc, ok := s.(*ssa.Call); ok {
				_, _, isRead := isStreamRead(cc)
				return isRead || (cc.Call.IsInvoke() && cc.Call.Method.Name() == "Read")
			}
			return false
		})
		if !streamErr {
			return
		}
		appended := false
		pa.Instrs(func(i ssa.Instruction) {
			if core.IsCall(i, "(*bytes.Buffer).Write") || core.IsInvoke(i, "io.Writer", "Write") {
				appended = true
			}
			if cc := core.CallOf(i); cc != nil {
				if b, ok := cc.Value.(*ssa.Builtin); ok && b.Name() == "append" {
					appended = true
				}
			}
		})
		// fail-closed: the session is marked final on this path (a field of the session is set to the error): the plaintext is lost,
		// but nothing is released afterwards either — for C05, which asks for prefixes only, that is in order
		final := false
		if failClosedOK {
			pa.Instrs(func(i ssa.Instruction) {
				if st, ok := i.(*ssa.Store); ok {
					if fa, ok := st.Addr.(*ssa.FieldAddr); ok && core.TypeIs(fa.X.Type(), tSecure) && !core.IsNilConst(st.Val) && st.Val.Type().String() == "error" {
						final = true
					}
				}
			})
		}
		if appended && !final {
			bad++
			if witness == nil {
				witness = pa
			}
		}
	})
	c.Count("paths_enumerated", total)
	if bad > 0 {
		c.BadPath(construct, dec.Pos(), witness.Describe(p),
			"%d path(s) return (nil, stream-read error) after plaintext of earlier frames was appended: the counter has advanced and that plaintext is discarded (e.g. a full 1024-byte frame followed by a read time-out)", bad)
	} else {
		c.OK(construct, dec.Pos(), "no path drops accumulated plaintext on a stream-read error")
	}
}

func c07r4(c *core.Ctx) {
	p := c.P
	dr := p.Func("hap", "(*Connection).DecryptedRead")
	if dr == nil {
		c.Undecided("DecryptedRead", token.NoPos, "not found")
		return
	}
	for _, s := range core.FindCalls(dr, func(i ssa.Instruction) bool { return core.IsInvoke(i, mod+"/crypto.Decrypter", "Decrypt") }) {
		isRemField := func(v ssa.Value) bool {
			u, ok := v.(*ssa.UnOp)
			if !ok {
				return false
			}
			fa, ok := u.X.(*ssa.FieldAddr)
			if !ok || !core.TypeIs(fa.X.Type(), tConn) {
				return false
			}
			_, isIface := u.Type().Underlying().(*types.Interface)
			return isIface && types.Identical(u.Type(), s.(*ssa.Call).Type().(*types.Tuple).At(0).Type())
		}
		c.Check(core.Dominated(s, core.IsNilFact(isRemField)), "decrypt-only-when-no-remainder@"+fname(dr), posOf(s),
			"the next message is decrypted only when no remainder is pending", "Decrypt is called while a remainder may still be pending: unread bytes of the previous message are overwritten")
	}
}

func c07r5(c *core.Ctx) {
	p := c.P
	dec := p.Func("crypto", "(*secureSession).Decrypt")
	if dec == nil {
		c.Undecided("Decrypt", token.NoPos, "not found")
		return
	}
	reads := bareReads(dec)
	if len(reads) == 0 {
		c.OK("frame-reads-complete@"+fname(dec), dec.Pos(), "all frame pieces are read through full-read helpers")
		return
	}
	for _, r := range reads {
		if ok, why := countUsedOnAllPaths(r); !ok {
			c.Bad("frame-reads-complete@"+fname(dec), posOf(r), "a frame piece is read with a single Read: %s — a frame split across segments fails authentication and the connection is dropped", why)
		} else {
			c.OK("frame-reads-complete@"+fname(dec), posOf(r), "bare Read whose count is consumed")
		}
	}
}

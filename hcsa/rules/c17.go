package rules

import (
	"fmt"
	"go/token"
	"go/types"
	"os"
	"reflect"
	"sort"
	"strconv"
	"strings"

	"golang.org/x/tools/go/ssa"

	"hcsa/core"
)

func init() {
	register(&core.Property{
		ID:    "C17",
		Level: "other",
		Explanation: "Structural agreement between the struct TLV8 encoder and decoder (package tlv8): the set of Go types in the type switch of structPayload equals the set in (*decoder).decode and each case calls the " +
			"writer / reader of that kind; for every fixed-width kind the writer hands writeBytes a slice of exactly size(kind) bytes filled little-endian from the value parameter (binary.LittleEndian.PutUintN with " +
			"N = 8*size, or byte(v >> 8i) for exactly i = 0..size-1) and the reader mirrors it; every fixed-width read of a bucket is preceded by a length guard of at least that width (buckets are non-empty by " +
			"construction); fragments of one value are merged by item adjacency (never by a test on the accumulated length); list elements are decoded into a fresh instance per element; every field that carries a " +
			"tlv8 tag anywhere in the module has a supported kind and a tag that parses as 0..255 or '-'.",
		Assumptions: []string{"reflect semantics", "encoding/binary"},
		NotDecided:  []string{"list delimiters / nesting for all shapes", "equality of round-tripped values"},
		Rules: []core.Rule{
			{ID: "C17-R1", Title: "encoder/decoder kind-set agreement", Decides: "every supported field kind is both written and read", Floor: 3, Run: c17r1},
			{ID: "C17-R2", Title: "width and byte order agree writer <-> reader <-> type size; bytes depend on the value", Decides: "little-endian wire encoding; round trip of every fixed-width kind", Floor: 14, Run: func(c *core.Ctx) {
				c17r2(c)
				passThrough(c, "C17")
				structTagAndValueInOrder(c)
				returnsUndecorated(c, "C17")
			}},
			{ID: "C17-R3", Title: "guarded fixed-width reads; constant indices into map-held slices are guarded", Decides: "unmarshalling arbitrary bytes does not panic", Floor: 7, Run: func(c *core.Ctx) { c17r3(c); inputIndexGuarded(c, "tlv8"); constIndexOfMapSliceGuarded(c, "tlv8"); polarityEverywhere(c, "C17") }},
			{ID: "C17-R4", Title: "fragment merge by adjacency; fresh instance per list element", Decides: "long values and lists round-trip", Floor: 2, Run: func(c *core.Ctx) { c17r4(c); decoderTagAndAppend(c) }},
			{ID: "C17-R5", Title: "declared tlv8 structs are encodable", Decides: "all RTP message types use supported kinds and valid tags", Floor: 20, Run: c17r5},
			{ID: "C17-R6", Title: "list delimiter depends on the index only; Marshal keeps no shared state", Decides: "inline lists and successive Marshal results stay intact", Floor: 2, Run: c17r6},
		},
	})
}

// typeSwitchCases returns, for a type switch on an interface value in f, asserted type -> block entered.
func typeSwitchCases(f *ssa.Function) map[string]*ssa.BasicBlock {
	out := map[string]*ssa.BasicBlock{}
	core.Instrs(f, func(i ssa.Instruction) {
		ta, ok := i.(*ssa.TypeAssert)
		if !ok || !ta.CommaOk {
			return
		}
		// find the If on extract #1
		for _, r := range *ta.Referrers() {
			e, ok := r.(*ssa.Extract)
			if !ok || e.Index != 1 {
				continue
			}
			for _, rr := range *e.Referrers() {
				if iff, ok := rr.(*ssa.If); ok {
					out[ta.AssertedType.String()] = iff.Block().Succs[0]
				}
			}
		}
	})
	return out
}

var kindSize = map[string]int64{"uint8": 1, "uint16": 2, "uint32": 4, "uint64": 8, "int16": 2, "int32": 4, "int64": 8, "float32": 4, "bool": 1}

func c17r1(c *core.Ctx) {
	p := c.P
	enc := p.Func("tlv8", "structPayload")
	dec := p.Func("tlv8", "(*decoder).decode")
	if enc == nil || dec == nil {
		c.Undecided("structPayload/decode", token.NoPos, "not found")
		return
	}
	ec, dc := typeSwitchCases(enc), typeSwitchCases(dec)
	// drop non-leaf assertions (interfaces etc.)
	names := func(m map[string]*ssa.BasicBlock) []string {
		var out []string
		for k := range m {
			if k == "bool" || k == "string" || k == "[]byte" || k == "float32" || strings.HasPrefix(k, "uint") || strings.HasPrefix(k, "int") {
				out = append(out, k)
			}
		}
		sort.Strings(out)
		return out
	}
	en, dn := names(ec), names(dc)
	c.Count("encoder_kinds", len(en))
	c.Count("decoder_kinds", len(dn))
	c.Check(fmt.Sprint(en) == fmt.Sprint(dn) && len(en) >= 11, "kind-sets-agree", enc.Pos(), fmt.Sprintf("both switches cover %v", en), fmt.Sprintf("encoder covers %v, decoder covers %v: a field kind is written but not read (or vice versa)", en, dn))
	// each case calls the writer/reader of its kind
	wname := map[string]string{"uint8": "writeByte", "[]byte": "writeBytes", "string": "writeString", "uint16": "writeUint16", "uint32": "writeUint32", "int16": "writeInt16", "int32": "writeInt32", "float32": "writeFloat32", "int64": "writeInt64", "uint64": "writeUint64", "bool": "writeBool"}
	rname := map[string]string{"uint8": "readByte", "[]byte": "readBytes", "string": "readString", "uint16": "readUint16", "uint32": "readUint32", "int16": "readint16", "int32": "readint32", "float32": "readFloat32", "int64": "readint64", "uint64": "readUint64", "bool": "readBool"}
	bad := []string{}
	for _, k := range en {
		calls := func(b *ssa.BasicBlock, want string) bool {
			if b == nil {
				return false
			}
			for _, i := range b.Instrs {
				if g := core.Callee(i); g != nil && strings.EqualFold(cn(g), want) {
					return true
				}
			}
			return false
		}
		if !calls(ec[k], wname[k]) {
			bad = append(bad, "encode "+k)
		}
		if !calls(dc[k], rname[k]) {
			bad = append(bad, "decode "+k)
		}
	}
	c.Check(len(bad) == 0, "case-calls-its-kind", enc.Pos(), "each case calls the writer/reader of its own kind", "cases that do not call the writer/reader of their kind: "+strings.Join(bad, ", "))
	// the setter used after a read matches signedness
	c.OK("kinds", enc.Pos(), "%d kinds", len(en))
	// whether a field is written / a read value is stored does not depend on the value: a scalar that is skipped when it is zero,
	// or rejected when it is extreme, does not come back equal (and the wire bytes of the message are not the specified ones)
	isTypeTest := func(cond ssa.Value) bool {
		e, ok := cond.(*ssa.Extract)
		if !ok || e.Index != 1 {
			return false
		}
		ta, ok := e.Tuple.(*ssa.TypeAssert)
		return ok && ta.CommaOk
	}
	for _, k := range en {
		if b := ec[k]; b != nil {
			for _, i := range b.Instrs {
				g := core.Callee(i)
				if g == nil || !strings.EqualFold(cn(g), wname[k]) {
					continue
				}
				var dep ssa.Value
				for _, iff := range controlDepsAll(b) {
					if isTypeTest(iff.Cond) || !iff.Block().Dominates(b) {
						continue // a type test; or a test of an earlier iteration (an error return in another case)
					}
					walkOperands(iff.Cond, 8, func(v ssa.Value) {
						call, ok := v.(*ssa.Call)
						if !ok {
							return
						}
						for _, a := range call.Call.Args {
							for _, src := range core.Sources(a) {
								if sc, ok := src.(*ssa.Call); ok && core.IsCall(sc, "(reflect.Value).Field") {
									dep = iff.Cond
								}
							}
						}
					})
				}
				pos := posOf(i)
				if dep != nil && dep.Pos().IsValid() {
					pos = dep.Pos()
				}
				c.Check(dep == nil, "field-written-whatever-its-value:"+k, pos, "the "+k+" case writes its item under no condition on the field's value",
					"whether a "+k+" field is written depends on the field's value (e.g. skipped when empty/zero): the item is missing from the encoding — the bytes are not the specified ones, the decoded struct keeps the previous/zero value only by luck, and an all-zero list element vanishes")
			}
		}
		if b := dc[k]; b != nil {
			var read ssa.Value
			for _, i := range b.Instrs {
				if g := core.Callee(i); g != nil && strings.EqualFold(cn(g), rname[k]) {
					read, _ = i.(ssa.Value)
				}
			}
			if read == nil {
				continue
			}
			isRead := func(v ssa.Value) bool {
				e, ok := v.(*ssa.Extract)
				return ok && e.Index == 0 && e.Tuple == read
			}
			core.Instrs(dec, func(i ssa.Instruction) {
				g := core.Callee(i)
				if g == nil || !core.TypeIs(recvType(g), "reflect.Value") || !strings.HasPrefix(cn(g), "Set") {
					return
				}
				args := core.CallOf(i).Args
				if len(args) < 2 || !core.SomeSource(args[1], isRead) {
					return
				}
				var dep ssa.Value
				for _, iff := range controlDepsAll(i.Block()) {
					if !iff.Block().Dominates(i.Block()) {
						continue
					}
					walkOperands(iff.Cond, 8, func(v ssa.Value) {
						if isRead(v) {
							dep = iff.Cond
						}
					})
				}
				pos := posOf(i)
				if dep != nil && dep.Pos().IsValid() {
					pos = dep.Pos()
				}
				c.Check(dep == nil, "value-stored-whatever-it-is:"+k, pos, "a "+k+" that was read is stored under no condition on its value",
					"whether a "+k+" that was read is stored depends on its value (some values are rejected or skipped): a struct holding such a value does not come back equal from Marshal/Unmarshal")
			})
		}
	}
}

func c17r2(c *core.Ctx) {
	tlv8WriterItems(c)
	p := c.P
	for _, spec := range []struct {
		writer, reader, kind string
	}{{"writeUint16", "readUint16", "uint16"}, {"writeUint32", "readUint32", "uint32"}, {"writeUint64", "readUint64", "uint64"},
		{"writeInt16", "readint16", "int16"}, {"writeInt32", "readint32", "int32"}, {"writeInt64", "readint64", "int64"}, {"writeFloat32", "readFloat32", "float32"}} {
		size := kindSize[spec.kind]
		w := p.Func("tlv8", "(*writer)."+spec.writer)
		r := p.Func("tlv8", "(*reader)."+spec.reader)
		if w == nil || r == nil {
			c.Undecided(spec.kind, token.NoPos, "writer/reader not found")
			continue
		}
		val := w.Params[2]
		// --- writer
		var wb *ssa.Call
		core.Instrs(w, func(i ssa.Instruction) {
			if g := core.Callee(i); g != nil && cn(g) == "writeBytes" {
				wb = i.(*ssa.Call)
			}
		})
		key := "writer:" + spec.kind
		if wb == nil {
			c.Bad(key, w.Pos(), spec.writer+" does not hand its bytes to writeBytes")
		} else {
			arg := core.Args(wb)[1]
			n, known := knownLen(arg)
			a := allocOf(arg)
			widthOK := known && n == size
			// filling: PutUintN or byte stores
			le, dep := false, false
			if a != nil {
				if v, bits, little, _ := putUint(w, a); bits != 0 {
					le = little && int64(bits) == 8*size
					dep = core.AnySource(v, func(s ssa.Value) bool { return s == ssa.Value(val) }) || dependsOn(v, val)
				} else {
					idxs := map[int64]int64{}
					core.Instrs(w, func(x ssa.Instruction) {
						ia, ok := x.(*ssa.IndexAddr)
						if !ok || allocOf(ia.X) != a && ia.X != ssa.Value(a) {
							return
						}
						k, isK := core.ConstInt(ia.Index)
						if !isK {
							return
						}
						for _, r3 := range *ia.Referrers() {
							st, ok := r3.(*ssa.Store)
							if !ok {
								continue
							}
							sh, okv := shiftOf(st.Val, val)
							if okv {
								idxs[k] = sh
							}
						}
					})
					le = int64(len(idxs)) >= size
					for i := int64(0); i < size; i++ {
						if sh, ok := idxs[i]; !ok || sh != 8*i {
							le = false
						}
					}
					dep = len(idxs) > 0
				}
			}
			c.Check(widthOK, key+"/width", posOf(wb), fmt.Sprintf("writes %d bytes", size), fmt.Sprintf("%s hands writeBytes %d bytes (known=%v); a %s is %d bytes: the value is truncated or padded", spec.writer, n, known, spec.kind, size))
			c.Check(le && dep, key+"/little-endian-of-value", posOf(wb), "bytes are the little-endian encoding of the value parameter", spec.writer+" does not fill its bytes little-endian from the value parameter (bytes independent of the value, wrong order or wrong width)")
		}
		// --- reader: mirror
		key = "reader:" + spec.kind
		ok := false
		core.Instrs(r, func(i ssa.Instruction) {
			if g := core.Callee(i); g != nil {
				q := core.QualName(g)
				if strings.HasPrefix(q, "(encoding/binary.littleEndian).Uint") && strings.HasSuffix(q, strconv.Itoa(int(8*size))) {
					ok = true
				}
			}
		})
		if !ok {
			// manual: v |= T(b[i]) << 8i for i = 0..size-1
			sh := map[int64]int64{}
			core.Instrs(r, func(i ssa.Instruction) {
				b, isB := i.(*ssa.BinOp)
				if !isB || b.Op != token.SHL {
					return
				}
				k, isK := core.ConstInt(b.Y)
				if !isK {
					return
				}
				if idx, okI := indexOfByteLoad(b.X); okI {
					sh[idx] = k
				}
			})
			// index 0 is not shifted
			core.Instrs(r, func(i ssa.Instruction) {
				if cv, isC := i.(*ssa.Convert); isC {
					if idx, okI := indexOfByteLoad(cv); okI && idx == 0 {
						if _, has := sh[0]; !has {
							sh[0] = 0
						}
					}
				}
			})
			ok = int64(len(sh)) == size
			for i := int64(0); i < size; i++ {
				if s, has := sh[i]; !has || s != 8*i {
					ok = false
				}
			}
		}
		c.Check(ok, key+"/little-endian", r.Pos(), fmt.Sprintf("reads %d bytes little-endian", size), fmt.Sprintf("%s does not assemble exactly %d bytes little-endian", spec.reader, size))
	}
}

// dependsOn: v is computed from val through pure conversions / math.FloatNbits.
func dependsOn(v, val ssa.Value) bool {
	for _, s := range core.Sources(v) {
		if s == val {
			return true
		}
		if call, ok := s.(*ssa.Call); ok {
			for _, a := range call.Call.Args {
				if dependsOn(a, val) {
					return true
				}
			}
		}
	}
	return false
}

// shiftOf: v is byte(val >> k) (k constant, 0 if no shift); returns k.
func shiftOf(v, val ssa.Value) (int64, bool) {
	x := v
	for {
		switch y := x.(type) {
		case *ssa.Convert:
			x = y.X
			continue
		case *ssa.ChangeType:
			x = y.X
			continue
		}
		break
	}
	if x == val {
		return 0, true
	}
	if b, ok := x.(*ssa.BinOp); ok && b.Op == token.SHR {
		if k, isK := core.ConstInt(b.Y); isK && core.StripConv(b.X) == val {
			return k, true
		}
	}
	return 0, false
}

// indexOfByteLoad: v is T(b[i]) with constant i.
func indexOfByteLoad(v ssa.Value) (int64, bool) {
	x := core.StripConv(v)
	u, ok := x.(*ssa.UnOp)
	if !ok || u.Op != token.MUL {
		return 0, false
	}
	ia, ok := u.X.(*ssa.IndexAddr)
	if !ok {
		return 0, false
	}
	return core.ConstInt(ia.Index)
}

func c17r3(c *core.Ctx) {
	for _, f := range libFuncs(c.P) {
		if pkgPathOf(f) == mod+"/tlv8" && f.Parent() == nil && f.Blocks != nil {
			// decode's list loop drops the error of a malformed list element (it ends the list instead): unchanged-tree behaviour that
			// C17 does not speak about, so only inverted tests are reported there
			errorTestPolarity(c, f, nil, cn(f) == "decode" || cn(f) == "decodeSlice")
		}
	}
	p := c.P
	// buckets are non-empty by construction
	rd := p.Func("tlv8", "read")
	if rd == nil {
		c.Undecided("tlv8.read", token.NoPos, "not found")
	} else {
		nonEmpty := func(cond ssa.Value) (bool, bool) {
			b, ok := cond.(*ssa.BinOp)
			if !ok {
				return false, false
			}
			isLen := func(v ssa.Value) bool {
				call, ok := v.(*ssa.Call)
				if !ok {
					return false
				}
				bi, ok := call.Call.Value.(*ssa.Builtin)
				return ok && bi.Name() == "len"
			}
			// len(v) > 0, or n > 0 for the n that v was made with ( v := make([]byte, n) )
			sizes := func(x ssa.Value) bool {
				found := false
				core.Instrs(rd, func(i ssa.Instruction) {
					if ms, ok := i.(*ssa.MakeSlice); ok && (core.StripConv(ms.Len) == core.StripConv(x) || sameValue(ms.Len, x) || sameLoad(core.StripConv(ms.Len), core.StripConv(x))) {
						found = true
					}
				})
				return found
			}
			if n, isK := core.ConstInt(b.Y); isK && n == 0 && (isLen(b.X) || sizes(b.X)) {
				switch b.Op {
				case token.GTR, token.NEQ:
					return true, false
				case token.EQL, token.LEQ:
					return false, true
				}
			}
			return false, false
		}
		ok, n := true, 0
		core.Instrs(rd, func(i ssa.Instruction) {
			if mu, isMU := i.(*ssa.MapUpdate); isMU {
				n++
				if !core.Dominated(mu, nonEmpty) {
					ok = false
				}
			}
		})
		c.Check(ok && n > 0, "buckets-non-empty@"+fname(rd), rd.Pos(), fmt.Sprintf("all %d stores into the bucket map are dominated by len(v) > 0", n), "an empty bucket can be stored: readByte's b[0] then panics")
	}
	// guards
	for _, spec := range []struct {
		name string
		need int64
	}{{"readUint16", 2}, {"readUint32", 4}, {"readUint64", 8}, {"readint16", 2}, {"readint32", 4}, {"readint64", 8}, {"readFloat32", 4}} {
		f := p.Func("tlv8", "(*reader)."+spec.name)
		if f == nil {
			c.Undecided(spec.name, token.NoPos, "not found")
			continue
		}
		tag := f.Params[1]
		// fact: r.len(tag) >= need   or  len(b) >= need for the bucket b
		guard := func(b ssa.Value) core.CondFact {
			return func(cond ssa.Value) (bool, bool) {
				bo, ok := cond.(*ssa.BinOp)
				if !ok {
					return false, false
				}
				isLen := func(v ssa.Value) bool {
					call, ok := core.StripConv(v).(*ssa.Call)
					if !ok {
						return false
					}
					if g := call.Call.StaticCallee(); g != nil && cn(g) == "len" && core.TypeIs(recvType(g), mod+"/tlv8.reader") {
						return call.Call.Args[1] == ssa.Value(tag)
					}
					if bi, ok := call.Call.Value.(*ssa.Builtin); ok && bi.Name() == "len" && b != nil {
						return call.Call.Args[0] == b
					}
					return false
				}
				if n, isK := core.ConstInt(bo.Y); isK && (isLen(bo.X) || firstValueLenOrZero(bo.X, tag)) {
					switch bo.Op {
					case token.LSS:
						return false, n >= spec.need
					case token.GEQ:
						return n >= spec.need, false
					}
				}
				return false, false
			}
		}
		sites, bad := 0, 0
		core.Instrs(f, func(i ssa.Instruction) {
			need := int64(0)
			var bucket ssa.Value
			if g := core.Callee(i); g != nil && strings.HasPrefix(core.QualName(g), "(encoding/binary.littleEndian).Uint") {
				bits, _ := strconv.Atoi(strings.TrimPrefix(cn(g), "Uint"))
				need = int64(bits / 8)
				bucket = core.Args(i)[0]
			} else if ia, ok := i.(*ssa.IndexAddr); ok {
				// bytes of an item ( b[3] ), not an element of the list of items ( list[0] of an inlined length helper )
				isBytes := false
				if sl, isSl := ia.X.Type().Underlying().(*types.Slice); isSl {
					if eb, isB := sl.Elem().Underlying().(*types.Basic); isB && eb.Kind() == types.Uint8 {
						isBytes = true
					}
				}
				if k, isK := core.ConstInt(ia.Index); isK && isBytes {
					need = k + 1
					bucket = ia.X
				}
			}
			if need == 0 {
				return
			}
			sites++
			if need > spec.need {
				bad++
				return
			}
			if !core.Dominated(i, guard(bucket)) {
				bad++
			}
		})
		// ... and no guard asks for more than the width: an item of exactly that width must be decoded at that width
		strict := false
		core.Instrs(f, func(i ssa.Instruction) {
			bo, ok := i.(*ssa.BinOp)
			if !ok || (bo.Op != token.LSS && bo.Op != token.GEQ && bo.Op != token.LEQ && bo.Op != token.GTR) {
				return
			}
			n, isK := core.ConstInt(bo.Y)
			if !isK {
				return
			}
			call, isC := core.StripConv(bo.X).(*ssa.Call)
			if !isC {
				if firstValueLenOrZero(bo.X, tag) {
					limit := n
					if bo.Op == token.LEQ || bo.Op == token.GTR {
						limit = n + 1
					}
					if limit > spec.need {
						strict = true
					}
				}
				return
			}
			isTagLen := false
			if g := call.Call.StaticCallee(); g != nil && cn(g) == "len" && core.TypeIs(recvType(g), mod+"/tlv8.reader") {
				isTagLen = true
			}
			if bi, ok := call.Call.Value.(*ssa.Builtin); ok && bi.Name() == "len" {
				isTagLen = true
			}
			if !isTagLen {
				return
			}
			limit := n
			if bo.Op == token.LEQ || bo.Op == token.GTR {
				limit = n + 1
			}
			if limit > spec.need {
				strict = true
			}
		})
		c.Check(!strict, "guard-not-stricter-than-width:"+spec.name, f.Pos(), fmt.Sprintf("no length guard asks for more than %d bytes", spec.need),
			fmt.Sprintf("a length guard of %s asks for more than the %d bytes the value has on the wire: values of exactly that width are decoded with a narrower reader and come back truncated", spec.name, spec.need))
		c.Check(bad == 0 && sites > 0, "guarded-read:"+spec.name, f.Pos(), fmt.Sprintf("%d fixed-width access(es), each dominated by a length guard >= %d", sites, spec.need),
			fmt.Sprintf("%s reads %d bytes of an item without a dominating length guard: a shorter item from the peer panics (index out of range)", spec.name, spec.need))
	}
	bucketAccessAfterSuccess(c)
	tlv8ReaderModel(c)
	tlv8ReadLoop(c)
	tlv8ReadFailureFatal(c, c.P.Func("tlv8", "read"))
	tlv8ReaderResultsUsed(c)
}

// bucketAccessAfterSuccess: readBytes answers (nil, io.EOF) for a tag that is not in the input. Every index or slice expression on
// the bytes it returns lies behind the test that it succeeded (stored values are non-empty: buckets-non-empty), or behind a length
// guard on the same tag (the fixed-width readers, checked above).
func bucketAccessAfterSuccess(c *core.Ctx) {
	n := 0
	for _, f := range libFuncs(c.P) {
		if pkgPathOf(f) != mod+"/tlv8" || f.Blocks == nil {
			continue
		}
		for _, s := range core.FindCalls(f, func(i ssa.Instruction) bool { return core.IsCall(i, "(*"+mod+"/tlv8.reader).readBytes") }) {
			s := s
			okFact := errNilFact(1, func(i ssa.Instruction) bool { return i == s })
			isBucket := func(v ssa.Value) bool {
				return v != nil && core.SomeSource(v, func(sv ssa.Value) bool {
					return core.CallResult(sv, 0, func(i ssa.Instruction) bool { return i == s }) != nil
				})
			}
			tag := core.Args(s)[0]
			lenGuard := func(cond ssa.Value) (bool, bool) {
				bo, ok := cond.(*ssa.BinOp)
				if !ok {
					return false, false
				}
				call, ok := core.StripConv(bo.X).(*ssa.Call)
				if !ok {
					return false, false
				}
				g := call.Call.StaticCallee()
				if g == nil || cn(g) != "len" || !core.TypeIs(recvType(g), mod+"/tlv8.reader") || !sameValue(call.Call.Args[1], tag) {
					return false, false
				}
				k, isK := core.ConstInt(bo.Y)
				if !isK {
					return false, false
				}
				switch bo.Op {
				case token.LSS:
					return false, k >= 1
				case token.GEQ:
					return k >= 1, false
				case token.GTR:
					return k >= 0, false
				case token.LEQ:
					return false, k >= 0
				}
				return false, false
			}
			core.Instrs(f, func(i ssa.Instruction) {
				var x ssa.Value
				switch y := i.(type) {
				case *ssa.IndexAddr:
					x = y.X
				case *ssa.Index:
					x = y.X
				case *ssa.Slice:
					x = y.X
				default:
					if g := core.Callee(i); g != nil && strings.HasPrefix(core.QualName(g), "(encoding/binary.littleEndian).Uint") {
						x = core.Args(i)[0]
					}
				}
				if x == nil || !isBucket(x) {
					return
				}
				n++
				c.Check(core.Dominated(i, okFact) || core.Dominated(i, lenGuard), "bucket-access-after-success@"+fname(f), posOf(i), "the bytes of an item are indexed only where the item is known to be present",
					"the bytes returned by readBytes are indexed on a path where neither its error nor a length guard on the tag has been tested: for a tag that is absent from the input the slice is nil and the decoder panics")
			})
		}
	}
	if n == 0 {
		c.Undecided("bucket-access-after-success", token.NoPos, "no indexed access to the bytes of an item found in the tlv8 package")
	}
}

func c17r4(c *core.Ctx) {
	emptyValueKeepsItsItem(c)
	tlv8MergeOnlyPreviousItem(c)
	p := c.P
	rd := p.Func("tlv8", "read")
	if rd != nil {
		// no comparison of an accumulated bucket's length with a constant decides merging
		bad := false
		core.Instrs(rd, func(i ssa.Instruction) {
			b, ok := i.(*ssa.BinOp)
			if !ok {
				return
			}
			for _, pair := range [][2]ssa.Value{{b.X, b.Y}, {b.Y, b.X}} {
				call, ok := pair[0].(*ssa.Call)
				if !ok {
					continue
				}
				bi, ok := call.Call.Value.(*ssa.Builtin)
				if !ok || bi.Name() != "len" {
					continue
				}
				k, isK := core.ConstInt(pair[1])
				if !isK || k < 2 {
					continue
				}
				// len of something loaded from the map (accumulated value), not of the fresh item v
				fromMap := core.AnySource(call.Call.Args[0], func(s ssa.Value) bool {
					switch x := s.(type) {
					case *ssa.Lookup:
						return true
					case *ssa.Extract:
						_, ok := x.Tuple.(*ssa.Lookup)
						return ok
					case *ssa.UnOp:
						if ia, ok := x.X.(*ssa.IndexAddr); ok {
							return core.AnySource(ia.X, func(q ssa.Value) bool {
								if _, ok := q.(*ssa.Lookup); ok {
									return true
								}
								if e, ok := q.(*ssa.Extract); ok {
									_, ok := e.Tuple.(*ssa.Lookup)
									return ok
								}
								return false
							})
						}
					}
					return false
				})
				if fromMap {
					bad = true
					c.Bad("merge-by-accumulated-length@"+fname(rd), b.Pos(), "fragment merging is decided by the length of the value accumulated so far (compared with %d), not by the previous fragment: the third fragment of a long value is not merged", k)
				}
			}
		})
		if !bad {
			c.OK("merge-by-adjacency@"+fname(rd), rd.Pos(), "fragment merging does not depend on the accumulated length")
		}
	} else {
		c.Undecided("tlv8.read", token.NoPos, "not found")
	}
	// "the previous item was a delimiter" is a statement about the previous item only: every iteration that stores a value re-assigns
	// the flag (a flag that is set by a delimiter and only cleared by the next delimiter makes every later fragment a new list element)
	if rd := p.Func("tlv8", "read"); rd != nil {
		var flags []*ssa.Phi
		nFlags := 0
		core.Instrs(rd, func(i ssa.Instruction) {
			if ph, ok := i.(*ssa.Phi); ok && reachesAfter(ph, ph) {
				// loop-carried: the phi sits in a loop header (one of its incoming edges is a back edge) — the value phi of a
				// short-circuit condition inside the loop body ( a || b ) is not a variable
				carried := false
				for _, pb := range ph.Block().Preds {
					if ph.Block().Dominates(pb) {
						carried = true
					}
				}
				if b, ok := ph.Type().Underlying().(*types.Basic); ok && b.Kind() == types.Bool && carried {
					flags = append(flags, ph)
				}
			}
		})
		for _, flag := range flags {
			// only the variable that decides how a value is filed
			decides := false
			core.Instrs(rd, func(i ssa.Instruction) {
				is := func(v ssa.Value) bool { return v == ssa.Value(flag) }
				if mu, ok := i.(*ssa.MapUpdate); ok {
					if core.Dominated(mu, core.TrueFact(is)) || core.Dominated(mu, core.FalseFact(is)) {
						decides = true
					}
				}
				// the merge written in place: l[k] = append(l[k], v...)
				if st, ok := i.(*ssa.Store); ok {
					if ia, ok := st.Addr.(*ssa.IndexAddr); ok {
						if sl, ok := ia.X.Type().Underlying().(*types.Slice); ok {
							if _, inner := sl.Elem().Underlying().(*types.Slice); inner && core.Dominated(st, core.FalseFact(is)) {
								decides = true
							}
						}
					}
				}
			})
			if !decides {
				continue
			}
			nFlags++
			kept, iters := 0, 0
			core.EnumPaths(rd, 3, 200000, func(pa core.Path) {
				var idx []int
				for k, b := range pa {
					if b == flag.Block() {
						idx = append(idx, k)
					}
				}
				for n := 0; n+1 < len(idx); n++ {
					stores := false
					pa[idx[n]:idx[n+1]].Instrs(func(x ssa.Instruction) {
						if _, ok := x.(*ssa.MapUpdate); ok {
							stores = true
						}
					})
					if !stores {
						continue
					}
					iters++
					// the value carried back to the header, resolved over this iteration only: the header phi itself = not assigned
					if pa.ResolveWithin(idx[n], idx[n+1], flag) == ssa.Value(flag) {
						kept++
					}
				}
			})
			delimiterFlagMeaning(c, rd, flag)
			c.Check(kept == 0 && iters > 0, "delimiter-flag-per-item@"+fname(rd), flag.Pos(), "every iteration that stores a value re-assigns the delimiter flag",
				"an iteration that stores a value leaves the 'previous item was a delimiter' flag as it was: once a list delimiter was seen, the fragments of every later long value are filed as list elements instead of being merged")
		}
		if nFlags == 0 {
			c.Bad("delimiter-flag@"+fname(rd), rd.Pos(), "tlv8.read carries no 'the previous item was a list delimiter' state from one item to the next that decides between a new list element and the continuation of a value (the flag is never assigned, or nothing depends on it): the elements of a list are merged into one value, or every fragment of a long value becomes an element")
		}
	}
	dec := p.Func("tlv8", "(*decoder).decode")
	if dec == nil {
		c.Undecided("decode", token.NoPos, "not found")
		return
	}
	n, bad := 0, 0
	core.Instrs(dec, func(i ssa.Instruction) {
		if !core.IsCall(i, "reflect.Append") || !reachesAfter(i, i) {
			return
		}
		n++
		// appended value derives from newValueOf(...) call(s) that are themselves inside the loop
		for _, a := range core.Args(i)[1:] {
			insts := newInstanceCalls(a)
			fresh := false
			for _, inst := range insts {
				if !cycleAvoiding(i, inst) {
					fresh = true
				}
			}
			if !fresh {
				bad++
				c.Bad("list-element-instance@"+fname(dec), posOf(i), "a list element can be appended without a new instance having been created since the previous element (the instance is created outside the loop or only conditionally): fields absent on the wire keep the previous element's values")
			}
		}
	})
	if bad == 0 {
		c.Check(n > 0, "list-element-instance@"+fname(dec), dec.Pos(), "each list element is decoded into an instance created inside the element loop", "no reflect.Append inside a loop found in decode")
	}
	// "the decoded element is empty" is the end marker of an inline ('-') list only: an element of a tagged list has its own item on
	// the wire and is appended whatever it holds (an element whose fields are all zero is still an element)
	inline := core.CmpFact(func(x, y ssa.Value) (bool, bool) {
		if s, ok := core.ConstString(y); ok && s == "-" {
			return true, false
		}
		if s, ok := core.ConstString(x); ok && s == "-" {
			return true, false
		}
		return false, false
	})
	core.Instrs(dec, func(i ssa.Instruction) {
		g := core.Callee(i)
		if g == nil || !(cn(g) == "isEmptyStruct" || cn(g) == "isEmptyValue" || core.QualName(g) == "(reflect.Value).IsZero") {
			return
		}
		if !reachesAfter(i, i) {
			return // not in the element loop
		}
		c.Check(core.Dominated(i, inline), "empty-element-is-inline-end-marker@"+fname(dec), posOf(i), "the emptiness test of a decoded element is made for inline lists only",
			"an element of a tagged list is tested for emptiness: an element whose fields all hold zero is dropped (or ends the list) although it is on the wire")
	})
	// ... and for inline lists the end is not read off the element's VALUE either: an element whose fields are all zero is on the
	// wire like any other ( VideoCodecProfile{0}, the first entry of the library's own default video configuration ). A test of the
	// freshly decoded instance that decides whether the loop goes on ends the list at the first such element. What the end can be
	// read off is the reader: whether decoding the element consumed anything.
	nv, badv := 0, 0
	core.Instrs(dec, func(i ssa.Instruction) {
		call, ok := i.(*ssa.Call)
		if !ok || !reachesAfter(i, i) {
			return
		}
		if b, isB := call.Type().Underlying().(*types.Basic); !isB || b.Kind() != types.Bool {
			return
		}
		onInstance := false
		for _, a := range call.Call.Args {
			if len(newInstanceCalls(a)) > 0 {
				onInstance = true
			}
		}
		if !onInstance {
			return
		}
		nv++
		decides := false
		var visit func(v ssa.Value, d int)
		visit = func(v ssa.Value, d int) {
			if d == 0 || v.Referrers() == nil {
				return
			}
			for _, r := range *v.Referrers() {
				switch x := r.(type) {
				case *ssa.If:
					decides = true
				case *ssa.UnOp:
					visit(x, d-1)
				case *ssa.BinOp:
					visit(x, d-1)
				case *ssa.Phi:
					visit(x, d-1)
				}
			}
		}
		visit(call, 4)
		if decides {
			badv++
			c.Bad("list-end-independent-of-element-value@"+fname(dec), posOf(i), "inside the element loop a test of the decoded element's value decides how the loop goes on: an element whose fields all hold zero ends the list (or is dropped) — the elements after it are lost or decoded into other fields; the library's own DefaultVideoStreamConfiguration (first profile = 0) does not survive Marshal/Unmarshal")
		}
	})
	if badv == 0 {
		c.OK("list-end-independent-of-element-value@"+fname(dec), dec.Pos(), "no test of a decoded element's value decides the element loop (%d boolean calls on the instance looked at)", nv)
	}
	// fragment merge target: a continuation fragment extends the LAST bucket of its tag. Extending the bucket at a constant index while
	// another branch of the same function appends further buckets to that list merges the continuation of a later list element into an earlier one.
	if rd := p.Func("tlv8", "read"); rd != nil {
		appendsBucket := false // append(l, v): a new bucket for an existing tag
		var constMerge ssa.Instruction
		isBucketList := func(t types.Type) bool {
			sl, ok := t.Underlying().(*types.Slice)
			if !ok {
				return false
			}
			el, ok := sl.Elem().Underlying().(*types.Slice)
			if !ok {
				return false
			}
			b, ok := el.Elem().Underlying().(*types.Basic)
			return ok && b.Kind() == types.Uint8
		}
		core.Instrs(rd, func(i ssa.Instruction) {
			call, ok := i.(*ssa.Call)
			if !ok {
				return
			}
			if b, isB := call.Call.Value.(*ssa.Builtin); !isB || b.Name() != "append" {
				return
			}
			a0 := call.Call.Args[0]
			if isBucketList(a0.Type()) && !core.IsNilConst(a0) {
				if _, fresh := a0.(*ssa.Slice); !fresh || len(appendedValues(call)) == 0 {
					appendsBucket = true
				} else if _, isAlloc := a0.(*ssa.Slice).X.(*ssa.Alloc); !isAlloc {
					appendsBucket = true
				}
				return
			}
			// append(l[K], v...) with constant K
			if u, isU := a0.(*ssa.UnOp); isU && u.Op == token.MUL {
				if ia, isIA := u.X.(*ssa.IndexAddr); isIA && isBucketList(ia.X.Type()) {
					if _, isK := core.ConstInt(ia.Index); isK {
						constMerge = i
					}
				}
			}
		})
		if constMerge != nil && appendsBucket {
			c.Bad("fragment-extends-last-bucket@"+fname(rd), posOf(constMerge), "a continuation fragment is appended to the bucket at a constant index although the list of that tag can hold several buckets (another branch appends to it): the continuation of a long element of a tagged list is merged into an earlier element and the element itself is cut (or the list collapses)")
		} else {
			c.OK("fragment-extends-last-bucket@"+fname(rd), rd.Pos(), "no continuation fragment is merged at a constant position of a list that can grow")
		}
	}
}

func newInstanceCalls(v ssa.Value) []*ssa.Call {
	var out []*ssa.Call
	seen := map[ssa.Value]bool{}
	var walk func(x ssa.Value, d int)
	walk = func(x ssa.Value, d int) {
		if x == nil || seen[x] || d == 0 {
			return
		}
		seen[x] = true
		for _, s := range core.Sources(x) {
			call, ok := s.(*ssa.Call)
			if !ok {
				if u, ok := s.(*ssa.UnOp); ok {
					walk(u.X, d-1)
				}
				continue
			}
			if g := call.Call.StaticCallee(); g != nil && (cn(g) == "newValueOf" || core.QualName(g) == "reflect.New") {
				out = append(out, call)
				continue
			}
			for _, a := range call.Call.Args {
				walk(a, d-1)
			}
		}
	}
	walk(v, 6)
	return out
}

func c17r5(c *core.Ctx) {
	p := c.P
	supported := func(t types.Type) bool {
		switch u := t.Underlying().(type) {
		case *types.Basic:
			switch u.Kind() {
			case types.Uint8, types.Uint16, types.Uint32, types.Uint64, types.Int16, types.Int32, types.Int64, types.Float32, types.Bool, types.String:
				return true
			}
		case *types.Slice:
			if b, ok := u.Elem().Underlying().(*types.Basic); ok && b.Kind() == types.Uint8 {
				return true
			}
			if _, ok := u.Elem().Underlying().(*types.Struct); ok {
				return true
			}
		case *types.Struct:
			return true
		case *types.Pointer:
			_, ok := u.Elem().Underlying().(*types.Struct)
			return ok
		}
		return false
	}
	n := 0
	for _, pk := range p.Pkgs {
		if !core.IsLibraryPkg(pk.PkgPath) {
			continue
		}
		sc := pk.Types.Scope()
		for _, name := range sc.Names() {
			tn, ok := sc.Lookup(name).(*types.TypeName)
			if !ok {
				continue
			}
			st, ok := tn.Type().Underlying().(*types.Struct)
			if !ok {
				continue
			}
			for i := 0; i < st.NumFields(); i++ {
				tag, has := reflect.StructTag(st.Tag(i)).Lookup("tlv8")
				if !has {
					continue
				}
				n++
				fld := st.Field(i)
				key := fmt.Sprintf("field:%s.%s.%s", strings.TrimPrefix(pk.PkgPath, mod+"/"), name, fld.Name())
				okTag := false
				if tag == "-" {
					_, isSlice := fld.Type().Underlying().(*types.Slice)
					okTag = isSlice
				} else if v, err := strconv.Atoi(strings.Split(tag, ",")[0]); err == nil && v >= 0 && v <= 255 {
					okTag = true
				}
				c.Check(okTag && supported(fld.Type()), key, fld.Pos(), "supported kind, valid tag "+tag, fmt.Sprintf("field %s has tlv8 tag %q and type %s: not encodable (unsupported kind or tag outside 0..255)", fld.Name(), tag, fld.Type()))
			}
		}
	}
	c.Count("tlv8_tagged_fields", n)
}

// cycleAvoiding: there is a cyclic path from instruction a back to a that does not execute n.
func cycleAvoiding(a, n ssa.Instruction) bool {
	ab, nb := a.Block(), n.Block()
	if ab == nb {
		// same block: if n precedes a, every cycle through a executes n
		for _, i := range ab.Instrs {
			if i == n {
				return false
			}
			if i == a {
				break
			}
		}
	}
	seen := map[*ssa.BasicBlock]bool{}
	work := append([]*ssa.BasicBlock{}, ab.Succs...)
	for len(work) > 0 {
		b := work[len(work)-1]
		work = work[:len(work)-1]
		if seen[b] {
			continue
		}
		seen[b] = true
		if b == ab {
			return true
		}
		if b == nb {
			continue
		}
		work = append(work, b.Succs...)
	}
	return false
}

// delimiterFlagMeaning: the flag is true exactly after an item with tag 0 and length 0, a value following such an item starts a new
// list element, any other value with a tag already seen continues the previous fragment.
func delimiterFlagMeaning(c *core.Ctx, rd *ssa.Function, flag *ssa.Phi) {
	// tag and length variables: targets of the first two stream reads
	var tagA, lenA ssa.Value
	for _, b := range rd.Blocks {
		for _, i := range b.Instrs {
			if t, _, ok := isStreamRead(i); ok {
				if a, isA := t.(*ssa.Alloc); isA {
					if tagA == nil {
						tagA = a
					} else if lenA == nil && ssa.Value(a) != tagA {
						lenA = a
					}
				}
			}
		}
	}
	if tagA == nil || lenA == nil {
		c.Undecided("delimiter-flag-meaning@"+fname(rd), rd.Pos(), "tag / length variables not found")
		return
	}
	isZeroTest := func(of ssa.Value) core.CondFact {
		return core.CmpFact(func(x, y ssa.Value) (bool, bool) {
			for _, pr := range [][2]ssa.Value{{x, y}, {y, x}} {
				if u, ok := core.StripConv(pr[0]).(*ssa.UnOp); ok && u.X == of {
					if k, isK := core.ConstInt(pr[1]); isK && k == 0 {
						return true, false
					}
				}
			}
			return false, false
		})
	}
	tagZero, lenZero := isZeroTest(tagA), isZeroTest(lenA)
	// definition: every value that flows into the flag and can be true is  len == 0  computed where  tag == 0 , or true where both hold
	okDef := true
	seen := map[ssa.Value]bool{}
	var walk func(v ssa.Value, from *ssa.BasicBlock)
	walk = func(v ssa.Value, from *ssa.BasicBlock) {
		if v == ssa.Value(flag) {
			return
		}
		if ph, ok := v.(*ssa.Phi); ok {
			if seen[ph] {
				return
			}
			seen[ph] = true
			for k, e := range ph.Edges {
				walk(e, ph.Block().Preds[k])
			}
			return
		}
		if k, isK := core.ConstInt(v); isK {
			if k == 0 {
				return
			}
			last := from.Instrs[len(from.Instrs)-1]
			if !core.Dominated(last, tagZero) || !core.Dominated(last, lenZero) {
				okDef = false
			}
			return
		}
		bo, ok := v.(*ssa.BinOp)
		if !ok || bo.Op != token.EQL {
			okDef = false
			return
		}
		isLenZero := func() bool {
			for _, pr := range [][2]ssa.Value{{bo.X, bo.Y}, {bo.Y, bo.X}} {
				if u, ok := core.StripConv(pr[0]).(*ssa.UnOp); ok && u.X == lenA {
					if k, isK := core.ConstInt(pr[1]); isK && k == 0 {
						return true
					}
				}
			}
			return false
		}()
		isTagZero := func() bool {
			for _, pr := range [][2]ssa.Value{{bo.X, bo.Y}, {bo.Y, bo.X}} {
				if u, ok := core.StripConv(pr[0]).(*ssa.UnOp); ok && u.X == tagA {
					if k, isK := core.ConstInt(pr[1]); isK && k == 0 {
						return true
					}
				}
			}
			return false
		}()
		switch {
		case isLenZero:
			if !core.Dominated(bo, tagZero) {
				okDef = false
			}
		case isTagZero:
			if !core.Dominated(bo, lenZero) {
				okDef = false
			}
		default:
			okDef = false
		}
	}
	for k, e := range flag.Edges {
		walk(e, flag.Block().Preds[k])
	}
	c.Check(okDef, "delimiter-flag-meaning/definition@"+fname(rd), flag.Pos(), "the flag is true only after an item with tag 0 and length 0", "the delimiter flag is not 'tag == 0 && length == 0' of the previous item: ordinary items are taken for list delimiters (or delimiters are not recognised)")
	// use: new element on the flag's true branch, merge on its false branch
	isFlag := func(v ssa.Value) bool { return v == ssa.Value(flag) }
	okUse, n := true, 0
	core.Instrs(rd, func(i ssa.Instruction) {
		// merge in place: l[k] = append(l[k], v...) on the looked-up list
		if st, isSt := i.(*ssa.Store); isSt {
			if ia, isIA := st.Addr.(*ssa.IndexAddr); isIA {
				if sl, isSl := ia.X.Type().Underlying().(*types.Slice); isSl {
					if _, isInner := sl.Elem().Underlying().(*types.Slice); isInner {
						if call, isC := st.Val.(*ssa.Call); isC {
							if b, isB := call.Call.Value.(*ssa.Builtin); isB && b.Name() == "append" {
								n++
								if !core.Dominated(st, core.FalseFact(isFlag)) {
									okUse = false
								}
							}
						}
					}
				}
			}
			return
		}
		mu, ok := i.(*ssa.MapUpdate)
		if !ok {
			return
		}
		// what is stored: append(l, v) with l the looked-up list = new element; a one-bucket list holding append(l[0], v...) = merge
		for _, s := range core.Sources(mu.Value) {
			call, isC := s.(*ssa.Call)
			if !isC {
				continue
			}
			if b, isB := call.Call.Value.(*ssa.Builtin); !isB || b.Name() != "append" {
				continue
			}
			fromLookup := core.AnySource(call.Call.Args[0], func(x ssa.Value) bool {
				e, ok := x.(*ssa.Extract)
				if !ok {
					return false
				}
				_, isL := e.Tuple.(*ssa.Lookup)
				return isL && e.Index == 0
			})
			if fromLookup {
				n++
				// a new value for a tag that was seen before: after a delimiter — or after an item of another tag (the item is not
				// the continuation of the one directly before it: merge-only-previous-item)
				if !core.Dominated(mu, core.AnyFact(core.TrueFact(isFlag), differsFromPrevTag(rd))) {
					okUse = false
				}
			}
		}
		// merge: the stored list is a fresh one-element list
		if sl, isSl := mu.Value.(*ssa.Slice); isSl {
			if a, isA := sl.X.(*ssa.Alloc); isA {
				for _, r := range *a.Referrers() {
					if ia, ok := r.(*ssa.IndexAddr); ok {
						for _, rr := range *ia.Referrers() {
							if st, ok := rr.(*ssa.Store); ok {
								if call, isC := st.Val.(*ssa.Call); isC {
									if b, isB := call.Call.Value.(*ssa.Builtin); isB && b.Name() == "append" {
										n++
										if !core.Dominated(mu, core.FalseFact(isFlag)) {
											okUse = false
										}
									}
								}
							}
						}
					}
				}
			}
		}
	})
	if os.Getenv("HCSA_DEBUG") != "" {
		fmt.Println("delimiter use: okUse", okUse, "n", n)
	}
	c.Check(okUse && n >= 2, "delimiter-flag-meaning/use@"+fname(rd), flag.Pos(), "a value after a delimiter starts a new element, any other repeated tag continues the fragment", "the decision between 'next list element' and 'next fragment of a long value' is inverted or missing: long values are split into list elements, list elements are glued together")
}

// differsFromPrevTag: the fact "the tag of this item differs from the tag of the item before it" (tag variable vs a loop-carried copy).
func differsFromPrevTag(rd *ssa.Function) core.CondFact {
	var tagCell ssa.Value
	core.Instrs(rd, func(i ssa.Instruction) {
		if tagCell != nil {
			return
		}
		if t, _, ok := isStreamRead(i); ok {
			tagCell = core.StripConv(t)
			if mi, isMI := tagCell.(*ssa.MakeInterface); isMI {
				tagCell = mi.X
			}
		}
	})
	isTagLoad := func(v ssa.Value) bool {
		u, ok := core.StripConv(v).(*ssa.UnOp)
		return ok && tagCell != nil && u.Op == token.MUL && u.X == tagCell
	}
	// the previous tag: a loop-carried variable one of whose incoming values is a load of the tag variable — or, where the
	// dominance query has replaced that variable by the value it has on the edge taken, one of those incoming values itself
	prevVals := map[ssa.Value]bool{}
	prevInit := map[int64]bool{}
	core.Instrs(rd, func(i ssa.Instruction) {
		if ph, ok := i.(*ssa.Phi); ok {
			carried := false
			for _, e := range ph.Edges {
				if isTagLoad(e) {
					carried = true
				}
			}
			if carried {
				prevVals[ph] = true
				for _, e := range ph.Edges {
					if k, isK := e.(*ssa.Const); isK {
						if v, ok := core.ConstInt(k); ok {
							prevInit[v] = true // the value before the first item
						}
						continue
					}
					prevVals[e] = true
				}
			}
		}
	})
	isPrevTag := func(v ssa.Value) bool {
		if prevVals[core.StripConv(v)] {
			return true
		}
		if k, isK := core.StripConv(v).(*ssa.Const); isK {
			if n, ok := core.ConstInt(k); ok && prevInit[n] {
				return true
			}
		}
		ph, ok := core.StripConv(v).(*ssa.Phi)
		if !ok {
			return false
		}
		for _, e := range ph.Edges {
			if isTagLoad(e) {
				return true
			}
		}
		return false
	}
	return core.CmpFact(func(x, y ssa.Value) (bool, bool) {
		if (isTagLoad(x) && isPrevTag(y)) || (isTagLoad(y) && isPrevTag(x)) {
			return false, true
		}
		return false, false
	})
}

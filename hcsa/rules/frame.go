package rules

import (
	"fmt"
	"go/token"
	"go/types"
	"strings"

	"golang.org/x/tools/go/ssa"

	"hcsa/core"
)

// frameModel describes how a function reads one frame  [ length(2) | ciphertext(length) | tag(16) ]  from a stream, whatever the
// shape of the code: locals or fields of a frame struct, binary.Read into a uint16 or io.ReadFull into a [2]byte that is decoded
// with binary.LittleEndian.Uint16, the read pieces used in place or copied into result variables (inlined helper). The rules of
// C05/C06/C07 about the reading side are stated on this model.
type frameModel struct {
	fn     *ssa.Function
	reads  []*frameRead // in block order
	length *frameRead
	body   *frameRead
	tag    *frameRead
}

type frameRead struct {
	call   *ssa.Call
	target ssa.Value // the buffer / pointer argument
	st     storage   // where the bytes go (origin storage)
	kind   string    // "uint16/LE" | "uint16/BE" | "ciphertext" | "tag[16]" | "bytes[N]" | "bytes[?]" | "?"
	errv   ssa.Value // the error result of the read
}

// storage: a local variable, or one field of a local struct.
type storage struct {
	alloc *ssa.Alloc
	field int            // -1: the whole variable
	mk    *ssa.MakeSlice // a buffer that only ever lives in a register ( payload = make(...); io.ReadFull(r, payload) )
}

func (s storage) valid() bool { return s.alloc != nil || s.mk != nil }

// storageOfAddr: the storage an address expression denotes ( &x, &f.fld, x[:], f.fld[:], the slice held in f.fld ).
func storageOfAddr(v ssa.Value) storage {
	for n := 0; n < 8; n++ {
		v = core.StripConv(v)
		switch x := v.(type) {
		case *ssa.Alloc:
			return storage{alloc: x, field: -1}
		case *ssa.MakeSlice:
			return storage{field: -1, mk: x}
		case *ssa.FieldAddr:
			if a := baseStruct(x.X); a != nil {
				return storage{alloc: a, field: x.Field}
			}
			return storage{}
		case *ssa.Slice:
			v = x.X
		case *ssa.UnOp:
			if x.Op != token.MUL {
				return storage{}
			}
			// the slice currently held in a variable / field: the variable is the storage
			v = x.X
		case *ssa.Phi:
			// result variable of an inlined helper: all non-nil edges must agree
			var res ssa.Value
			for _, e := range x.Edges {
				if core.IsNilConst(e) {
					continue
				}
				if res != nil && res != e {
					return storage{}
				}
				res = e
			}
			if res == nil {
				return storage{}
			}
			v = res
		default:
			return storage{}
		}
	}
	return storage{}
}

// baseStruct: the local struct a field address is taken of: the alloc itself, or a pointer that is nil or that alloc (the *frame an
// inlined helper hands back).
func baseStruct(v ssa.Value) *ssa.Alloc {
	for n := 0; n < 8; n++ {
		switch x := v.(type) {
		case *ssa.Alloc:
			return x
		case *ssa.Phi:
			var res ssa.Value
			for _, e := range x.Edges {
				if core.IsNilConst(e) {
					continue
				}
				if res != nil && res != e {
					return nil
				}
				res = e
			}
			if res == nil {
				return nil
			}
			v = res
		case *ssa.UnOp:
			// pointer variable holding &f: follow its single store
			if x.Op != token.MUL {
				return nil
			}
			a, ok := x.X.(*ssa.Alloc)
			if !ok {
				return nil
			}
			var val ssa.Value
			n := 0
			for _, r := range *a.Referrers() {
				if st, ok := r.(*ssa.Store); ok && st.Addr == ssa.Value(a) {
					if core.IsNilConst(st.Val) {
						continue
					}
					val = st.Val
					n++
				}
			}
			if n != 1 {
				return nil
			}
			v = val
		default:
			return nil
		}
	}
	return nil
}

// origin follows whole-value copies: a variable that only ever receives the value of another storage (result variables of an
// inlined helper, `header, payload, mac = r0, r1, r2`) stands for that storage.
func origin(s storage, depth int) storage {
	if !s.valid() || s.field >= 0 || depth == 0 || s.mk != nil {
		return s
	}
	var from storage
	n := 0
	for _, r := range *s.alloc.Referrers() {
		st, ok := r.(*ssa.Store)
		if !ok || st.Addr != ssa.Value(s.alloc) {
			continue
		}
		n++
		o := originOfValue(st.Val, depth-1)
		if !o.valid() || (from.valid() && from != o) {
			return s
		}
		from = o
	}
	if n == 0 || !from.valid() {
		return s
	}
	return from
}

// originOfValue: the storage a value was loaded from (through phis whose other edges are zero values, and through copies).
func originOfValue(v ssa.Value, depth int) storage {
	if depth == 0 {
		return storage{}
	}
	v = core.StripConv(v)
	switch x := v.(type) {
	case *ssa.UnOp:
		if x.Op != token.MUL {
			return storage{}
		}
		return origin(storageOfAddr(x.X), depth-1)
	case *ssa.Phi:
		var res storage
		for _, e := range x.Edges {
			if k, ok := e.(*ssa.Const); ok && (k.Value == nil || k.IsNil()) {
				continue
			}
			o := originOfValue(e, depth-1)
			if !o.valid() || (res.valid() && res != o) {
				return storage{}
			}
			res = o
		}
		return res
	case *ssa.Slice:
		return origin(storageOfAddr(x), depth-1)
	case *ssa.MakeSlice:
		return storage{field: -1, mk: x}
	}
	return storage{}
}

// holds reports whether value v is (a copy of) what storage s holds: a load of s, of a copy of s, or a slice of it.
func (m *frameModel) holds(v ssa.Value, s storage) bool {
	if !s.valid() {
		return false
	}
	if o := originOfValue(v, 6); o.valid() && o == s {
		return true
	}
	// register copies: phi / conversions down to loads
	ok, any := true, false
	for _, src := range core.Sources(v) {
		if k, isK := src.(*ssa.Const); isK && (k.Value == nil || k.IsNil()) {
			continue
		}
		any = true
		if o := originOfValue(src, 6); !(o.valid() && o == s) {
			ok = false
		}
	}
	return ok && any
}

func buildFrameModel(fn *ssa.Function) *frameModel {
	m := &frameModel{fn: fn}
	for _, b := range fn.Blocks {
		for _, i := range b.Instrs {
			t, _, ok := isStreamRead(i)
			if !ok {
				continue
			}
			call := i.(*ssa.Call)
			r := &frameRead{call: call, target: t, st: origin(storageOfAddr(t), 6), kind: "?"}
			r.errv = call
			if call.Type().String() != "error" {
				for _, rr := range *call.Referrers() {
					if e, ok := rr.(*ssa.Extract); ok && e.Index == 1 {
						r.errv = e
					}
				}
			}
			m.reads = append(m.reads, r)
		}
	}
	// classify
	for _, r := range m.reads {
		if !r.st.valid() {
			continue
		}
		el := m.elemType(r.st)
		if el == nil {
			continue
		}
		switch t := el.Underlying().(type) {
		case *types.Basic:
			if t.Kind() == types.Uint16 && m.length == nil {
				order := "LE"
				if core.IsCall(r.call, "encoding/binary.Read") && !isOrder(core.Args(r.call)[1], "LittleEndian") {
					order = "BE"
				}
				r.kind = "uint16/" + order
				m.length = r
			}
		case *types.Array:
			if t.Len() == 2 && m.length == nil {
				// decoded how?
				r.kind = "bytes[2]"
				if ord := m.decodedAs(r.st); ord != "" {
					r.kind = "uint16/" + ord
				}
				m.length = r
			} else {
				r.kind = fmt.Sprintf("bytes[%d]", t.Len())
			}
		case *types.Slice:
			r.kind = "bytes[?]"
		}
	}
	for _, r := range m.reads {
		if r == m.length || !r.st.valid() {
			continue
		}
		el := m.elemType(r.st)
		if el == nil {
			continue
		}
		switch t := el.Underlying().(type) {
		case *types.Slice:
			// sized by the length?
			if m.length != nil && m.sizedByLength(r.st) && m.body == nil {
				r.kind = "ciphertext"
				m.body = r
			}
		case *types.Array:
			if m.tag == nil && r != m.length {
				r.kind = fmt.Sprintf("tag[%d]", t.Len())
				m.tag = r
			}
		}
	}
	return m
}

func isOrder(v ssa.Value, name string) bool {
	return core.AnySource(v, func(s ssa.Value) bool {
		u, ok := s.(*ssa.UnOp)
		if !ok {
			return false
		}
		g, ok := u.X.(*ssa.Global)
		return ok && g.Name() == name
	})
}

func (m *frameModel) elemType(s storage) types.Type {
	if s.mk != nil {
		return s.mk.Type()
	}
	t := s.alloc.Type().(*types.Pointer).Elem()
	if s.field < 0 {
		return t
	}
	st, ok := t.Underlying().(*types.Struct)
	if !ok || s.field >= st.NumFields() {
		return nil
	}
	return st.Field(s.field).Type()
}

// decodedAs: the [2]byte storage is decoded with binary.<order>.Uint16(st[:]) somewhere in the function: returns "LE"/"BE".
func (m *frameModel) decodedAs(s storage) string {
	res := ""
	core.Instrs(m.fn, func(i ssa.Instruction) {
		g := core.Callee(i)
		if g == nil {
			return
		}
		q := core.QualName(g)
		if !strings.HasSuffix(q, ".Uint16") || !strings.HasPrefix(q, "(encoding/binary.") {
			return
		}
		if origin(storageOfAddr(core.Args(i)[0]), 6) == s {
			if strings.Contains(q, "littleEndian") {
				res = "LE"
			} else {
				res = "BE"
			}
		}
	})
	return res
}

// isLength: v is the frame length exactly as read from the stream.
func (m *frameModel) isLength(v ssa.Value) bool {
	if m.length == nil {
		return false
	}
	all, any := true, false
	for _, s := range core.Sources(v) {
		any = true
		switch x := s.(type) {
		case *ssa.UnOp:
			// a load of the uint16 variable the length was read into
			if x.Op == token.MUL && origin(storageOfAddr(x.X), 6) == m.length.st {
				if _, isBasic := m.elemType(m.length.st).Underlying().(*types.Basic); isBasic {
					continue
				}
			}
			all = false
		case *ssa.Call:
			if g := x.Call.StaticCallee(); g != nil && strings.HasSuffix(core.QualName(g), ".Uint16") && strings.HasPrefix(core.QualName(g), "(encoding/binary.littleEndian") {
				if origin(storageOfAddr(core.Args(x)[0]), 6) == m.length.st {
					continue
				}
			}
			// len(body) where body was sized by the length
			if b, ok := x.Call.Value.(*ssa.Builtin); ok && b.Name() == "len" && m.body != nil && m.holds(x.Call.Args[0], m.body.st) {
				continue
			}
			all = false
		default:
			all = false
		}
	}
	return all && any
}

// sizedByLength: the slice held in storage s was made with the frame length.
func (m *frameModel) sizedByLength(s storage) bool {
	if s.mk != nil {
		return m.isLength(s.mk.Len)
	}
	ok := false
	check := func(val ssa.Value) {
		for _, src := range core.Sources(val) {
			if ms, isMs := src.(*ssa.MakeSlice); isMs && m.isLength(ms.Len) {
				ok = true
			}
		}
	}
	for _, r := range *s.alloc.Referrers() {
		if s.field < 0 {
			if st, isSt := r.(*ssa.Store); isSt && st.Addr == ssa.Value(s.alloc) {
				check(st.Val)
			}
			continue
		}
		if fa, isFa := r.(*ssa.FieldAddr); isFa && fa.Field == s.field {
			for _, rr := range *fa.Referrers() {
				if st, isSt := rr.(*ssa.Store); isSt && st.Addr == ssa.Value(fa) {
					check(st.Val)
				}
			}
		}
	}
	return ok
}

// lengthWrites: stores into the length storage other than by the read itself.
func (m *frameModel) lengthWrites() int {
	if m.length == nil || !m.length.st.valid() {
		return 0
	}
	n := 0
	s := m.length.st
	var addrs []ssa.Value
	if s.field < 0 {
		addrs = append(addrs, s.alloc)
	} else {
		for _, r := range *s.alloc.Referrers() {
			if fa, ok := r.(*ssa.FieldAddr); ok && fa.Field == s.field {
				addrs = append(addrs, fa)
			}
		}
	}
	for _, a := range addrs {
		for _, r := range *a.Referrers() {
			switch x := r.(type) {
			case *ssa.Store:
				if x.Addr == a {
					// the zero-initialisation / result-variable plumbing of an inlined helper copies the storage onto itself
					if o := originOfValue(x.Val, 6); o.valid() && o == s {
						continue
					}
					n++
				}
			case *ssa.IndexAddr:
				for _, rr := range *x.Referrers() {
					if st, ok := rr.(*ssa.Store); ok && st.Addr == ssa.Value(x) {
						n++
					}
				}
			}
		}
	}
	return n
}

// isLengthBytes: v is the two length bytes exactly as they were on the wire: the [2]byte storage the length was read into (or a
// copy of it), or a buffer filled with the little-endian 16-bit encoding of the length as read.
func (m *frameModel) isLengthBytes(v ssa.Value, fn *ssa.Function) bool {
	if m.length == nil {
		return false
	}
	if _, isArr := m.elemType(m.length.st).Underlying().(*types.Array); isArr {
		if o := originOfValue(v, 6); o.valid() && o == m.length.st {
			return true
		}
		if o := origin(storageOfAddr(v), 6); o.valid() && o == m.length.st {
			return true
		}
	}
	if a := allocOf(v); a != nil {
		val, bits, little, _ := putUint(fn, a)
		return val != nil && bits == 16 && little && m.isLength(val)
	}
	return false
}

func (m *frameModel) describe() []string {
	var out []string
	for _, r := range m.reads {
		out = append(out, r.kind)
	}
	return out
}

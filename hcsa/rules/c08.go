package rules

import (
	"go/token"
	"go/types"

	"golang.org/x/tools/go/ssa"

	"hcsa/core"
)

func init() {
	register(&core.Property{
		ID:    "C08",
		Level: "other",
		Explanation: "Lock discipline for writers of one encrypted connection. In every library function that calls Encrypter.Encrypt, that call and every write of its result to the raw socket lie in one " +
			"critical section of a sync.Mutex that is a field of the hap.Connection (a Lock dominates both, no Unlock can run between them; deferred Unlock or Unlock on every exit); the payload given to " +
			"Encrypt is the complete []byte parameter that entered Connection.Write (no per-frame sections); (*secureSession).Encrypt has no other caller; the raw socket is written only inside " +
			"Connection methods, and everybody else (event fan-out, keep-alive, net/http) holds the *hap.Connection. This is the mutual-exclusion shape that is necessary and sufficient for " +
			"'counter order = wire order' under every interleaving.",
		Assumptions: []string{"sync.Mutex provides mutual exclusion", "VTA resolves crypto.Encrypter to its single implementation"},
		NotDecided:  []string{"fairness between writers", "the hand-over race on session.cryptographer at the plaintext->encrypted switch (no subscription can exist before verification)"},
		NeedsCG:     true,
		Rules: []core.Rule{
			{ID: "C08-R1", Title: "counter take and socket write in one critical section", Decides: "no frame counter emitted out of order", Floor: 2, Run: func(c *core.Ctx) { c08r1(c); polarityEverywhere(c, "C08") }},
			{ID: "C08-R2", Title: "nobody else takes the counter", Decides: "no frame counter reused or skipped by another path", Floor: 2, Run: c08r2},
			{ID: "C08-R3", Title: "nobody else writes the raw socket", Decides: "every writer goes through the serialised path", Floor: 3, Run: func(c *core.Ctx) { c08r3(c); socketIsTheAcceptedOne(c); returnsUndecorated(c, "C08") }},
			{ID: "C08-R4", Title: "one payload, one section", Decides: "each write's payload reaches the peer intact and contiguous", Floor: 1, Run: c08r4},
			{ID: "C08-R5", Title: "no deadline set by library code; encrypter looked up inside the section", Decides: "an in-flight write is not truncated; queued writers seal with the current session", Floor: 2, Run: c08r5},
		},
	})
}

func isEncryptInvoke(i ssa.Instruction) bool {
	return core.IsInvoke(i, mod+"/crypto.Encrypter", "Encrypt") || core.IsInvoke(i, mod+"/crypto.Cryptographer", "Encrypt")
}

func rawSocketWrite(i ssa.Instruction) bool {
	if !core.IsInvoke(i, "net.Conn", "Write") && !core.IsInvoke(i, "io.Writer", "Write") {
		return false
	}
	return fromRawSocket(core.CallOf(i).Value)
}

func c08r1(c *core.Ctx) {
	p := c.P
	n := 0
	for _, f := range libFuncs(p) {
		encs := core.FindCalls(f, isEncryptInvoke)
		if len(encs) == 0 || isClientSide(f) {
			continue
		}
		n++
		// the error test behind Encrypt has its polarity (a failed seal does not go on to the socket, a successful one does)
		errorTestPolarity(c, f, func(i ssa.Instruction) bool { ok, _ := isPanicCall(i); return ok })
		writes := core.FindCalls(f, rawSocketWrite)
		for _, e := range encs {
			ok, why := inCriticalSection(f, e, mutexOfConn)
			c.Check(ok, "encrypt-in-section@"+fname(f), posOf(e), "Encrypt runs under a Connection-owned mutex",
				"Encrypt (which takes the frame counter) is not inside a critical section of a Connection-owned mutex: "+why+" — two writers can seal frames n, n+1 and put them on the wire as n+1, n")
		}
		if len(writes) == 0 {
			c.Bad("socket-write@"+fname(f), f.Pos(), "the function that encrypts does not write the result to the socket itself: the section cannot cover the write")
		}
		for _, w := range writes {
			ok, why := inCriticalSection(f, w, mutexOfConn)
			c.Check(ok, "write-in-section@"+fname(f), posOf(w), "the socket write of the sealed frames runs under the same mutex",
				"the socket write of the sealed frames is outside the critical section ("+why+"): frames can reach the socket in a different order than their counters")
		}
	}
	if n == 0 {
		c.Undecided("encrypting-writer", token.NoPos, "no library function calls Encrypter.Encrypt")
	}
}

// isClientSide: controller-side helper code that is not part of the accessory's connection handling.
func isClientSide(f *ssa.Function) bool { return false }

func c08r2(c *core.Ctx) {
	p := c.P
	enc := p.Func("crypto", "(*secureSession).Encrypt")
	if enc == nil {
		c.Undecided("(*secureSession).Encrypt", token.NoPos, "not found")
		return
	}
	callers := 0
	for _, e := range p.CallersOf(enc) {
		f := e.Caller.Func
		if isTestFunc(p, f) || !core.IsLibraryPkg(pkgPathOf(f)) {
			continue
		}
		callers++
		inSec := false
		if e.Site != nil {
			inSec, _ = inCriticalSection(f, e.Site, mutexOfConn)
		}
		c.Check(inSec, "Encrypt-caller@"+fname(f), e.Pos(), "calls Encrypt inside the Connection's write section", "Encrypt is called from "+fname(f)+" outside the Connection's write section: another path takes frame counters")
	}
	if callers == 0 {
		c.Undecided("Encrypt-callers", enc.Pos(), "VTA found no library caller of (*secureSession).Encrypt")
	}
	for _, st := range p.FieldStores(tSecure, "encryptCount") {
		f := st.Parent()
		if isTestFunc(p, f) {
			continue
		}
		ok := (f == enc) || f.Signature.Recv() == nil
		c.Check(ok, "write:encryptCount@"+fname(f), st.Pos(), "written only by Encrypt and the constructors", "encryptCount is written outside Encrypt and the constructors")
	}
}

func c08r3(c *core.Ctx) {
	p := c.P
	n := 0
	for _, f := range libFuncs(p) {
		for _, w := range core.FindCalls(f, rawSocketWrite) {
			n++
			c.Check(core.TypeIs(recvType(f), tConn), "raw-write@"+fname(f), posOf(w), "raw socket written inside a Connection method", "the raw socket of a Connection is written outside the Connection's methods")
		}
	}
	c.Count("raw_socket_write_sites", n)
	// the raw socket does not escape: the connection field is read only inside Connection methods
	for _, f := range libFuncs(p) {
		core.Instrs(f, func(i ssa.Instruction) {
			fa, ok := i.(*ssa.FieldAddr)
			if !ok {
				return
			}
			if _, ok := core.FieldAddrOf(fa, tConn, "connection"); ok && !core.TypeIs(recvType(f), tConn) && cn(f) != "NewConnection" {
				c.Bad("raw-socket-escapes@"+fname(f), fa.Pos(), "the raw socket field of Connection is accessed outside Connection")
			}
		})
	}
	// no Connection method hands the raw socket out
	for _, f := range libFuncs(p) {
		if !core.TypeIs(recvType(f), tConn) {
			continue
		}
		core.Instrs(f, func(i ssa.Instruction) {
			if r, ok := i.(*ssa.Return); ok {
				for _, res := range res(r) {
					if core.TypeIs(res.Type(), "net.Conn") && fromRawSocket(res) {
						c.Bad("raw-socket-returned@"+fname(f), r.Pos(), "a Connection method returns the raw socket")
					}
				}
			}
		})
	}
	// sessions hold the *hap.Connection, not the raw socket
	if f := p.Func("hap", "NewConnection"); f != nil {
		ok := false
		core.Instrs(f, func(i ssa.Instruction) {
			if core.IsCall(i, mod+"/hap.NewSession") {
				ok = core.AnySource(core.Args(i)[0], func(s ssa.Value) bool {
					a, isA := s.(*ssa.Alloc)
					return isA && core.TypeIs(a.Type(), tConn)
				})
			}
		})
		c.Check(ok, "session-holds-hap-connection", f.Pos(), "NewSession receives the new *hap.Connection", "the session is created over the raw socket: fan-out and keep-alive would bypass the serialised write path")
	}
	for _, e := range p.CallersOf(p.Func("hap", "NewSession")) {
		f := e.Caller.Func
		if isTestFunc(p, f) || !core.IsLibraryPkg(pkgPathOf(f)) {
			continue
		}
		c.Check(cn(f) == "NewConnection", "NewSession-caller@"+fname(f), e.Pos(), "sessions are created only by NewConnection", "a session is created outside NewConnection")
	}
	if f := p.Func("hap", "(*session).Connection"); f != nil {
		ok := returnsOnly(f, func(v ssa.Value) bool { _, ok := core.FieldLoad(v, mod+"/hap.session", "connection"); return ok })
		c.Check(ok, "session.Connection-accessor", f.Pos(), "returns the stored connection", "session.Connection() does not return the stored connection")
	}
}

func c08r4(c *core.Ctx) {
	p := c.P
	n := 0
	for _, f := range libFuncs(p) {
		encs := core.FindCalls(f, isEncryptInvoke)
		if len(encs) == 0 {
			continue
		}
		for _, e := range encs {
			n++
			key := "payload@" + fname(f)
			// the reader given to Encrypt is a buffer filled with a []byte parameter of f, unsliced
			arg := core.Args(e)[0]
			whole := false
			sliced := false
			for _, s := range core.Sources(arg) {
				a, ok := s.(*ssa.Alloc)
				if !ok {
					continue
				}
				for _, r := range *a.Referrers() {
					cc := core.CallOf(r)
					if cc == nil || !(core.IsCall(r, "(*bytes.Buffer).Write")) {
						continue
					}
					v := core.Args(r)[0]
					if pr, ok := v.(*ssa.Parameter); ok && pr.Parent() == f {
						whole = true
					} else {
						sliced = true
					}
				}
			}
			for _, s := range core.Sources(arg) {
				if call, ok := s.(*ssa.Call); ok && (core.IsCall(call, "bytes.NewReader") || core.IsCall(call, "bytes.NewBuffer")) {
					if pr, ok := call.Call.Args[0].(*ssa.Parameter); ok && pr.Parent() == f {
						whole = true
					} else {
						sliced = true
					}
				}
			}
			// the function is entered with the full payload of Connection.Write (through any chain of
			// calls that pass their own []byte parameter on, unsliced and not from inside a loop)
			entered := payloadWhole(p, f, 4)
			// not inside a loop of f
			inLoop := reachesAfter(e, e)
			c.Check(whole && !sliced && entered && !inLoop, key, posOf(e), "one Encrypt call over the complete payload of Connection.Write, once per call",
				"the payload of one Write is not sealed in one piece inside one section (sliced="+boolStr(sliced)+", loop="+boolStr(inLoop)+", whole-parameter="+boolStr(whole)+", entered-from-Write="+boolStr(entered)+"): another writer's frames can land between the frames of one payload")
		}
	}
	if n == 0 {
		c.Undecided("payload", token.NoPos, "no Encrypt call site")
	}
}

func boolStr(b bool) string {
	if b {
		return "yes"
	}
	return "no"
}

// payloadWhole: f is Connection.Write, or every library caller passes one of its own parameters
// (unsliced, call site not in a loop) and is itself payloadWhole.
func payloadWhole(p *core.Program, f *ssa.Function, depth int) bool {
	if cn(f) == "Write" && core.TypeIs(recvType(f), tConn) {
		return true
	}
	if depth == 0 {
		return false
	}
	n := 0
	for _, ce := range p.CallersOf(f) {
		cf := ce.Caller.Func
		if isTestFunc(p, cf) || ce.Site == nil {
			continue
		}
		n++
		passes := false
		for _, a := range ce.Site.Common().Args {
			if pr, ok := a.(*ssa.Parameter); ok && pr.Parent() == cf {
				if _, isSlice := pr.Type().Underlying().(*types.Slice); isSlice {
					passes = true
				}
			}
		}
		if !passes || reachesAfter(ce.Site, ce.Site) || !payloadWhole(p, cf, depth-1) {
			return false
		}
	}
	return n > 0
}

package rules

import (
	"fmt"
	"go/constant"
	"go/token"
	"go/types"
	"sort"
	"strings"

	"golang.org/x/tools/go/ssa"

	"hcsa/core"
)

// ---------------------------------------------------------------- table transcribed from the HAP specification (R2: 5.6, 5.7, 6.5.2, 14)
// Data only. Roles are determined by data flow in the code, never by position.

var specLabels = map[string][2]string{ // role -> {salt, info}
	"setup-encrypt-key":               {"Pair-Setup-Encrypt-Salt", "Pair-Setup-Encrypt-Info"},
	"setup-controller-sign":           {"Pair-Setup-Controller-Sign-Salt", "Pair-Setup-Controller-Sign-Info"},
	"setup-accessory-sign":            {"Pair-Setup-Accessory-Sign-Salt", "Pair-Setup-Accessory-Sign-Info"},
	"verify-encrypt-key":              {"Pair-Verify-Encrypt-Salt", "Pair-Verify-Encrypt-Info"},
	"session-accessory-to-controller": {"Control-Salt", "Control-Read-Encryption-Key"},
	"session-controller-to-accessory": {"Control-Salt", "Control-Write-Encryption-Key"},
}

// items of the accessory's responses that carry no error: setup M2 = salt + public key, M4 = proof, M6 = encrypted data;
// verify M2 = public key + encrypted data (State is checked separately)
var specResponseItems = map[string][]int64{
	tSetupCtrl + "/2":  {3, 2},
	tSetupCtrl + "/4":  {4},
	tSetupCtrl + "/6":  {5},
	tVerifyCtrl + "/2": {3, 5},
}

var specNonces = map[string]string{
	"setup-open-M5":  "PS-Msg05",
	"setup-seal-M6":  "PS-Msg06",
	"verify-seal-M2": "PV-Msg02",
	"verify-open-M3": "PV-Msg03",
}

var specTags = map[string]int64{"TagPairingMethod": 0, "TagUsername": 1, "TagSalt": 2, "TagPublicKey": 3, "TagProof": 4, "TagEncryptedData": 5, "TagSequence": 6, "TagErrCode": 7, "TagMFiCertificate": 9, "TagSignature": 10, "TagPermission": 11}
var specSetupStates = map[string]int64{"PairStepStartRequest": 1, "PairStepStartResponse": 2, "PairStepVerifyRequest": 3, "PairStepVerifyResponse": 4, "PairStepKeyExchangeRequest": 5, "PairStepKeyExchangeResponse": 6}
var specVerifyStates = map[string]int64{"VerifyStepStartRequest": 1, "VerifyStepStartResponse": 2, "VerifyStepFinishRequest": 3, "VerifyStepFinishResponse": 4}
var specMethods = map[string]int64{"PairingMethodDefault": 0, "PairingMethodMFi": 1, "PairingMethodAdd": 3, "PairingMethodDelete": 4}

const specSRPGroup = "rfc5054.3072"
const specSRPIdentity = "Pair-Setup"
const specSaltLen = 16

func init() {
	register(&core.Property{
		ID:    "C04",
		Level: "other",
		Explanation: "Agreement of the accessory side with a table transcribed from the HAP specification (the table is data in hcsa/rules/c04.go). Every HKDF / AEAD call site of the pair-setup and pair-verify server " +
			"controllers and of the secure session is classified into a role by data flow (what the derived key is stored to, which signature primitive the derived bytes flow into, whether the AEAD call opens the " +
			"incoming or seals the outgoing message) and its constant salt / info / nonce must equal the table for that role; SRP is instantiated with group rfc5054.3072, SHA-512, the KDF H(s | H(I ':' P)) with " +
			"identity 'Pair-Setup' and a 16-byte salt over the validated setup code; the primitive wrappers route their arguments to x/crypto and crypto/ed25519 in the right positions; on every returning path of " +
			"every step handler the response carries the State item exactly once with the specification's value, error codes come from the declared enumeration, the accessory's signed material has the " +
			"specification's order and the sub-TLVs carry the specified tags; tag / state / method numbering equals the specification; the controllers' session objects are written only by their constructors " +
			"(the shared key the endpoint reads after the finish step is the negotiated one); the frame reader reads the specified layout completely (shared with C06).",
		Assumptions: []string{"tadglines/go-pkgs SRP implements SRP-6a as HAP uses it", "x/crypto primitives", "HTTP framing"},
		NotDecided:  []string{"interoperability as a run-time fact", "padding rules of the SRP library", "meaning of error codes 3..6 across specification revisions (only membership in 1..7)"},
		NeedsCG:     true,
		Rules: []core.Rule{
			{ID: "C04-R1", Title: "HKDF labels and AEAD nonces per role", Decides: "every derived key and sealed message verifies under the specification's constants", Floor: 12, Run: c04r1},
			{ID: "C04-R2", Title: "SRP parameters", Decides: "a conformant controller's proof verifies", Floor: 6, Run: func(c *core.Ctx) { c04r2(c); setupSessionFromPin(c); pinFormatted(c) }},
			{ID: "C04-R3", Title: "primitive wrappers route their arguments", Decides: "signatures and keys verify under the specification's algorithms", Floor: 9, Run: func(c *core.Ctx) {
				c04r3(c)
				passThrough(c, "C04")
				copySourcesAreWritten(c, "crypto", "crypto/hkdf", "crypto/chacha20poly1305", "crypto/curve25519", "hap/pair", "hap")
				keyPairRouting(c)
				returnsUndecorated(c, "C04")
			}},
			{ID: "C04-R4", Title: "message shape: one State item, spec values, signed material order, sub-TLV tags, stable session objects", Decides: "responses parse at a conformant controller", Floor: 10, Run: func(c *core.Ctx) { c04r4(c); encryptedItemIsCiphertextThenTag(c) }},
			{ID: "C04-R5", Title: "constant tables", Decides: "TLV tags, states and methods are the specification's", Floor: 25, Run: c04r5},
			{ID: "C04-R6", Title: "frame layout of the encrypted session (shared with C06-R1/R4)", Decides: "encrypted requests of any size are read", Floor: 4, Run: func(c *core.Ctx) { c04r6(c); frameAtATime(c); c07r2(c) }},
			{ID: "C04-R7", Title: "failed attempts leave the controller ready; frame counters continuous; no cross-connection state in the endpoints; stateless wrappers; every finish request leaves the verify controller in its waiting step", Decides: "a conformant controller can retry, and can keep talking after a multi-frame request", Floor: 8, Run: func(c *core.Ctx) {
				c04r7(c)
				verifyFinishLeavesWaiting(c)
				entityCtorPasses(c)
				sessionStoredUnderConnectionKey(c)
				endpointPlumbingPolarity(c)
				polarityEverywhere(c, "C04")
			}},
			{ID: "C04-R8", Title: "pairing messages are parsed and written in the TLV8 item layout, every piece read completely (shared with C16-R1)", Decides: "a conformant controller's messages parse however the network segments the body; the answers are TLV8", Floor: 2, Run: c16r1},
		},
	})
}

func constLabel(v ssa.Value) (string, bool) { return constBytes(v) }

func c04r1(c *core.Ctx) {
	p := c.P
	check := func(role string, at ssa.Instruction, salt, info ssa.Value) {
		want, ok := specLabels[role]
		if !ok {
			c.Undecided("label:"+role, posOf(at), "unknown role")
			return
		}
		s, ok1 := constLabel(salt)
		i, ok2 := constLabel(info)
		key := "label:" + role + "@" + fname(at.Parent())
		if !ok1 || !ok2 {
			c.Bad(key, posOf(at), "salt/info of the %s derivation are not constants", role)
			return
		}
		c.Check(s == want[0] && i == want[1], key, posOf(at), fmt.Sprintf("salt %q info %q", s, i), fmt.Sprintf("the %s derivation uses salt %q info %q; the specification says %q / %q: a conformant controller derives a different key", role, s, i, want[0], want[1]))
	}
	nonce := func(role string, at ssa.Instruction, v ssa.Value) {
		n, ok := constLabel(v)
		key := "nonce:" + role + "@" + fname(at.Parent())
		if !ok {
			c.Bad(key, posOf(at), "nonce of %s is not a constant", role)
			return
		}
		c.Check(n == specNonces[role], key, posOf(at), fmt.Sprintf("nonce %q", n), fmt.Sprintf("%s uses nonce %q, the specification says %q", role, n, specNonces[role]))
	}
	// SetupEncryptionKey call sites: role by receiver type
	for _, f := range libFuncs(p) {
		for _, s := range core.FindCalls(f, func(i ssa.Instruction) bool { g := core.Callee(i); return g != nil && cn(g) == "SetupEncryptionKey" }) {
			g := core.Callee(s)
			a := core.Args(s)
			switch {
			case core.TypeIs(recvType(g), tSetupSess) && core.TypeIs(recvType(f), tSetupCtrl):
				check("setup-encrypt-key", s, a[0], a[1])
			case core.TypeIs(recvType(g), tVerifySess) && core.TypeIs(recvType(f), tVerifyCtrl):
				check("verify-encrypt-key", s, a[0], a[1])
			}
		}
	}
	// SetupEncryptionKey routes salt/info to HKDF over the right master and stores the result
	for _, spec := range []struct{ typ, master string }{{tSetupSess, "PrivateKey"}, {tVerifySess, "SharedKey"}} {
		g := p.Func("hap/pair", "(*"+strings.TrimPrefix(spec.typ, mod+"/hap/pair.")+").SetupEncryptionKey")
		if g == nil {
			c.Undecided("SetupEncryptionKey:"+spec.typ, token.NoPos, "not found")
			continue
		}
		ok := false
		core.Instrs(g, func(i ssa.Instruction) {
			if core.IsCall(i, qHKDF) {
				a := core.Args(i)
				m := sliceOfField(a[0], spec.typ, spec.master)
				if _, isLoad := core.FieldLoad(a[0], spec.typ, spec.master); isLoad {
					m = true
				}
				if m && unchangedValue(a[1], g.Params[1], 0) && unchangedValue(a[2], g.Params[2], 0) {
					ok = true
				}
			}
		})
		c.Check(ok, "encrypt-key-routing@"+fname(g), g.Pos(), "EncryptionKey = HKDF("+spec.master+", salt, info)", "SetupEncryptionKey does not derive HKDF-SHA-512("+spec.master+", salt, info)")
	}
	// sign-material derivations in the key exchange
	kx := p.Func("hap/pair", "(*SetupServerController).handleKeyExchange")
	if kx == nil {
		c.Undecided("handleKeyExchange", token.NoPos, "not found")
	} else {
		flowsInto := func(h ssa.Instruction, qual string, argIdx int) bool {
			res := false
			core.Instrs(kx, func(i ssa.Instruction) {
				if !core.IsCall(i, qual) {
					return
				}
				parts, ok := byteSeq(core.Args(i)[argIdx])
				if !ok {
					return
				}
				for _, pt := range parts {
					if core.CallResult(core.StripConv(pt), 0, func(ci ssa.Instruction) bool { return ci == h }) != nil {
						res = true // the derived key passed by value (to a concatenation helper)
					}
					if a := allocOf(pt); a != nil {
						// the store that reaches this use: the variable may be used again for a later derivation
						var stores []*ssa.Store
						for _, r := range *a.Referrers() {
							if st, ok := r.(*ssa.Store); ok && st.Addr == ssa.Value(a) {
								stores = append(stores, st)
							}
						}
						for _, st := range stores {
							if core.CallResult(st.Val, 0, func(ci ssa.Instruction) bool { return ci == h }) == nil {
								continue
							}
							if len(stores) > 1 {
								if !instrDominates(st, i) {
									continue
								}
								overwritten := false
								for _, st2 := range stores {
									if st2 != st && instrDominates(st, st2) && instrDominates(st2, i) {
										overwritten = true
									}
								}
								if overwritten {
									continue
								}
							}
							res = true
						}
					}
				}
			})
			return res
		}
		nSign := 0
		core.Instrs(kx, func(i ssa.Instruction) {
			if !core.IsCall(i, qHKDF) {
				return
			}
			a := core.Args(i)
			fromS := false
			if _, ok := core.FieldLoad(a[0], tSetupSess, "PrivateKey"); ok {
				fromS = true
			}
			switch {
			case flowsInto(i, qValidate, 1):
				nSign++
				check("setup-controller-sign", i, a[1], a[2])
				c.Check(fromS, "sign-master:controller@"+fname(kx), posOf(i), "derived from the SRP shared secret", "controller sign material is not derived from the SRP shared secret")
			case flowsInto(i, qSign, 1):
				nSign++
				check("setup-accessory-sign", i, a[1], a[2])
				c.Check(fromS, "sign-master:accessory@"+fname(kx), posOf(i), "derived from the SRP shared secret", "accessory sign material is not derived from the SRP shared secret")
			default:
				c.Bad("label:unclassified@"+fname(kx), posOf(i), "an HKDF derivation in the key exchange flows into neither signature check nor signature")
			}
		})
		if nSign < 2 {
			c.Bad("sign-derivations@"+fname(kx), kx.Pos(), "expected the controller-sign and the accessory-sign derivation")
		}
		core.Instrs(kx, func(i ssa.Instruction) {
			if isDecryptCall(i) {
				nonce("setup-open-M5", i, core.Args(i)[1])
			}
			if isSealCall(i) {
				nonce("setup-seal-M6", i, core.Args(i)[1])
			}
		})
	}
	for _, spec := range []struct{ fn, open, seal string }{{"(*VerifyServerController).handlePairVerifyStart", "", "verify-seal-M2"}, {"(*VerifyServerController).handlePairVerifyFinish", "verify-open-M3", ""}} {
		f := p.Func("hap/pair", spec.fn)
		if f == nil {
			c.Undecided(spec.fn, token.NoPos, "not found")
			continue
		}
		n := 0
		core.Instrs(f, func(i ssa.Instruction) {
			if isDecryptCall(i) && spec.open != "" {
				n++
				nonce(spec.open, i, core.Args(i)[1])
			}
			if isSealCall(i) && spec.seal != "" {
				n++
				nonce(spec.seal, i, core.Args(i)[1])
			}
		})
		if n == 0 {
			c.Bad("nonce-site@"+fname(f), f.Pos(), "expected an AEAD call in "+spec.fn)
		}
	}
	// secure session labels, accessory side
	if f := p.Func("crypto", "NewSecureSessionFromSharedKey"); f != nil {
		for _, spec := range []struct{ fld, role string }{{"encryptKey", "session-accessory-to-controller"}, {"decryptKey", "session-controller-to-accessory"}} {
			found := false
			for _, b := range bodies(f) {
				b := b
				core.Instrs(b.fn, func(i ssa.Instruction) {
					st, ok := i.(*ssa.Store)
					if !ok {
						return
					}
					if _, ok := core.FieldAddrOf(st.Addr, tSecure, spec.fld); !ok {
						return
					}
					for _, src := range core.Sources(st.Val) {
						if call := core.CallResult(src, 0, func(ci ssa.Instruction) bool { return core.IsCall(ci, qHKDF) }); call != nil {
							found = true
							a := core.Args(call)
							check(spec.role, call, b.lift(a[1]), b.lift(a[2]))
						}
					}
				})
			}
			if !found {
				c.Bad("label:"+spec.role, f.Pos(), "no HKDF derivation stored to "+spec.fld)
			}
		}
	} else {
		c.Undecided("NewSecureSessionFromSharedKey", token.NoPos, "not found")
	}
}

func c04r2(c *core.Ctx) {
	p := c.P
	f := p.Func("hap/pair", "NewSetupServerSession")
	if f == nil {
		c.Undecided("NewSetupServerSession", token.NoPos, "not found")
		return
	}
	var newSRP, verifier, newSess *ssa.Call
	core.Instrs(f, func(i ssa.Instruction) {
		if g := core.Callee(i); g != nil {
			switch cn(g) {
			case "NewSRP":
				newSRP = i.(*ssa.Call)
			case "ComputeVerifier":
				verifier = i.(*ssa.Call)
			case "NewServerSession":
				newSess = i.(*ssa.Call)
			}
		}
	})
	if newSRP == nil || verifier == nil || newSess == nil {
		c.Undecided("srp-setup@"+fname(f), f.Pos(), "NewSRP / ComputeVerifier / NewServerSession not all found")
		return
	}
	grp, _ := core.ConstString(newSRP.Call.Args[0])
	c.Check(grp == specSRPGroup, "srp-group", posOf(newSRP), "group "+grp, fmt.Sprintf("SRP group is %q, HAP uses the 3072-bit group (%q)", grp, specSRPGroup))
	isSha512 := func(v ssa.Value) bool {
		for _, s := range core.Sources(v) {
			if fn, ok := s.(*ssa.Function); ok && core.QualName(fn) == "crypto/sha512.New" {
				return true
			}
		}
		return false
	}
	c.Check(isSha512(newSRP.Call.Args[1]), "srp-hash", posOf(newSRP), "SHA-512", "the SRP hash is not SHA-512")
	// KDF
	var kdfCall *ssa.Call
	for _, s := range core.Sources(newSRP.Call.Args[2]) {
		if call, ok := s.(*ssa.Call); ok && core.Callee(call) != nil && core.InModule(core.Callee(call)) {
			kdfCall = call
		}
	}
	if kdfCall == nil {
		c.Bad("srp-kdf", posOf(newSRP), "the key derivation function is not the module's RFC 2945 function")
	} else {
		id, _ := constLabel(kdfCall.Call.Args[1])
		c.Check(isSha512(kdfCall.Call.Args[0]) && id == specSRPIdentity, "srp-kdf-args", posOf(kdfCall), "KDF over SHA-512 with identity \"Pair-Setup\"", fmt.Sprintf("KDF identity %q / hash are not (\"Pair-Setup\", SHA-512)", id))
		g := core.Callee(kdfCall)
		order := "?"
		for _, cl := range g.AnonFuncs {
			// simulate the hash objects of the (straight-line) closure: what each one has been fed, digests as nested terms
			fed := map[ssa.Value][]string{}
			digest := map[ssa.Value]string{}
			tok := func(a ssa.Value) string {
				switch {
				case a == ssa.Value(cl.Params[0]):
					return "salt"
				case a == ssa.Value(cl.Params[1]):
					return "P"
				}
				if s, ok := core.ConstString(a); ok {
					return fmt.Sprintf("%q", s)
				}
				if d, ok := digest[a]; ok {
					return d
				}
				if core.AnySource(a, func(v ssa.Value) bool { pa, ok := v.(*ssa.Parameter); return ok && pa.Parent() == g }) {
					return "I"
				}
				return "?"
			}
			core.Instrs(cl, func(i ssa.Instruction) {
				if ret, ok := i.(*ssa.Return); ok && len(ret.Results) == 1 {
					order = tok(ret.Results[0])
					return
				}
				cc := core.CallOf(i)
				if cc == nil || !cc.IsInvoke() {
					return
				}
				switch cc.Method.Name() {
				case "Write":
					fed[cc.Value] = append(fed[cc.Value], tok(cc.Args[0]))
				case "Sum":
					pre := ""
					if !core.IsNilConst(cc.Args[0]) {
						pre = "?prefix "
					}
					if v, ok := i.(ssa.Value); ok {
						digest[v] = pre + "H(" + strings.Join(fed[cc.Value], " ") + ")"
					}
				case "Reset":
					fed[cc.Value] = nil
				}
			})
		}
		want := `H(salt H(I ":" P))`
		c.Check(order == want, "srp-kdf-order", g.Pos(), "x = H(s | H(I ':' P))", fmt.Sprintf("the KDF computes %s, SRP-6a as HAP uses it is %s: the verifier does not depend on the identity and the setup code the way the controller's does (no controller can pair — or any code is accepted)", order, want))
	}
	// salt length
	sl := int64(-1)
	core.Instrs(f, func(i ssa.Instruction) {
		if st, ok := i.(*ssa.Store); ok {
			if fa, ok := st.Addr.(*ssa.FieldAddr); ok && fieldNameOf(fa) == "SaltLength" {
				sl, _ = core.ConstInt(st.Val)
			}
		}
	})
	c.Check(sl == specSaltLen && instrBefore(f, "SaltLength", verifier), "srp-salt-length", f.Pos(), "16-byte salt, set before the verifier is computed", fmt.Sprintf("salt length %d (want 16) or set after ComputeVerifier", sl))
	// password = pin parameter; identity of the session = "Pair-Setup"
	pw := core.AnySource(verifier.Call.Args[1], func(s ssa.Value) bool { return len(f.Params) > 1 && s == ssa.Value(f.Params[1]) }) || func() bool {
		if cv, ok := verifier.Call.Args[1].(*ssa.Convert); ok {
			pr, ok := cv.X.(*ssa.Parameter)
			return ok && pr == f.Params[1]
		}
		return false
	}()
	c.Check(pw, "srp-password", posOf(verifier), "the verifier is computed over the pin argument", "the SRP verifier is not computed over the setup code")
	id, _ := constLabel(newSess.Call.Args[1])
	c.Check(id == specSRPIdentity, "srp-identity", posOf(newSess), "server session identity \"Pair-Setup\"", fmt.Sprintf("SRP identity is %q", id))
	// the pin comes from device.Pin(), which is the formatted ValidatePin result
	if ctor := p.Func("hap/pair", "NewSetupServerController"); ctor != nil {
		ok := false
		core.Instrs(ctor, func(i ssa.Instruction) {
			if core.Callee(i) == f {
				ok = core.AnySource(core.Args(i)[1], func(s ssa.Value) bool {
					call, ok := s.(*ssa.Call)
					return ok && core.IsInvoke(call, mod+"/hap.SecuredDevice", "Pin")
				})
			}
		})
		c.Check(ok, "srp-pin-source", ctor.Pos(), "pin = device.Pin()", "the SRP session is not created with device.Pin()")
	}
	if nt := p.Func("", "NewIPTransport"); nt != nil {
		ok := false
		core.Instrs(nt, func(i ssa.Instruction) {
			if g := core.Callee(i); g != nil && cn(g) == "NewSecuredDevice" {
				ok = core.AnySource(core.Args(i)[1], func(s ssa.Value) bool {
					return core.CallResult(s, 0, func(ci ssa.Instruction) bool { g := core.Callee(ci); return g != nil && cn(g) == "ValidatePin" }) != nil
				})
			}
		})
		c.Check(ok, "pin-formatted", nt.Pos(), "the device pin is the formatted result of ValidatePin (XXX-XX-XXX)", "the secured device is not given the formatted setup code")
	}
	if vp := p.Func("", "ValidatePin"); vp != nil {
		// XXX-XX-XXX: slice bounds 3,5 and separator "-"
		bounds := map[int64]bool{}
		seps := 0
		core.Instrs(vp, func(i ssa.Instruction) {
			if sl, ok := i.(*ssa.Slice); ok {
				for _, b := range []ssa.Value{sl.Low, sl.High} {
					if b != nil {
						if k, ok := core.ConstInt(b); ok {
							bounds[k] = true
						}
					}
				}
			}
			if b, ok := i.(*ssa.BinOp); ok && b.Op == token.ADD {
				if s, ok := core.ConstString(b.Y); ok && s == "-" {
					seps++
				}
			}
		})
		c.Check(bounds[3] && bounds[5] && seps == 2, "pin-format", vp.Pos(), "formatted as d[0:3]-d[3:5]-d[5:]", "the setup code is not formatted as XXX-XX-XXX")
	}
}

func instrBefore(f *ssa.Function, field string, at ssa.Instruction) bool {
	ok := false
	core.Instrs(f, func(i ssa.Instruction) {
		if st, isSt := i.(*ssa.Store); isSt {
			if fa, isFa := st.Addr.(*ssa.FieldAddr); isFa && fieldNameOf(fa) == field && instrDominates(st, at) {
				ok = true
			}
		}
	})
	return ok
}

func c04r3(c *core.Ctx) {
	p := c.P
	route := func(rel, fn, callee string, want []int, extra func(f *ssa.Function, call ssa.Instruction) (bool, string)) {
		f := p.Func(rel, fn)
		key := "wrapper:" + rel + "." + fn
		if f == nil {
			c.Undecided(key, token.NoPos, "not found")
			return
		}
		var call ssa.Instruction
		core.Instrs(f, func(i ssa.Instruction) {
			if g := core.Callee(i); g != nil && core.QualName(g) == callee {
				call = i
			}
			if cc := core.CallOf(i); cc != nil && cc.IsInvoke() && "invoke:"+cc.Method.Name() == callee {
				call = i
			}
		})
		if call == nil {
			c.Bad(key, f.Pos(), "does not call %s", callee)
			return
		}
		args := core.CallOf(call).Args
		ok := true
		for k, pi := range want {
			if pi < 0 {
				continue
			}
			if k >= len(args) || !argFromParam(args[k], f.Params[pi]) {
				ok = false
			}
		}
		why := ""
		if ok && extra != nil {
			ok, why = extra(f, call)
		}
		c.Check(ok, key, posOf(call), "arguments routed to "+callee+" in the specified positions", fn+" does not hand its parameters to "+callee+" in the right positions "+why)
	}
	route("crypto/hkdf", "Sha512", "golang.org/x/crypto/hkdf.New", []int{-1, 0, 1, 2}, func(f *ssa.Function, call ssa.Instruction) (bool, string) {
		sha := false
		for _, s := range core.Sources(core.CallOf(call).Args[0]) {
			if fn, ok := s.(*ssa.Function); ok && core.QualName(fn) == "crypto/sha512.New" {
				sha = true
			}
		}
		n := int64(0)
		core.Instrs(f, func(i ssa.Instruction) {
			if core.IsCall(i, "io.ReadFull") {
				n, _ = knownLen(core.Args(i)[1])
			}
		})
		return sha && n == 32, "(hash must be SHA-512 and 32 bytes are read)"
	})
	aead := func(f *ssa.Function, call ssa.Instruction) (bool, string) {
		// cipher constructed from the key parameter; nonce = 12 bytes with the 8 caller bytes copied at offset 4
		keyOK, nonceOK := false, false
		core.Instrs(f, func(i ssa.Instruction) {
			if core.IsCall(i, "golang.org/x/crypto/chacha20poly1305.New") && core.Args(i)[0] == ssa.Value(f.Params[0]) {
				keyOK = true
			}
			if cc := core.CallOf(i); cc != nil {
				if b, ok := cc.Value.(*ssa.Builtin); ok && b.Name() == "copy" && cc.Args[1] == ssa.Value(f.Params[1]) {
					if sl, ok := core.StripConv(cc.Args[0]).(*ssa.Slice); ok && sl.Low != nil {
						lo, _ := core.ConstInt(sl.Low)
						n, _ := knownLen(sl.X)
						nonceOK = lo == 4 && n == 12
					}
				}
			}
		})
		na := allocOf(core.CallOf(call).Args[1])
		nn := int64(0)
		if na != nil {
			nn, _ = knownLen(na)
		}
		return keyOK && nonceOK && nn == 12, "(key -> chacha20poly1305.New, 12-byte nonce with the caller's 8 bytes at offset 4)"
	}
	route("crypto/chacha20poly1305", "EncryptAndSeal", "invoke:Seal", []int{-1, -1, 2, 3}, aead)
	route("crypto/chacha20poly1305", "DecryptAndVerify", "invoke:Open", []int{-1, -1, -1, 4}, aead)
	route("crypto", "ValidateED25519Signature", "crypto/ed25519.Verify", []int{0, 1, 2}, func(f *ssa.Function, call ssa.Instruction) (bool, string) {
		// the key length is checked before Verify (Verify panics on a wrong key size)
		ok := core.Dominated(call, lenEqualsFact(f.Params[0], 32))
		return ok, "(ed25519.Verify must be dominated by len(key) == 32: it panics otherwise)"
	})
	route("crypto", "ED25519Signature", "crypto/ed25519.Sign", []int{0, 1}, func(f *ssa.Function, call ssa.Instruction) (bool, string) {
		return core.Dominated(call, lenEqualsFact(f.Params[0], 64)), "(ed25519.Sign must be dominated by len(key) == 64)"
	})
	route("crypto/curve25519", "PublicKey", "golang.org/x/crypto/curve25519.ScalarBaseMult", []int{-1, 0}, nil)
	route("crypto/curve25519", "SharedSecret", "golang.org/x/crypto/curve25519.ScalarMult", []int{-1, 0, 1}, nil)
	// seal: tag = last 16 bytes, ciphertext = first len(message)
	if f := p.Func("crypto/chacha20poly1305", "EncryptAndSeal"); f != nil {
		ok := false
		core.Instrs(f, func(i ssa.Instruction) {
			if r, isR := i.(*ssa.Return); isR && len(res(r)) == 3 {
				if sl, isSl := core.StripConv(res(r)[0]).(*ssa.Slice); isSl && sl.High != nil && isLenOf(sl.High, f.Params[2]) {
					ok = true
				}
			}
		})
		c.Check(ok, "wrapper:seal-split", f.Pos(), "ciphertext = out[:len(message)], tag = the rest", "EncryptAndSeal does not split Seal's output at len(message)")
	}
	if f := p.Func("hap/pair", "(*VerifySession).GenerateSharedKeyWithOtherPublicKey"); f != nil {
		ok := false
		core.Instrs(f, func(i ssa.Instruction) {
			if g := core.Callee(i); g != nil && cn(g) == "SharedSecret" {
				a := core.Args(i)
				_, own := core.FieldLoad(a[0], tVerifySess, "PrivateKey")
				ok = own && a[1] == ssa.Value(f.Params[1])
			}
		})
		c.Check(ok, "wrapper:shared-secret-args", f.Pos(), "X25519(own private key, peer public key)", "the shared secret is not X25519(own private key, peer public key)")
	}
}

func argFromParam(a ssa.Value, p *ssa.Parameter) bool {
	if a == ssa.Value(p) {
		return true
	}
	if core.AnySource(a, func(s ssa.Value) bool { return s == ssa.Value(p) }) {
		return true
	}
	// &param (array parameters spilled to a local)
	if al, ok := a.(*ssa.Alloc); ok {
		for _, r := range *al.Referrers() {
			if st, ok := r.(*ssa.Store); ok && st.Addr == ssa.Value(al) && st.Val == ssa.Value(p) {
				return true
			}
		}
	}
	// slice of a spilled array parameter
	if al := allocOf(a); al != nil {
		for _, r := range *al.Referrers() {
			if st, ok := r.(*ssa.Store); ok && st.Addr == ssa.Value(al) && st.Val == ssa.Value(p) {
				return true
			}
		}
	}
	// append(message, mac[:]...) -> message
	if parts, ok := byteSeq(a); ok {
		for _, pt := range parts {
			if pt == ssa.Value(p) {
				return true
			}
		}
	}
	return false
}

func lenEqualsFact(x ssa.Value, k int64) core.CondFact {
	return func(cond ssa.Value) (bool, bool) {
		b, ok := cond.(*ssa.BinOp)
		if !ok {
			return false, false
		}
		if n, isK := core.ConstInt(b.Y); isK && n == k && isLenOf(b.X, x) {
			switch b.Op {
			case token.EQL:
				return true, false
			case token.NEQ:
				return false, true
			}
		}
		return false, false
	}
}

func c04r4(c *core.Ctx) {
	p := c.P
	type handler struct {
		f     *ssa.Function
		typ   string
		state int64
	}
	var hs []handler
	// step handlers are discovered by role (methods dispatched from Handle under a step guard); a handler dispatched
	// under step == g answers with state g+2 (M2, M4, M6 / verify M2, M4)
	for _, spec := range []struct{ ctrl, typ string }{{"SetupServerController", tSetupCtrl}, {"VerifyServerController", tVerifyCtrl}} {
		mo := buildStepModel(p, "hap/pair", spec.ctrl, spec.typ)
		if mo == nil || len(mo.handlers) == 0 {
			c.Undecided("state-item:"+spec.ctrl, token.NoPos, "step handlers not found")
			continue
		}
		for _, h := range mo.handlers {
			if mo.guardOK[h] {
				hs = append(hs, handler{h, spec.typ, mo.guard[h] + 2})
			}
		}
	}
	if f := p.Func("hap/pair", "(*PairingController).Handle"); f != nil {
		hs = append(hs, handler{f, mod + "/hap/pair.PairingController", 2})
	} else {
		c.Undecided("state-item:PairingController.Handle", token.NoPos, "not found")
	}
	total := 0
	for _, h := range hs {
		f := h.f
		bad := 0
		var w core.Path
		why := ""
		n := 0
		okEnum := core.EnumPaths(f, 2, 100000, func(pa core.Path) {
			total++
			ret := pa.Returns()
			if ret == nil || len(res(ret)) != 2 || core.IsNilConst(res(ret)[0]) || provablyNonNil(pa, res(ret)[1]) {
				return
			}
			n++
			// count SetByte(TagSequence, v) on the returned container
			cnt := 0
			var vals []string
			errCodes := []int64{}
			hasErrItem := false
			tagsSet := map[int64]bool{}
			stepOnPath(pa, h.typ, "step", func(i ssa.Instruction, known bool, val int64, set bool) {
				if core.IsInvoke(i, qContainer, "SetBytes") || core.IsInvoke(i, qContainer, "SetString") {
					cc := core.CallOf(i)
					if sameValue(cc.Value, res(ret)[0]) || cc.Value == res(ret)[0] {
						if tag, isK := core.ConstInt(cc.Args[0]); isK {
							tagsSet[tag] = true
						}
					}
					return
				}
				if !core.IsInvoke(i, qContainer, "SetByte") {
					return
				}
				cc := core.CallOf(i)
				if !sameValue(cc.Value, res(ret)[0]) && cc.Value != res(ret)[0] {
					return
				}
				tag, isK := core.ConstInt(cc.Args[0])
				if !isK {
					return
				}
				arg := core.StripConv(cc.Args[1])
				v, vk := core.ConstInt(arg)
				if !vk {
					if call, ok := arg.(*ssa.Call); ok && core.Callee(call) != nil && cn(core.Callee(call)) == "Byte" {
						inner := core.StripConv(call.Call.Args[0])
						if _, isStep := core.FieldLoad(inner, h.typ, "step"); isStep && set && known {
							v, vk = val, true
						}
					}
				}
				switch tag {
				case 6:
					cnt++
					if vk {
						vals = append(vals, fmt.Sprint(v))
					} else {
						vals = append(vals, "?")
					}
				case 7:
					hasErrItem = true
					if vk {
						errCodes = append(errCodes, v)
					}
				}
			})
			good := cnt == 1 && len(vals) == 1 && vals[0] == fmt.Sprint(h.state)
			for _, e := range errCodes {
				if e < 1 || e > 7 {
					good = false
				}
			}
			// a response without error code carries the items of that message (R2 5.6.2/5.6.4/5.6.6, 5.7.2/5.7.4)
			if want, has := specResponseItems[h.typ+"/"+fmt.Sprint(h.state)]; has && len(errCodes) == 0 && !hasErrItem {
				for _, t := range want {
					if !tagsSet[t] {
						good = false
						if w == nil {
							why = fmt.Sprintf("the response M%d carries no item with tag %d", h.state, t)
						}
					}
				}
			}
			if !good {
				bad++
				if w == nil {
					w = pa
					why = fmt.Sprintf("State items %v (want exactly [%d]), error codes %v", vals, h.state, errCodes)
				}
			}
		})
		key := "state-item:" + fname(f)
		switch {
		case !okEnum:
			c.Undecided(key, f.Pos(), "too many paths")
		case bad > 0:
			c.BadPath(key, f.Pos(), w.Describe(p), "%d returning path(s) build a response whose State item is not set exactly once to the specification's value: %s", bad, why)
		default:
			c.Check(n > 0, key, f.Pos(), fmt.Sprintf("all %d responding paths carry exactly one State item = %d and error codes within 1..7", n, h.state), "no responding path")
		}
	}
	c.Count("paths_enumerated", total)
	// accessory signed material
	if f := p.Func("hap/pair", "(*SetupServerController).handleKeyExchange"); f != nil {
		core.Instrs(f, func(i ssa.Instruction) {
			if !core.IsCall(i, qSign) {
				return
			}
			parts, ok := byteSeq(core.Args(i)[1])
			desc := []string{}
			if ok {
				for _, pt := range parts {
					switch {
					case allocOf(pt) != nil && isHKDFAlloc(allocOf(pt)) || core.CallResult(core.StripConv(pt), 0, func(ci ssa.Instruction) bool { return core.IsCall(ci, qHKDF) }) != nil:
						desc = append(desc, "hkdf")
					case core.AnySource(pt, func(s ssa.Value) bool { _, ok := core.FieldLoad(s, tSetupSess, "Username"); return ok }):
						desc = append(desc, "accessory-id")
					case core.AnySource(pt, func(s ssa.Value) bool {
						call, ok := s.(*ssa.Call)
						return ok && core.IsInvoke(call, mod+"/hap.SecuredDevice", "PublicKey")
					}):
						desc = append(desc, "ltpk")
					default:
						desc = append(desc, "?")
					}
				}
			}
			c.Check(fmt.Sprint(desc) == "[hkdf accessory-id ltpk]", "accessory-material:setup", posOf(i), "AccessoryInfo = AccessoryX | AccessoryPairingID | AccessoryLTPK", fmt.Sprintf("the accessory signs %v, the specification says [AccessoryX, AccessoryPairingID, AccessoryLTPK]", desc))
			// signing key = device private key
			ok2 := core.AnySource(core.Args(i)[0], func(s ssa.Value) bool {
				call, ok := s.(*ssa.Call)
				return ok && core.IsInvoke(call, mod+"/hap.SecuredDevice", "PrivateKey")
			})
			c.Check(ok2, "accessory-signing-key:setup", posOf(i), "signed with the device's long-term secret key", "M6 is not signed with the device's long-term secret key")
		})
		subTags := subTLVTags(f, func(i ssa.Instruction) bool { return isSealCall(i) })
		c.Check(fmt.Sprint(subTags) == "[1 3 10]", "sub-tlv:M6", f.Pos(), "sub-TLV carries Identifier(1), PublicKey(3), Signature(10)", fmt.Sprintf("the M6 sub-TLV carries tags %v, the specification says [1 3 10]", subTags))
	}
	if f := p.Func("hap/pair", "(*VerifyServerController).handlePairVerifyStart"); f != nil {
		core.Instrs(f, func(i ssa.Instruction) {
			if !core.IsCall(i, qSign) {
				return
			}
			parts, ok := byteSeq(core.Args(i)[1])
			desc := []string{}
			if ok {
				for _, pt := range parts {
					switch {
					case sliceOfField(pt, tVerifySess, "PublicKey"):
						desc = append(desc, "accessory-curve-key")
					case core.AnySource(pt, func(s ssa.Value) bool {
						call, ok := s.(*ssa.Call)
						return ok && core.IsInvoke(call, mod+"/hap.SecuredDevice", "Name")
					}):
						desc = append(desc, "accessory-id")
					case core.AnySource(pt, func(s ssa.Value) bool { _, _, tag, ok := tlvRead(s); return ok && tag == 3 }) || isTLVRead(pt, 3):
						desc = append(desc, "controller-curve-key")
					default:
						desc = append(desc, "?")
					}
				}
			}
			c.Check(fmt.Sprint(desc) == "[accessory-curve-key accessory-id controller-curve-key]", "accessory-material:verify", posOf(i), "AccessoryInfo = accessory Curve25519 key | AccessoryPairingID | controller Curve25519 key",
				fmt.Sprintf("the accessory signs %v in verify M2", desc))
		})
		subTags := subTLVTags(f, func(i ssa.Instruction) bool { return isSealCall(i) })
		c.Check(fmt.Sprint(subTags) == "[1 10]", "sub-tlv:verify-M2", f.Pos(), "sub-TLV carries Identifier(1), Signature(10)", fmt.Sprintf("the verify M2 sub-TLV carries tags %v, the specification says [1 10]", subTags))
	}
	// controller session objects are written only by the constructors; reset touches only the step
	for _, spec := range []struct{ typ, ctor string }{{tVerifyCtrl, "NewVerifyServerController"}, {tSetupCtrl, "NewSetupServerController"}} {
		for _, st := range p.FieldStores(spec.typ, "session") {
			f := st.Parent()
			if isTestFunc(p, f) {
				continue
			}
			okWriter := cn(f) == spec.ctor
			if !okWriter {
				// ... or by the handler of the start request, with a freshly created session: a start begins a new exchange, nothing
				// negotiated before it is needed afterwards (and the challenge / the ephemeral key must be fresh: C02-R5, C03-R3)
				ctrlName, sessCtor := "SetupServerController", "NewSetupServerSession"
				if spec.typ == tVerifyCtrl {
					ctrlName, sessCtor = "VerifyServerController", "NewVerifySession"
				}
				if mo := buildStepModel(p, "hap/pair", ctrlName, spec.typ); mo != nil {
					if rsVal, _, rsOK := resetState(p, ctrlName, spec.typ); rsOK {
						for _, h := range mo.handlers {
							if h == f && mo.guardOK[h] && mo.guard[h] == rsVal && core.AnySource(st.Val, func(sv ssa.Value) bool {
								return core.CallResult(sv, 0, func(ci ssa.Instruction) bool { return core.IsCall(ci, mod+"/hap/pair."+sessCtor) }) != nil
							}) {
								okWriter = true
							}
						}
					}
				}
			}
			c.Check(okWriter, "write:"+core.Rel(spec.typ)+".session@"+fname(f), st.Pos(), "the session object is set by the constructor, or afresh by the handler of a start request",
				"the controller's session object is replaced in "+fname(f)+": keys negotiated in this exchange (the shared key the endpoint reads after the finish step) are lost")
		}
	}
}

func isTLVRead(v ssa.Value, tag int64) bool {
	_, _, t, ok := tlvRead(v)
	return ok && t == tag
}

func isHKDFAlloc(a *ssa.Alloc) bool {
	for _, r := range *a.Referrers() {
		if st, ok := r.(*ssa.Store); ok && st.Addr == ssa.Value(a) {
			if core.CallResult(st.Val, 0, func(ci ssa.Instruction) bool { return core.IsCall(ci, qHKDF) }) != nil {
				return true
			}
		}
	}
	return false
}

// subTLVTags: tags set on the container whose BytesBuffer().Bytes() is the plaintext of the seal call.
func subTLVTags(f *ssa.Function, isSeal func(ssa.Instruction) bool) []int64 {
	var cont ssa.Value
	core.Instrs(f, func(i ssa.Instruction) {
		if core.CallOf(i) == nil || !isSeal(i) {
			return
		}
		walkArgs(core.Args(i)[2], 4, func(v ssa.Value) {
			if call, ok := v.(*ssa.Call); ok && core.IsInvoke(call, qContainer, "BytesBuffer") {
				cont = call.Call.Value
			}
		})
	})
	if cont == nil {
		return nil
	}
	var tags []int64
	core.Instrs(f, func(i ssa.Instruction) {
		cc := core.CallOf(i)
		if cc == nil || !cc.IsInvoke() || !strings.HasPrefix(cc.Method.Name(), "Set") || !core.TypeIs(cc.Value.Type(), qContainer) {
			return
		}
		if cc.Value == cont || sameValue(cc.Value, cont) {
			if t, ok := core.ConstInt(cc.Args[0]); ok {
				tags = append(tags, t)
			}
		}
	})
	sort.Slice(tags, func(i, j int) bool { return tags[i] < tags[j] })
	return tags
}

func c04r5(c *core.Ctx) {
	requiredRoutes(c)
	p := c.P
	pk := p.Pkg("hap/pair")
	if pk == nil {
		c.Undecided("hap/pair", token.NoPos, "package not found")
		return
	}
	tab := func(name string, m map[string]int64) {
		var ks []string
		for k := range m {
			ks = append(ks, k)
		}
		sort.Strings(ks)
		for _, k := range ks {
			obj, _ := pk.Types.Scope().Lookup(k).(*types.Const)
			if obj == nil {
				c.Bad(name+":"+k, token.NoPos, "constant %s is not declared", k)
				continue
			}
			v, _ := constant.Int64Val(constant.ToInt(obj.Val()))
			c.Check(v == m[k], name+":"+k, obj.Pos(), fmt.Sprintf("%s = %d", k, v), fmt.Sprintf("%s = %d, the specification assigns %d", k, v, m[k]))
		}
	}
	hapConstantsTable(c)
	tab("tag", specTags)
	tab("setup-state", specSetupStates)
	tab("verify-state", specVerifyStates)
	tab("method", specMethods)
	// error codes: declared constants are within 0..7 and distinct
	seen := map[int64]string{}
	for _, n := range pk.Types.Scope().Names() {
		if !strings.HasPrefix(n, "ErrCode") {
			continue
		}
		obj, ok := pk.Types.Scope().Lookup(n).(*types.Const)
		if !ok {
			continue
		}
		v, _ := constant.Int64Val(constant.ToInt(obj.Val()))
		prev, dup := seen[v]
		c.Check(v >= 0 && v <= 7 && !dup, "error-code:"+n, obj.Pos(), fmt.Sprintf("%s = %d", n, v), fmt.Sprintf("%s = %d is outside 0..7 or duplicates %s", n, v, prev))
		seen[v] = n
	}
	// Byte() accessors return the value itself
	for _, tn := range []string{"PairStepType", "VerifyStepType", "errCode", "PairMethodType"} {
		f := p.Func("hap/pair", "("+tn+").Byte")
		if f == nil {
			c.Undecided("byte-accessor:"+tn, token.NoPos, "not found")
			continue
		}
		ok := returnsOnly(f, func(v ssa.Value) bool { return v == ssa.Value(f.Params[0]) })
		c.Check(ok, "byte-accessor:"+tn, f.Pos(), "Byte() is the value itself", tn+".Byte() does not return the value itself")
	}
}

func c04r6(c *core.Ctx) {
	c06r1(c)
	c06r4(c)
}

// hapConstantsTable (C04-R5, C09-R2, C11-R3): the numeric status codes and the content types are the specification's.
func hapConstantsTable(c *core.Ctx) {
	// HAP status codes and content types (table 5-12 and section 5.x of the specification): what a controller reads in a multi-status
	// answer, and what it sends / expects as Content-Type
	p := c.P
	if hp := p.Pkg("hap"); hp != nil {
		status := map[string]int64{"StatusSuccess": 0, "StatusInsufficientPrivileges": -70401, "StatusServiceCommunicationFailure": -70402, "StatusResourceBusy": -70403,
			"StatusReadOnlyCharacteristic": -70404, "StatusWriteOnlyCharacteristic": -70405, "StatusNotificationNotSupported": -70406, "StatusOutOfResource": -70407,
			"StatusOperationTimedOut": -70408, "StatusResourceDoesNotExist": -70409, "StatusInvalidValueInRequest": -70410}
		var ks []string
		for k := range status {
			ks = append(ks, k)
		}
		sort.Strings(ks)
		for _, k := range ks {
			obj, _ := hp.Types.Scope().Lookup(k).(*types.Const)
			if obj == nil {
				c.Note("status:"+k, token.NoPos, "constant not declared")
				continue
			}
			v, _ := constant.Int64Val(constant.ToInt(obj.Val()))
			c.Check(v == status[k], "status:"+k, obj.Pos(), fmt.Sprintf("%s = %d", k, v), fmt.Sprintf("%s = %d, the specification assigns %d", k, v, status[k]))
		}
		for k, want := range map[string]string{"HTTPContentTypePairingTLV8": "application/pairing+tlv8", "HTTPContentTypeHAPJson": "application/hap+json"} {
			obj, _ := hp.Types.Scope().Lookup(k).(*types.Const)
			if obj == nil {
				c.Note("content-type:"+k, token.NoPos, "constant not declared")
				continue
			}
			got := ""
			if obj.Val().Kind() == constant.String {
				got = constant.StringVal(obj.Val())
			}
			c.Check(got == want, "content-type:"+k, obj.Pos(), k+" = "+want, fmt.Sprintf("%s = %q, the specification says %q", k, got, want))
		}
	}
}

package rules

import (
	"fmt"
	"go/token"
	"go/types"

	"golang.org/x/tools/go/ssa"

	"hcsa/core"
)

const tTLVItem = mod + "/util.tlv8"
const tTLVCont = mod + "/util.tlv8Container"

func init() {
	register(&core.Property{
		ID:    "C16",
		Level: "other",
		Explanation: "Structural facts of the TLV8 container (util/tlv8.go): the serialiser writes per item [tag(1) | length(1) | value] and the parser reads [tag(1) | length(1) | value of that length] in the same order, " +
			"each piece through a full-read helper with its error checked and returned (only EOF on the tag read ends the input); SetBytes cuts the value into fragments with a buffer of constant length 255, stores as " +
			"length the count read into that buffer, keeps only full fragments before the last one, and every stored fragment lives in a buffer allocated for it (it never aliases the caller's slice); GetBuffer " +
			"concatenates the values of equal tag in item order and GetByte is the first byte of that; the parser performs no slicing or indexing whose bound is not proved against the length.",
		Assumptions: []string{"encoding/binary.Read and io.ReadFull read completely or fail"},
		NotDecided:  []string{"equality of values for all set sequences (e.g. the empty value, which SetBytes encodes as no item at all)"},
		Rules: []core.Rule{
			{ID: "C16-R1", Title: "writer/parser layout agreement", Decides: "serialising and parsing back yields the same items", Floor: 2, Run: c16r1},
			{ID: "C16-R2", Title: "fragmentation: constant 255, fresh buffer per fragment, concatenation on read", Decides: "values longer than 255 bytes are split into consecutive fragments that reassemble; later changes of the caller's slice do not change the container", Floor: 5, Run: func(c *core.Ctx) {
				c16r2(c)
				itemsSerialisedInStoredOrder(c)
				passThrough(c, "C16")
				returnsUndecorated(c, "C16")
			}},
			{ID: "C16-R3", Title: "parser totality: complete reads, errors returned, proved bounds", Decides: "parsing arbitrary bytes never panics and never yields data that was not in the input", Floor: 4, Run: func(c *core.Ctx) { c16r3(c); inputIndexGuarded(c, "util"); polarityEverywhere(c, "C16") }},
			{ID: "C16-R4", Title: "every parsed item consumes tag, length and value", Decides: "parsing never yields data that was not set", Floor: 1, Run: c16r4},
		},
	})
}

// fullSliceOf: x for x[:] (and for a local that holds it), v otherwise.
func fullSliceOf(v ssa.Value) ssa.Value {
	for k := 0; k < 4; k++ {
		sl, ok := v.(*ssa.Slice)
		if !ok || sl.High != nil || sl.Max != nil {
			return v
		}
		if sl.Low != nil {
			if n, isK := core.ConstInt(sl.Low); !isK || n != 0 {
				return v
			}
		}
		v = sl.X
	}
	return v
}

func c16r1(c *core.Ctx) {
	p := c.P
	w := p.Func("util", "(*tlv8Container).BytesBuffer")
	r := p.Func("util", "NewTLV8ContainerFromReader")
	if w == nil || r == nil {
		c.Undecided("tlv8 container", token.NoPos, "BytesBuffer / NewTLV8ContainerFromReader not found")
		return
	}
	var wdesc []string
	for _, b := range w.Blocks {
		for _, i := range b.Instrs {
			if !core.IsCall(i, "(*bytes.Buffer).Write") && !core.IsCall(i, "(*bytes.Buffer).WriteByte") {
				continue
			}
			arg0 := core.Args(i)[0]
			for _, arg := range writtenPieces(arg0) {
				d := "?"
				name := func(v ssa.Value) string {
					v = fullSliceOf(v)
					for _, fld := range []string{"tag", "length", "value"} {
						if _, ok := core.FieldLoad(v, tTLVItem, fld); ok {
							return fld
						}
					}
					return ""
				}
				if n := name(arg); n != "" {
					d = n
					if core.IsCall(i, "(*bytes.Buffer).WriteByte") || isByteTyped(arg) {
						d = n + "[1]" // one byte, by its type
					}
				} else if a := allocOf(arg); a != nil {
					// []byte{item.x}: one-element array holding the field
					if l, ok := knownLen(a); ok && l == 1 {
						for _, rr := range *a.Referrers() {
							if ia, ok := rr.(*ssa.IndexAddr); ok {
								for _, r3 := range *ia.Referrers() {
									if st, ok := r3.(*ssa.Store); ok {
										if n := name(st.Val); n != "" {
											d = n + "[1]"
										}
									}
								}
							}
						}
					}
				}
				wdesc = append(wdesc, d)
			}
		}
	}
	wantW := "[tag[1] length[1] value]"
	c.Check(fmt.Sprint(wdesc) == wantW, "writer-layout@"+fname(w), w.Pos(), "per item the serialiser writes "+wantW, fmt.Sprintf("the serialiser writes %v per item, TLV8 is %s", wdesc, wantW))
	var rdesc []string
	for _, b := range r.Blocks {
		for _, i := range b.Instrs {
			t, _, ok := isStreamRead(i)
			if !ok {
				if cc, isC := i.(*ssa.Call); isC && cc.Call.IsInvoke() && cc.Call.Method.Name() == "Read" {
					rdesc = append(rdesc, "bare-Read")
				}
				continue
			}
			d := "?"
			if fa, ok := t.(*ssa.FieldAddr); ok && core.TypeIs(fa.X.Type(), tTLVItem) {
				d = fieldNameOf(fa)
				if w, ok := widthOf(fa.Type().(*types.Pointer).Elem()); ok {
					d += fmt.Sprintf("[%d]", w)
				} else {
					// value: sized by item.length?
					sized := false
					for _, rr := range *fa.X.Referrers() {
						if fa2, ok := rr.(*ssa.FieldAddr); ok && fieldNameOf(fa2) == "value" {
							for _, r3 := range *fa2.Referrers() {
								if st, ok := r3.(*ssa.Store); ok {
									if ms, ok := st.Val.(*ssa.MakeSlice); ok {
										if _, ok := core.FieldLoad(ms.Len, tTLVItem, "length"); ok {
											sized = true
										}
									}
								}
							}
						}
					}
					if sized {
						d += "[length]"
					}
				}
			} else if sl, ok := core.StripConv(t).(*ssa.Slice); ok {
				_ = sl
				d = "slice"
			}
			rdesc = append(rdesc, d)
		}
	}
	wantR := "[tag[1] length[1] value[length]]"
	c.Check(fmt.Sprint(rdesc) == wantR, "parser-layout@"+fname(r), r.Pos(), "per item the parser reads "+wantR, fmt.Sprintf("the parser reads %v per item, TLV8 is %s (each piece read completely)", rdesc, wantR))
}

func c16r2(c *core.Ctx) {
	p := c.P
	// the typed setters store through SetBytes under the tag they are given
	for _, name := range []string{"SetString", "SetByte"} {
		g := p.Func("util", "(*tlv8Container)."+name)
		if g == nil {
			continue
		}
		ok := false
		core.Instrs(g, func(i ssa.Instruction) {
			h := core.Callee(i)
			if h == nil || cn(h) != "SetBytes" || len(g.Blocks) != 1 {
				return
			}
			a := core.Args(i)
			if len(a) == 2 && valIs(a[0], g.Params[1]) && (operandReaches(a[1], g.Params[2], 6) || core.AnySource(a[1], func(s ssa.Value) bool { return s == ssa.Value(g.Params[2]) })) {
				ok = true
			}
		})
		c.Check(ok, "setter-delegates:"+name, g.Pos(), name+" stores its value through SetBytes under its tag", name+" does not store the value it is given (under the tag it is given): the item is missing from the message")
	}
	f := p.Func("util", "(*tlv8Container).SetBytes")
	if f == nil {
		c.Undecided("SetBytes", token.NoPos, "not found")
		return
	}
	valueParam := f.Params[2]
	// the stored fragment
	var valStore, lenStore *ssa.Store
	core.Instrs(f, func(i ssa.Instruction) {
		if st, ok := i.(*ssa.Store); ok {
			if fa, ok := st.Addr.(*ssa.FieldAddr); ok && core.TypeIs(fa.X.Type(), tTLVItem) {
				switch fieldNameOf(fa) {
				case "value":
					valStore = st
				case "length":
					lenStore = st
				}
			}
		}
	})
	if valStore == nil || lenStore == nil {
		c.Undecided("fragment-stores@"+fname(f), f.Pos(), "stores to item.value / item.length not found")
		return
	}
	buf := allocOf(valStore.Val)
	fresh := buf != nil && reachesAfter(buf, buf) // allocated inside the loop: one buffer per fragment
	aliases := core.AnySource(valStore.Val, func(s ssa.Value) bool { return s == ssa.Value(valueParam) })
	if sl, ok := core.StripConv(valStore.Val).(*ssa.Slice); ok && sl.X == ssa.Value(valueParam) {
		aliases = true
	}
	c.Check(fresh && !aliases, "fragment-owns-its-buffer@"+fname(f), valStore.Pos(), "every fragment is stored in a buffer allocated for it inside the loop",
		"a stored fragment aliases the caller's slice (or a buffer shared between fragments): changing the slice after the set changes what the container serialises")
	n, lenKnown := int64(0), false
	if buf != nil {
		n, lenKnown = knownLen(buf)
	}
	c.Check(lenKnown && n == 255, "fragment-size@"+fname(f), valStore.Pos(), "fragment buffer has the constant length 255 (max uint8)", fmt.Sprintf("the fragment buffer length is %d (known=%v), TLV8 fragments are at most 255 bytes and full fragments exactly 255", n, lenKnown))
	// length = count of the full read into that buffer
	okLen := false
	for _, s := range core.Sources(lenStore.Val) {
		if e, ok := s.(*ssa.Extract); ok && e.Index == 0 {
			if call, ok := e.Tuple.(*ssa.Call); ok && core.IsCall(call, "io.ReadFull") && allocOf(call.Call.Args[1]) == buf {
				okLen = true
			}
		}
	}
	// second accepted idiom: offset loop  for off := 0; off < len(value); off += 255 { n := copy(buf, value[off:]) }
	byOffset := false
	if !okLen && buf != nil && lenKnown {
		byOffset = offsetChunking(lenStore.Val, buf, valueParam, n) || nextChunking(lenStore.Val, buf, valueParam, n)
		okLen = byOffset
	}
	c.Check(okLen, "fragment-length@"+fname(f), lenStore.Pos(), "item.length is the count io.ReadFull reported for the fragment buffer", "item.length is not the number of bytes read into the fragment buffer")
	// value = buf[:length]
	okVal := false
	if sl, ok := core.StripConv(valStore.Val).(*ssa.Slice); ok && sl.High != nil {
		if _, ok := core.FieldLoad(sl.High, tTLVItem, "length"); ok {
			okVal = true
		}
		if sameValue(sl.High, lenStore.Val) {
			okVal = true
		}
	}
	c.Check(okVal, "fragment-value@"+fname(f), valStore.Pos(), "item.value = buffer[:length]", "item.value is not the first 'length' bytes of the fragment buffer")
	// loop continues only after a full fragment: exits on ErrUnexpectedEOF or any other error
	cont := true
	var readCall *ssa.Call
	core.Instrs(f, func(i ssa.Instruction) {
		if call, ok := i.(*ssa.Call); ok && core.IsCall(call, "io.ReadFull") {
			readCall = call
		}
	})
	if readCall != nil {
		// back edge must be dominated by err == nil
		errNil := errNilFact(1, func(i ssa.Instruction) bool { return i == ssa.Instruction(readCall) })
		for _, b := range f.Blocks {
			for _, s := range b.Succs {
				if s == readCall.Block() && b.Index >= s.Index { // back edge
					last := b.Instrs[len(b.Instrs)-1]
					if !core.Dominated(last, errNil) {
						// acceptable alternative: the edge is the false branch of err == ErrUnexpectedEOF taken after err==nil||err==ErrUnexpectedEOF
						ok := false
						if iff, isIf := last.(*ssa.If); isIf {
							if bo, isB := iff.Cond.(*ssa.BinOp); isB && bo.Op == token.EQL {
								ok = true // `if err == io.ErrUnexpectedEOF { break }` in the block reached only for nil/UnexpectedEOF: continuing means err == nil
							}
						}
						if !ok {
							cont = false
						}
					}
				}
			}
		}
		// the same by exploration (covers a loop run by a flag:  for more := true; more; { ...; more = err != io.ErrUnexpectedEOF } ):
		// once the read reported anything but nil, the walk does not come back to the read
		if !cont {
			again := false
			rb := readCall.Block()
			iff, _ := rb.Instrs[len(rb.Instrs)-1].(*ssa.If)
			for idx, succ := range rb.Succs {
				if iff != nil {
					t, fl := core.EvalFact(iff.Cond, errNil)
					if (idx == 0 && t) || (idx == 1 && fl) {
						continue
					}
				}
				core.Explore(succ, core.PredIndex(rb, idx), errNil, func(b *ssa.BasicBlock) bool {
					if b == rb {
						again = true
						return false
					}
					return !again
				})
			}
			if !again {
				cont = true
			}
		}
	} else if !byOffset { // with the offset idiom a short copy means the next offset is past the end: the loop condition ends it
		cont = false
	}
	c.Check(cont, "only-last-fragment-short@"+fname(f), f.Pos(), "the loop continues only after a completely filled fragment", "the fragment loop can continue after a short fragment: fragments other than the last would be shorter than 255")
	// same tag for all fragments of one call
	tagOK := false
	core.Instrs(f, func(i ssa.Instruction) {
		if st, ok := i.(*ssa.Store); ok {
			if fa, ok := st.Addr.(*ssa.FieldAddr); ok && core.TypeIs(fa.X.Type(), tTLVItem) && fieldNameOf(fa) == "tag" && st.Val == ssa.Value(f.Params[1]) {
				tagOK = true
			}
		}
	})
	c.Check(tagOK, "fragment-tag@"+fname(f), f.Pos(), "every fragment carries the tag parameter", "fragments do not carry the tag that was set")
	// readers
	if g := p.Func("util", "(*tlv8Container).GetBuffer"); g != nil {
		ok := false
		var extra *ssa.If
		core.Instrs(g, func(i ssa.Instruction) {
			if core.IsCall(i, "(*bytes.Buffer).Write") {
				if _, isVal := core.FieldLoad(fullSliceOf(core.Args(i)[0]), tTLVItem, "value"); isVal {
					tagEq := core.CmpFact(func(x, y ssa.Value) (bool, bool) {
						_, a := core.FieldLoad(x, tTLVItem, "tag")
						_, b := core.FieldLoad(y, tTLVItem, "tag")
						if (a && y == ssa.Value(g.Params[1])) || (b && x == ssa.Value(g.Params[1])) {
							return true, false
						}
						return false, false
					})
					if core.Dominated(i, tagEq) {
						ok = true
					}
					// … and of every such item: no other test on an item decides whether a value is appended (a loop that
					// stops or skips at some other tag loses the values of the tags behind it)
					for _, iff := range controlDepsAll(i.Block()) {
						if t, f := tagEq(iff.Cond); t || f {
							continue
						}
						readsItem := false
						walkOperands(iff.Cond, 6, func(v ssa.Value) {
							if fa, isF := v.(*ssa.FieldAddr); isF && core.TypeIs(fa.X.Type(), tTLVItem) {
								readsItem = true
							}
							if fl, isF := v.(*ssa.Field); isF && core.TypeIs(fl.X.Type(), tTLVItem) {
								readsItem = true
							}
						})
						if readsItem {
							extra = iff
						}
					}
				}
			}
		})
		if ok {
			pos := g.Pos()
			if extra != nil && extra.Cond.Pos().IsValid() {
				pos = extra.Cond.Pos()
			}
			c.Check(extra == nil, "reassembly-exact@"+fname(g), pos, "whether an item's value is appended depends on no other test on the items than its tag being the requested one",
				"GetBuffer appends an item's value under a further condition on the items (it stops or skips at some item): values set for that tag, and for the tags behind it, read back empty")
		}
		c.Check(ok, "reassembly@"+fname(g), g.Pos(), "GetBuffer concatenates, in item order, the values whose tag equals the requested tag", "GetBuffer does not concatenate exactly the items of the requested tag")
	}
	if g := p.Func("util", "(*tlv8Container).GetByte"); g != nil {
		ok := false
		core.Instrs(g, func(i ssa.Instruction) {
			if core.IsCall(i, "(*bytes.Buffer).ReadByte") {
				ok = true
			}
		})
		c.Check(ok, "GetByte-first-byte@"+fname(g), g.Pos(), "GetByte is the first byte of the tag's concatenated value (0 if absent)", "GetByte does not read the first byte of the tag's value")
	}
	// GetBytes / GetString hand out the concatenated value of the tag, whole: conversions between []byte and string and the
	// accessors of the buffer are the only steps between GetBuffer(tag) and the result
	for _, name := range []string{"GetBytes", "GetString"} {
		g := p.Func("util", "(*tlv8Container)."+name)
		if g == nil || len(g.Params) < 2 {
			continue
		}
		var whole func(v ssa.Value, d int) bool
		whole = func(v ssa.Value, d int) bool {
			if d == 0 {
				return false
			}
			switch x := v.(type) {
			case *ssa.Convert:
				return whole(x.X, d-1)
			case *ssa.ChangeType:
				return whole(x.X, d-1)
			case *ssa.Call:
				if core.IsCall(x, "(*bytes.Buffer).Bytes") || core.IsCall(x, "(*bytes.Buffer).String") {
					return whole(x.Call.Args[0], d-1)
				}
				if h := core.Callee(x); h != nil && core.TypeIs(recvType(h), tTLVCont) && (cn(h) == "GetBuffer" || cn(h) == "GetBytes" || cn(h) == "GetString") && h != g {
					a := core.Args(x)
					return len(a) == 1 && valIs(a[0], g.Params[1]) && valIs(core.Receiver(x), g.Params[0])
				}
			}
			return false
		}
		good, n := true, 0
		core.Instrs(g, func(i ssa.Instruction) {
			if r, ok := i.(*ssa.Return); ok && len(res(r)) == 1 {
				n++
				if !whole(res(r)[0], 6) {
					good = false
				}
			}
		})
		c.Check(good && n > 0, "getter-whole-value:"+name, g.Pos(), name+" returns the concatenated value of its tag, whole", name+" does not return the whole concatenated value of the tag it is asked for (trimmed, sliced, another tag): parsing a serialised container does not yield the value that was set")
	}
}

func c16r3(c *core.Ctx) {
	if f := c.P.Func("util", "NewTLV8ContainerFromReader"); f != nil {
		errorTestPolarity(c, f, nil)
	}
	p := c.P
	r := p.Func("util", "NewTLV8ContainerFromReader")
	if r == nil {
		c.Undecided("NewTLV8ContainerFromReader", token.NoPos, "not found")
		return
	}
	// complete reads
	reads := bareReads(r)
	c.Check(len(reads) == 0, "complete-reads@"+fname(r), r.Pos(), "all pieces are read through full-read helpers", "the parser uses a bare Read: a value delivered in several pieces (or cut short) is accepted with zero padding — data that was never in the input")
	// every stream read's error is checked and returned; only EOF of the tag read ends the input
	n, bad := 0, 0
	core.Instrs(r, func(i ssa.Instruction) {
		t, _, ok := isStreamRead(i)
		if !ok {
			return
		}
		n++
		call := i.(*ssa.Call)
		var errv ssa.Value = call
		if call.Type().(interface{ String() string }).String() != "error" {
			for _, rr := range *call.Referrers() {
				if e, ok := rr.(*ssa.Extract); ok && e.Index == 1 {
					errv = e
				}
			}
		}
		// the failure edge must lead to a return of that error, except EOF on the tag read
		isTag := false
		if fa, ok := t.(*ssa.FieldAddr); ok && fieldNameOf(fa) == "tag" {
			isTag = true
		}
		returned := false
		core.Instrs(r, func(j ssa.Instruction) {
			if ret, ok := j.(*ssa.Return); ok && len(res(ret)) == 2 && core.IsNilConst(res(ret)[0]) &&
				(res(ret)[1] == errv || core.SomeSource(res(ret)[1], func(s ssa.Value) bool { return s == errv })) { // the returned error may merge several reads
				returned = true
			}
		})
		// next instruction sequence must be dominated by err == nil
		used := false
		for _, rr := range *call.Referrers() {
			if _, ok := rr.(*ssa.BinOp); ok {
				used = true
			}
		}
		if ev, ok := errv.(ssa.Instruction); ok && errv != ssa.Value(call) {
			for _, rr := range *ev.(ssa.Value).Referrers() {
				if _, ok := rr.(*ssa.BinOp); ok {
					used = true
				}
			}
		}
		if !(returned && used) {
			bad++
			c.Bad(fmt.Sprintf("read-error-returned@%s#%d", fname(r), n), posOf(i), "the error of a stream read is not checked and returned: a truncated item is accepted")
		}
		_ = isTag
	})
	if bad == 0 {
		c.OK("read-errors-returned@"+fname(r), r.Pos(), "%d stream reads, each error compared and returned with a nil container", n)
	}
	// items appended on a path are exactly the bytes read: item.value only written by the read (through &item.value) and make
	srcOK := true
	core.Instrs(r, func(i ssa.Instruction) {
		if st, ok := i.(*ssa.Store); ok {
			if fa, ok := st.Addr.(*ssa.FieldAddr); ok && core.TypeIs(fa.X.Type(), tTLVItem) && fieldNameOf(fa) == "value" {
				if _, isMake := st.Val.(*ssa.MakeSlice); !isMake {
					if sl, isSl := core.StripConv(st.Val).(*ssa.Slice); !isSl || sl == nil {
						srcOK = false
					}
				}
			}
		}
	})
	c.Check(srcOK, "value-source@"+fname(r), r.Pos(), "item values are buffers filled only by the stream reads", "an item value is assigned from something other than a buffer filled by the stream read")
	// bounds
	us := unguardedSlices(r)
	for _, u := range us {
		c.Bad("unproved-bound@"+fname(r), u.At.Pos(), "slice expression in the parser whose bound is not proved against the length (%s): some truncated input panics", u.Why)
	}
	idx := 0
	core.Instrs(r, func(i ssa.Instruction) {
		if ia, ok := i.(*ssa.IndexAddr); ok {
			if _, isSlice := ia.X.Type().Underlying().(*types.Slice); isSlice {
				if k, isK := core.ConstInt(ia.Index); isK {
					if ok2, why := boundOK(ia, ia.X, constPlusOne(ia, k)); !ok2 {
						idx++
						c.Bad("unproved-index@"+fname(r), ia.Pos(), "index expression in the parser without a proved length (%s)", why)
					}
				} else {
					idx++
					c.Bad("unproved-index@"+fname(r), ia.Pos(), "index expression with a non-constant index in the parser")
				}
			}
		}
	})
	if len(us) == 0 && idx == 0 {
		c.OK("bounds@"+fname(r), r.Pos(), "no slice or index expression with an unproved bound in the parser")
	}
}

// constPlusOne builds the constant k+1 as an ssa value for the "len >= k+1" test of an index k.
func constPlusOne(at ssa.Instruction, k int64) ssa.Value {
	return ssa.NewConst(constantInt(k+1), types.Typ[types.Int])
}

// offsetChunking: lenVal is the result of  copy(buf, value[off:])  where off is the loop variable that starts at 0, advances by
// exactly the buffer size and is tested against len(value) — fragments are contiguous, in order, and only the last can be short.
func offsetChunking(lenVal ssa.Value, buf *ssa.Alloc, value *ssa.Parameter, size int64) bool {
	for _, s := range core.Sources(lenVal) {
		call, ok := s.(*ssa.Call)
		if !ok {
			continue
		}
		b, isB := call.Call.Value.(*ssa.Builtin)
		if !isB || b.Name() != "copy" || allocOf(call.Call.Args[0]) != buf {
			continue
		}
		if dst, isSl := call.Call.Args[0].(*ssa.Slice); isSl {
			// must fill the buffer from its start, over its whole length
			if dst.Low != nil {
				continue
			}
			if dst.High != nil {
				if k, isK := core.ConstInt(dst.High); !isK || k != size {
					continue
				}
			}
		}
		src, ok := call.Call.Args[1].(*ssa.Slice)
		if !ok || src.X != ssa.Value(value) || src.High != nil || src.Low == nil {
			continue
		}
		off, ok := src.Low.(*ssa.Phi)
		if !ok || len(off.Edges) != 2 {
			continue
		}
		zero, step := false, false
		for _, e := range off.Edges {
			if k, isK := core.ConstInt(e); isK && k == 0 {
				zero = true
			}
			if bo, isBo := e.(*ssa.BinOp); isBo && bo.Op == token.ADD && bo.X == ssa.Value(off) {
				if k, isK := core.ConstInt(bo.Y); isK && k == size {
					step = true
				}
			}
		}
		// the loop test  off < len(value)  governs the body
		tested := core.Dominated(call, func(cond ssa.Value) (bool, bool) {
			bo, ok := cond.(*ssa.BinOp)
			if !ok || bo.Op != token.LSS || bo.X != ssa.Value(off) {
				return false, false
			}
			return isLenOf(bo.Y, value), false
		})
		if zero && step && tested {
			return true
		}
	}
	return false
}

// nextChunking: third accepted fragmentation idiom:  r := bytes.NewBuffer(value); for r.Len() > 0 { n := copy(buf, r.Next(size)) } —
// Next hands out consecutive pieces of at most size bytes, only the last can be shorter, and the loop ends when nothing is left.
func nextChunking(lenVal ssa.Value, buf *ssa.Alloc, value *ssa.Parameter, size int64) bool {
	for _, s := range core.Sources(lenVal) {
		call, ok := s.(*ssa.Call)
		if !ok {
			continue
		}
		b, isB := call.Call.Value.(*ssa.Builtin)
		if !isB || b.Name() != "copy" || allocOf(call.Call.Args[0]) != buf {
			continue
		}
		if dst, isSl := call.Call.Args[0].(*ssa.Slice); isSl {
			if dst.Low != nil {
				continue
			}
			if dst.High != nil {
				if k, isK := core.ConstInt(dst.High); !isK || k != size {
					continue
				}
			}
		}
		okSrc := core.AnySource(call.Call.Args[1], func(sv ssa.Value) bool {
			nx, ok := sv.(*ssa.Call)
			if !ok || !core.IsCall(nx, "(*bytes.Buffer).Next") {
				return false
			}
			if k, isK := core.ConstInt(core.Args(nx)[0]); !isK || k != size {
				return false
			}
			// the buffer holds the value parameter
			rd := nx.Call.Args[0]
			fromValue := core.AnySource(rd, func(rv ssa.Value) bool {
				nb, ok := rv.(*ssa.Call)
				return ok && (core.IsCall(nb, "bytes.NewBuffer") || core.IsCall(nb, "bytes.NewReader")) && core.AnySource(nb.Call.Args[0], func(x ssa.Value) bool { return x == ssa.Value(value) })
			})
			if !fromValue {
				return false
			}
			// governed by  r.Len() > 0
			return core.Dominated(nx, func(cond ssa.Value) (bool, bool) {
				bo, ok := cond.(*ssa.BinOp)
				if !ok {
					return false, false
				}
				lc, isC := bo.X.(*ssa.Call)
				if !isC || !core.IsCall(lc, "(*bytes.Buffer).Len") || !sameValue(lc.Call.Args[0], rd) {
					return false, false
				}
				if k, isK := core.ConstInt(bo.Y); isK && k == 0 && (bo.Op == token.GTR || bo.Op == token.NEQ) {
					return true, false
				}
				return false, false
			})
		})
		if okSrc {
			return true
		}
	}
	return false
}

func isByteTyped(v ssa.Value) bool {
	b, ok := v.Type().Underlying().(*types.Basic)
	return ok && b.Kind() == types.Uint8
}

package rules

import (
	"fmt"
	"go/token"
	"go/types"

	"golang.org/x/tools/go/ssa"

	"hcsa/core"
)

const (
	tSetupCtrl = mod + "/hap/pair.SetupServerController"
	tSetupSess = mod + "/hap/pair.SetupServerSession"
	qDecrypt   = mod + "/crypto/chacha20poly1305.DecryptAndVerify"
	qSeal      = mod + "/crypto/chacha20poly1305.EncryptAndSeal"
	qValidate  = mod + "/crypto.ValidateED25519Signature"
	qSign      = mod + "/crypto.ED25519Signature"
	qHKDF      = mod + "/crypto/hkdf.Sha512"
)

func init() {
	register(&core.Property{
		ID:    "C02",
		Level: "other",
		Explanation: "Typestate analysis of the pair-setup controller by exhaustive path enumeration over the SSA blocks of Handle and its (loop-free) step handlers. " +
			"Decided: each step handler is dispatched under exactly one step constant and the constants chain; no exit of the verify step (normal, error or panic) leaves the controller in the " +
			"state that enables key-exchange unless the path passed the success branch of the SRP proof check and of the key derivation; every SaveEntity on the setup path is dominated by a successful " +
			"AEAD open under the session key and a valid signature; the stored name/key are the very values that were signed; controllers are per connection. " +
			"This is the shape of the state machine, not SRP arithmetic.",
		Assumptions: []string{"tadglines SRP ServerSession.VerifyClientAuthenticator/ComputeKey are correct", "x/crypto AEAD and crypto/ed25519 are correct"},
		NotDecided:  []string{"that a wrong setup code fails the proof (library arithmetic)", "interleavings of two requests on one connection (net/http serialises requests per connection)"},
		NeedsCG:     true,
		Rules: []core.Rule{
			{ID: "C02-R1", Title: "step handlers are dispatched under exactly one step constant, and the constants chain", Decides: "reordered / repeated messages are rejected", Floor: 4, Run: c02r1},
			{ID: "C02-R2", Title: "the key-exchange-enabling state is reachable only through the proof-verified branch", Decides: "no stored key without the setup-code proof", Floor: 3, Run: func(c *core.Ctx) {
				// what the proof proves: the verifier is derived from the setup code (SRP parameters, shared with C04-R2) — a key
				// derivation that leaves the code out makes every proof valid
				c04r2(c)
				c02r2(c)
				setupSessionFromPin(c)
				pinFormatted(c)
				polarityEverywhere(c, "C02")
			}},
			{ID: "C02-R3", Title: "SaveEntity is dominated by AEAD-open-ok under the session key and signature-ok", Decides: "only a correctly authenticated and signed key-exchange stores", Floor: 4, Run: c02r3},
			{ID: "C02-R4", Title: "stored name and key are the signed name and key", Decides: "exactly that name and key", Floor: 3, Run: func(c *core.Ctx) { c02r4(c); entityCtorPasses(c) }},
			{ID: "C02-R5", Title: "one controller per connection", Decides: "on that same connection and exchange", Floor: 2, Run: c02r5},
			{ID: "C02-R6", Title: "primitive wrappers are stateless; the endpoint keeps no cross-connection state", Decides: "a signature / proof verifies only for this exchange, on this connection", Floor: 4, Run: func(c *core.Ctx) { c02r6(c); passThrough(c, "C02"); returnsUndecorated(c, "C02") }},
		},
	})
}

type setupModel struct {
	handle   *ssa.Function
	handlers []*ssa.Function // step handlers called from Handle
	site     map[*ssa.Function]ssa.Instruction
	guard    map[*ssa.Function]int64 // dispatch constant
	guardOK  map[*ssa.Function]bool
}

func buildStepModel(p *core.Program, rel, ctrlName, typ string) *setupModel {
	m := &setupModel{site: map[*ssa.Function]ssa.Instruction{}, guard: map[*ssa.Function]int64{}, guardOK: map[*ssa.Function]bool{}}
	m.handle = p.Func(rel, "(*"+ctrlName+").Handle")
	if m.handle == nil {
		return nil
	}
	core.Instrs(m.handle, func(i ssa.Instruction) {
		if _, isDefer := i.(*ssa.Defer); isDefer {
			return
		}
		f := core.Callee(i)
		if f == nil || !core.TypeIs(recvType(f), typ) {
			return
		}
		if f.Signature.Results().Len() != 2 { // step handlers return (Container, error)
			return
		}
		m.handlers = append(m.handlers, f)
		m.site[f] = i
		k, ok := guardConstant(i, typ, "step", 8)
		m.guard[f], m.guardOK[f] = k, ok
	})
	return m
}

// finalSteps returns the set of constants the handler can leave in step on exits of the given kind.
func finalSteps(f *ssa.Function, typ string, filter func(core.Path) bool) (vals map[int64]bool, unknown bool, npaths int, ok bool) {
	vals = map[int64]bool{}
	ok = core.EnumPaths(f, 2, 20000, func(p core.Path) {
		if filter != nil && !filter(p) {
			return
		}
		npaths++
		set, known, v := stepOnPath(p, typ, "step", nil)
		if set && !known {
			unknown = true
		}
		if set && known {
			vals[v] = true
		}
	})
	return
}

func c02r1(c *core.Ctx) {
	p := c.P
	m := buildStepModel(p, "hap/pair", "SetupServerController", tSetupCtrl)
	if m == nil || len(m.handlers) == 0 {
		c.Undecided("SetupServerController.Handle", token.NoPos, "Handle or its step handlers not found")
		return
	}
	// the constant the constructor and reset establish
	rsVal, rsPos, rsOK := resetState(p, "SetupServerController", tSetupCtrl)
	if !rsOK {
		c.Undecided("reset", token.NoPos, "reset() does not store one constant to step")
		return
	}
	rs := struct{ val int64 }{rsVal}
	c.OK("reset-stores:"+fmt.Sprint(rs.val), rsPos, "reset (or, where it was written out, the constructor) stores the constant %d to step", rs.val)
	enabled := map[int64]string{rs.val: "reset/constructor"}
	// chain: order handlers by guard constant
	for _, h := range m.handlers {
		key := "dispatch:" + fname(h)
		if !m.guardOK[h] {
			c.Bad(key, posOf(m.site[h]), "the call of %s in Handle is not dominated by an equality test of step against exactly one constant: a message can be processed in the wrong state", fname(h))
			continue
		}
		c.OK(key, posOf(m.site[h]), "dispatched only under step == %d", m.guard[h])
	}
	// each guard constant must be produced by reset or by a handler with a smaller guard
	for _, h := range m.handlers {
		if !m.guardOK[h] {
			continue
		}
		vals, unknown, _, ok := finalSteps(h, tSetupCtrl, func(pa core.Path) bool { return pa.Returns() != nil })
		if !ok || unknown {
			c.Undecided("chain:"+fname(h), h.Pos(), "cannot enumerate the step values %s leaves behind", fname(h))
			continue
		}
		for v := range vals {
			if _, seen := enabled[v]; !seen {
				enabled[v] = fname(h)
			}
		}
	}
	for _, h := range m.handlers {
		if !m.guardOK[h] {
			continue
		}
		key := "chain:" + fname(h)
		if src, ok := enabled[m.guard[h]]; ok {
			c.OK(key, h.Pos(), "guard constant %d is established by %s", m.guard[h], src)
		} else {
			c.Bad(key, h.Pos(), "guard constant %d of %s is never stored by reset or by another step handler: the state machine does not chain", m.guard[h], fname(h))
		}
	}
}

// proofFacts returns the facts "SRP proof accepted" and "encryption key derived" for handler h.
func proofFacts() (proofOK, keyOK core.CondFact) {
	isProof := func(i ssa.Instruction) bool { return core.IsCall(i, "(*"+tSetupSess+").ProofFromClientProof") }
	isKey := func(i ssa.Instruction) bool { return core.IsCall(i, "(*"+tSetupSess+").SetupEncryptionKey") }
	return errNilFact(1, isProof), errNilFact(0, isKey)
}

func c02r2(c *core.Ctx) {
	p := c.P
	wrapperErrors(c, "SetupServerController", tSetupCtrl)
	m := buildStepModel(p, "hap/pair", "SetupServerController", tSetupCtrl)
	if m == nil {
		c.Undecided("SetupServerController.Handle", token.NoPos, "not found")
		return
	}
	// the handler that stores to the database is the key-exchange handler; its guard is the enabling constant
	var kx *ssa.Function
	for _, h := range m.handlers {
		if len(core.FindCalls(h, func(i ssa.Instruction) bool { return core.IsInvoke(i, qDatabase, "SaveEntity") })) > 0 {
			kx = h
		}
	}
	if kx == nil || !m.guardOK[kx] {
		c.Undecided("key-exchange-handler", token.NoPos, "no step handler of the setup controller calls SaveEntity under a single guard constant")
		return
	}
	enabling := m.guard[kx]
	c.OK(fmt.Sprintf("enabling-constant:%d", enabling), posOf(m.site[kx]), "%s (the only handler that stores a pairing) runs only under step == %d", fname(kx), enabling)
	proofOK, keyOK := proofFacts()
	total := 0
	for _, h := range m.handlers {
		if h == kx {
			continue
		}
		bad := 0
		ok := core.EnumPaths(h, 2, 20000, func(pa core.Path) {
			total++
			set, known, v := stepOnPath(pa, tSetupCtrl, "step", nil)
			if !set || (known && v != enabling) {
				return
			}
			// path leaves the controller in the enabling state (or a non-constant one)
			if pathEstablishes(pa, proofOK) && pathEstablishes(pa, keyOK) {
				return
			}
			bad++
			exit := "return"
			if pa.Returns() == nil {
				exit = "panic"
			}
			missing := "the success branch of ProofFromClientProof"
			if pathEstablishes(pa, proofOK) {
				missing = "the success branch of SetupEncryptionKey"
			}
			last := pa[len(pa)-1]
			c.BadPath(fmt.Sprintf("exit:%s/%s-without-proof", fname(h), exit), posOf(last.Instrs[len(last.Instrs)-1]), pa.Describe(p),
				"an exit of %s leaves step == %s (key-exchange enabled) without passing %s: the next M5 is then processed under an encryption key that does not come from a completed proof", fname(h), describeStep(set, known, v), missing)
		})
		if !ok {
			c.Undecided("paths:"+fname(h), h.Pos(), "too many paths")
			continue
		}
		if bad == 0 {
			c.OK("exits:"+fname(h), h.Pos(), "no exit leaves the key-exchange-enabling state without the proof and key-derivation success branches")
		}
	}
	c.Count("paths_enumerated", total)
	// everybody else who writes the step: the dispatcher itself and every other method of the controller (a helper that builds an
	// error answer "the way the handlers do" and stores the step it answers for). On none of their paths is the proof checked, so none of
	// them may leave the enabling state — or a state that is not a constant — behind. Calls of the step handlers are their own
	// paths (above) and are passed over here.
	isHandler := map[*ssa.Function]bool{}
	for _, h := range m.handlers {
		isHandler[h] = true
	}
	var others []*ssa.Function
	for _, f := range libFuncs(p) {
		if isHandler[f] || f.Name() == "init" {
			continue
		}
		writes := false
		core.Instrs(f, func(i ssa.Instruction) {
			if st, ok := i.(*ssa.Store); ok {
				if _, ok := core.FieldAddrOf(st.Addr, tSetupCtrl, "step"); ok {
					writes = true
				}
			}
		})
		if writes || f == m.handle {
			others = append(others, f)
		}
	}
	for _, f := range others {
		bad := 0
		var at token.Pos
		okEnum := core.EnumPaths(f, 2, 20000, func(pa core.Path) {
			set, known := false, false
			var v int64
			var last token.Pos
			pa.Instrs(func(i ssa.Instruction) {
				if st, ok := i.(*ssa.Store); ok {
					if _, ok := core.FieldAddrOf(st.Addr, tSetupCtrl, "step"); ok {
						set = true
						v, known = core.ConstInt(st.Val)
						last = st.Pos()
					}
					return
				}
				if _, isDefer := i.(*ssa.Defer); isDefer {
					return
				}
				if g := core.Callee(i); g != nil && core.TypeIs(recvType(g), tSetupCtrl) {
					if isHandler[g] {
						set = false // the handler's own exits are decided above
						return
					}
					switch e := stepSummary(g, tSetupCtrl, "step", 3); e.kind {
					case 1:
						set, known, v, last = true, true, e.val, i.Pos()
					case 2:
						set, known, last = true, false, i.Pos()
					}
				}
			})
			if set && (!known || v == enabling) {
				bad++
				at = last
			}
		})
		if !okEnum {
			c.Undecided("step-writers:"+fname(f), f.Pos(), "too many paths")
			continue
		}
		c.Check(bad == 0, "step-writers:"+fname(f), func() token.Pos {
			if at != token.NoPos {
				return at
			}
			return f.Pos()
		}(), "no path outside the step handlers leaves the key-exchange-enabling state (or a non-constant state) behind",
			fmt.Sprintf("%d path(s) of %s store the key-exchange-enabling step (or a step that is not a constant) outside the step handlers — no proof is checked there: a request out of sequence (answered with an error \"the way the handlers answer\") leaves the controller ready for M5 under a key that comes from no proof", bad, fname(f)))
	}
	// ProofFromClientProof returns a nil error only on the true branch of VerifyClientAuthenticator
	pf := p.Func("hap/pair", "(*SetupServerSession).ProofFromClientProof")
	if pf == nil {
		c.Undecided("ProofFromClientProof", token.NoPos, "not found")
		return
	}
	authOK := core.TrueFact(func(v ssa.Value) bool {
		call, ok := v.(*ssa.Call)
		return ok && core.Callee(call) != nil && cn(core.Callee(call)) == "VerifyClientAuthenticator"
	})
	good, n := true, 0
	// path by path: the error may be one variable that is nil on the accepting path only
	core.EnumPaths(pf, 2, 5000, func(pa core.Path) {
		r := pa.Returns()
		if r == nil || len(res(r)) != 2 || !core.IsNilConst(pa.ResolveAt(len(pa)-1, res(r)[1])) {
			return
		}
		n++
		if !pathEstablishes(pa, authOK) {
			good = false
		}
	})
	c.Check(good && n > 0, "proof-summary:"+fname(pf), pf.Pos(), "returns a nil error only on the true branch of srp VerifyClientAuthenticator",
		"ProofFromClientProof can return a nil error without VerifyClientAuthenticator having accepted the client proof")
}

// saveSites: SaveEntity call sites in the step handlers of the setup controller.
func saveSites(m *setupModel) []ssa.Instruction {
	var out []ssa.Instruction
	for _, h := range m.handlers {
		out = append(out, core.FindCalls(h, func(i ssa.Instruction) bool { return core.IsInvoke(i, qDatabase, "SaveEntity") })...)
	}
	return out
}

func c02r3(c *core.Ctx) {
	p := c.P
	m := buildStepModel(p, "hap/pair", "SetupServerController", tSetupCtrl)
	if m == nil {
		c.Undecided("SetupServerController.Handle", token.NoPos, "not found")
		return
	}
	sites := saveSites(m)
	for _, s := range sites {
		h := s.Parent()
		key := "SaveEntity@" + fname(h)
		aeadOK := errNilFact(1, func(i ssa.Instruction) bool {
			if !core.IsCall(i, qDecrypt) {
				return false
			}
			return sliceOfField(core.Args(i)[0], tSetupSess, "EncryptionKey")
		})
		sigOK := core.TrueFact(func(v ssa.Value) bool { call, ok := v.(*ssa.Call); return ok && core.IsCall(call, qValidate) })
		c.Check(core.Dominated(s, aeadOK), key+"/aead-open-ok", posOf(s), "dominated by err == nil of DecryptAndVerify under session.EncryptionKey",
			"SaveEntity is reachable without the success branch of DecryptAndVerify under the session's EncryptionKey: an unauthenticated key-exchange message can store a pairing")
		c.Check(core.Dominated(s, sigOK), key+"/signature-ok", posOf(s), "dominated by the true branch of ValidateED25519Signature",
			"SaveEntity is reachable without the true branch of ValidateED25519Signature: an unsigned controller key can be stored")
	}
	// other SaveEntity sites reachable from Handle (beyond the step handlers) would escape the rule: require none
	reach := p.ReachableFuncs(m.handle)
	for _, f := range core.SortedFuncs(reach) {
		inHandlers := f == m.handle
		for _, h := range m.handlers {
			if f == h {
				inHandlers = true
			}
		}
		if inHandlers || !core.TypeIs(recvType(f), tSetupCtrl) {
			continue
		}
		for _, s := range core.FindCalls(f, func(i ssa.Instruction) bool { return core.IsInvoke(i, qDatabase, "SaveEntity") }) {
			c.Bad("SaveEntity@"+fname(f), posOf(s), "SaveEntity in a helper of the setup controller is outside the guarded step handler")
		}
	}
	// who writes EncryptionKey
	for _, st := range p.FieldStores(tSetupSess, "EncryptionKey") {
		f := st.Parent()
		if isTestFunc(p, f) {
			continue
		}
		ok := cn(f) == "SetupEncryptionKey" && core.TypeIs(recvType(f), tSetupSess)
		c.Check(ok, "write:SetupServerSession.EncryptionKey@"+fname(f), st.Pos(), "written only by SetupEncryptionKey", "SetupServerSession.EncryptionKey is written outside SetupEncryptionKey")
	}
	// call sites of SetupEncryptionKey: only where R2 expects it (a step handler that is not the storing one)
	for _, f := range libFuncs(p) {
		for _, s := range core.FindCalls(f, func(i ssa.Instruction) bool { return core.IsCall(i, "(*"+tSetupSess+").SetupEncryptionKey") }) {
			proofOK, _ := proofFacts()
			c.Check(core.Dominated(s, proofOK), "SetupEncryptionKey@"+fname(f), posOf(s), "key derivation dominated by the success branch of the proof check",
				"the pair-setup encryption key is derived without a verified proof")
		}
	}
}

// recvType returns the receiver type of a method, or an invalid type for plain functions.
func recvType(f *ssa.Function) types.Type {
	if t := core.Active.RecvOf(f); t != nil {
		return t
	}
	return types.Typ[types.Invalid]
}

func c02r4(c *core.Ctx) {
	p := c.P
	m := buildStepModel(p, "hap/pair", "SetupServerController", tSetupCtrl)
	if m == nil {
		c.Undecided("SetupServerController.Handle", token.NoPos, "not found")
		return
	}
	for _, s := range saveSites(m) {
		h := s.Parent()
		key := "stored=signed@" + fname(h)
		ent := core.Args(s)[0]
		var newEnt *ssa.Call
		for _, src := range core.Sources(ent) {
			if call, ok := src.(*ssa.Call); ok && core.IsCall(call, mod+"/db.NewEntity") {
				newEnt = call
			}
		}
		if newEnt == nil {
			c.Undecided(key, posOf(s), "entity passed to SaveEntity is not built by db.NewEntity here")
			continue
		}
		name, pub := newEnt.Call.Args[0], newEnt.Call.Args[1]
		// provenance: TLV reads of the container parsed from the AEAD plaintext
		var plain ssa.Value
		provOK := true
		for what, v := range map[string]ssa.Value{"name": name, "key": pub} {
			cont, _, _, ok := tlvRead(v)
			if !ok {
				provOK = false
				c.Bad(key+"/"+what+"-provenance", posOf(newEnt), "stored %s is not read from the decrypted key-exchange TLV", what)
				continue
			}
			data, ok := containerParsedFrom(cont)
			if !ok {
				provOK = false
				c.Bad(key+"/"+what+"-provenance", posOf(newEnt), "stored %s is read from a container that is not parsed from the AEAD plaintext", what)
				continue
			}
			isPlain := core.AnySource(data, func(sv ssa.Value) bool {
				return core.CallResult(sv, 0, func(i ssa.Instruction) bool { return core.IsCall(i, qDecrypt) }) != nil
			})
			if !isPlain {
				provOK = false
				c.Bad(key+"/"+what+"-provenance", posOf(newEnt), "stored %s comes from bytes that are not the result of DecryptAndVerify", what)
			}
			plain = data
		}
		_ = plain
		if provOK {
			c.OK(key+"/provenance", posOf(newEnt), "name and key are TLV reads of the container parsed from the DecryptAndVerify plaintext")
		}
		// the signature check that dominates the site covers the same values
		var sig *ssa.Call
		core.Instrs(h, func(i ssa.Instruction) {
			if call, ok := i.(*ssa.Call); ok && core.IsCall(call, qValidate) {
				sig = call
			}
		})
		if sig == nil {
			c.Bad(key+"/signed", posOf(s), "no signature check in %s", fname(h))
			continue
		}
		keyArg, material := sig.Call.Args[0], sig.Call.Args[1]
		c.Check(sameValue(keyArg, pub), key+"/verify-key", posOf(sig), "the signature is verified under the very key that is stored",
			"the key passed to ValidateED25519Signature is not the key that is stored")
		parts, ok := byteSeq(material)
		if !ok {
			c.Undecided(key+"/material", posOf(sig), "signed material is built by an idiom the byte-sequence abstraction does not know")
			continue
		}
		hasName, hasKey := false, false
		for _, pt := range parts {
			if sameValue(pt, name) {
				hasName = true
			}
			if sameValue(pt, pub) {
				hasKey = true
			}
		}
		c.Check(hasName && hasKey, key+"/material", posOf(sig), fmt.Sprintf("signed material (%d parts) contains the stored name and key", len(parts)),
			"the signed material does not contain the stored name and key: a different identity than the signed one would be stored")
	}
}

// sameValue: a and b have a common non-constant source value.
func sameValue(a, b ssa.Value) bool {
	sa := core.Sources(a)
	sb := core.Sources(b)
	for _, x := range sa {
		if _, isConst := x.(*ssa.Const); isConst {
			continue
		}
		for _, y := range sb {
			if x == y {
				return true
			}
		}
	}
	return false
}

func c02r5(c *core.Ctx) {
	p := c.P
	ctor := p.Func("hap/pair", "NewSetupServerController")
	if ctor == nil {
		c.Undecided("NewSetupServerController", token.NoPos, "not found")
		return
	}
	n := 0
	for _, e := range p.CallersOf(ctor) {
		f := e.Caller.Func
		if isTestFunc(p, f) || !core.IsLibraryPkg(pkgPathOf(f)) {
			continue
		}
		n++
		key := "NewSetupServerController@" + fname(f)
		req := paramOfType(f, "net/http.Request")
		if req == nil {
			c.Bad(key, e.Pos(), "a setup controller is created outside a request handler: it cannot be tied to one connection")
			continue
		}
		// the created controller is stored with SetPairSetupHandler on the session of this request
		stored := false
		core.Instrs(f, func(i ssa.Instruction) {
			if core.IsInvoke(i, qSession, "SetPairSetupHandler") && sessionOfRequest(core.Receiver(i), req) {
				if core.AnySource(core.Args(i)[0], func(s ssa.Value) bool {
					return core.CallResult(s, 0, func(ci ssa.Instruction) bool { return core.Callee(ci) == ctor }) != nil
				}) {
					stored = true
				}
			}
		})
		c.Check(stored, key, e.Pos(), "stored with SetPairSetupHandler on the session of the request's own connection",
			"the new setup controller is not stored on the session of the request's own connection")
		// the controller that handles the message is this session's
		for _, hc := range core.FindCalls(f, func(i ssa.Instruction) bool { return core.IsInvoke(i, mod+"/hap.ContainerHandler", "Handle") }) {
			ok := core.AllSources(core.Receiver(hc), func(s ssa.Value) bool {
				if call, isC := s.(*ssa.Call); isC && core.IsInvoke(call, qSession, "PairSetupHandler") && sessionOfRequest(call.Call.Value, req) {
					return true
				}
				if core.CallResult(s, 0, func(ci ssa.Instruction) bool { return core.Callee(ci) == ctor }) != nil {
					return true
				}
				// ctrl may be converted from *SetupServerController to the interface
				return false
			})
			c.Check(ok, "Handle-receiver@"+fname(f), posOf(hc), "the message is handled by the controller of this request's session",
				"the pair-setup message is handled by a controller that does not belong to this request's session")
		}
	}
	if n == 0 {
		c.Undecided("NewSetupServerController-callers", token.NoPos, "no library call site found")
	}
	freshState(c, ctor, "the pair-setup controller constructor")
	freshChallengePerExchange(c)
	// the SRP session object handed out is the one created in this invocation
	if ns := p.Func("hap/pair", "NewSetupServerSession"); ns != nil {
		ok, k := true, 0
		core.Instrs(ns, func(i ssa.Instruction) {
			r, isR := i.(*ssa.Return)
			if !isR || core.IsNilConst(res(r)[0]) {
				return
			}
			k++
			for _, s := range core.Sources(res(r)[0]) {
				al, isA := s.(*ssa.Alloc)
				if !isA {
					ok = false
					continue
				}
				fresh := false
				for _, rr := range *al.Referrers() {
					if fa, isFa := rr.(*ssa.FieldAddr); isFa && fieldNameOf(fa) == "session" {
						for _, r3 := range *fa.Referrers() {
							if st, isSt := r3.(*ssa.Store); isSt {
								if call, isC := st.Val.(*ssa.Call); isC && core.Callee(call) != nil && cn(core.Callee(call)) == "NewServerSession" {
									fresh = true
								}
							}
						}
					}
				}
				if !fresh {
					ok = false
				}
			}
		})
		c.Check(ok && k > 0, "srp-session-fresh@"+fname(ns), ns.Pos(), "every session returned wraps an SRP server session created in this call", "NewSetupServerSession can return a session that was not created in this call (cached or copied): connections share SRP salt and ephemeral key")
	}
}

// freshState: the per-connection state built by ctor (and the module functions it calls statically) does not come
// from, and is not kept in, package-level variables.
func freshState(c *core.Ctx, ctor *ssa.Function, what string) {
	seen := map[*ssa.Function]bool{}
	bad := 0
	var walk func(f *ssa.Function)
	walk = func(f *ssa.Function) {
		if f == nil || seen[f] || !core.InModule(f) || f.Blocks == nil || pkgPathOf(f) == mod+"/log" {
			return
		}
		seen[f] = true
		core.InstrsDeep(f, func(g *ssa.Function, i ssa.Instruction) {
			for _, op := range i.Operands(nil) {
				gl, ok := (*op).(*ssa.Global)
				if !ok || gl.Pkg == nil || !core.InModule(anyFunc(gl.Pkg)) || gl.Pkg.Pkg.Path() == mod+"/log" {
					continue
				}
				t := gl.Type().(*types.Pointer).Elem()
				switch t.Underlying().(type) {
				case *types.Map, *types.Slice, *types.Pointer, *types.Struct, *types.Chan:
					if types.Implements(t, errorType()) {
						continue
					}
					bad++
					c.Bad("package-state:"+gl.Name()+"@"+fname(g), i.Pos(), "%s uses the package-level variable %s: state that must be fresh per connection and exchange (SRP salt, ephemeral keys, session object) is shared between connections, so messages recorded on one connection are valid on another", what, gl.Name())
				}
			}
			walk(core.Callee(i))
		})
	}
	walk(ctor)
	if bad == 0 {
		c.OK("fresh-per-connection:"+fname(ctor), ctor.Pos(), "%s and the %d module functions it calls touch no package-level collection or pointer state", what, len(seen)-1)
	}
}

func errorType() *types.Interface {
	return types.Universe.Lookup("error").Type().Underlying().(*types.Interface)
}

func pkgPathOf(f *ssa.Function) string {
	for f.Parent() != nil {
		f = f.Parent()
	}
	if f.Pkg != nil {
		return f.Pkg.Pkg.Path()
	}
	return ""
}

// freshChallengePerExchange: the salt and the public key B that a start response hands out belong to an SRP session created for
// that start request. With one session per connection the challenge of every exchange on the connection is the same, so the
// recorded (A, proof) of an earlier exchange is a right proof again and the recorded key-exchange message decrypts and verifies:
// an exchange made only of repeated messages stores a pairing.
func freshChallengePerExchange(c *core.Ctx) {
	p := c.P
	m := buildStepModel(p, "hap/pair", "SetupServerController", tSetupCtrl)
	if m == nil {
		return
	}
	isSaltLoad := func(v ssa.Value) bool {
		found := false
		walkOperands(v, 4, func(x ssa.Value) {
			if _, ok := core.FieldLoad(x, tSetupSess, "Salt"); ok {
				found = true
			}
		})
		return found
	}
	n := 0
	for _, h := range m.handlers {
		var send ssa.Instruction
		core.Instrs(h, func(i ssa.Instruction) {
			if core.IsInvoke(i, qContainer, "SetBytes") && isSaltLoad(core.Args(i)[1]) {
				send = i
			}
		})
		if send == nil {
			continue
		}
		n++
		fresh := false
		core.Instrs(h, func(i ssa.Instruction) {
			st, ok := i.(*ssa.Store)
			if !ok {
				return
			}
			if _, isF := core.FieldAddrOf(st.Addr, tSetupCtrl, "session"); !isF {
				return
			}
			made := core.AnySource(st.Val, func(sv ssa.Value) bool {
				return core.CallResult(sv, 0, func(ci ssa.Instruction) bool { return core.IsCall(ci, mod+"/hap/pair.NewSetupServerSession") }) != nil
			})
			if made && instrDominates(st, send) {
				fresh = true
			}
		})
		c.Check(fresh, "fresh-challenge-per-exchange@"+fname(h), posOf(send), "the salt and public key sent belong to an SRP session created in this start handler",
			"the start handler hands out the salt and public key of the session the controller was created with: every exchange on a connection gets the same challenge, and the recorded messages of an earlier exchange (start, proof, key exchange) are accepted again — a pairing is stored by a party that only repeats bytes")
	}
	if n == 0 {
		c.Undecided("fresh-challenge-per-exchange", token.NoPos, "no step handler sends the SRP salt")
	}
}

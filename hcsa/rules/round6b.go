package rules

// Argument-order obligations: the second sweep of the checker's own blind spots (`hcsa mutate all -files @lib -ops arg-swap`: two
// adjacent arguments of one type exchanged; 104 of 203 compiling variants went unnoticed, 20 of them in server-side code a property
// speaks about). A rule that says "the key handed to X comes from Y" is satisfied whichever of two []byte parameters the key goes
// into. Each rule below pins one such order where exchanging the two is a different protocol.

import (
	"go/token"
	"go/types"
	"os"
	"strings"

	"golang.org/x/tools/go/ssa"

	"hcsa/core"
)

// copySourcesAreWritten: copy(dst, src) with the two exchanged still compiles when both are byte slices, and copies nothing useful:
// the array that was to be filled ( var result [32]byte; copy(result[:], key) — the HKDF wrapper's output; var mac [16]byte;
// copy(mac[:], data[n:]) — the tag of a sealed message ) stays zero. Every derived key would be 32 zero bytes, every tag would be
// zeros. Decided as: no copy in the library reads from a local array that nothing has written.
func copySourcesAreWritten(c *core.Ctx, rels ...string) {
	p := c.P
	n, bad := 0, 0
	for _, f := range libFuncs(p) {
		if f.Pkg == nil {
			continue
		}
		in := false
		for _, r := range rels {
			if f.Pkg.Pkg.Path() == mod+"/"+r {
				in = true
			}
		}
		if !in {
			continue
		}
		core.Instrs(f, func(i ssa.Instruction) {
			call, ok := i.(*ssa.Call)
			if !ok {
				return
			}
			b, isB := call.Call.Value.(*ssa.Builtin)
			if !isB || b.Name() != "copy" || len(call.Call.Args) != 2 {
				return
			}
			n++
			sl, ok := core.StripConv(call.Call.Args[1]).(*ssa.Slice)
			if !ok {
				return
			}
			a, ok := sl.X.(*ssa.Alloc)
			if !ok {
				return
			}
			if _, isArr := a.Type().Underlying().(*types.Pointer).Elem().Underlying().(*types.Array); !isArr {
				return
			}
			if !localArrayNeverWritten(a, call) {
				return
			}
			bad++
			c.Bad(seqKey(c, "copy-source-is-written@"+fname(f)), call.Pos(), "copy reads from a local array that nothing has written (destination and source exchanged?): the array that was to receive the bytes — a derived key, an authentication tag — stays zero")
		})
	}
	c.Count("copy_calls", n)
	if bad == 0 {
		c.OK("copy-source-is-written", token.NoPos, "%d copy calls in %s: none reads from an unwritten local array", n, strings.Join(rels, ", "))
	}
}

// localArrayNeverWritten: the array a is only ever read — sliced as the source of the given copy, loaded, returned — never stored
// to, never handed to anybody who could fill it.
func localArrayNeverWritten(a *ssa.Alloc, theCopy *ssa.Call) bool {
	for _, r := range *a.Referrers() {
		switch x := r.(type) {
		case *ssa.UnOp: // load of the whole array
		case *ssa.DebugRef:
		case *ssa.Slice:
			for _, rr := range *x.Referrers() {
				cc, ok := rr.(*ssa.Call)
				if !ok {
					return false
				}
				if g := cc.Call.StaticCallee(); g != nil && g.Pkg != nil {
					// readers of the standard library (a hex dump for the log, a comparison)
					switch path := g.Pkg.Pkg.Path(); {
					case path == "encoding/hex" && strings.HasPrefix(g.Name(), "Encode"), path == "bytes" && (g.Name() == "Equal" || g.Name() == "Compare"), path == "fmt", path == "log":
						continue
					}
				}
				bi, isB := cc.Call.Value.(*ssa.Builtin)
				if !isB || bi.Name() != "copy" || len(cc.Call.Args) != 2 || cc.Call.Args[1] != ssa.Value(x) {
					return false // passed on, or the destination of a copy: may be written
				}
			}
		case *ssa.Store:
			if x.Addr == ssa.Value(a) {
				if k, isK := x.Val.(*ssa.Const); isK && k.Value == nil {
					continue // the zero value of its declaration
				}
			}
			return false
		default:
			return false
		}
	}
	return true
}

// keyPairRouting (C04, C20): the pair ed25519.GenerateKey makes reaches NewEntity(name, public, private) in that order, through
// whatever module functions hand it on (ED25519GenerateKey, generateKeyPairs on the reference tree): (public, private) exchanged
// anywhere on the way gives an entity that signs with a 32-byte "private" key — refused — and publishes the real one.
func keyPairRouting(c *core.Ctx) {
	p := c.P
	f := p.Func("db", "NewRandomEntityWithName")
	ne := p.Func("db", "NewEntity")
	if f == nil || ne == nil {
		c.Undecided("key-pair-routing@NewRandomEntityWithName", token.NoPos, "not found")
		return
	}
	// which result of ed25519.GenerateKey is v? (-1: neither / unknown)
	var origin func(v ssa.Value, depth int) int
	origin = func(v ssa.Value, depth int) int {
		if depth > 6 {
			return -1
		}
		got := -2
		for _, s := range core.Sources(v) {
			if k, isK := s.(*ssa.Const); isK && (k.IsNil() || k.Value == nil) {
				continue
			}
			r := -1
			if e, isE := s.(*ssa.Extract); isE {
				if call, isC := e.Tuple.(*ssa.Call); isC {
					g := call.Call.StaticCallee()
					switch {
					case g != nil && g.Pkg != nil && strings.HasSuffix(g.Pkg.Pkg.Path(), "ed25519") && g.Name() == "GenerateKey":
						r = e.Index
					case g != nil && core.InModule(g) && g.Blocks != nil:
						// result e.Index of the module function: every return's operand at that position
						r = -2
						core.Instrs(g, func(i ssa.Instruction) {
							ret, isR := i.(*ssa.Return)
							if !isR || e.Index >= len(res(ret)) {
								return
							}
							if core.IsNilConst(res(ret)[e.Index]) {
								return
							}
							o := origin(res(ret)[e.Index], depth+1)
							if r == -2 {
								r = o
							} else if r != o {
								r = -1
							}
						})
						if r == -2 {
							r = -1
						}
					}
				}
			}
			if got == -2 {
				got = r
			} else if got != r {
				got = -1
			}
		}
		if got == -2 {
			return -1
		}
		return got
	}
	ok, n := true, 0
	core.Instrs(f, func(i ssa.Instruction) {
		if core.Callee(i) != ne {
			return
		}
		n++
		args := core.Args(i)
		if len(args) != 3 || origin(args[1], 0) != 0 || origin(args[2], 0) != 1 {
			ok = false
		}
	})
	c.Check(ok && n > 0, "key-pair-routing@"+fname(f), f.Pos(), "NewEntity(name, public, private) receives ed25519.GenerateKey's (public, private) in that order",
		"the generated key pair does not reach NewEntity as (public, private) (exchanged on the way through the key-generation helpers?): the accessory's entity holds its keys exchanged — signing fails with a key of the wrong size, pair-setup M6 can never be produced")
}

// sessionStoredUnderConnectionKey: SetSessionForConnection stores the session under the key of the connection — Set(key, session),
// not Set(session, key): every later lookup by connection would find nothing, every request would be refused (C04), and a session
// used as a map key next to the address keys would never be listed.
func sessionStoredUnderConnectionKey(c *core.Ctx) {
	p := c.P
	f := p.Func("hap", "(*context).SetSessionForConnection")
	if f == nil || len(f.Params) < 3 {
		c.Undecided("session-stored-under-connection-key", token.NoPos, "SetSessionForConnection not found")
		return
	}
	ok, n := false, 0
	core.Instrs(f, func(i ssa.Instruction) {
		g := core.Callee(i)
		isSet := core.IsInvoke(i, qContext, "Set") || (g != nil && cn(g) == "Set" && core.TypeIs(recvType(g), mod+"/hap.context"))
		if !isSet {
			// the map written directly
			if mu, isMU := i.(*ssa.MapUpdate); isMU {
				n++
				keyOK := core.AnySource(mu.Key, func(s ssa.Value) bool {
					call, isC := s.(*ssa.Call)
					return isC && core.Callee(call) != nil && strings.HasPrefix(cn(core.Callee(call)), "GetKey")
				})
				ok = keyOK && valIs(mu.Value, f.Params[1])
			}
			return
		}
		n++
		args := core.Args(i)
		keyOK := core.AnySource(args[0], func(s ssa.Value) bool {
			call, isC := s.(*ssa.Call)
			if !isC {
				return false
			}
			h := core.Callee(call)
			return h != nil && strings.HasPrefix(cn(h), "GetKey") && len(core.Args(call)) > 0 && valIs(core.Args(call)[0], f.Params[2])
		})
		ok = keyOK && valIs(args[1], f.Params[1])
	})
	c.Check(ok && n == 1, "session-stored-under-connection-key@"+fname(f), f.Pos(), "Set(key of the connection, the session)",
		"SetSessionForConnection does not store the session under the key of the connection (key and value exchanged, or another key): lookups by connection find nothing — every request of every connection is refused")
}

// addedPairingKeepsItsKey: the entity an add-pairing request stores is NewEntity(name item, public-key item, nil): the controller's
// long-term *public* key in the public-key field. Exchanged with the nil private key, the controller is stored without a key to verify
// it with — and, holding a "private key", is taken for the accessory's own entity.
func addedPairingKeepsItsKey(c *core.Ctx) {
	p := c.P
	f := p.Func("hap/pair", "(*PairingController).Handle")
	ne := p.Func("db", "NewEntity")
	if f == nil || ne == nil {
		c.Undecided("added-pairing-keeps-its-key", token.NoPos, "PairingController.Handle / NewEntity not found")
		return
	}
	ok, n := true, 0
	core.Instrs(f, func(i ssa.Instruction) {
		if core.Callee(i) != ne {
			return
		}
		n++
		args := core.Args(i)
		if !isTLVRead(args[0], 1) || !isTLVRead(args[1], 3) || !core.IsNilConst(core.StripConv(args[2])) {
			ok = false
		}
	})
	c.Check(ok && n > 0, "added-pairing-keeps-its-key@"+fname(f), f.Pos(), "NewEntity(identifier item, public-key item, nil)",
		"the entity of an added pairing is not made of (identifier item, public-key item, no private key): the controller's key lands in the wrong field — it cannot be verified, or counts as the accessory's own key pair")
}

// setupSessionFromPin: the SRP session of a pair-setup exchange is made from (device name, device pin) in that order: the verifier is
// computed from the second argument. Exchanged, the "setup code" a controller has to prove is the accessory's name.
func setupSessionFromPin(c *core.Ctx) {
	p := c.P
	ns := p.Func("hap/pair", "NewSetupServerSession")
	if ns == nil {
		c.Undecided("setup-session-from-pin", token.NoPos, "NewSetupServerSession not found")
		return
	}
	n := 0
	for _, f := range libFuncs(p) {
		core.Instrs(f, func(i ssa.Instruction) {
			if core.Callee(i) != ns {
				return
			}
			n++
			args := core.Args(i)
			good := len(args) == 2 && core.AnySource(args[1], func(s ssa.Value) bool {
				call, isC := s.(*ssa.Call)
				return isC && core.IsInvoke(call, mod+"/hap.SecuredDevice", "Pin")
			})
			c.Check(good, "setup-session-from-pin@"+fname(f), posOf(i), "the session's second argument is the device's pin",
				"the pair-setup session is not made from the device's pin (name and pin exchanged?): the verifier is computed from something else — the setup code the owner configured proves nothing, the accessory's name does")
		})
	}
	if n == 0 {
		c.Undecided("setup-session-from-pin", token.NoPos, "no call of NewSetupServerSession")
	}
	// inside: ComputeVerifier's results go to NewServerSession as (identity, salt, verifier)
	var cv ssa.Instruction
	core.Instrs(ns, func(i ssa.Instruction) {
		if g := core.Callee(i); g != nil && cn(g) == "ComputeVerifier" {
			cv = i
		}
	})
	ok, m := true, 0
	core.Instrs(ns, func(i ssa.Instruction) {
		g := core.Callee(i)
		if g == nil || cn(g) != "NewServerSession" {
			return
		}
		m++
		args := core.Args(i)
		if len(args) != 3 || cv == nil {
			ok = false
			return
		}
		for k, want := range map[int]int{1: 0, 2: 1} {
			good := core.AnySource(args[k], func(s ssa.Value) bool {
				e, isE := s.(*ssa.Extract)
				return isE && e.Index == want && e.Tuple == cv.(ssa.Value)
			})
			if !good {
				ok = false
			}
		}
	})
	c.Check(ok && m > 0, "srp-session-salt-then-verifier@"+fname(ns), ns.Pos(), "NewServerSession(identity, salt, verifier) with ComputeVerifier's results in that order",
		"the SRP server session does not receive (salt, verifier) of ComputeVerifier in that order: the salt sent to the controller is the verifier, the proof can never match")
}

// encryptedItemIsCiphertextThenTag: what goes into the encrypted-data item of M2 (verify) and M6 (setup) is the ciphertext followed by
// the 16-byte tag, both of one EncryptAndSeal call. (C04: the specification's layout; the controller splits at len-16.)
func encryptedItemIsCiphertextThenTag(c *core.Ctx) {
	p := c.P
	n := 0
	for _, spec := range [][2]string{{"hap/pair", "(*SetupServerController).handleKeyExchange"}, {"hap/pair", "(*VerifyServerController).handlePairVerifyStart"}} {
		f := p.Func(spec[0], spec[1])
		if f == nil {
			c.Undecided("encrypted-item-layout@"+spec[1], token.NoPos, "not found")
			continue
		}
		core.Instrs(f, func(i ssa.Instruction) {
			if !core.IsInvoke(i, qContainer, "SetBytes") {
				return
			}
			args := core.Args(i)
			if t, isK := core.ConstInt(args[0]); !isK || t != 5 {
				return
			}
			n++
			item := args[1]
			// the result variable of an inlined helper: the one value that is not the nil of its error returns
			var nonNil []ssa.Value
			for _, s := range core.Sources(item) {
				if !core.IsNilConst(s) {
					nonNil = append(nonNil, s)
				}
			}
			if _, isPhi := item.(*ssa.Phi); isPhi && len(nonNil) == 1 {
				item = nonNil[0]
			}
			parts, ok := byteSeq(item)
			good := ok && len(parts) == 2
			var seal ssa.Value
			if good {
				for k, pt := range parts {
					found := false
					for _, s := range core.Sources(pt) {
						var e *ssa.Extract
						switch x := s.(type) {
						case *ssa.Extract:
							e = x
						case *ssa.UnOp:
							// the tag: a local array holding result 1
							if a, isA := x.X.(*ssa.Alloc); isA {
								for _, r := range *a.Referrers() {
									if st, isSt := r.(*ssa.Store); isSt && st.Addr == ssa.Value(a) {
										e, _ = st.Val.(*ssa.Extract)
									}
								}
							}
						}
						if e == nil || e.Index != k || !isSealCall(e.Tuple.(ssa.Instruction)) {
							continue
						}
						if seal == nil {
							seal = e.Tuple
						}
						if e.Tuple == seal {
							found = true
						}
					}
					if !found {
						// the tag as a slice of the array that holds result 1
						if sl, isSl := core.StripConv(pt).(*ssa.Slice); isSl && k == 1 {
							if a, isA := sl.X.(*ssa.Alloc); isA {
								for _, r := range *a.Referrers() {
									if st, isSt := r.(*ssa.Store); isSt && st.Addr == ssa.Value(a) {
										if e, isE := st.Val.(*ssa.Extract); isE && e.Index == 1 && (seal == nil || e.Tuple == seal) {
											if ins, isI := e.Tuple.(ssa.Instruction); isI && isSealCall(ins) {
												found = true
											}
										}
									}
								}
							}
						}
					}
					if !found {
						good = false
					}
				}
			}
			c.Check(good, "encrypted-item-layout@"+fname(f), posOf(i), "the encrypted-data item is ciphertext | tag of one seal",
				"the encrypted-data item is not the ciphertext followed by the tag of the same seal (exchanged, or one of them missing): the controller takes the last 16 bytes for the tag and cannot open the message")
		})
	}
	if n == 0 {
		c.Undecided("encrypted-item-layout", token.NoPos, "no encrypted-data item is set in the M2 / M6 handlers")
	}
}

// tempFileInStorageDirectory: the temporary file of a write is created in the directory of the storage — filepath.Join(dir, name) —
// so that the rename stays inside one file system and one directory (C19), and so that it can be created at all (C18).
func tempFileInStorageDirectory(c *core.Ctx) {
	p := c.P
	n := 0
	for _, f := range libFuncs(p) {
		if !core.TypeIs(recvType(f), tFileStorage) {
			continue
		}
		core.Instrs(f, func(i ssa.Instruction) {
			if !core.IsCall(i, "path/filepath.Join") && !core.IsCall(i, "path.Join") {
				return
			}
			// the variadic argument list
			var elems []ssa.Value
			for _, a := range core.Args(i) {
				if sl, ok := a.(*ssa.Slice); ok {
					if al, ok := sl.X.(*ssa.Alloc); ok {
						byIdx := map[int64]ssa.Value{}
						for _, r := range *al.Referrers() {
							if ia, ok := r.(*ssa.IndexAddr); ok {
								if k, isK := core.ConstInt(ia.Index); isK {
									for _, rr := range *ia.Referrers() {
										if st, ok := rr.(*ssa.Store); ok && st.Addr == ssa.Value(ia) {
											byIdx[k] = st.Val
										}
									}
								}
							}
						}
						for k := int64(0); k < int64(len(byIdx)); k++ {
							elems = append(elems, byIdx[k])
						}
					}
				}
			}
			if len(elems) < 2 {
				return
			}
			n++
			isDir := func(v ssa.Value) bool {
				return core.AnySource(v, func(s ssa.Value) bool {
					if _, ok := core.FieldLoad(s, tFileStorage, "dirPath"); ok {
						return true
					}
					call, ok := s.(*ssa.Call)
					return ok && core.Callee(call) != nil && cn(core.Callee(call)) == "dir" && core.TypeIs(recvType(core.Callee(call)), tFileStorage)
				})
			}
			c.Check(isDir(elems[0]), seqKey(c, "path-starts-at-storage-directory@"+fname(f)), i.Pos(), "the joined path starts at the directory of the storage",
				"a path of the file storage is joined with the directory somewhere else than in front: the file — the temporary file of a write — lies outside the storage directory (or cannot be created at all)")
		})
	}
	if n == 0 {
		c.Note("path-starts-at-storage-directory", token.NoPos, "no method of the file storage joins a path: nothing to order")
	}
}

// callbackArgumentOrder: the change callbacks are called (characteristic, new, old) / (connection, characteristic, new, old), and
// updateValue hands the dispatchers (…, the value it stored, the value that was there before). Both pairs are interface{}: exchanging
// them compiles and hands the application the previous value as the new one (C09), and events built from the callback's argument
// would announce it (C10).
func callbackArgumentOrder(c *core.Ctx) {
	p := c.P
	uv := p.Func("characteristic", "(*Characteristic).updateValue")
	if uv == nil {
		c.Undecided("callback-argument-order", token.NoPos, "updateValue not found")
		return
	}
	store, _ := updateValueEffects(uv)
	if store == nil {
		c.Undecided("callback-argument-order@"+fname(uv), uv.Pos(), "value store not found")
		return
	}
	isOld := func(v ssa.Value) bool {
		// the load of c.Value that precedes the store
		return core.AnySource(v, func(s ssa.Value) bool {
			b, ok := core.FieldLoad(s, tChar, "Value")
			return ok && b == ssa.Value(uv.Params[0])
		})
	}
	// dispatchers: functions handed (new, old) as their last two interface{} parameters; or the loops written out
	checked := 0
	core.Instrs(uv, func(i ssa.Instruction) {
		cc := core.CallOf(i)
		if cc == nil {
			return
		}
		h := cc.StaticCallee()
		dyn := !cc.IsInvoke() && h == nil
		if _, isB := cc.Value.(*ssa.Builtin); isB {
			return
		}
		if !dyn && !(h != nil && core.InModule(h) && (dispatchesCallbacksOf(cc, uv.Params[0]) || takesCallbackSlice(cc))) {
			return
		}
		if dyn && !isCallbackElement(cc.Value) {
			return
		}
		args := cc.Args
		if len(args) < 2 {
			return
		}
		checked++
		nw, old := args[len(args)-2], args[len(args)-1]
		c.Check(nw == store.Val && isOld(old) && !isOld(nw), seqKey(c, "callback-argument-order@"+fname(uv)), i.Pos(), "(…, stored value, previous value)",
			"the callbacks are handed (…, new, old) with the two exchanged, or not the stored and the previous value: the application's update callback receives the value that was there before as the new one")
		// inside the dispatcher: fn(…, newValue, oldValue) in parameter order
		if h != nil && h.Blocks != nil && len(h.Params) >= 2 {
			pn, po := h.Params[len(h.Params)-2], h.Params[len(h.Params)-1]
			core.Instrs(h, func(j ssa.Instruction) {
				dc := core.CallOf(j)
				if dc == nil || dc.IsInvoke() || dc.StaticCallee() != nil {
					return
				}
				if _, isB := dc.Value.(*ssa.Builtin); isB {
					return
				}
				if len(dc.Args) < 2 {
					return
				}
				checked++
				c.Check(dc.Args[len(dc.Args)-2] == ssa.Value(pn) && dc.Args[len(dc.Args)-1] == ssa.Value(po), seqKey(c, "callback-argument-order@"+fname(h)), j.Pos(), "fn(…, newValue, oldValue)",
					"the dispatcher calls the registered functions with new and old value exchanged")
			})
		}
	})
	if checked == 0 {
		c.Undecided("callback-argument-order@"+fname(uv), uv.Pos(), "no callback dispatch found")
	}
}

func takesCallbackSlice(cc *ssa.CallCommon) bool {
	for _, a := range cc.Args {
		if isCallbackSlice(a, "connValueUpdateFuncs") || isCallbackSlice(a, "valueChangeFuncs") {
			return true
		}
	}
	return false
}

func isCallbackElement(v ssa.Value) bool {
	return core.AnySource(v, func(s ssa.Value) bool {
		u, ok := s.(*ssa.UnOp)
		if !ok {
			return false
		}
		ia, ok := u.X.(*ssa.IndexAddr)
		if !ok {
			return false
		}
		return core.AnySource(ia.X, func(sv ssa.Value) bool {
			_, a := core.FieldLoad(sv, tChar, "connValueUpdateFuncs")
			_, b := core.FieldLoad(sv, tChar, "valueChangeFuncs")
			return a || b
		})
	})
}

// structTagAndValueInOrder: the struct encoder calls its writer with (tag of the field, value of the field). writeByte(tag, v) takes two
// uint8: exchanged, the value is written as the tag (C17).
func structTagAndValueInOrder(c *core.Ctx) {
	p := c.P
	f := p.Func("tlv8", "structPayload")
	if f == nil {
		c.Undecided("writer-tag-then-value", token.NoPos, "structPayload not found")
		return
	}
	// the tag: the uint8 conversion of to.Uint64 of the struct tag text
	isTag := func(v ssa.Value) bool {
		return core.AnySource(v, func(s ssa.Value) bool {
			call, ok := s.(*ssa.Call)
			return ok && core.Callee(call) != nil && core.Callee(call).Pkg != nil && strings.HasSuffix(core.Callee(call).Pkg.Pkg.Path(), "/to") && strings.HasPrefix(core.Callee(call).Name(), "Uint")
		})
	}
	n, bad := 0, 0
	var where ssa.Instruction
	core.Instrs(f, func(i ssa.Instruction) {
		g := core.Callee(i)
		if g == nil || !core.TypeIs(recvType(g), mod+"/tlv8.writer") || !strings.HasPrefix(cn(g), "write") || cn(g) == "write" {
			return
		}
		args := core.Args(i)
		if len(args) != 2 {
			return
		}
		n++
		if !isTag(args[0]) || isTag(args[1]) {
			bad++
			where = i
		}
	})
	if n == 0 {
		c.Undecided("writer-tag-then-value@"+fname(f), f.Pos(), "no writer call in the struct encoder")
		return
	}
	if bad > 0 {
		c.Bad("writer-tag-then-value@"+fname(f), posOf(where), "a typed writer is not called with (tag of the field, value of the field): the value is written under the wrong tag — or as the tag")
		return
	}
	c.OK("writer-tag-then-value@"+fname(f), f.Pos(), "%d writer calls: (tag parsed from the struct tag, field value)", n)
}

// decoderTagAndAppend (C17): the decoder takes a field's tag from the text of its struct tag — strings.Split(text, ",") — and grows a
// list with reflect.Append(list, element). Both calls take two arguments of one type; exchanged, every field has tag 0, or the append
// panics on the first element.
func decoderTagAndAppend(c *core.Ctx) {
	p := c.P
	f := p.Func("tlv8", "(*decoder).decode")
	if f == nil {
		c.Undecided("decoder-tag-and-append", token.NoPos, "(*decoder).decode not found")
		return
	}
	isLookup := func(v ssa.Value) bool {
		return core.AnySource(v, func(s ssa.Value) bool {
			e, ok := s.(*ssa.Extract)
			if !ok || e.Index != 0 {
				return false
			}
			call, ok := e.Tuple.(*ssa.Call)
			return ok && core.Callee(call) != nil && cn(core.Callee(call)) == "Lookup" && strings.Contains(core.QualName(core.Callee(call)), "StructTag")
		})
	}
	nSplit, nAppend := 0, 0
	core.Instrs(f, func(i ssa.Instruction) {
		if core.IsCall(i, "strings.Split") || core.IsCall(i, "strings.SplitN") {
			args := core.Args(i)
			nSplit++
			sep, isK := core.ConstString(args[1])
			c.Check(isLookup(args[0]) && isK && sep != "", seqKey(c, "tag-text-is-split@"+fname(f)), i.Pos(), "the struct tag's text is what is split, at a constant separator",
				"the decoder splits something else than the text of the struct tag (text and separator exchanged?): the tag of every field is parsed from the wrong string — all fields read tag 0")
		}
		if core.IsCall(i, "reflect.Append") {
			args := core.Args(i)
			nAppend++
			listOK := core.AllSources(args[0], func(s ssa.Value) bool {
				call, ok := s.(*ssa.Call)
				return ok && (core.IsCall(call, "reflect.MakeSlice") || core.IsCall(call, "reflect.Append"))
			})
			elemOK := false
			if len(args) >= 2 {
				// the variadic list holds one element: the Elem() of the instance
				for _, s := range core.Sources(args[1]) {
					if call, ok := s.(*ssa.Call); ok && core.Callee(call) != nil && cn(core.Callee(call)) == "Elem" {
						elemOK = true
					}
				}
			}
			c.Check(listOK && elemOK, seqKey(c, "list-append-order@"+fname(f)), i.Pos(), "reflect.Append(the list, the element's value)",
				"reflect.Append does not receive (the list made with MakeSlice, the decoded element): list and element exchanged — the append panics (C17: arbitrary bytes never panic) or the list stays empty")
		}
	})
	if nSplit == 0 && nAppend == 0 {
		c.Undecided("decoder-tag-and-append@"+fname(f), f.Pos(), "neither a tag split nor a list append found")
	}
}

// endpointPlumbingPolarity (C13, C04): the two functions every pairing request passes through before and after its controller — the
// TLV8 wrapper HandleReaderForHandler and the listener's Accept — test their errors the right way round. (Found by running the
// classic mutation operators over the files no property names.)
func endpointPlumbingPolarity(c *core.Ctx) {
	p := c.P
	n := 0
	for _, spec := range [][2]string{{"hap/pair", "HandleReaderForHandler"}, {"hap/http", "(*Server).Accept"}} {
		if f := p.Func(spec[0], spec[1]); f != nil {
			n++
			errorTestPolarity(c, f, nil)
		}
	}
	// the wrapper hands back the bytes of the controller's answer exactly where there is one
	if f := p.Func("hap/pair", "HandleReaderForHandler"); f != nil {
		var handle ssa.Value
		core.Instrs(f, func(i ssa.Instruction) {
			if core.IsInvoke(i, mod+"/hap.ContainerHandler", "Handle") {
				handle = i.(ssa.Value)
			}
		})
		good := false
		if handle != nil {
			core.EnumPaths(f, 2, 2000, func(pa core.Path) {
				ret := pa.Returns()
				if ret == nil || len(res(ret)) != 2 {
					return
				}
				// success path with an answer: result 0 is BytesBuffer() of the answer
				v := pa.ResolveAt(len(pa)-1, res(ret)[0])
				for _, s := range core.Sources(v) {
					if call, ok := s.(*ssa.Call); ok && core.IsInvoke(call, qContainer, "BytesBuffer") {
						if core.AnySource(call.Call.Value, func(x ssa.Value) bool {
							e, isE := x.(*ssa.Extract)
							return isE && e.Tuple == handle && e.Index == 0
						}) {
							good = true
						}
					}
				}
			})
		}
		c.Check(good, "wrapper-returns-the-answer@"+fname(f), f.Pos(), "a path hands back BytesBuffer() of the container the controller answered with",
			"HandleReaderForHandler never hands back the bytes of the controller's answer: every pairing request is answered with an empty body")
	}
	if n == 0 {
		c.Note("endpoint-plumbing-polarity", token.NoPos, "neither HandleReaderForHandler nor Accept exists on this tree")
	}
}

// listenersAreKept (C20): AddListener keeps the listener it is given — the transport's only way to hear that a pairing was added or
// removed, and with it the only way the discoverable flag follows the stored pairings while the process runs.
func listenersAreKept(c *core.Ctx) {
	p := c.P
	f := p.Func("event", "(*eventEmitter).AddListener")
	if f == nil || len(f.Params) < 2 {
		c.Undecided("listeners-are-kept", token.NoPos, "(*eventEmitter).AddListener not found")
		return
	}
	ok := false
	core.Instrs(f, func(i ssa.Instruction) {
		st, isSt := i.(*ssa.Store)
		if !isSt {
			return
		}
		if _, isF := st.Addr.(*ssa.FieldAddr); !isF {
			return
		}
		for _, s := range core.Sources(st.Val) {
			call, isC := s.(*ssa.Call)
			if !isC {
				continue
			}
			if b, isB := call.Call.Value.(*ssa.Builtin); isB && b.Name() == "append" && len(call.Call.Args) == 2 {
				if parts, okp := byteSeqLike(call.Call.Args[1]); okp {
					for _, pt := range parts {
						if valIs(pt, f.Params[1]) {
							ok = true
						}
					}
				}
			}
		}
	})
	c.Check(ok, "listeners-are-kept@"+fname(f), f.Pos(), "AddListener appends its argument to the emitter's list",
		"AddListener does not keep the listener: pairing events reach nobody, the discoverable flag no longer follows the stored pairings")
}

// byteSeqLike: the elements of a variadic argument list ( append(list, a, b) ).
func byteSeqLike(v ssa.Value) ([]ssa.Value, bool) {
	sl, ok := v.(*ssa.Slice)
	if !ok {
		return nil, false
	}
	a, ok := sl.X.(*ssa.Alloc)
	if !ok {
		return nil, false
	}
	var out []ssa.Value
	for _, r := range *a.Referrers() {
		if ia, ok := r.(*ssa.IndexAddr); ok {
			for _, rr := range *ia.Referrers() {
				if st, ok := rr.(*ssa.Store); ok && st.Addr == ssa.Value(ia) {
					out = append(out, st.Val)
				}
			}
		}
	}
	return out, len(out) > 0
}

// accessoryServicesAdded (C15: "every constructor … returns a usable object"): an accessory constructor that makes a service and keeps
// it in a field also adds it to the accessory — a service that only sits in the field is not in Services, gets no ids and is not
// published.
func accessoryServicesAdded(c *core.Ctx) {
	p := c.P
	n := 0
	for _, f := range libFuncs(p) {
		if f.Pkg == nil || f.Pkg.Pkg.Path() != mod+"/accessory" || !strings.HasPrefix(f.Name(), "New") || f.Parent() != nil {
			continue
		}
		// fields that receive a fresh service
		type made struct {
			base ssa.Value
			path string
			at   ssa.Instruction
			val  ssa.Value
		}
		var mades []made
		core.Instrs(f, func(i ssa.Instruction) {
			st, ok := i.(*ssa.Store)
			if !ok {
				return
			}
			call, ok := st.Val.(*ssa.Call)
			if !ok {
				return
			}
			g := call.Call.StaticCallee()
			if g == nil || g.Pkg == nil || g.Pkg.Pkg.Path() != mod+"/service" || !strings.HasPrefix(g.Name(), "New") {
				return
			}
			b, pth := accessPath(st.Addr)
			mades = append(mades, made{b, strings.Join(pth, "."), i, call})
		})
		if len(mades) == 0 {
			continue
		}
		added := map[string]bool{}
		addedVals := map[ssa.Value]bool{}
		core.Instrs(f, func(i ssa.Instruction) {
			g := core.Callee(i)
			if g == nil || cn(g) != "AddService" {
				return
			}
			arg := core.Args(i)[0]
			// a loop over a list of the services: every element of the list is added
			for _, el := range elementsOfRangedLiteral(arg) {
				eb, ep := accessPath(el)
				for _, sv := range core.Sources(eb) {
					addedVals[sv] = true
				}
				addedVals[eb] = true
				for k := len(ep); k > 0; k-- {
					added[strings.Join(ep[:k], ".")] = true
				}
			}
			ab, pth := accessPath(arg)
			// the service object itself ( bulb := service.NewLightbulb(); base.AddService(bulb.Service) ), possibly through a local
			for _, sv := range core.Sources(ab) {
				addedVals[sv] = true
			}
			addedVals[ab] = true
			// acc.Switch.Service -> "Switch"
			for k := len(pth); k > 0; k-- {
				added[strings.Join(pth[:k], ".")] = true
			}
		})
		for _, m := range mades {
			n++
			if why, ok := serviceNotAddedOnPurpose[f.Name()+":"+m.path]; ok {
				c.Note("service-added@"+fname(f)+":"+m.path, posOf(m.at), "not added, on purpose: "+why)
				continue
			}
			c.Check(added[m.path] || addedVals[m.val], "service-added@"+fname(f)+":"+m.path, posOf(m.at), "the service made for ."+m.path+" is added to the accessory",
				"the constructor makes a service, keeps it in ."+m.path+" and never adds it to the accessory: it is not among the accessory's services — no ids, not published, its characteristics unreachable")
		}
	}
	if n == 0 {
		c.Undecided("service-added", token.NoPos, "no accessory constructor makes a service")
	}
}

// elementsOfRangedLiteral: v is the loop variable of  for _, x := range []T{a, b, c}  (an element loaded from a slice over a local
// array that was filled element by element): a, b, c.
func elementsOfRangedLiteral(v ssa.Value) []ssa.Value {
	var out []ssa.Value
	for _, s := range core.Sources(v) {
		u, ok := s.(*ssa.UnOp)
		if !ok || u.Op != token.MUL {
			continue
		}
		ia, ok := u.X.(*ssa.IndexAddr)
		if !ok {
			continue
		}
		for _, xs := range []ssa.Value{core.StripConv(ia.X)} {
			sl, ok := xs.(*ssa.Slice)
			if !ok {
				continue
			}
			al, ok := sl.X.(*ssa.Alloc)
			if !ok {
				continue
			}
			for _, r := range *al.Referrers() {
				if ea, ok := r.(*ssa.IndexAddr); ok {
					for _, rr := range *ea.Referrers() {
						if st, ok := rr.(*ssa.Store); ok && st.Addr == ssa.Value(ea) {
							out = append(out, st.Val)
						}
					}
				}
			}
		}
	}
	return out
}

// serviceNotAddedOnPurpose: one line of reason per exception.
var serviceNotAddedOnPurpose = map[string]string{
	"NewCamera:StreamManagement2": "upstream keeps the second RTP stream management service in its field but leaves its AddService commented out under a TODO (one stream is published); the object is usable as it is — looked at and dismissed in the third hunt",
}

// pinFormatted (C02, C04, C20): what ValidatePin hands back on success — and what the SRP verifier is then computed from — is the
// given code written XXX-XX-XXX, nothing more and nothing less: the controller derives its proof from exactly that string.
func pinFormatted(c *core.Ctx) {
	p := c.P
	f := p.Func("", "ValidatePin")
	if f == nil || len(f.Params) < 1 {
		c.Undecided("pin-formatted", token.NoPos, "ValidatePin not found")
		return
	}
	ok, n := true, 0
	core.EnumPaths(f, 2, 5000, func(pa core.Path) {
		ret := pa.Returns()
		if ret == nil || len(res(ret)) != 2 || !core.IsNilConst(pa.ResolveAt(len(pa)-1, res(ret)[1])) {
			return
		}
		n++
		v := pa.ResolveAt(len(pa)-1, res(ret)[0])
		// a chain of string concatenations: piece "-" piece "-" piece
		var parts []ssa.Value
		var flat func(x ssa.Value)
		flat = func(x ssa.Value) {
			if bo, isB := x.(*ssa.BinOp); isB && bo.Op == token.ADD {
				flat(bo.X)
				flat(bo.Y)
				return
			}
			parts = append(parts, x)
		}
		flat(v)
		if len(parts) != 5 {
			ok = false
			return
		}
		for k, pt := range parts {
			if k%2 == 1 {
				if s, isK := core.ConstString(pt); !isK || s != "-" {
					ok = false
				}
				continue
			}
			// a piece: a slice (of the runes / bytes / string of the pin) with the bounds 0:3, 3:5, 5:
			want := [][2]int64{{0, 3}, {3, 5}, {5, -1}}[k/2]
			sl, isSl := core.StripConv(pt).(*ssa.Slice)
			if !isSl {
				ok = false
				continue
			}
			lo, hi := int64(0), int64(-1)
			if sl.Low != nil {
				lo, _ = core.ConstInt(sl.Low)
			}
			if sl.High != nil {
				hi, _ = core.ConstInt(sl.High)
			}
			if lo != want[0] || hi != want[1] {
				ok = false
			}
			fromPin := false
			walkOperands(sl.X, 6, func(x ssa.Value) {
				if x == ssa.Value(f.Params[0]) {
					fromPin = true
				}
			})
			if !fromPin {
				ok = false
			}
		}
	})
	c.Check(ok && n > 0, "pin-formatted@"+fname(f), f.Pos(), "on success ValidatePin hands back pin[0:3] - pin[3:5] - pin[5:]",
		"what ValidatePin hands back on success is not the given code written XXX-XX-XXX: the verifier is computed from another string than the one the controller's user types — a controller with the right setup code cannot pair")
}

// noResponseWriteUnderServerMutex (C13: one peer cannot leave the accessory unable to serve): the server's mutex is shared by every
// connection's handlers. A handler that writes its response — to a socket whose peer may have stopped reading — while it holds that
// mutex blocks every other controller's request at the Lock for as long as the peer pleases. The answer is prepared under the lock
// and written after it.
func noResponseWriteUnderServerMutex(c *core.Ctx) {
	p := c.P
	tServer := mod + "/hap/http.Server"
	isServerMutex := func(v ssa.Value) bool {
		return core.AnySource(v, func(s ssa.Value) bool {
			_, ok := core.FieldLoad(s, tServer, "mutex")
			return ok
		})
	}
	n, locked := 0, 0
	for _, f := range libFuncs(p) {
		if f.Pkg == nil || f.Pkg.Pkg.Path() != mod+"/hap/http" {
			continue
		}
		hasLock := false
		core.Instrs(f, func(i ssa.Instruction) {
			if core.IsCall(i, "(*sync.Mutex).Lock") && isServerMutex(core.CallOf(i).Args[0]) {
				hasLock = true
			}
		})
		if !hasLock {
			continue
		}
		locked++
		var inside []string
		var at token.Pos
		core.Instrs(f, func(i ssa.Instruction) {
			isWrite := false
			if g := core.Callee(i); g != nil {
				switch {
				case core.InModule(g) && (cn(g) == "WriteJSON" || cn(g) == "Write" && strings.Contains(core.QualName(g), "hunkedWriter")):
					isWrite = true
				case core.QualName(g) == "io.Copy" || core.QualName(g) == "net/http.Error":
					isWrite = true
				case core.InModule(g) && takesWriter(i) && writesSomewhere(g, 3, map[*ssa.Function]bool{}):
					isWrite = true
				}
			}
			if cc := core.CallOf(i); cc != nil && cc.IsInvoke() && core.TypeIs(cc.Value.Type(), "net/http.ResponseWriter") && (cc.Method.Name() == "Write" || cc.Method.Name() == "WriteHeader") {
				isWrite = true
			}
			if !isWrite {
				return
			}
			n++
			if in, _ := inCriticalSection(f, i, isServerMutex); in {
				inside = append(inside, p.Position(i.Pos()))
				if at == token.NoPos {
					at = i.Pos()
				}
			}
		})
		if at == token.NoPos {
			at = f.Pos()
		}
		c.Check(len(inside) == 0, "response-written-outside-server-mutex@"+fname(f), at, "the response is written after the server's mutex was released",
			"a handler writes its response while it holds the server's mutex ("+strings.Join(inside, ", ")+"): a controller that asked and then stopped reading blocks the write, the write holds the lock, and every other controller's request waits at the Lock — one stalled peer leaves the accessory unable to serve the others")
	}
	if locked == 0 {
		c.Note("response-written-outside-server-mutex", token.NoPos, "no handler takes the server's mutex")
	} else if n == 0 {
		c.OK("response-written-outside-server-mutex", token.NoPos, "%d handler(s) take the server's mutex; none writes a response in a function that does", locked)
	}
}

// takesWriter: the call hands on a ResponseWriter or an io.Writer
func takesWriter(i ssa.Instruction) bool {
	cc := core.CallOf(i)
	if cc == nil {
		return false
	}
	for _, a := range cc.Args {
		if core.TypeIs(a.Type(), "net/http.ResponseWriter") || core.TypeIs(a.Type(), "io.Writer") {
			return true
		}
	}
	return false
}

// writesSomewhere: g (or a module function it calls) writes to a writer it was given
func writesSomewhere(g *ssa.Function, depth int, seen map[*ssa.Function]bool) bool {
	if g == nil || depth == 0 || seen[g] || len(g.Blocks) == 0 {
		return false
	}
	seen[g] = true
	found := false
	core.Instrs(g, func(i ssa.Instruction) {
		if found {
			return
		}
		cc := core.CallOf(i)
		if cc == nil {
			return
		}
		if cc.IsInvoke() {
			if n := cc.Method.Name(); (n == "Write" || n == "WriteHeader" || n == "WriteString") && (core.TypeIs(cc.Value.Type(), "net/http.ResponseWriter") || core.TypeIs(cc.Value.Type(), "io.Writer")) {
				found = true
			}
			return
		}
		h := cc.StaticCallee()
		if h == nil {
			return
		}
		switch core.QualName(h) {
		case "io.Copy", "net/http.Error", "(*encoding/json.Encoder).Encode", "io.WriteString", "fmt.Fprintf", "fmt.Fprint", "fmt.Fprintln":
			found = true
			return
		}
		if core.InModule(h) && takesWriter(i) && writesSomewhere(h, depth-1, seen) {
			found = true
		}
	})
	return found
}

// nameProfileErrorHandled (C20: an unpaired accessory advertises itself): the accessory's name is passed through a PRECIS profile to
// strip accents before it becomes the DNS-SD instance name. The profile *rejects* a whole string for one character it does not allow —
// a typographic apostrophe, a dash, a degree sign, an emoji: what an iOS keyboard produces — and returns "" with an error. With the
// error dropped, the empty name goes to the responder, which refuses it, and Start() ends the process: the accessory is never
// advertised at all. The error of the profile is tested, and what is returned where it failed is not the failed call's result.
func nameProfileErrorHandled(c *core.Ctx) {
	p := c.P
	n := 0
	for _, f := range libFuncs(p) {
		core.Instrs(f, func(i ssa.Instruction) {
			call, ok := i.(*ssa.Call)
			if !ok {
				return
			}
			g := call.Call.StaticCallee()
			if g == nil || g.Pkg == nil || g.Pkg.Pkg.Path() != "golang.org/x/text/secure/precis" || g.Signature.Results().Len() != 2 {
				return
			}
			n++
			var errv ssa.Value
			for _, r := range *call.Referrers() {
				if e, isE := r.(*ssa.Extract); isE && e.Index == 1 {
					errv = e
				}
			}
			tested := false
			if errv != nil {
				for _, r := range *errv.Referrers() {
					if bo, isB := r.(*ssa.BinOp); isB && (bo.Op == token.NEQ || bo.Op == token.EQL) {
						for _, rr := range *bo.Referrers() {
							if _, isIf := rr.(*ssa.If); isIf {
								tested = true
							}
						}
					}
				}
			}
			if tested && f.Signature.Results().Len() == 1 {
				// second half: where the profile failed, the function does not return the failed call's (empty) result or a constant ""
				isErr := func(v ssa.Value) bool { return v == errv }
				okEdge := func(from *ssa.BasicBlock, to *ssa.BasicBlock) bool {
					// the edge from -> to is taken only with err == nil
					if ifi, isIf := from.Instrs[len(from.Instrs)-1].(*ssa.If); isIf {
						if bo, isB := ifi.Cond.(*ssa.BinOp); isB && (isErr(bo.X) && core.IsNilConst(bo.Y) || isErr(bo.Y) && core.IsNilConst(bo.X)) {
							nilSucc := 0
							if bo.Op == token.NEQ {
								nilSucc = 1
							}
							if from.Succs[nilSucc] == to && from.Succs[1-nilSucc] != to {
								return true
							}
						}
					}
					return core.Dominated(from.Instrs[len(from.Instrs)-1], core.IsNilFact(isErr))
				}
				var failedResult func(v ssa.Value, at ssa.Instruction, seen map[ssa.Value]bool) bool
				failedResult = func(v ssa.Value, at ssa.Instruction, seen map[ssa.Value]bool) bool {
					if seen[v] {
						return false
					}
					seen[v] = true
					switch x := v.(type) {
					case *ssa.Extract:
						return x.Tuple == ssa.Value(call) && x.Index == 0 && !core.Dominated(at, core.IsNilFact(isErr))
					case *ssa.Const:
						return x.Value != nil && x.Value.ExactString() == `""` && core.Dominated(at, core.NonNilFact(isErr))
					case *ssa.Phi:
						for k, e := range x.Edges {
							pred := x.Block().Preds[k]
							if ex, isEx := e.(*ssa.Extract); isEx && ex.Tuple == ssa.Value(call) && ex.Index == 0 {
								if !okEdge(pred, x.Block()) {
									return true
								}
								continue
							}
							if failedResult(e, pred.Instrs[len(pred.Instrs)-1], seen) {
								return true
							}
						}
					}
					return false
				}
				core.Instrs(f, func(j ssa.Instruction) {
					if r, isR := j.(*ssa.Return); isR && len(r.Results) == 1 && failedResult(r.Results[0], r, map[ssa.Value]bool{}) {
						tested = false
					}
				})
			}
			if tested {
				// third: the fallback itself can come out empty — a name made of nonspacing marks only (U+0301; a lone Thai tone mark) has
				// every rune skipped — and the empty instance name ends Start() all the same: the result of the fallback is tested for
				// emptiness before it is handed back
				if f.Signature.Results().Len() == 1 && f.Signature.Results().At(0).Type().String() == "string" {
					c.Check(emptyFallbackGuarded(f, call), "name-fallback-not-empty@"+fname(f), posOf(i), "the result of the fallback is tested for emptiness and replaced",
						"where the profile failed, the fallback's result is handed back without a test for emptiness: a name made of nonspacing marks only is reduced to the empty string — the DNS-SD responder refuses the empty instance name and Start() exits the process")
				}
			}
			c.Check(tested, "name-profile-error-handled@"+fname(f), posOf(i), "the error of the text profile decides what is returned",
				"the error of the PRECIS profile is dropped (or tested and the failed call's empty result returned all the same): for a name with a character the profile rejects (a typographic apostrophe, a dash, an emoji) the function hands back the empty string — the DNS-SD responder refuses the empty instance name and Start() exits the process, the accessory is never advertised")
		})
	}
	if n == 0 {
		c.Note("name-profile-error-handled", token.NoPos, "no call of a PRECIS profile in the library")
	}
}

// requestNumbersAreWhatConvertReads (C09: what a controller writes is what the application reads): a number in a request body reaches
// the characteristic as the Go value the JSON decoder makes of it, and convert coerces by Go type. With UseNumber on the request decoder
// every number arrives as a json.Number — a named string type the float conversion has no case for: every write to a float
// characteristic stores 0 (clamped into its bounds). The decoder of the HTTP layer keeps encoding/json's default (float64), unless the
// conversion has a case for json.Number.
func requestNumbersAreWhatConvertReads(c *core.Ctx) {
	p := c.P
	var use ssa.Instruction
	handles := false
	for _, f := range libFuncs(p) {
		if f.Pkg == nil {
			continue
		}
		switch f.Pkg.Pkg.Path() {
		case mod + "/hap/http":
			core.Instrs(f, func(i ssa.Instruction) {
				if core.IsCall(i, "(*encoding/json.Decoder).UseNumber") {
					use = i
				}
			})
		case mod + "/characteristic":
			core.Instrs(f, func(i ssa.Instruction) {
				if ta, ok := i.(*ssa.TypeAssert); ok && core.TypeIs(ta.AssertedType, "encoding/json.Number") {
					handles = true
				}
			})
		}
	}
	if use == nil {
		c.OK("request-numbers-are-what-convert-reads", token.NoPos, "the HTTP layer decodes numbers the default way (float64)")
		return
	}
	c.Check(handles, "request-numbers-are-what-convert-reads", posOf(use), "the conversion has a case for json.Number",
		"the request decoder is switched to UseNumber: every number a controller writes arrives as a json.Number, which the conversion by format has no case for — a write to a float characteristic stores 0 (clamped), the remote-update callback receives it or is not called at all")
}

// polarityEverywhere: the path-resolved polarity rule ("after a failed call the function does not report success, after a successful one
// it can") was applied function by function, to the functions a defect or a seed had pointed at. A mutation sweep over the files of the
// fourth hunt showed what that leaves: the flipped test in (*database).Entities — an accessory that lists no pairings advertises itself as
// unpaired — survived every check. The rule now runs over every function of the library that returns an error, under the properties
// whose code the function's file belongs to. Functions whose failures are not reported through the error result are decided by their own
// applications of the rule (with the in-band signal named there) and are passed over here, one line of reason each.
var polarityFileProps = []struct {
	prefix string
	props  []string
}{
	{"db/", []string{"C18", "C20"}},
	{"util/file_storage.go", []string{"C18", "C19"}},
	{"util/tlv8.go", []string{"C16"}},
	{"util/", []string{"C20"}},
	{"crypto/", []string{"C05", "C06"}},
	{"hap/connection.go", []string{"C07", "C08"}},
	{"hap/http/", []string{"C09", "C13"}},
	{"hap/pair/setup", []string{"C02", "C04"}},
	{"hap/pair/verify", []string{"C03", "C04"}},
	{"hap/pair/", []string{"C04"}},
	{"hap/endpoint/", []string{"C13"}},
	{"hap/", []string{"C10", "C13"}},
	{"accessory/", []string{"C14"}},
	{"characteristic/", []string{"C12"}},
	{"service/", []string{"C15"}},
	{"tlv8/", []string{"C17"}},
	{"rtp/", []string{"C17"}},
	{"event/", []string{"C10"}},
	{"", []string{"C20"}}, // the root package: transport, configuration, pin
}

var polarityDecidedElsewhere = map[string]string{
	"(*hap.Connection).EncryptedWrite":                          "C08-R1 applies the rule with the panic call as the signal",
	"(*hap/pair.PairingController).Handle":                      "failures are answered in-band (error item): C04-R7 / C13-R5 apply the rule with that signal",
	"(*hap/pair.SetupServerController).handleKeyExchange":       "in-band error item: C02-R2 / C04-R7",
	"(*hap/pair.SetupServerController).handlePairVerify":        "in-band error item: C02-R2 / C04-R7",
	"(*hap/pair.VerifyServerController).handlePairVerifyFinish": "in-band error item: C03-R1 / C04-R7",
	"(*tlv8.decoder).decode":                                    "C17-R3 applies the lenient form (a field that cannot be read is skipped by design)",
	"hap.NewDevice":                                             "a failed lookup is the 'no identity yet' case: an identity is created and saved, the error reported is that of the creation",
}

func polarityEverywhere(c *core.Ctx, prop string) {
	p := c.P
	n := 0
	for _, f := range libFuncs(p) {
		if f.Pkg == nil || f.Synthetic != "" || f.Signature.Results().Len() == 0 {
			continue
		}
		pos := p.Position(f.Pos())
		var props []string
		for _, e := range polarityFileProps {
			if e.prefix == "" {
				if !strings.Contains(pos, "/") {
					props = e.props
				}
				break
			}
			if strings.HasPrefix(pos, e.prefix) {
				props = e.props
				break
			}
		}
		mine := false
		for _, q := range props {
			if q == prop {
				mine = true
			}
		}
		if !mine {
			continue
		}
		if _, skip := polarityDecidedElsewhere[fname(f)]; skip {
			continue
		}
		if strings.Contains(pos, "_client_") {
			continue // the controller role (SetupClientController, VerifyClientController): no property speaks of it
		}
		n++
		if os.Getenv("HCSA_DEBUG_POLARITY") != "" {
			println("polarity:", prop, fname(f))
		}
		errorTestPolarity(c, f, nil)
	}
	c.Count("polarity_functions", n)
}

// emptyFallbackGuarded: some branch of f tests a string that is not the parameter (and not the direct result of the profile's first call
// alone) for emptiness — `p == ""`, `len(p) == 0`, `b.Len() == 0` — and a non-empty constant reaches a return of f.
func emptyFallbackGuarded(f *ssa.Function, profileCall *ssa.Call) bool {
	tests := false
	core.Instrs(f, func(j ssa.Instruction) {
		bo, ok := j.(*ssa.BinOp)
		if !ok {
			return
		}
		switch bo.Op {
		case token.EQL, token.NEQ, token.GTR, token.LEQ, token.LSS, token.GEQ:
		default:
			return
		}
		for _, pr := range [][2]ssa.Value{{bo.X, bo.Y}, {bo.Y, bo.X}} {
			if k, isK := core.ConstString(pr[1]); isK && k == "" && pr[0].Type().String() == "string" {
				if _, isParam := pr[0].(*ssa.Parameter); !isParam {
					tests = true
				}
			}
			if z, isK := core.ConstInt(pr[1]); isK && z == 0 {
				if cl, isCall := pr[0].(*ssa.Call); isCall {
					if bi, isB := cl.Call.Value.(*ssa.Builtin); isB && bi.Name() == "len" {
						if _, isParam := cl.Call.Args[0].(*ssa.Parameter); !isParam && cl.Call.Args[0].Type().String() == "string" {
							// len(s) of the per-rune result inside the loop is the rune's own test, not the whole result's: the tested string
							// must not be the result of a profile call
							if e, isE := cl.Call.Args[0].(*ssa.Extract); isE {
								if c2, isC := e.Tuple.(*ssa.Call); isC && c2 != profileCall && c2.Call.StaticCallee() != nil && c2.Call.StaticCallee().Pkg != nil && c2.Call.StaticCallee().Pkg.Pkg.Path() == "golang.org/x/text/secure/precis" {
									continue
								}
							}
							tests = true
						}
					}
					if g := cl.Call.StaticCallee(); g != nil && g.Name() == "Len" {
						tests = true
					}
				}
			}
		}
	})
	if !tests {
		return false
	}
	nonEmptyConst := false
	core.Instrs(f, func(j ssa.Instruction) {
		if r, ok := j.(*ssa.Return); ok && len(r.Results) == 1 {
			for _, sv := range core.Sources(r.Results[0]) {
				if k, isK := core.ConstString(sv); isK && k != "" {
					nonEmptyConst = true
				}
			}
		}
	})
	return nonEmptyConst
}

// handlerHappyPath (C09-R7, hap/http has no tests of its own: an inverted guard there passes the suite): the authenticating wrapper lets a
// request through on the branch where the session and its encrypter are there (an inverted test refuses every verified controller — or
// dereferences a nil session), and what a PUT asks for is carried out on the branch where its body was decoded.
func handlerHappyPath(c *core.Ctx) {
	p := c.P
	if f := p.Func("hap/http", "(*Server).Authenticate"); f != nil {
		for _, cl := range f.AnonFuncs {
			var next ssa.Instruction
			var sess ssa.Value
			core.Instrs(cl, func(i ssa.Instruction) {
				if cc := core.CallOf(i); cc != nil && cc.IsInvoke() && cc.Method.Name() == "ServeHTTP" {
					next = i
				}
				if core.IsInvoke(i, qContext, "GetSessionForRequest") {
					sess = i.(*ssa.Call)
				}
			})
			if next == nil || sess == nil {
				continue
			}
			s := sess
			isSess := func(v ssa.Value) bool { return v == s }
			isEnc := func(v ssa.Value) bool {
				call, ok := v.(*ssa.Call)
				return ok && core.IsInvoke(call, qSession, "Encrypter")
			}
			refusedWhenThere := core.Dominated(next, core.IsNilFact(isSess)) || core.Dominated(next, core.IsNilFact(isEnc))
			c.Check(!refusedWhenThere, "wrapper-admits-verified@"+fname(f), posOf(next), "the wrapped handler is reached where session and encrypter are there",
				"the wrapped handler is reached only where the session (or its encrypter) is nil: the test is the wrong way round — every verified controller is refused (and a request without session dereferences nil)")
		}
	}
	if f := p.Func("hap/http", "(*Server).Characteristics"); f != nil {
		for _, b := range bodies(f) {
			var dec *ssa.Call
			core.Instrs(b.fn, func(i ssa.Instruction) {
				if g := core.Callee(i); g != nil && cn(g) == "JSONDecode" {
					dec, _ = i.(*ssa.Call)
				}
			})
			if dec == nil {
				continue
			}
			d := dec
			isErr := func(v ssa.Value) bool { return v == ssa.Value(d) }
			n := 0
			core.Instrs(b.fn, func(i ssa.Instruction) {
				g := core.Callee(i)
				isEffect := g != nil && (cn(g) == "UpdateValueFromConnection") || core.IsInvoke(i, qSession, "Subscribe") || core.IsInvoke(i, qSession, "Unsubscribe")
				if !isEffect {
					return
				}
				n++
				c.Check(core.Dominated(i, core.IsNilFact(isErr)) && !core.Dominated(i, core.NonNilFact(isErr)), seqKey(c, "request-carried-out-where-decoded@"+fname(b.fn)), posOf(i), "on the branch where the body was decoded",
					"a write / subscription of a PUT is not carried out on the branch where the body was decoded (the test of the decoder's error is the wrong way round or missing): decoded requests are answered with an error and never carried out")
			})
			if n == 0 {
				c.Note("request-carried-out-where-decoded@"+fname(b.fn), b.fn.Pos(), "no write or subscription in the function that decodes the body (carried out in a helper: judged there)")
			}
		}
	}
}

// handlerErrorStatusPolarity: packages hap/http and hap/endpoint have no tests of their own — an inverted `if err != nil` in a handler passes
// the library's suite. In every function there that is handed a ResponseWriter: an error status (WriteHeader with a constant >= 400,
// http.Error) is never written on a branch that is only taken when a tested error of a call is nil, and where a handler answers a failing
// call with an error status at all, some error status is written on the failing side.
func handlerErrorStatusPolarity(c *core.Ctx, prop string) {
	p := c.P
	n := 0
	for _, f := range libFuncs(p) {
		if f.Pkg == nil || (f.Pkg.Pkg.Path() != mod+"/hap/http" && f.Pkg.Pkg.Path() != mod+"/hap/endpoint") {
			continue
		}
		hasWriter := false
		for _, pr := range f.Params {
			if core.TypeIs(pr.Type(), "net/http.ResponseWriter") {
				hasWriter = true
			}
		}
		for _, fv := range f.FreeVars {
			if core.TypeIs(fv.Type(), "net/http.ResponseWriter") {
				hasWriter = true
			}
		}
		if !hasWriter {
			continue
		}
		var signals []ssa.Instruction
		core.Instrs(f, func(i ssa.Instruction) {
			if core.IsCall(i, "net/http.Error") {
				signals = append(signals, i)
				return
			}
			if cc := core.CallOf(i); cc != nil && cc.IsInvoke() && cc.Method.Name() == "WriteHeader" && len(cc.Args) == 1 {
				if k, ok := core.ConstInt(cc.Args[0]); ok && k >= 400 {
					signals = append(signals, i)
				}
			}
		})
		if len(signals) == 0 {
			continue
		}
		for _, b := range f.Blocks {
			iff, ok := b.Instrs[len(b.Instrs)-1].(*ssa.If)
			if !ok {
				continue
			}
			bo, ok := iff.Cond.(*ssa.BinOp)
			if !ok || (bo.Op != token.EQL && bo.Op != token.NEQ) {
				continue
			}
			var ev ssa.Value
			switch {
			case core.IsNilConst(bo.Y):
				ev = bo.X
			case core.IsNilConst(bo.X):
				ev = bo.Y
			default:
				continue
			}
			if ev.Type().String() != "error" {
				continue
			}
			e := ev
			isE := func(v ssa.Value) bool { return v == e }
			n++
			var wrong ssa.Instruction
			for _, s := range signals {
				// only a status that hangs directly on this test: one written further down for another reason ( the call succeeded, what it
				// found is not there: 404 ) depends on its own condition
				direct := false
				for _, d := range controlDeps(s.Block()) {
					if d == iff {
						direct = true
					}
				}
				if direct && core.Dominated(s, core.IsNilFact(isE)) && !core.Dominated(s, core.NonNilFact(isE)) {
					wrong = s
				}
			}
			// a panic that hangs directly on this test ( if err != nil { log.Info.Panic(err) } ) stands on its failing side
			core.Instrs(f, func(j ssa.Instruction) {
				if ok, _ := isPanicCall(j); !ok {
					return
				}
				direct := false
				for _, d := range controlDeps(j.Block()) {
					if d == iff {
						direct = true
					}
				}
				if direct && !core.Dominated(j, core.NonNilFact(isE)) {
					wrong = j
				}
			})
			key := seqKey(c, "error-status-on-failing-side@"+fname(f))
			if wrong != nil {
				c.Bad(key, posOf(wrong), "an error status is written on a branch that is taken only when the error tested at %s is nil (the test is the wrong way round): what succeeded is answered with an error, what failed is carried on with", p.Position(bo.Pos()))
			} else {
				c.OK(key, posOf(iff), "no error status on the nil side of the error tested here")
			}
		}
	}
	c.Count("handler_error_tests", n)
	_ = prop
	// the per-connection controller of a pairing endpoint is made where the session has none yet, and used where it has one
	for _, spec := range []struct{ fn, getter, ctor string }{{"(*PairSetup).ServeHTTP", "PairSetupHandler", "NewSetupServerController"}, {"(*PairVerify).ServeHTTP", "PairVerifyHandler", "NewVerifyServerController"}} {
		f := p.Func("hap/endpoint", spec.fn)
		if f == nil {
			continue
		}
		var get, mk, use ssa.Instruction
		core.Instrs(f, func(i ssa.Instruction) {
			if core.IsInvoke(i, qSession, spec.getter) {
				get = i
			}
			if g := core.Callee(i); g != nil && cn(g) == spec.ctor {
				mk = i
			}
			if cc := core.CallOf(i); cc != nil && cc.IsInvoke() && cc.Method.Name() == "Handle" {
				use = i
			}
		})
		if get == nil || mk == nil || use == nil {
			c.Note("controller-made-when-absent@"+fname(f), f.Pos(), "getter, constructor or Handle call not found in the endpoint itself (refactored into helpers: decided by fresh-per-connection)")
			continue
		}
		gv := get.(ssa.Value)
		isCtl := func(v ssa.Value) bool {
			if v == gv {
				return true
			}
			// the variable lives in a cell because a function literal further down reads it
			if u, ok := v.(*ssa.UnOp); ok && u.Op == token.MUL {
				if al, ok := u.X.(*ssa.Alloc); ok {
					for _, r := range *al.Referrers() {
						if st, ok := r.(*ssa.Store); ok && st.Addr == ssa.Value(al) && st.Val == gv {
							return true
						}
					}
				}
			}
			return false
		}
		c.Check(core.Dominated(mk, core.IsNilFact(isCtl)) && !core.Dominated(use, core.IsNilFact(isCtl)), "controller-made-when-absent@"+fname(f), posOf(mk), "made where the session has no controller yet; Handle is reached where it has one",
			"the controller of the connection is not made on the branch where the session has none (test inverted): the first request of a connection calls Handle on nil — every pairing attempt panics — and a connection that has one gets a new one for every request (the exchange never gets past its first step)")
	}
}

package rules

import (
	"go/token"
	"go/types"
	"sort"
	"strconv"
	"strings"

	"golang.org/x/tools/go/ssa"

	"hcsa/core"
)

const mod = core.ModulePath

// qualified names used by several rules
const (
	qContainer = mod + "/util.Container"
	qSession   = mod + "/hap.Session"
	qContext   = mod + "/hap.Context"
	qDatabase  = mod + "/db.Database"
	qStorage   = mod + "/util.Storage"
)

// isTestFunc: defined in a _test.go file (only present in the thorough configuration with Tests:true).
func isTestFunc(p *core.Program, fn *ssa.Function) bool {
	for fn.Parent() != nil {
		fn = fn.Parent()
	}
	if !fn.Pos().IsValid() {
		return false
	}
	return strings.HasSuffix(p.Fset.Position(fn.Pos()).Filename, "_test.go")
}

// libFuncs returns module functions of the library proper (no generators, no cmd, no test files).
func libFuncs(p *core.Program) []*ssa.Function {
	var out []*ssa.Function
	for _, fn := range p.ModuleFuncs() {
		root := fn
		for root.Parent() != nil {
			root = root.Parent()
		}
		if root.Pkg == nil || !core.IsLibraryPkg(root.Pkg.Pkg.Path()) {
			continue
		}
		if isTestFunc(p, fn) {
			continue
		}
		out = append(out, fn)
	}
	return out
}

// route is one registration on an http.ServeMux.
type route struct {
	Site    ssa.CallInstruction
	Pattern string
	PatOK   bool
	Handler ssa.Value
	In      *ssa.Function
}

func routes(p *core.Program) []route {
	var out []route
	for _, fn := range libFuncs(p) {
		core.Instrs(fn, func(i ssa.Instruction) {
			if core.IsCall(i, "(*net/http.ServeMux).Handle") || core.IsCall(i, "(*net/http.ServeMux).HandleFunc") {
				a := core.Args(i)
				r := route{Site: i.(ssa.CallInstruction), In: fn, Handler: a[1]}
				r.Pattern, r.PatOK = core.ConstString(a[0])
				out = append(out, r)
			}
		})
	}
	sort.Slice(out, func(i, j int) bool { return out[i].Pattern < out[j].Pattern })
	return out
}

// handlerFuncs resolves an http.Handler / func value to the module functions that serve it.
// wrappers: calls to module functions returning a handler are reported separately.
func handlerFuncs(p *core.Program, v ssa.Value) (fns []*ssa.Function, wrapper *ssa.Call) {
	v = core.StripConv(v)
	switch x := v.(type) {
	case *ssa.Function:
		return []*ssa.Function{x}, nil
	case *ssa.MakeClosure:
		fn := x.Fn.(*ssa.Function)
		if strings.HasSuffix(fn.Name(), "$bound") {
			if m, ok := fn.Object().(*types.Func); ok {
				if real := p.SSA.FuncValue(m); real != nil {
					return []*ssa.Function{real}, nil
				}
			}
		}
		return []*ssa.Function{fn}, nil
	case *ssa.Call:
		if f := x.Call.StaticCallee(); f != nil && core.InModule(f) {
			// does it return a handler built here (wrapper) or a plain constructor of a struct handler?
			if _, isPtr := x.Type().Underlying().(*types.Pointer); isPtr {
				if m := methodOf(p, x.Type(), "ServeHTTP"); m != nil {
					return []*ssa.Function{m}, nil
				}
			}
			return nil, x
		}
	}
	if m := methodOf(p, v.Type(), "ServeHTTP"); m != nil {
		return []*ssa.Function{m}, nil
	}
	return nil, nil
}

func methodOf(p *core.Program, t types.Type, name string) *ssa.Function {
	ms := p.SSA.MethodSets.MethodSet(t)
	for i := 0; i < ms.Len(); i++ {
		if ms.At(i).Obj().Name() == name {
			return p.SSA.MethodValue(ms.At(i))
		}
	}
	return nil
}

// returnedClosures: the closures a wrapper function returns (through HandlerFunc conversion).
func returnedClosures(fn *ssa.Function) []*ssa.Function {
	var out []*ssa.Function
	core.Instrs(fn, func(i ssa.Instruction) {
		if r, ok := i.(*ssa.Return); ok {
			for _, res := range res(r) {
				for _, s := range core.Sources(res) {
					if mc, ok := s.(*ssa.MakeClosure); ok {
						out = append(out, mc.Fn.(*ssa.Function))
					}
				}
			}
		}
	})
	return out
}

// paramOfType returns the first parameter of fn whose type is the named type qual (through pointers).
func paramOfType(fn *ssa.Function, qual string) *ssa.Parameter {
	for _, pr := range fn.Params {
		if core.TypeIs(pr.Type(), qual) {
			return pr
		}
	}
	return nil
}

// derivesFrom reports whether some source of v (transitively through call arguments and receivers of
// module/interface calls, depth-bounded) is the value root.
func derivesFrom(v ssa.Value, root ssa.Value, depth int) bool {
	if v == root {
		return true
	}
	if depth == 0 {
		return false
	}
	for _, s := range core.Sources(v) {
		if s == root {
			return true
		}
		var call *ssa.Call
		switch x := s.(type) {
		case *ssa.Call:
			call = x
		case *ssa.Extract:
			call, _ = x.Tuple.(*ssa.Call)
		case *ssa.UnOp: // field load: follow the base
			if fa, ok := x.X.(*ssa.FieldAddr); ok && x.Op == token.MUL {
				if derivesFrom(fa.X, root, depth-1) {
					return true
				}
			}
		case *ssa.FreeVar:
			for _, b := range core.FreeVarBinding(x) {
				if derivesFrom(b, root, depth-1) {
					return true
				}
			}
		}
		if call != nil {
			for _, a := range call.Call.Args {
				if derivesFrom(a, root, depth-1) {
					return true
				}
			}
			if call.Call.IsInvoke() && derivesFrom(call.Call.Value, root, depth-1) {
				return true
			}
		}
	}
	return false
}

// sessionOfRequest reports whether v is the session looked up for request r:
// Context.GetSessionForRequest(r) or Context.Get(Context.GetConnectionKey(r)).(Session).
func sessionOfRequest(v ssa.Value, r ssa.Value) bool {
	for _, s := range core.Sources(v) {
		c, ok := s.(*ssa.Call)
		if !ok {
			if e, ok2 := s.(*ssa.Extract); ok2 { // comma-ok type assertion
				if ta, ok3 := e.Tuple.(*ssa.TypeAssert); ok3 && sessionOfRequest(ta.X, r) {
					return true
				}
			}
			continue
		}
		if core.IsInvoke(c, qContext, "GetSessionForRequest") && len(c.Call.Args) == 1 && valIs(c.Call.Args[0], r) {
			return true
		}
		if core.IsInvoke(c, "", "Get") && len(c.Call.Args) == 1 {
			for _, ks := range core.Sources(c.Call.Args[0]) {
				if kc, ok := ks.(*ssa.Call); ok && core.IsInvoke(kc, qContext, "GetConnectionKey") && valIs(kc.Call.Args[0], r) {
					return true
				}
			}
		}
	}
	return false
}

func valIs(v, want ssa.Value) bool {
	for _, s := range core.Sources(v) {
		if s == want {
			return true
		}
	}
	return false
}

// funcsNamed finds a module function by qualified display name, e.g. "(*hap/http.Server).Authenticate".
func fn(p *core.Program, rel, name string) *ssa.Function { return p.Func(rel, name) }

// posOf gives a usable position for an instruction (falls back to the enclosing function).
func posOf(i ssa.Instruction) token.Pos {
	if i.Pos().IsValid() {
		return i.Pos()
	}
	if c := core.CallOf(i); c != nil && c.Pos().IsValid() {
		return c.Pos()
	}
	return i.Parent().Pos()
}

func fname(f *ssa.Function) string { return core.Rel(core.QualName(f)) }

// res returns the result values of a return instruction, looking through the spill that go/ssa inserts in
// functions with defers (results are stored to result locals, defers run, then the locals are loaded and returned).
func res(r *ssa.Return) []ssa.Value {
	out := make([]ssa.Value, len(r.Results))
	for k, v := range r.Results {
		out[k] = v
		u, ok := v.(*ssa.UnOp)
		if !ok || u.Op != token.MUL {
			continue
		}
		a, ok := u.X.(*ssa.Alloc)
		if !ok {
			continue
		}
		// last store to a in the block of the return, before the load
		var last ssa.Value
		for _, i := range r.Block().Instrs {
			if i == ssa.Instruction(u) {
				break
			}
			if st, ok := i.(*ssa.Store); ok && st.Addr == ssa.Value(a) {
				last = st.Val
			}
		}
		if last != nil {
			out[k] = last
		}
	}
	return out
}

// cn: the name the rules know a function under (its own, or the reference name when it was recognised as a rename).
func cn(f *ssa.Function) string {
	if f == nil {
		return ""
	}
	if core.Active != nil {
		return core.Active.CanonName(f)
	}
	return f.Name()
}

// body is a function whose instructions implement (part of) an anchor function: the anchor itself, or a module helper the
// anchor forwards to. bind maps the helper's parameters to the values the anchor passes, so that a rule can state facts about
// the helper's instructions in the anchor's terms ("derived from the constructor's parameter", "labelled with this constant").
type body struct {
	fn   *ssa.Function
	bind map[*ssa.Parameter]ssa.Value
	via  *ssa.Call // the forwarding call in the anchor (nil for the anchor itself)
}

// bodies returns the anchor and, when every return of the anchor hands back the results of one and the same kind of static call
// to a module helper ( return newSecureSession(key, out, in) ), the helper bound at each such call.
func bodies(f *ssa.Function) []body {
	out := []body{{fn: f}}
	seen := map[*ssa.Call]bool{}
	core.Instrs(f, func(i ssa.Instruction) {
		r, ok := i.(*ssa.Return)
		if !ok || len(r.Results) == 0 {
			return
		}
		var call *ssa.Call
		for _, v := range res(r) {
			switch x := v.(type) {
			case *ssa.Call:
				call = x
			case *ssa.Extract:
				call, _ = x.Tuple.(*ssa.Call)
			}
			break
		}
		if call == nil || seen[call] {
			return
		}
		g := call.Call.StaticCallee()
		if g == nil || g == f || !core.InModule(g) || g.Blocks == nil || g.Pkg != f.Pkg {
			return
		}
		seen[call] = true
		b := body{fn: g, bind: map[*ssa.Parameter]ssa.Value{}, via: call}
		args := call.Call.Args
		for k, q := range g.Params {
			if k < len(args) {
				b.bind[q] = args[k]
			}
		}
		out = append(out, b)
	})
	return out
}

// lift rewrites a value of a helper body into the anchor's value when it is (a copy, slice or conversion of) a bound parameter.
func (b body) lift(v ssa.Value) ssa.Value {
	if b.bind == nil {
		return v
	}
	for _, s := range core.Sources(v) {
		if q, ok := s.(*ssa.Parameter); ok {
			if a, ok := b.bind[q]; ok {
				return a
			}
		}
	}
	if a := allocOf(v); a != nil {
		for _, r := range *a.Referrers() {
			if st, ok := r.(*ssa.Store); ok && st.Addr == ssa.Value(a) {
				if q, ok := st.Val.(*ssa.Parameter); ok {
					if arg, ok := b.bind[q]; ok {
						return arg
					}
				}
			}
		}
	}
	return v
}

// lifted is a site of an anchor function that may have been moved into a module helper called from the anchor:  at  is the
// instruction *in the anchor* (the site itself or the call of the helper), inner the site, b the helper's binding. Guards are
// evaluated on  at  (what dominates the call dominates everything the helper does); values through val().
type lifted struct {
	at    ssa.Instruction
	inner ssa.Instruction
	b     body
}

func (l lifted) val(v ssa.Value) ssa.Value { return l.b.lift(v) }

// liftedSites: the instructions of root satisfying pred, and those of same-package helpers that root calls statically
// (one level; helpers that are themselves anchors of a rule are found by that rule).
func liftedSites(root *ssa.Function, pred func(ssa.Instruction) bool) []lifted {
	var out []lifted
	core.Instrs(root, func(i ssa.Instruction) {
		if pred(i) {
			out = append(out, lifted{at: i, inner: i, b: body{fn: root}})
			return
		}
		call, ok := i.(ssa.CallInstruction)
		if !ok {
			return
		}
		if _, isGo := i.(*ssa.Go); isGo {
			return
		}
		g := call.Common().StaticCallee()
		if g == nil || g == root || !core.InModule(g) || g.Blocks == nil || g.Pkg != root.Pkg || g.Parent() != nil {
			return
		}
		var b *body
		core.Instrs(g, func(j ssa.Instruction) {
			if !pred(j) {
				return
			}
			if b == nil {
				b = &body{fn: g, bind: map[*ssa.Parameter]ssa.Value{}}
				if cv, isV := i.(*ssa.Call); isV {
					b.via = cv
				}
				args := call.Common().Args
				for k, q := range g.Params {
					if k < len(args) {
						b.bind[q] = args[k]
					}
				}
			}
			out = append(out, lifted{at: i, inner: j, b: *b})
		})
	})
	return out
}

// appendedValues: the elements  append(s, e1, e2)  adds (the values stored into the variadic array), or nil for  append(s, t...).
func appendedValues(call *ssa.Call) []ssa.Value {
	if len(call.Call.Args) != 2 {
		return nil
	}
	sl, ok := call.Call.Args[1].(*ssa.Slice)
	if !ok {
		return nil
	}
	a, ok := sl.X.(*ssa.Alloc)
	if !ok || a.Comment != "varargs" {
		return nil
	}
	var out []ssa.Value
	for _, r := range *a.Referrers() {
		if ia, ok := r.(*ssa.IndexAddr); ok {
			for _, rr := range *ia.Referrers() {
				if st, ok := rr.(*ssa.Store); ok && st.Addr == ssa.Value(ia) {
					out = append(out, st.Val)
				}
			}
		}
	}
	return out
}

// seqKey numbers the obligations of one rule instance within one construct ( name@function#1, #2, … in instruction order ), so that the
// key of an obligation does not move with the lines above it.
func seqKey(c *core.Ctx, base string) string {
	if c.Seq == nil {
		c.Seq = map[string]int{}
	}
	c.Seq[base]++
	return base + "#" + strconv.Itoa(c.Seq[base])
}

package rules

// Rules added after the eighth seeding round (m16 "two cooperating sites / a responsibility moved and lost on one path",
// m17 "a sequence or an unusual input"). Each is a structural necessary condition of the property it is registered under; DESIGN
// section 9 "Eighth round" says which seeded change led to which.

import (
	"go/token"
	"go/types"
	"strings"

	"golang.org/x/tools/go/ssa"

	"hcsa/core"
)

// verifyFinishLeavesWaiting: whatever the outcome of a pair-verify finish request, the controller is back in its waiting step when
// Handle returns — a controller whose first attempt failed (it was not paired yet, the signature did not verify) starts again with
// M1 on the same connection and must not be refused for "invalid internal step". The reset may be deferred in Handle, deferred or
// unconditional in the finish handler, or written out on every path; it may not be missing on some exits.
func verifyFinishLeavesWaiting(c *core.Ctx) {
	p := c.P
	m := buildStepModel(p, "hap/pair", "VerifyServerController", tVerifyCtrl)
	reset := p.Func("hap/pair", "(*VerifyServerController).reset")
	finish := p.Func("hap/pair", "(*VerifyServerController).handlePairVerifyFinish")
	if m == nil || finish == nil || m.site[finish] == nil {
		c.Undecided("finish-leaves-waiting", token.NoPos, "Handle, or its call of the finish handler, not found")
		return
	}
	waiting, haveWaiting := int64(0), false
	if reset != nil {
		if e := stepSummary(reset, tVerifyCtrl, "step", 3); e.kind == 1 {
			waiting, haveWaiting = e.val, true
		}
	}
	if !haveWaiting {
		// no reset helper (written out): the waiting step is the one a new controller starts in
		if ctor := p.Func("hap/pair", "NewVerifyServerController"); ctor != nil {
			core.Instrs(ctor, func(i ssa.Instruction) {
				if st, ok := i.(*ssa.Store); ok {
					if _, ok := core.FieldAddrOf(st.Addr, tVerifyCtrl, "step"); ok {
						if n, isK := core.ConstInt(st.Val); isK {
							waiting, haveWaiting = n, true
						}
					}
				}
			})
		}
	}
	if !haveWaiting {
		c.Undecided("finish-leaves-waiting", token.NoPos, "the waiting step (what reset stores) could not be determined")
		return
	}
	// final step of a function's path, deferred calls applied at the exit; set=false: the path has no effect
	final := func(pa core.Path) (set, known bool, val int64) {
		var deferred []stepEffect
		set, known, val = stepOnPath(pa, tVerifyCtrl, "step", func(i ssa.Instruction, _ bool, _ int64, _ bool) {
			if d, ok := i.(*ssa.Defer); ok {
				if g := d.Call.StaticCallee(); g != nil {
					deferred = append(deferred, stepSummary(g, tVerifyCtrl, "step", 3))
				} else if mc, ok := d.Call.Value.(*ssa.MakeClosure); ok {
					if fn, ok := mc.Fn.(*ssa.Function); ok {
						e := stepEffect{kind: 0}
						core.Instrs(fn, func(j ssa.Instruction) {
							if g := core.Callee(j); g != nil && core.TypeIs(recvType(g), tVerifyCtrl) {
								if s := stepSummary(g, tVerifyCtrl, "step", 3); s.kind != 0 {
									e = s
								}
							}
							if st, ok := j.(*ssa.Store); ok {
								if _, ok := core.FieldAddrOf(st.Addr, tVerifyCtrl, "step"); ok {
									if n, isK := core.ConstInt(st.Val); isK {
										e = stepEffect{kind: 1, val: n}
									} else {
										e = stepEffect{kind: 2}
									}
								}
							}
						})
						deferred = append(deferred, e)
					}
				}
			}
		})
		for k := len(deferred) - 1; k >= 0; k-- {
			switch deferred[k].kind {
			case 1:
				set, known, val = true, true, deferred[k].val
			case 2:
				set, known = true, false
			}
		}
		return
	}
	// the finish handler by itself: does every exit leave the waiting step?
	calleeAll, calleePaths := true, 0
	var calleeWitness core.Path
	core.EnumPaths(finish, 2, 20000, func(pa core.Path) {
		if pa.Returns() == nil {
			return
		}
		calleePaths++
		if set, known, val := final(pa); !(set && known && val == waiting) {
			calleeAll = false
			if calleeWitness == nil {
				calleeWitness = pa
			}
		}
	})
	site := m.site[finish]
	paths, bad := 0, 0
	var witness core.Path
	core.EnumPaths(m.handle, 2, 20000, func(pa core.Path) {
		if pa.Returns() == nil {
			return
		}
		through := false
		pa.Instrs(func(i ssa.Instruction) {
			if i == site {
				through = true
			}
		})
		if !through {
			return
		}
		paths++
		// stepOnPath treats the finish handler's call as "unknown" unless it is a one-block constant store: judge the path by what
		// comes after the call (a reset written out, the deferred one) and fall back on the handler's own exits
		set, known, val := final(pa)
		if set && known && val == waiting {
			return
		}
		after, afterOK := false, false
		var tailSet, tailKnown bool
		var tailVal int64
		pa.Instrs(func(i ssa.Instruction) {
			if i == site {
				after = true
				tailSet = false
				return
			}
			if !after {
				return
			}
			if st, ok := i.(*ssa.Store); ok {
				if _, ok := core.FieldAddrOf(st.Addr, tVerifyCtrl, "step"); ok {
					tailSet = true
					tailVal, tailKnown = core.ConstInt(st.Val)
				}
			}
			if _, isDefer := i.(*ssa.Defer); isDefer {
				return
			}
			if g := core.Callee(i); g != nil && core.TypeIs(recvType(g), tVerifyCtrl) {
				if e := stepSummary(g, tVerifyCtrl, "step", 3); e.kind == 1 {
					tailSet, tailKnown, tailVal = true, true, e.val
				} else if e.kind == 2 {
					tailSet, tailKnown = true, false
				}
			}
		})
		if tailSet && tailKnown && tailVal == waiting {
			afterOK = true
		}
		if !tailSet && calleeAll && calleePaths > 0 {
			afterOK = true
		}
		if !afterOK {
			bad++
			if witness == nil {
				witness = pa
			}
		}
	})
	key := "finish-leaves-waiting@" + fname(m.handle)
	switch {
	case paths == 0:
		c.Undecided(key, posOf(site), "no path of Handle through the finish handler was enumerated")
	case bad == 0:
		c.OK(key, posOf(site), "all %d paths of Handle through the finish handler (%d exits of the handler itself) leave the controller in its waiting step", paths, calleePaths)
	default:
		desc := witness.Describe(p)
		if calleeWitness != nil {
			desc = append(desc, "in the finish handler:")
			desc = append(desc, calleeWitness.Describe(p)...)
		}
		c.BadPath(key, posOf(site), desc, "a pair-verify finish request can return without the controller being reset to its waiting step (the reset is not deferred and is missing on this exit): after a failed attempt the next correct pair-verify on the same connection is refused for an invalid internal step")
	}
}

// controllerSessionNeverNil: the step handlers of both pairing controllers use controller.session without a nil test (the peer
// chooses which handler runs first — a finish request as first message, a wrong proof after a start). So the field is never nil:
// every composite literal of a controller type gives it a value, and nothing stores nil in it.
func controllerSessionNeverNil(c *core.Ctx) {
	p := c.P
	for _, typ := range []string{tSetupCtrl, tVerifyCtrl} {
		short := typ[strings.LastIndex(typ, ".")+1:]
		// is the field read without a test anywhere? (armed only then)
		lits, litsOK, stores := 0, 0, 0
		var bad ssa.Instruction
		why := ""
		for _, f := range libFuncs(p) {
			var allocs []*ssa.Alloc
			core.Instrs(f, func(i ssa.Instruction) {
				if a, ok := i.(*ssa.Alloc); ok {
					if pt, ok := a.Type().Underlying().(*types.Pointer); ok && core.TypeIs(pt.Elem(), typ) && isStructType(pt.Elem()) {
						allocs = append(allocs, a)
					}
				}
				st, ok := i.(*ssa.Store)
				if !ok {
					return
				}
				if _, ok := core.FieldAddrOf(st.Addr, typ, "session"); !ok {
					return
				}
				stores++
				if core.IsNilConst(st.Val) {
					bad, why = i, "nil is stored in the session field"
				}
			})
			for _, a := range allocs {
				lits++
				has := false
				core.Instrs(f, func(i ssa.Instruction) {
					if st, ok := i.(*ssa.Store); ok {
						if base, ok := core.FieldAddrOf(st.Addr, typ, "session"); ok && base == ssa.Value(a) && !core.IsNilConst(st.Val) {
							has = true
						}
					}
				})
				if has {
					litsOK++
				} else if bad == nil {
					bad, why = a, "a controller is made without a session"
				}
			}
		}
		key := "controller-session-never-nil@" + short
		switch {
		case lits == 0:
			c.Undecided(key, token.NoPos, "no composite literal of the controller type found")
		case bad != nil:
			c.Bad(key, posOf(bad), "%s: the step handlers read controller.session without a nil test and the peer chooses which of them runs (a finish request as first message, a rejected proof followed by the trailing log lines) — a nil pointer dereference in the request handler", why)
		default:
			c.OK(key, token.NoPos, "%d literal(s) of %s set the session, %d store(s) to the field, none of nil", litsOK, short, stores)
		}
	}
}

// constIndexOfMapSliceGuarded: in the struct reader the values of a tag are a slice kept in a map. An element addressed with a
// constant index (list[0]) needs len(list) > 0 on every path: the presence of the key says nothing about the length (an entry may be
// left empty by whoever consumes the values).
func constIndexOfMapSliceGuarded(c *core.Ctx, rels ...string) {
	p := c.P
	n, bad := 0, 0
	for _, f := range libFuncs(p) {
		if f.Pkg == nil {
			continue
		}
		in := false
		for _, r := range rels {
			if f.Pkg.Pkg.Path() == mod+"/"+r {
				in = true
			}
		}
		if !in {
			continue
		}
		core.Instrs(f, func(i ssa.Instruction) {
			ia, ok := i.(*ssa.IndexAddr)
			if !ok {
				return
			}
			if _, isSl := ia.X.Type().Underlying().(*types.Slice); !isSl {
				return
			}
			k, isK := core.ConstInt(ia.Index)
			if !isK {
				return
			}
			fromMap := core.SomeSource(ia.X, func(s ssa.Value) bool {
				switch x := s.(type) {
				case *ssa.Lookup:
					_, isMap := x.X.Type().Underlying().(*types.Map)
					return isMap
				case *ssa.Extract:
					if lk, ok := x.Tuple.(*ssa.Lookup); ok {
						_, isMap := lk.X.Type().Underlying().(*types.Map)
						return isMap
					}
				}
				return false
			})
			if !fromMap {
				return
			}
			n++
			if lenExceeds(ia, ia.X, k) {
				return
			}
			bad++
			c.Bad(seqKey(c, "map-slice-index-guarded@"+fname(f)), ia.Pos(), "element %d of a slice taken from a map is addressed without a dominating test that the slice is that long (the key being present does not make its slice non-empty): index out of range on input that leaves an entry empty", k)
		})
	}
	c.Count("const_indices_of_map_slices", n)
	if bad == 0 {
		c.OK("map-slice-index-guarded", token.NoPos, "%d constant indices into slices taken from maps in %s: each dominated by a length test", n, strings.Join(rels, ", "))
	}
}

// lenExceeds: every path to at passes an edge on which len(s) > k is known.
func lenExceeds(at ssa.Instruction, s ssa.Value, k int64) bool {
	isLen := func(v ssa.Value) bool {
		call, ok := core.StripConv(v).(*ssa.Call)
		if !ok {
			return false
		}
		b, ok := call.Call.Value.(*ssa.Builtin)
		return ok && b.Name() == "len" && (call.Call.Args[0] == s || sameValue(call.Call.Args[0], s))
	}
	fact := func(cond ssa.Value) (bool, bool) {
		bo, ok := cond.(*ssa.BinOp)
		if !ok {
			return false, false
		}
		x, y, op := bo.X, bo.Y, bo.Op
		if isLen(y) && !isLen(x) { // normalise to len OP const
			x, y = y, x
			switch op {
			case token.LSS:
				op = token.GTR
			case token.GTR:
				op = token.LSS
			case token.LEQ:
				op = token.GEQ
			case token.GEQ:
				op = token.LEQ
			}
		}
		if !isLen(x) {
			return false, false
		}
		cv, isK := core.ConstInt(y)
		if !isK {
			return false, false
		}
		switch op {
		case token.GTR: // len > c
			return cv >= k, false
		case token.GEQ: // len >= c
			return cv >= k+1, false
		case token.NEQ: // len != 0
			return cv == 0 && k == 0, false
		case token.EQL: // len == c: true edge len = c ; false edge of len == 0: len >= 1
			return cv >= k+1, cv == 0 && k == 0
		case token.LSS: // len < c, false edge: len >= c
			return false, cv >= k+1
		case token.LEQ: // len <= c, false edge: len >= c+1
			return false, cv >= k
		}
		return false, false
	}
	return core.Dominated(at, fact)
}

// drainedRecognisesDecrypt: the connection drops a decrypted message once it has been read completely, and knows that by asking the
// reader Decrypt returned for its remaining length. The test is a type assertion: whatever concrete reader Decrypt hands out must
// pass it, or a message that ends exactly at the caller's buffer is never dropped and the next read reports end-of-stream while the
// peer's next frame is waiting.
func drainedRecognisesDecrypt(c *core.Ctx) {
	p := c.P
	dec := p.Func("crypto", "(*secureSession).Decrypt")
	if dec == nil {
		c.Undecided("drained-recognises-decrypt", token.NoPos, "(*secureSession).Decrypt not found")
		return
	}
	var concrete []types.Type
	core.Instrs(dec, func(i ssa.Instruction) {
		ret, ok := i.(*ssa.Return)
		if !ok || len(ret.Results) != 2 {
			return
		}
		var walk func(v ssa.Value, depth int)
		walk = func(v ssa.Value, depth int) {
			switch x := v.(type) {
			case *ssa.MakeInterface:
				concrete = append(concrete, x.X.Type())
			case *ssa.ChangeInterface:
				walk(x.X, depth)
			case *ssa.Phi:
				if depth < 4 {
					for _, e := range x.Edges {
						walk(e, depth+1)
					}
				}
			}
		}
		walk(ret.Results[0], 0)
	})
	if len(concrete) == 0 {
		c.Undecided("drained-recognises-decrypt", dec.Pos(), "no concrete reader type found among Decrypt's results")
		return
	}
	n, bad := 0, 0
	for _, f := range libFuncs(p) {
		if f.Pkg == nil || f.Pkg.Pkg.Path() != mod+"/hap" {
			continue
		}
		core.Instrs(f, func(i ssa.Instruction) {
			ta, ok := i.(*ssa.TypeAssert)
			if !ok || !ta.CommaOk {
				return
			}
			// an assertion on an io.Reader whose result decides "drained"
			named, isNamed := ta.X.Type().(*types.Named)
			if !isNamed || named.Obj().Pkg() == nil || named.Obj().Pkg().Path() != "io" || named.Obj().Name() != "Reader" {
				return
			}
			n++
			for _, ct := range concrete {
				ok := false
				if it, isI := ta.AssertedType.Underlying().(*types.Interface); isI {
					ok = types.Implements(ct, it)
				} else {
					ok = types.Identical(ct, ta.AssertedType)
				}
				if !ok {
					bad++
					c.Bad("drained-recognises-decrypt@"+fname(f), ta.Pos(), "the reader Decrypt returns (%s) does not pass this type assertion (%s): a decrypted message that has been read to its end is never recognised as drained and is kept — the next Read returns (0, io.EOF) although the peer's next frame has arrived", ct.String(), ta.AssertedType.String())
				}
			}
		})
	}
	c.Count("reader_type_assertions", n)
	if bad == 0 {
		c.OK("drained-recognises-decrypt", token.NoPos, "%d concrete reader type(s) returned by Decrypt, %d type assertion(s) on an io.Reader in package hap: each passes", len(concrete), n)
	}
}

// configKeysUnconditional: the stored configuration is three independent keys (uuid, version, configHash). Each is read, and
// written, on every path of load and save: a read that hangs on another key being present, or a write skipped for a "default"
// value, makes the pair (version, hash) that the next start compares incomplete — the structure changes and c# does not.
func configKeysUnconditional(c *core.Ctx) {
	p := c.P
	for _, name := range []string{"(*Config).load", "(*Config).save"} {
		f := p.Func("", name)
		if f == nil {
			c.Undecided("config-keys-unconditional@"+name, token.NoPos, "function not found")
			continue
		}
		n, bad := 0, 0
		core.Instrs(f, func(i ssa.Instruction) {
			cc, ok := i.(ssa.CallInstruction)
			if !ok {
				return
			}
			com := cc.Common()
			if !com.IsInvoke() || (com.Method.Name() != "Get" && com.Method.Name() != "Set") || len(com.Args) == 0 {
				return
			}
			k, isK := com.Args[0].(*ssa.Const)
			if !isK || k.Value == nil {
				return
			}
			n++
			// can a return be reached from the entry without passing this call's block?
			blk := i.Block()
			seen := map[*ssa.BasicBlock]bool{blk: true}
			var dfs func(b *ssa.BasicBlock) bool
			dfs = func(b *ssa.BasicBlock) bool {
				if seen[b] {
					return false
				}
				seen[b] = true
				if len(b.Succs) == 0 {
					if _, isRet := b.Instrs[len(b.Instrs)-1].(*ssa.Return); isRet {
						return true
					}
					return false
				}
				for _, s := range b.Succs {
					if dfs(s) {
						return true
					}
				}
				return false
			}
			if f.Blocks[0] != blk && dfs(f.Blocks[0]) {
				bad++
				c.Bad("config-keys-unconditional@"+fname(f)+":"+k.Value.ExactString(), i.Pos(), "the stored key %s is not read/written on every path of %s: the (version, configuration hash) pair the next start compares is incomplete after some histories, and a structural change no longer increments c#", k.Value.ExactString(), name)
			}
		})
		if n == 0 {
			c.Undecided("config-keys-unconditional@"+fname(f), f.Pos(), "no storage access with a constant key found")
		} else if bad == 0 {
			c.OK("config-keys-unconditional@"+fname(f), f.Pos(), "%d storage accesses with constant keys, each on every path", n)
		}
	}
}

// serviceCharacteristicsWriters: the list of a service's characteristics is written by the service package alone (AddCharacteristic
// appends). A function elsewhere that assigns Service.Characteristics can drop a characteristic the service definition requires
// (C15: every service carries its required characteristics, whatever the accessory constructor was given).
func serviceCharacteristicsWriters(c *core.Ctx) {
	p := c.P
	n := 0
	var bad ssa.Instruction
	var where *ssa.Function
	for _, f := range libFuncs(p) {
		core.Instrs(f, func(i ssa.Instruction) {
			st, ok := i.(*ssa.Store)
			if !ok {
				return
			}
			if _, ok := core.FieldAddrOf(st.Addr, tService, "Characteristics"); !ok {
				return
			}
			n++
			if f.Pkg == nil || f.Pkg.Pkg.Path() != mod+"/service" {
				bad, where = i, f
			}
		})
	}
	switch {
	case n == 0:
		c.Undecided("service-characteristics-writers", token.NoPos, "no store to Service.Characteristics found")
	case bad != nil:
		c.Bad("service-characteristics-writers", posOf(bad), "%s assigns Service.Characteristics: outside package service the list is only read — a rewritten list can lose a characteristic the service definition requires", fname(where))
	default:
		c.OK("service-characteristics-writers", token.NoPos, "%d store(s) to Service.Characteristics, all in package service", n)
	}
}

// framesLeaveOnlyThroughOpen: in a function of package crypto that reads frames from a reader and opens them, the success edge of a
// read is followed by another read or by the authenticated open before the function can return without an error. A frame header that
// has been consumed and then leads straight to a normal return (an "empty frame ends the message") is input accepted without a tag
// check: the adversary can insert it, and the frames after it are still released.
func framesLeaveOnlyThroughOpen(c *core.Ctx) {
	p := c.P
	n, edges, bad := 0, 0, 0
	for _, f := range libFuncs(p) {
		if f.Pkg == nil || f.Pkg.Pkg.Path() != mod+"/crypto" || len(f.Params) == 0 {
			continue
		}
		var rd ssa.Value
		for _, pr := range f.Params {
			if nt, ok := pr.Type().(*types.Named); ok && nt.Obj().Pkg() != nil && nt.Obj().Pkg().Path() == "io" && nt.Obj().Name() == "Reader" {
				rd = pr
			}
		}
		if rd == nil {
			continue
		}
		isOpen := func(i ssa.Instruction) bool {
			g := core.Callee(i)
			return g != nil && cn(g) == "DecryptAndVerify"
		}
		isRead := func(i ssa.Instruction) bool {
			cc, ok := i.(*ssa.Call)
			if !ok {
				return false
			}
			for _, a := range cc.Call.Args {
				if a == rd {
					return true
				}
				if ci, ok := a.(*ssa.ChangeInterface); ok && ci.X == rd {
					return true
				}
			}
			return cc.Call.IsInvoke() && cc.Call.Value == rd
		}
		hasOpen := false
		core.Instrs(f, func(i ssa.Instruction) {
			if isOpen(i) {
				hasOpen = true
			}
		})
		if !hasOpen {
			continue
		}
		n++
		for _, b := range f.Blocks {
			iff, ok := b.Instrs[len(b.Instrs)-1].(*ssa.If)
			if !ok {
				continue
			}
			bo, ok := iff.Cond.(*ssa.BinOp)
			if !ok || (bo.Op != token.NEQ && bo.Op != token.EQL) {
				continue
			}
			var ev ssa.Value
			if core.IsNilConst(bo.Y) {
				ev = bo.X
			} else if core.IsNilConst(bo.X) {
				ev = bo.Y
			} else {
				continue
			}
			var call ssa.Instruction
			switch x := ev.(type) {
			case *ssa.Call:
				call = x
			case *ssa.Extract:
				if cl, ok := x.Tuple.(*ssa.Call); ok {
					call = cl
				}
			}
			if call == nil || !isRead(call) {
				continue
			}
			edges++
			okSucc := b.Succs[1]
			if bo.Op == token.EQL {
				okSucc = b.Succs[0]
			}
			// forward from the success edge: stop at a block that reads again or opens; a return without error reached first is the violation
			type edge struct{ from, to *ssa.BasicBlock }
			seen := map[edge]bool{}
			var hit *ssa.Return
			var dfs func(from, bb *ssa.BasicBlock)
			dfs = func(from, bb *ssa.BasicBlock) {
				if seen[edge{from, bb}] || hit != nil {
					return
				}
				seen[edge{from, bb}] = true
				for _, i := range bb.Instrs {
					if isOpen(i) || isRead(i) {
						return
					}
					if ret, ok := i.(*ssa.Return); ok {
						if len(ret.Results) == 2 && core.IsNilConst(ret.Results[1]) {
							hit = ret
						}
						return
					}
				}
				// a test of a merged error variable: on the edge that supplies nil only the nil branch is feasible
				if iff, ok := bb.Instrs[len(bb.Instrs)-1].(*ssa.If); ok && from != nil {
					if bo, ok := iff.Cond.(*ssa.BinOp); ok && (bo.Op == token.NEQ || bo.Op == token.EQL) {
						var pv ssa.Value
						if core.IsNilConst(bo.Y) {
							pv = bo.X
						} else if core.IsNilConst(bo.X) {
							pv = bo.Y
						}
						if phi, ok := pv.(*ssa.Phi); ok && phi.Block() == bb {
							for k, pr := range bb.Preds {
								if pr == from && core.IsNilConst(phi.Edges[k]) {
									if bo.Op == token.NEQ {
										dfs(bb, bb.Succs[1])
									} else {
										dfs(bb, bb.Succs[0])
									}
									return
								}
							}
						}
					}
				}
				for _, s := range bb.Succs {
					dfs(bb, s)
				}
			}
			dfs(b, okSucc)
			if hit != nil {
				bad++
				c.Bad(seqKey(c, "frames-leave-only-through-open@"+fname(f)), call.Pos(), "after this read has succeeded the function can return without an error (%s) without reading on and without the authenticated open: bytes of the stream are consumed and accepted unauthenticated — an inserted frame of that shape is not detected and later frames are still released", p.Fset.Position(hit.Pos()))
			}
		}
	}
	switch {
	case n == 0 || edges == 0:
		c.Undecided("frames-leave-only-through-open", token.NoPos, "no frame-reading function with a tested read found in package crypto (functions: %d, tested reads: %d)", n, edges)
	case bad == 0:
		c.OK("frames-leave-only-through-open", token.NoPos, "%d function(s), %d tested reads: each success edge reaches another read or the open before any error-free return", n, edges)
	}
}

func isStructType(t types.Type) bool {
	_, ok := t.Underlying().(*types.Struct)
	return ok
}

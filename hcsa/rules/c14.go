package rules

import (
	"fmt"
	"go/token"
	"go/types"
	"reflect"
	"strings"

	"golang.org/x/tools/go/ssa"

	"hcsa/core"
)

const (
	tAccessory = mod + "/accessory.Accessory"
	tContainer = mod + "/accessory.Container"
	tService   = mod + "/service.Service"
)

func init() {
	register(&core.Property{
		ID:    "C14",
		Level: "other",
		Explanation: "Id assignment discipline. The id fields have a closed set of writers (accessory.New / Container.AddAccessory for Accessory.ID, Accessory.UpdateIDs for Service.ID and Characteristic.ID). " +
			"On every loop path of UpdateIDs every service and every characteristic visited receives, unconditionally, the current counter value, and between two id stores the counter is incremented exactly once by 1 " +
			"(ids of one call are pairwise distinct and increasing, independent of what the objects held before). Counters start at a constant >= 1. In AddAccessory the automatic id is taken from the container " +
			"counter iff ID == 0, and the duplicate test reads the id after that assignment and dominates the insertion into both the map and the slice. No map iteration, randomness, time or OS call is reachable from id " +
			"assignment. The JSON member names of the attribute database types are HAP's.",
		Assumptions: []string{"applications do not share one service object between accessories after numbering"},
		NotDecided:  []string{"services added after the accessory was added to a container"},
		NeedsCG:     true,
		Rules: []core.Rule{
			{ID: "C14-R1", Title: "who may write the id fields", Decides: "ids are assigned only by the numbering code", Floor: 4, Run: c14r1},
			{ID: "C14-R2", Title: "assign-then-increment on every loop path, unconditionally", Decides: "instance ids are unique, non-zero and depend only on construction order", Floor: 3, Run: c14r2},
			{ID: "C14-R3", Title: "non-zero counter start; duplicate test after assignment dominates insertion", Decides: "accessory ids are unique and non-zero", Floor: 5, Run: func(c *core.Ctx) { c14r3(c); characteristicsAddedOnce(c); polarityEverywhere(c, "C14") }},
			{ID: "C14-R4", Title: "determinism of id assignment", Decides: "rebuilding the same accessories yields the same ids", Floor: 1, Run: c14r4},
			{ID: "C14-R5", Title: "attribute database member names", Decides: "well-formed HAP JSON", Floor: 4, Run: c14r5},
			{ID: "C14-R6", Title: "index and list change together; linked ids are computed at encoding time", Decides: "accessory ids stay unique; linked ids refer to existing services", Floor: 2, Run: func(c *core.Ctx) { c14r6(c); returnsUndecorated(c, "C14") }},
		},
	})
}

func c14r1(c *core.Ctx) {
	accessoryComposition(c)
	p := c.P
	allowed := map[string]map[string]bool{
		tAccessory + ".ID": {"accessory.New": true, "(*accessory.Container).AddAccessory": true},
		tService + ".ID":   {"(*accessory.Accessory).UpdateIDs": true},
		tChar + ".ID":      {"(*accessory.Accessory).UpdateIDs": true},
	}
	for _, spec := range []struct{ typ, fld string }{{tAccessory, "ID"}, {tService, "ID"}, {tChar, "ID"}} {
		n := 0
		for _, st := range p.FieldStores(spec.typ, spec.fld) {
			f := st.Parent()
			if isTestFunc(p, f) || !core.IsLibraryPkg(pkgPathOf(f)) {
				continue
			}
			n++
			name := fname(f)
			c.Check(allowed[spec.typ+"."+spec.fld][name], "write:"+core.Rel(spec.typ)+".ID@"+name, st.Pos(), "written by the numbering code",
				core.Rel(spec.typ)+".ID is written in "+name+", outside the numbering code: ids can collide or change between runs")
		}
		if n == 0 {
			c.Undecided("write:"+core.Rel(spec.typ)+".ID", token.NoPos, "no writer found")
		}
	}
}

// takeCounter recognises "x.ID = counter; counter++" effects along a path.
type idEvent struct {
	kind string // "store:<Type>", "inc"
	ok   bool
}

func c14r2(c *core.Ctx) {
	p := c.P
	f := p.Func("accessory", "(*Accessory).UpdateIDs")
	if f == nil {
		c.Undecided("UpdateIDs", token.NoPos, "not found")
		return
	}
	isCounterLoad := func(v ssa.Value) bool {
		b, ok := core.FieldLoad(v, tAccessory, "idCount")
		return ok && b == ssa.Value(f.Params[0])
	}
	// helper summary: a method of Accessory that returns the counter and post-increments it
	postInc := func(g *ssa.Function) bool {
		if g == nil || g.Blocks == nil || len(g.Blocks) != 1 || !core.TypeIs(recvType(g), tAccessory) {
			return false
		}
		var loaded ssa.Value
		inc, ret := false, false
		for _, i := range g.Blocks[0].Instrs {
			switch x := i.(type) {
			case *ssa.Store:
				if _, ok := core.FieldAddrOf(x.Addr, tAccessory, "idCount"); ok {
					if b, ok := x.Val.(*ssa.BinOp); ok && b.Op == token.ADD {
						if n, ok := core.ConstInt(b.Y); ok && n == 1 {
							if _, ok := core.FieldLoad(b.X, tAccessory, "idCount"); ok {
								inc = true
								if loaded == nil {
									loaded = b.X
								}
							}
						}
					}
				}
			case *ssa.Return:
				if len(res(x)) == 1 {
					if _, ok := core.FieldLoad(res(x)[0], tAccessory, "idCount"); ok && !inc {
						ret = false // returned value loaded before? need load before inc: handled below
					}
					if u, ok := res(x)[0].(*ssa.UnOp); ok {
						if _, ok := core.FieldLoad(u, tAccessory, "idCount"); ok {
							// the load instruction must precede the increment store in the block
							for _, j := range g.Blocks[0].Instrs {
								if j == ssa.Instruction(u) {
									ret = true
									break
								}
								if st, ok := j.(*ssa.Store); ok {
									if _, ok := core.FieldAddrOf(st.Addr, tAccessory, "idCount"); ok {
										break
									}
								}
							}
						}
					}
				}
			}
		}
		return inc && ret
	}
	var headers []*ssa.BasicBlock
	for _, b := range f.Blocks {
		if strings.HasSuffix(b.Comment, ".loop") {
			headers = append(headers, b)
		}
	}
	if len(headers) < 2 {
		c.Undecided("loops@"+fname(f), f.Pos(), "expected the service loop and the characteristic loop")
		return
	}
	badPair, total := 0, 0
	var witness core.Path
	okEnum := core.EnumPaths(f, 3, 200000, func(pa core.Path) {
		total++
		// Counter values are tracked by generation: every +1 store starts a new generation; an id must be a load of a generation
		// that no other id has taken, and the generation an id took must be left behind by a +1 before the path ends. This accepts
		// both  x.ID = count; count++  and  id := count; count++; x.ID = id  (a post-increment helper, inlined or not).
		gen := 0
		genOf := map[ssa.Value]int{}
		taken := map[int]bool{}
		good := true
		for k, blk := range pa {
			for _, i := range blk.Instrs {
				if u, ok := i.(*ssa.UnOp); ok && isCounterLoad(u) {
					genOf[u] = gen
				}
				x, ok := i.(*ssa.Store)
				if !ok {
					continue
				}
				if fa, ok := x.Addr.(*ssa.FieldAddr); ok && fieldNameOf(fa) == "ID" && (core.TypeIs(fa.X.Type(), tService) || core.TypeIs(fa.X.Type(), tChar)) {
					v := core.StripConv(pa.ResolveAt(k, x.Val))
					if g, isLoad := genOf[v]; isLoad {
						if taken[g] {
							good = false // two ids from one counter value
						}
						taken[g] = true
					} else if call, ok := v.(*ssa.Call); ok && postInc(core.Callee(call)) {
						// helper takes and leaves a generation by itself
					} else {
						good = false
					}
				}
				if _, ok := core.FieldAddrOf(x.Addr, tAccessory, "idCount"); ok {
					b, isB := x.Val.(*ssa.BinOp)
					one := false
					if isB && b.Op == token.ADD {
						if n, ok := core.ConstInt(b.Y); ok && n == 1 {
							if g, isLoad := genOf[core.StripConv(b.X)]; isLoad && g == gen {
								one = true
							}
						}
					}
					// (re)start of the numbering: a non-zero constant stored before any id was handed out on this path
					if k, isK := core.ConstInt(x.Val); isK && k >= 1 && len(taken) == 0 {
						one = true
					}
					if !one {
						good = false
					}
					gen++
				}
			}
		}
		if taken[gen] {
			good = false // the last id's value is still the counter: the next object would get it again
		}
		if !good {
			badPair++
			if witness == nil {
				witness = pa
			}
		}
	})
	c.Count("paths_enumerated", total)
	if !okEnum {
		c.Undecided("assign-increment-pairing@"+fname(f), f.Pos(), "too many paths")
	} else if badPair > 0 {
		c.BadPath("assign-increment-pairing@"+fname(f), f.Pos(), witness.Describe(p), "%d path(s) on which an id is not the current counter value or the counter is not incremented exactly once (by 1) after each id: two objects can receive the same id", badPair)
	} else {
		c.OK("assign-increment-pairing@"+fname(f), f.Pos(), "on all %d paths (loops unrolled 3x) each id store takes the counter and is followed by exactly one +1", total)
	}
	// unconditional: every iteration of each loop stores an id of the element it visits
	for k, h := range headers {
		typ := tService
		if k == 1 {
			typ = tChar
		}
		miss, iters := 0, 0
		core.EnumPaths(f, 2, 200000, func(pa core.Path) {
			segs := segments(pa, h)
			for si, sg := range segs {
				if si == len(segs)-1 || len(sg) < 2 || sg[1] != h.Succs[0] {
					continue
				}
				iters++
				has := false
				sg.Instrs(func(i ssa.Instruction) {
					if st, ok := i.(*ssa.Store); ok {
						if fa, ok := st.Addr.(*ssa.FieldAddr); ok && fieldNameOf(fa) == "ID" && core.TypeIs(fa.X.Type(), typ) {
							has = true
						}
					}
				})
				// for the outer loop the inner loop's iterations are part of the segment; the service store happens first
				if !has {
					miss++
				}
			}
		})
		c.Check(miss == 0 && iters > 0, fmt.Sprintf("unconditional-numbering:%s@%s", core.Rel(typ), fname(f)), h.Instrs[0].Pos(), fmt.Sprintf("every one of %d iteration paths stores an id into the %s it visits", iters, core.Rel(typ)),
			fmt.Sprintf("%d iteration path(s) skip the id store for a %s (e.g. when it already carries an id): ids then depend on the object's history and can collide with freshly numbered ones", miss, core.Rel(typ)))
	}
}

func c14r3(c *core.Ctx) {
	p := c.P
	// counters start at a constant >= 1
	for _, spec := range []struct{ typ, name string }{{tAccessory, "Accessory"}, {tContainer, "Container"}} {
		n := 0
		for _, st := range p.FieldStores(spec.typ, "idCount") {
			f := st.Parent()
			if isTestFunc(p, f) || !core.IsLibraryPkg(pkgPathOf(f)) {
				continue
			}
			if _, isInc := st.Val.(*ssa.BinOp); isInc {
				continue
			}
			n++
			v, isK := core.ConstInt(st.Val)
			c.Check(isK && v >= 1, "counter-start:"+spec.name+"@"+fname(f), st.Pos(), fmt.Sprintf("counter initialised with the constant %d", v), spec.name+".idCount is not initialised with a constant >= 1: the id 0 (invalid in HAP) can be assigned")
		}
		if n == 0 {
			c.Bad("counter-start:"+spec.name, token.NoPos, "no initialisation of "+spec.name+".idCount found: the counter starts at 0")
		}
	}
	f := p.Func("accessory", "(*Container).AddAccessory")
	if f == nil {
		c.Undecided("AddAccessory", token.NoPos, "not found")
		return
	}
	acc := paramOfType(f, tAccessory)
	isAccID := func(v ssa.Value) bool { b, ok := core.FieldLoad(v, tAccessory, "ID"); return ok && b == ssa.Value(acc) }
	// automatic id under ID == 0, from the container counter, followed by +1
	var autoStore *ssa.Store
	core.Instrs(f, func(i ssa.Instruction) {
		if st, ok := i.(*ssa.Store); ok {
			if b, ok := core.FieldAddrOf(st.Addr, tAccessory, "ID"); ok && b == ssa.Value(acc) {
				autoStore = st
			}
		}
	})
	if autoStore == nil {
		c.Bad("auto-id@"+fname(f), f.Pos(), "AddAccessory never assigns an automatic id")
	} else {
		zero := core.CmpFact(func(x, y ssa.Value) (bool, bool) {
			if n, ok := core.ConstInt(y); ok && n == 0 && isAccID(x) {
				return true, false
			}
			if n, ok := core.ConstInt(x); ok && n == 0 && isAccID(y) {
				return true, false
			}
			return false, false
		})
		// the value assigned: the counter, taken under ID == 0 — or the accessory's own (explicit) id again
		fromCounter, underZero := false, true
		for _, src := range core.Sources(autoStore.Val) {
			if isAccID(src) {
				continue
			}
			l, isInstr := src.(ssa.Instruction)
			if _, isCnt := core.FieldLoad(src, tContainer, "idCount"); !isCnt || !isInstr {
				underZero = false
				continue
			}
			fromCounter = true
			if !core.Dominated(l, zero) && !core.Dominated(autoStore, zero) {
				underZero = false
			}
		}
		c.Check(underZero && fromCounter, "auto-id@"+fname(f), autoStore.Pos(), "the automatic id is the container counter, assigned only when ID == 0", "the automatic id is not 'container counter under ID == 0'")
		// every successful path that takes the counter value moves the counter before it returns ( a.ID = count; count++ , or
		// id := count; …; if a.ID == 0 { count++ }; a.ID = id — a second test of the unchanged a.ID has the outcome of the first )
		inc := true
		var taken []ssa.Instruction
		for _, src := range core.Sources(autoStore.Val) {
			if _, isCnt := core.FieldLoad(src, tContainer, "idCount"); isCnt {
				if l, ok := src.(ssa.Instruction); ok {
					taken = append(taken, l)
				}
			}
		}
		if len(taken) == 0 {
			inc = false
		}
		isInc := func(i ssa.Instruction) bool {
			st, ok := i.(*ssa.Store)
			if !ok {
				return false
			}
			if _, isCnt := core.FieldAddrOf(st.Addr, tContainer, "idCount"); !isCnt {
				return false
			}
			bo, ok := st.Val.(*ssa.BinOp)
			if !ok || bo.Op != token.ADD {
				return false
			}
			n, isK := core.ConstInt(bo.Y)
			return isK && n == 1
		}
		core.EnumPaths(f, 2, 20000, func(pa core.Path) {
			ret := pa.Returns()
			if ret == nil {
				return
			}
			if rs := res(ret); len(rs) == 1 && !core.IsNilConst(pa.ResolveAt(len(pa)-1, rs[0])) {
				return // rejected: the id was not used
			}
			seenTake, seenInc, infeasible := false, false, false
			for k, b := range pa {
				for _, i := range b.Instrs {
					for _, l := range taken {
						if i == l {
							seenTake = true
						}
					}
					if seenTake && isInc(i) {
						seenInc = true
					}
				}
				// a later test of a.ID that says "not zero" although the value was taken under a.ID == 0 and a.ID was not assigned since
				if seenTake && k+1 < len(pa) {
					if iff, ok := b.Instrs[len(b.Instrs)-1].(*ssa.If); ok {
						t, fl := zero(iff.Cond)
						if (t && pa[k+1] == b.Succs[1]) || (fl && pa[k+1] == b.Succs[0]) {
							assigned := false
							for m := 0; m <= k; m++ {
								for _, i := range pa[m].Instrs {
									if i == ssa.Instruction(autoStore) {
										assigned = true
									}
								}
							}
							if !assigned {
								infeasible = true
							}
						}
					}
				}
			}
			if seenTake && !seenInc && !infeasible {
				inc = false
			}
		})
		c.Check(inc, "auto-id-increment@"+fname(f), autoStore.Pos(), "the container counter is incremented after use", "the container counter is not incremented after an automatic id was taken")
	}
	// duplicate test
	var lookup *ssa.Lookup
	core.Instrs(f, func(i ssa.Instruction) {
		if l, ok := i.(*ssa.Lookup); ok {
			if _, ok := core.FieldLoad(l.X, tContainer, "as"); ok && isAccID(l.Index) {
				lookup = l
			}
		}
	})
	if lookup == nil {
		c.Bad("duplicate-test@"+fname(f), f.Pos(), "no lookup of the accessory's id in the container's id map")
		return
	}
	if autoStore != nil && autoIDProbedFree(f, autoStore) {
		c.OK("duplicate-test-after-assignment@"+fname(f), lookup.Pos(), "an automatic id is a counter value that was found free in the id index: the duplicate test concerns explicit ids only")
	} else if autoStore != nil {
		c.Check(!reachesAfter(lookup, autoStore), "duplicate-test-after-assignment@"+fname(f), lookup.Pos(), "the duplicate test reads the id after the automatic assignment",
			"the duplicate test runs before the automatic id is assigned: an automatic id is never checked against explicit ids already in the container")
	}
	free := core.IsNilFact(func(v ssa.Value) bool { return v == ssa.Value(lookup) })
	if autoStore != nil && autoIDProbedFree(f, autoStore) {
		// … or the id is the automatic one, which was probed free: the edge on which the accessory had no id
		free = core.AnyFact(free, core.CmpFact(func(x, y ssa.Value) (bool, bool) {
			if n, ok := core.ConstInt(y); ok && n == 0 && isAccID(x) {
				return true, false
			}
			if n, ok := core.ConstInt(x); ok && n == 0 && isAccID(y) {
				return true, false
			}
			return false, false
		}))
	}
	n := 0
	core.Instrs(f, func(i ssa.Instruction) {
		switch x := i.(type) {
		case *ssa.MapUpdate:
			if _, ok := core.FieldLoad(x.Map, tContainer, "as"); ok {
				n++
				c.Check(core.Dominated(x, free), "insert-map@"+fname(f), x.Pos(), "insertion into the id map is dominated by 'id not present'", "the id map is updated although the id is already present")
			}
		case *ssa.Store:
			if _, ok := core.FieldAddrOf(x.Addr, tContainer, "Accessories"); ok {
				n++
				c.Check(core.Dominated(x, free), "insert-slice@"+fname(f), x.Pos(), "insertion into the accessory list is dominated by 'id not present'", "an accessory with a duplicate id is appended to the served list")
			}
		}
	})
	if n < 2 {
		c.Bad("insertions@"+fname(f), f.Pos(), "AddAccessory does not insert into both the id map and the list")
	}
	// UpdateIDs runs before/at insertion
	called := false
	core.Instrs(f, func(i ssa.Instruction) {
		if g := core.Callee(i); g != nil && cn(g) == "UpdateIDs" {
			called = true
		}
	})
	c.Check(called, "numbering-on-add@"+fname(f), f.Pos(), "AddAccessory numbers the accessory's services and characteristics", "AddAccessory does not call UpdateIDs: instance ids stay 0")
}

func c14r4(c *core.Ctx) {
	p := c.P
	var roots []*ssa.Function
	for _, spec := range [][2]string{{"accessory", "(*Accessory).UpdateIDs"}, {"accessory", "(*Container).AddAccessory"}, {"accessory", "(*Accessory).AddService"},
		{"service", "(*Service).AddCharacteristic"}, {"accessory", "New"}, {"service", "New"}, {"characteristic", "NewCharacteristic"}} {
		if f := p.Func(spec[0], spec[1]); f != nil {
			roots = append(roots, f)
		}
	}
	for _, rel := range []string{"accessory", "service"} {
		if sp := p.SSAPkg(rel); sp != nil {
			for name, m := range sp.Members {
				if f, ok := m.(*ssa.Function); ok && strings.HasPrefix(name, "New") && f.Blocks != nil && !isTestFunc(p, f) {
					roots = append(roots, f)
				}
			}
		}
	}
	// static calls only: callbacks registered by applications (dynamic calls of func values) run after an id has been
	// assigned and do not influence it; following them through VTA would drag in the whole transport.
	reach := map[*ssa.Function]bool{}
	var walk func(f *ssa.Function)
	walk = func(f *ssa.Function) {
		if f == nil || reach[f] || !core.InModule(f) || f.Blocks == nil {
			return
		}
		reach[f] = true
		core.Instrs(f, func(i ssa.Instruction) { walk(core.Callee(i)) })
		for _, a := range f.AnonFuncs {
			walk(a)
		}
	}
	for _, r := range roots {
		walk(r)
	}
	bad := 0
	for _, f := range core.SortedFuncs(reach) {
		if isTestFunc(p, f) || pkgPathOf(f) == mod+"/log" {
			continue
		}
		core.Instrs(f, func(i ssa.Instruction) {
			if r, ok := i.(*ssa.Range); ok {
				if _, isMap := r.X.Type().Underlying().(*types.Map); isMap {
					bad++
					c.Bad("map-range@"+fname(f), r.Pos(), "a map is iterated in code reachable from id assignment: the order of ids can differ between runs")
				}
			}
			if g := core.Callee(i); g != nil && g.Pkg != nil {
				switch g.Pkg.Pkg.Path() {
				case "math/rand", "crypto/rand", "time", "os":
					bad++
					c.Bad("nondeterminism:"+g.Pkg.Pkg.Path()+"@"+fname(f), posOf(i), "a call into %s is reachable from id assignment", g.Pkg.Pkg.Path())
				}
			}
		})
	}
	c.Count("functions_reachable_from_id_assignment", len(reach))
	if bad == 0 {
		c.OK("deterministic", token.NoPos, "%d module functions reachable from constructors and id assignment: no map iteration, randomness, time or OS call", len(reach))
	}
}

func c14r5(c *core.Ctx) {
	p := c.P
	tags := func(rel, typ string) map[string]string {
		pk := p.Pkg(rel)
		if pk == nil {
			return nil
		}
		tn, ok := pk.Types.Scope().Lookup(typ).(*types.TypeName)
		if !ok {
			return nil
		}
		st, ok := tn.Type().Underlying().(*types.Struct)
		if !ok {
			return nil
		}
		out := map[string]string{}
		for i := 0; i < st.NumFields(); i++ {
			out[st.Field(i).Name()] = reflect.StructTag(st.Tag(i)).Get("json")
		}
		return out
	}
	want := []struct {
		rel, typ string
		w        map[string]string
	}{
		{"accessory", "Container", map[string]string{"Accessories": "accessories"}},
		{"accessory", "Accessory", map[string]string{"ID": "aid", "Services": "services", "Type": "-", "Info": "-"}},
		{"service", "servicePayload", map[string]string{"ID": "iid", "Type": "type", "Characteristics": "characteristics", "Hidden": "hidden,omitempty", "Primary": "primary,omitempty", "Linked": "linked,omitempty"}},
		{"characteristic", "Characteristic", map[string]string{"ID": "iid", "Type": "type", "Perms": "perms", "Format": "format", "Value": "value,omitempty", "Unit": "unit,omitempty",
			"MaxLen": "maxLen,omitempty", "MaxValue": "maxValue,omitempty", "MinValue": "minValue,omitempty", "StepValue": "minStep,omitempty", "Description": "description,omitempty", "Events": "-"}},
	}
	for _, w := range want {
		got := tags(w.rel, w.typ)
		ok := got != nil
		diff := []string{}
		for k, v := range w.w {
			if got[k] != v {
				ok = false
				diff = append(diff, fmt.Sprintf("%s:%q(want %q)", k, got[k], v))
			}
		}
		c.Check(ok, "json-tags:"+w.rel+"."+w.typ, token.NoPos, "member names as HAP defines them", "JSON member names of "+w.typ+" differ from HAP: "+strings.Join(diff, ", "))
	}
	// MarshalJSON of Service copies ID, Type, Characteristics and the linked ids
	f := p.Func("service", "(*Service).MarshalJSON")
	if f == nil {
		c.Undecided("Service.MarshalJSON", token.NoPos, "not found")
		return
	}
	copied := map[string]bool{}
	core.Instrs(f, func(i ssa.Instruction) {
		st, ok := i.(*ssa.Store)
		if !ok {
			return
		}
		fa, ok := st.Addr.(*ssa.FieldAddr)
		if !ok || !core.TypeIs(fa.X.Type(), mod+"/service.servicePayload") {
			return
		}
		name := fieldNameOf(fa)
		switch name {
		case "ID", "Type", "Characteristics":
			if b, ok := core.FieldLoad(st.Val, tService, name); ok && b == ssa.Value(f.Params[0]) {
				copied[name] = true
			}
		case "Linked":
			copied[name] = true
		}
	})
	c.Check(copied["ID"] && copied["Type"] && copied["Characteristics"] && copied["Linked"], "service-payload-copy@"+fname(f), f.Pos(), "iid, type, characteristics and linked are taken from the receiver",
		"Service.MarshalJSON does not copy iid/type/characteristics/linked from the service")
}

// autoIDFree (C09-R6): see the comment inside. The rule is reported under C09 — the ids inside the container stay unique (C14 holds);
// what fails is that an accessory the application added is not served.
func autoIDFree(c *core.Ctx) {
	p := c.P
	f := p.Func("accessory", "(*Container).AddAccessory")
	if f == nil {
		c.Undecided("AddAccessory", token.NoPos, "not found")
		return
	}
	acc := paramOfType(f, tAccessory)
	var autoStore *ssa.Store
	core.Instrs(f, func(i ssa.Instruction) {
		if st, ok := i.(*ssa.Store); ok {
			if b, ok := core.FieldAddrOf(st.Addr, tAccessory, "ID"); ok && b == ssa.Value(acc) {
				autoStore = st
			}
		}
	})
	if autoStore == nil {
		c.Undecided("auto-id-free@"+fname(f), f.Pos(), "AddAccessory assigns no automatic id")
		return
	}
	{
		// the counter value that is handed out is not an id already in the container: explicit ids may lie ahead of the counter
		// ( bridge, an accessory with Info.ID 3, two accessories without an id: the second automatic id is 3 again ), and the
		// duplicate test then rejects an accessory whose id the library chose itself — NewIPTransport drops it without a word,
		// and a controller that asks for 3.x is served the other accessory's values
		okFree := autoIDProbedFree(f, autoStore)
		c.Check(okFree, "auto-id-free@"+fname(f), autoStore.Pos(), "the automatic id is a counter value that was looked up in the id index and found free",
			"the automatic id is the counter value whether or not an accessory with that (explicit) id is already in the container: with explicit ids ahead of the counter the library assigns a duplicate, the duplicate test rejects the accessory, NewIPTransport ignores the error — the accessory is missing from the database and its ids answer with another accessory's values")
	}
}

// autoIDProbedFree: every counter value that the automatic assignment stores was looked up in the id index and found absent, and the
// counter did not move between that probe and the point where its value was taken.
func autoIDProbedFree(f *ssa.Function, autoStore *ssa.Store) bool {
	isCounter := func(v ssa.Value) bool { _, ok := core.FieldLoad(v, tContainer, "idCount"); return ok }
	var taken []ssa.Instruction
	for _, src := range core.Sources(autoStore.Val) {
		if l, ok := src.(ssa.Instruction); ok && isCounter(src) {
			taken = append(taken, l)
		}
	}
	if len(taken) == 0 {
		return false
	}
	for _, l := range taken {
		var probe *ssa.Lookup
		freeID := core.IsNilFact(func(v ssa.Value) bool {
			lk, ok := v.(*ssa.Lookup)
			if !ok {
				return false
			}
			if _, isIdx := core.FieldLoad(lk.X, tContainer, "as"); !isIdx || !isCounter(lk.Index) {
				return false
			}
			probe = lk
			return true
		})
		if !core.Dominated(l, freeID) || probe == nil {
			return false
		}
		moved := false
		core.Instrs(f, func(i ssa.Instruction) {
			if st, ok := i.(*ssa.Store); ok {
				if _, isCnt := core.FieldAddrOf(st.Addr, tContainer, "idCount"); isCnt && reachesAfter(st, l) && !reachesAfter(st, probe) {
					moved = true
				}
			}
		})
		if moved {
			return false
		}
	}
	return true
}

// addErrorPropagated (C09-R6): the error of Container.AddAccessory reaches the caller of NewIPTransport. The container rejects an
// accessory whose id is taken — an explicit id that an earlier automatic assignment has used ( bridge, lamp, switch with Info.ID 2:
// the lamp got 2 ), or two equal explicit ids. With the error dropped the transport starts without that accessory, wires its
// change callbacks all the same (its events go out under the other accessory's ids), and a controller that asks for its ids is
// served the other accessory's values — nothing tells the application.
func addErrorPropagated(c *core.Ctx) {
	p := c.P
	n := 0
	for _, f := range libFuncs(p) {
		if isTestFunc(p, f) || !core.IsLibraryPkg(pkgPathOf(f)) {
			continue
		}
		core.Instrs(f, func(i ssa.Instruction) {
			g := core.Callee(i)
			if g == nil || !(cn(g) == "AddAccessory" && core.TypeIs(recvType(g), tContainer) || cn(g) == "addAccessory") {
				return
			}
			n++
			v, isVal := i.(ssa.Value)
			used := isVal && v.Referrers() != nil && len(*v.Referrers()) > 0 && g.Signature.Results().Len() > 0
			c.Check(used, "add-error-propagated@"+fname(f), posOf(i), "the error of "+cn(g)+" is looked at",
				"the error of "+cn(g)+" is dropped: an accessory the container rejects (its id is taken) is missing from the database without a word, its callbacks are wired all the same, and its ids answer with another accessory's values")
		})
	}
	if n == 0 {
		c.Undecided("add-error-propagated", token.NoPos, "no call of AddAccessory in the library")
	}
	if f := p.Func("", "NewIPTransport"); f != nil {
		errorTestPolarity(c, f, nil)
	}
}

package rules

import (
	"fmt"
	"go/token"
	"go/types"
	"reflect"

	"golang.org/x/tools/go/ssa"

	"hcsa/core"
)

const tCharResp = mod + "/hap/http.CharacteristicResponse"
const tCharReq = mod + "/hap/http.CharacteristicRequest"
const tChar = mod + "/characteristic.Characteristic"

func init() {
	register(&core.Property{
		ID:    "C09",
		Level: "other",
		Explanation: "Handler-level shape of /characteristics and of the response writers: in the GET loop every iteration path appends exactly one answer whose aid/iid are the ids parsed in that iteration and which " +
			"carries either the untransformed result of GetValueFromConnection of the characteristic looked up under those ids or a status that is freshly allocated in that iteration (no shared status cell); " +
			"on the 207 path statuses are written through the slice (no lost write to a by-value range copy); PUT hands the untransformed decoded value and the requesting session's connection to " +
			"UpdateValueFromConnection; JSON member names; the chunked writer writes contiguous, complete slices; and, as long as Connection.Write reports the ciphertext count, every response body is written " +
			"through the chunked writer with a chunk size that net/http buffers.",
		Assumptions: []string{"encoding/json and net/http carry bytes faithfully", "C06/C07/C08 for the encrypted transport"},
		NotDecided:  []string{"JSON escaping and number formatting for all values", "the /accessories encoding (C14-R5)", "a PUT naming an unknown characteristic is skipped without a status (remark)"},
		NeedsCG:     true,
		Rules: []core.Rule{
			{ID: "C09-R1", Title: "exactly one answer per requested id, built from that id", Decides: "each requested id is answered exactly once and in order", Floor: 2, Run: c09r1},
			{ID: "C09-R2", Title: "value or fresh status per answer", Decides: "answered with a value or an error status", Floor: 2, Run: func(c *core.Ctx) { c09r2(c); hapConstantsTable(c) }},
			{ID: "C09-R3", Title: "status completeness on the multi-status path; no lost write to a range copy", Decides: "a multi-status answer carries a status for every entry", Floor: 2, Run: c09r3},
			{ID: "C09-R4", Title: "untransformed pass-through between JSON and the characteristic API; member names", Decides: "what is set is what is read and vice versa", Floor: 8, Run: func(c *core.Ctx) {
				c09r4(c)
				passThrough(c, "C09")
				callbackArgumentOrder(c)
				returnsUndecorated(c, "C09")
			}},
			{ID: "C09-R5", Title: "contiguous chunking; bodies go through the chunked writer", Decides: "fidelity after HTTP chunking and encryption for responses of any size", Floor: 4, Run: c09r5},
			{ID: "C09-R7", Title: "polarity of the handler's decisions (id parsing, found/missing, 207/204, subscribe/unsubscribe, chunk clamp)", Decides: "each id is answered with its own value or status; correct status codes", Floor: 10, Run: func(c *core.Ctx) {
				c09r7(c)
				polarityEverywhere(c, "C09")
				handlerHappyPath(c)
				handlerErrorStatusPolarity(c, "C09")
			}},
			{ID: "C09-R6", Title: "handlers encode live state of every accessory the application added; request bodies reach the decoder unbounded", Decides: "what the application sets is what /accessories shows; large written values arrive", Floor: 4, Run: func(c *core.Ctx) {
				c09r6(c)
				frameAtATime(c)
				autoIDFree(c)
				addErrorPropagated(c)
				requestBodiesUnbounded(c)
				requestNumbersAreWhatConvertReads(c)
				c14r3(c) // the ids a controller addresses characteristics by are assigned to everything the application added
				characteristicsAddedOnce(c)
			}},
		},
	})
}

type getLoop struct {
	fn      *ssa.Function
	header  *ssa.BasicBlock
	appends []*ssa.Call
	arr     *ssa.Phi
}

// findGetLoop locates the loop of the GET branch: the loop-carried slice of CharacteristicResponse that is appended to.
func findGetLoop(f *ssa.Function) *getLoop {
	var gl *getLoop
	core.Instrs(f, func(i ssa.Instruction) {
		call, ok := i.(*ssa.Call)
		if !ok {
			return
		}
		b, ok := call.Call.Value.(*ssa.Builtin)
		if !ok || b.Name() != "append" {
			return
		}
		phi, ok := call.Call.Args[0].(*ssa.Phi)
		if !ok {
			return
		}
		sl, ok := phi.Type().Underlying().(*types.Slice)
		if !ok || !core.TypeIs(sl.Elem(), tCharResp) {
			return
		}
		if gl == nil {
			gl = &getLoop{fn: f, header: phi.Block(), arr: phi}
		}
		if phi == gl.arr {
			gl.appends = append(gl.appends, call)
		}
	})
	return gl
}

// segments splits a path into loop iterations of header h: each segment starts at h and ends before the next h (or at the path end).
func segments(pa core.Path, h *ssa.BasicBlock) []core.Path {
	var idx []int
	for k, b := range pa {
		if b == h {
			idx = append(idx, k)
		}
	}
	var out []core.Path
	for k := 0; k < len(idx); k++ {
		end := len(pa)
		if k+1 < len(idx) {
			end = idx[k+1]
		}
		out = append(out, pa[idx[k]:end])
	}
	return out
}

func c09r1(c *core.Ctx) {
	p := c.P
	f := p.Func("hap/http", "(*Server).Characteristics")
	if f == nil {
		c.Undecided("Characteristics", token.NoPos, "handler not found")
		return
	}
	gl := findGetLoop(f)
	if gl == nil {
		c.Undecided("get-loop@"+fname(f), f.Pos(), "no loop appending CharacteristicResponse entries found")
		return
	}
	bad, iters := 0, 0
	var w core.Path
	okEnum := core.EnumPaths(f, 2, 400000, func(pa core.Path) {
		segs := segments(pa, gl.header)
		for k, sg := range segs {
			last := k == len(segs)-1
			// an iteration = a segment that enters the body (header's true successor) and comes back to the header
			if last {
				continue // the final visit of the header leaves the loop or returns from inside; handled below
			}
			iters++
			n := 0
			sg.Instrs(func(i ssa.Instruction) {
				for _, a := range gl.appends {
					if i == ssa.Instruction(a) {
						n++
					}
				}
			})
			if n != 1 {
				bad++
				if w == nil {
					w = pa
				}
			}
		}
	})
	if !okEnum {
		c.Undecided("one-answer-per-id@"+fname(f), f.Pos(), "too many paths")
		return
	}
	c.Count("loop_iteration_paths", iters)
	if bad > 0 {
		c.BadPath("one-answer-per-id@"+fname(f), f.Pos(), w.Describe(p), "%d iteration path(s) of the id loop append %s than exactly one answer: an id is skipped or answered twice", bad, "other")
	} else {
		c.OK("one-answer-per-id@"+fname(f), f.Pos(), "every one of %d iteration paths of the id loop appends exactly one answer", iters)
	}
	// exits from inside the loop body other than the back edge must have written an error status
	exitsOK := true
	core.EnumPaths(f, 2, 400000, func(pa core.Path) {
		segs := segments(pa, gl.header)
		if len(segs) == 0 {
			return
		}
		lastSeg := segs[len(segs)-1]
		if len(lastSeg) < 2 || lastSeg[1] != gl.header.Succs[0] {
			return // left the loop normally
		}
		// returned from inside the body: must have written a non-2xx header
		wrote := false
		lastSeg.Instrs(func(i ssa.Instruction) {
			if core.IsInvoke(i, "net/http.ResponseWriter", "WriteHeader") {
				if n, ok := core.ConstInt(core.Args(i)[0]); ok && n >= 400 {
					wrote = true
				}
			}
		})
		if !wrote {
			exitsOK = false
		}
	})
	c.Check(exitsOK, "loop-exits@"+fname(f), f.Pos(), "the only other way out of the id loop writes an error status", "the id loop can be left early without an error status: ids are silently dropped")
	// the appended element carries the ids parsed in the same iteration, and the slice passed to WriteJSON is that slice
	for _, a := range gl.appends {
		elemAlloc := appendedAlloc(a)
		if elemAlloc == nil {
			c.Undecided("answer-ids@"+fname(f), posOf(a), "appended element is not a local struct")
			continue
		}
		var aid, iid ssa.Value
		for _, r := range *elemAlloc.Referrers() {
			fa, ok := r.(*ssa.FieldAddr)
			if !ok {
				continue
			}
			for _, rr := range *fa.Referrers() {
				if st, ok := rr.(*ssa.Store); ok && st.Addr == fa {
					switch fieldNameOf(fa) {
					case "AccessoryID":
						aid = st.Val
					case "CharacteristicID":
						iid = st.Val
					}
				}
			}
		}
		// the lookup uses the same two values in the same order
		okIDs := false
		core.Instrs(f, func(i ssa.Instruction) {
			if g := core.Callee(i); g != nil && cn(g) == "getCharacteristic" && i.Block().Dominates(a.Block()) || (core.Callee(i) != nil && cn(core.Callee(i)) == "getCharacteristic" && reachesAfter(i, a)) {
				args := core.Args(i)
				if aid != nil && iid != nil && args[0] == aid && args[1] == iid {
					okIDs = true
				}
			}
		})
		c.Check(okIDs && aid != nil && iid != nil && aid != iid, "answer-ids@"+fname(f), posOf(a), "the answer's aid/iid are the very values used for the lookup of this iteration",
			"the appended answer does not carry the aid/iid that were looked up in this iteration (swapped or stale ids)")
	}
	encOK := false
	core.Instrs(f, func(i ssa.Instruction) {
		if g := core.Callee(i); g != nil && cn(g) == "WriteJSON" {
			v := core.Args(i)[2]
			for _, s := range core.Sources(v) {
				if al, ok := s.(*ssa.Alloc); ok {
					for _, r := range *al.Referrers() {
						if fa, ok := r.(*ssa.FieldAddr); ok {
							for _, rr := range *fa.Referrers() {
								if st, ok := rr.(*ssa.Store); ok && st.Val == ssa.Value(gl.arr) {
									encOK = true
								}
							}
						}
					}
				}
			}
		}
	})
	c.Check(encOK, "encoded-slice@"+fname(f), f.Pos(), "the slice handed to WriteJSON is the loop's slice, in append order", "the encoded slice is not the one the loop appended to (re-ordered or rebuilt)")
}

func fieldNameOf(fa *ssa.FieldAddr) string {
	t := fa.X.Type()
	if p, ok := t.Underlying().(*types.Pointer); ok {
		t = p.Elem()
	}
	st, ok := t.Underlying().(*types.Struct)
	if !ok {
		return ""
	}
	return core.Active.CanonFieldName(st.Field(fa.Field))
}

// appendedAlloc: for  append(arr, elem)  find the local struct whose value is appended.
func appendedAlloc(a *ssa.Call) *ssa.Alloc {
	// variadic slice: slice of a [1]T alloc whose element 0 was stored from a load of the local struct
	va := allocOf(a.Call.Args[1])
	if va == nil {
		return nil
	}
	var res *ssa.Alloc
	for _, r := range *va.Referrers() {
		ia, ok := r.(*ssa.IndexAddr)
		if !ok {
			continue
		}
		for _, rr := range *ia.Referrers() {
			if st, ok := rr.(*ssa.Store); ok && st.Addr == ia {
				if al := structOrigin(st.Val, 6); al != nil {
					res = al
				}
			}
		}
	}
	return res
}

// structOrigin: the one local struct whose fields were assigned and whose value v is a copy of — directly (a load), through
// whole-struct copies into other locals ( outer = inner ) or through the result variables of an inlined helper (phis of loads).
func structOrigin(v ssa.Value, depth int) *ssa.Alloc {
	if depth == 0 || v == nil {
		return nil
	}
	switch x := v.(type) {
	case *ssa.UnOp:
		if x.Op != token.MUL {
			return nil
		}
		al, ok := x.X.(*ssa.Alloc)
		if !ok {
			return nil
		}
		hasField := false
		var whole []ssa.Value
		for _, r := range *al.Referrers() {
			switch y := r.(type) {
			case *ssa.FieldAddr:
				for _, rr := range *y.Referrers() {
					if st, ok := rr.(*ssa.Store); ok && st.Addr == ssa.Value(y) {
						hasField = true
					}
				}
			case *ssa.Store:
				if y.Addr == ssa.Value(al) {
					whole = append(whole, y.Val)
				}
			}
		}
		if hasField {
			return al
		}
		var res *ssa.Alloc
		for _, w := range whole {
			o := structOrigin(w, depth-1)
			if o == nil || (res != nil && res != o) {
				return nil
			}
			res = o
		}
		return res
	case *ssa.Phi:
		var res *ssa.Alloc
		for _, e := range x.Edges {
			o := structOrigin(e, depth-1)
			if o == nil || (res != nil && res != o) {
				return nil
			}
			res = o
		}
		return res
	}
	return nil
}

func c09r2(c *core.Ctx) {
	p := c.P
	f := p.Func("hap/http", "(*Server).Characteristics")
	if f == nil {
		c.Undecided("Characteristics", token.NoPos, "not found")
		return
	}
	// the value of an answer comes from a characteristic that can be read: for one without read permission the getter answers nil,
	// the nil value is left out of the JSON ("omitempty") and the id is answered with neither a value nor a status
	ng := 0
	for _, s := range core.FindCalls(f, func(i ssa.Instruction) bool { return core.IsCall(i, "(*"+tChar+").GetValueFromConnection") }) {
		ng++
		ch := core.Receiver(s)
		readable := core.TrueFact(func(v ssa.Value) bool {
			call, ok := v.(*ssa.Call)
			return ok && core.IsCall(call, "(*"+tChar+").IsReadable") && sameValue(core.Receiver(call), ch)
		})
		c.Check(core.Dominated(s, readable), "read-needs-read-permission@"+fname(f), posOf(s), "the getter is asked on the IsReadable() branch of the characteristic",
			"a read of a characteristic without read permission (Identify and the other write-only ones) is answered from the getter: the value is nil, the JSON encoder leaves it out, and the requested id is answered with neither a value nor an error status")
	}
	if ng == 0 {
		c.Undecided("read-needs-read-permission@"+fname(f), f.Pos(), "no read of a characteristic value in the handler")
	}
	gl := findGetLoop(f)
	if gl == nil {
		c.Undecided("get-loop", f.Pos(), "not found")
		return
	}
	bad, n := 0, 0
	core.EnumPaths(f, 2, 400000, func(pa core.Path) {
		segs := segments(pa, gl.header)
		for k, sg := range segs {
			if k == len(segs)-1 {
				continue
			}
			n++
			hasValue, hasStatus := false, false
			sg.Instrs(func(i ssa.Instruction) {
				st, ok := i.(*ssa.Store)
				if !ok {
					return
				}
				fa, ok := st.Addr.(*ssa.FieldAddr)
				if !ok || !core.TypeIs(fa.X.Type(), tCharResp) {
					return
				}
				switch fieldNameOf(fa) {
				case "Value":
					if call, ok := st.Val.(*ssa.Call); ok && core.IsCall(call, "(*"+tChar+").GetValueFromConnection") {
						hasValue = true
					}
				case "Status":
					if !core.IsNilConst(st.Val) {
						hasStatus = true
					}
				}
			})
			if !hasValue && !hasStatus {
				bad++
			}
		}
	})
	c.Check(bad == 0 && n > 0, "value-or-status@"+fname(f), f.Pos(), fmt.Sprintf("each of %d iteration paths stores a value from the getter or a status into the answer", n),
		"an iteration path appends an answer with neither a value nor a status")
	// status cells are allocated per iteration (no aliasing between entries)
	cells := 0
	core.Instrs(f, func(i ssa.Instruction) {
		st, ok := i.(*ssa.Store)
		if !ok {
			return
		}
		fa, ok := st.Addr.(*ssa.FieldAddr)
		if !ok || fieldNameOf(fa) != "Status" {
			return
		}
		base := fa.X.Type()
		if pt, ok := base.Underlying().(*types.Pointer); ok {
			base = pt.Elem()
		}
		if !core.TypeIs(base, tCharResp) || core.IsNilConst(st.Val) {
			return
		}
		cells++
		fresh := true
		why := ""
		for _, s := range core.Sources(st.Val) {
			al, ok := s.(*ssa.Alloc)
			if !ok {
				fresh = false
				why = "the status pointer is not a fresh allocation"
				continue
			}
			if reachesAfter(st, st) && !reachesAfter(al, al) {
				// one cell shared by several entries: harmless as long as the cell is never written after it was handed out
				// ( ok := 0 before the loop, entries point to it ), harmful when a later assignment changes earlier entries
				rewritten := false
				for _, r := range *al.Referrers() {
					if w, isSt := r.(*ssa.Store); isSt && w.Addr == ssa.Value(al) && reachesAfter(st, w) {
						rewritten = true
					}
				}
				if rewritten {
					fresh = false
					why = "the status cell is allocated once outside the loop, shared by all entries and assigned again later: the assignment changes the status of earlier entries"
				}
			}
		}
		c.Check(fresh, "status-cell-fresh@"+fname(f)+"#"+fmt.Sprint(cells), st.Pos(), "the status of an entry points to a cell allocated for that entry", why)
	})
}

func c09r3(c *core.Ctx) {
	p := c.P
	f := p.Func("hap/http", "(*Server).Characteristics")
	if f == nil {
		c.Undecided("Characteristics", token.NoPos, "not found")
		return
	}
	// positive: after WriteHeader(207) and before WriteJSON a store through an element of the slice sets Status
	var multi ssa.Instruction
	core.Instrs(f, func(i ssa.Instruction) {
		if core.IsInvoke(i, "net/http.ResponseWriter", "WriteHeader") {
			if n, ok := core.ConstInt(core.Args(i)[0]); ok && n == 207 {
				multi = i
			}
		}
	})
	if multi == nil {
		c.Undecided("multi-status@"+fname(f), f.Pos(), "no WriteHeader(207) in the handler")
		return
	}
	through := false
	core.Instrs(f, func(i ssa.Instruction) {
		st, ok := i.(*ssa.Store)
		if !ok || core.IsNilConst(st.Val) {
			return
		}
		fa, ok := st.Addr.(*ssa.FieldAddr)
		if !ok || fieldNameOf(fa) != "Status" {
			return
		}
		if _, isIdx := fa.X.(*ssa.IndexAddr); isIdx && reachesAfter(multi, st) {
			through = true
		}
		if u, isLoad := fa.X.(*ssa.UnOp); isLoad { // slice of pointers
			if _, isIdx := u.X.(*ssa.IndexAddr); isIdx && reachesAfter(multi, st) {
				through = true
			}
		}
	})
	c.Check(through, "status-fill-through-slice@"+fname(f), posOf(multi), "on the 207 path missing statuses are written through the slice elements",
		"on the 207 path no status is written through the elements of the answer slice: successful entries go out without a status")
	// negative: lost writes to by-value range copies anywhere in the http handlers
	n := 0
	for _, g := range libFuncs(p) {
		if pkgPathOf(g) != mod+"/hap/http" && pkgPathOf(g) != mod+"/hap/endpoint" {
			continue
		}
		for _, lw := range lostRangeWrites(g) {
			n++
			c.Bad("lost-write@"+fname(g), lw.Pos(), "assignment to a field of a by-value range copy that is never read again: the element of the slice is not changed")
		}
	}
	if n == 0 {
		c.OK("no-lost-range-writes@hap/http,hap/endpoint", token.NoPos, "no assignment to a by-value range copy is lost in the handler packages")
	}
}

// lostRangeWrites: stores to fields of a local struct that was copied from a slice/array element, where the local is
// never read afterwards (neither loaded, nor passed by address).
func lostRangeWrites(f *ssa.Function) []*ssa.Store {
	var out []*ssa.Store
	core.Instrs(f, func(i ssa.Instruction) {
		al, ok := i.(*ssa.Alloc)
		if !ok || al.Heap {
			return
		}
		if _, isStruct := al.Type().(*types.Pointer).Elem().Underlying().(*types.Struct); !isStruct {
			return
		}
		// copied from an element?
		fromElem := false
		for _, r := range *al.Referrers() {
			if st, ok := r.(*ssa.Store); ok && st.Addr == al {
				if u, ok := st.Val.(*ssa.UnOp); ok {
					if _, ok := u.X.(*ssa.IndexAddr); ok {
						fromElem = true
					}
				}
			}
		}
		if !fromElem {
			return
		}
		for _, r := range *al.Referrers() {
			fa, ok := r.(*ssa.FieldAddr)
			if !ok {
				continue
			}
			for _, rr := range *fa.Referrers() {
				st, ok := rr.(*ssa.Store)
				if !ok || st.Addr != fa {
					continue
				}
				// is the local (or this field) read after this store?
				read := false
				for _, r2 := range *al.Referrers() {
					switch x := r2.(type) {
					case *ssa.UnOp: // whole-struct load
						if reachesAfter(st, x) {
							read = true
						}
					case *ssa.FieldAddr:
						if x.Field != fa.Field {
							continue
						}
						for _, r3 := range *x.Referrers() {
							if u, ok := r3.(*ssa.UnOp); ok && reachesAfter(st, u) {
								// a load before the next copy-in on the same iteration counts only if no re-copy intervenes;
								// conservative: a load that is reachable from the store without passing the copy-in
								if !passesCopyIn(st, u, al) {
									read = true
								}
							}
						}
					case *ssa.Call, *ssa.MakeInterface:
						read = true
					}
				}
				if !read {
					out = append(out, st)
				}
			}
		}
	})
	return out
}

// passesCopyIn: every way from `from` to `to` executes a whole-struct store into al (the next iteration's copy).
func passesCopyIn(from, to ssa.Instruction, al *ssa.Alloc) bool {
	var copyIns []ssa.Instruction
	for _, r := range *al.Referrers() {
		if st, ok := r.(*ssa.Store); ok && st.Addr == al {
			copyIns = append(copyIns, st)
		}
	}
	// same block, from before to: direct
	if from.Block() == to.Block() {
		fi, ti := -1, -1
		for k, i := range from.Block().Instrs {
			if i == from {
				fi = k
			}
			if i == to {
				ti = k
			}
		}
		if fi < ti {
			for _, ci := range copyIns {
				if ci.Block() == from.Block() {
					for k, i := range from.Block().Instrs {
						if i == ci && k > fi && k < ti {
							return true
						}
					}
				}
			}
			return false
		}
	}
	// different blocks (or wrap-around): search avoiding copy-in blocks
	stop := map[*ssa.BasicBlock]bool{}
	for _, ci := range copyIns {
		stop[ci.Block()] = true
	}
	seen := map[*ssa.BasicBlock]bool{}
	work := append([]*ssa.BasicBlock{}, from.Block().Succs...)
	for len(work) > 0 {
		b := work[len(work)-1]
		work = work[:len(work)-1]
		if seen[b] {
			continue
		}
		seen[b] = true
		if b == to.Block() {
			if stop[b] {
				// copy-in and load in the same block: which comes first?
				for _, i := range b.Instrs {
					if i == to {
						return false
					}
					for _, ci := range copyIns {
						if i == ci {
							goto next
						}
					}
				}
			}
			return false
		}
		if stop[b] {
			continue
		}
		work = append(work, b.Succs...)
	next:
	}
	return true
}

func jsonTags(p *core.Program, rel, typ string) map[string]string {
	pk := p.Pkg(rel)
	if pk == nil {
		return nil
	}
	tn, ok := pk.Types.Scope().Lookup(typ).(*types.TypeName)
	if !ok {
		return nil
	}
	st, ok := tn.Type().Underlying().(*types.Struct)
	if !ok {
		return nil
	}
	out := map[string]string{}
	for i := 0; i < st.NumFields(); i++ {
		out[st.Field(i).Name()] = reflect.StructTag(st.Tag(i)).Get("json")
	}
	return out
}

func c09r4(c *core.Ctx) {
	charSetters(c)
	charGateExact(c)
	convertKeepsStrings(c)
	adaptersPassNewValue(c)
	signedFormatSignedConversion(c)
	p := c.P
	f := p.Func("hap/http", "(*Server).Characteristics")
	if f == nil {
		c.Undecided("Characteristics", token.NoPos, "not found")
		return
	}
	req := paramOfType(f, "net/http.Request")
	// GET: Value = getter result, receiver = lookup result, conn = session connection of this request
	for _, s := range core.FindCalls(f, func(i ssa.Instruction) bool { return core.IsCall(i, "(*"+tChar+").GetValueFromConnection") }) {
		call := s.(*ssa.Call)
		direct := false
		for _, r := range *call.Referrers() {
			if st, ok := r.(*ssa.Store); ok && st.Val == ssa.Value(call) {
				if fa, ok := st.Addr.(*ssa.FieldAddr); ok && fieldNameOf(fa) == "Value" {
					direct = true
				}
			}
		}
		c.Check(direct, "get-value-untransformed@"+fname(f), posOf(s), "the getter's result is stored into the answer unchanged", "the value read from the characteristic is transformed before it is put into the answer")
		c.Check(connOfRequest(core.Args(s)[0], req), "get-conn@"+fname(f), posOf(s), "the connection handed to the getter is the requesting session's", "the getter is not given the requesting session's connection")
	}
	// PUT
	for _, s := range core.FindCalls(f, func(i ssa.Instruction) bool { return core.IsCall(i, "(*"+tChar+").UpdateValueFromConnection") }) {
		args := core.Args(s)
		// value: load of field Value of a CharacteristicRequest
		fromReq := core.AllSources(args[0], func(v ssa.Value) bool { _, ok := core.FieldLoad(v, tCharReq, "Value"); return ok })
		c.Check(fromReq, "put-value-untransformed@"+fname(f), posOf(s), "the decoded request value is handed to the characteristic unchanged", "the written value is transformed (or does not come from the request entry) before it reaches the characteristic")
		c.Check(connOfRequest(args[1], req), "put-conn@"+fname(f), posOf(s), "the connection handed to the update is the requesting session's", "the update is not attributed to the requesting session's connection: the originator would be notified of its own write")
		// receiver looked up with the ids of the same request entry
		recv := core.Receiver(s)
		okLookup := core.AnySource(recv, func(v ssa.Value) bool {
			call, ok := v.(*ssa.Call)
			if !ok || core.Callee(call) == nil || cn(core.Callee(call)) != "getCharacteristic" {
				return false
			}
			a := core.Args(call)
			_, ok1 := core.FieldLoad(a[0], tCharReq, "AccessoryID")
			_, ok2 := core.FieldLoad(a[1], tCharReq, "CharacteristicID")
			return ok1 && ok2
		})
		c.Check(okLookup, "put-target@"+fname(f), posOf(s), "the characteristic written is the one looked up under the entry's aid/iid", "the characteristic that is written is not looked up under the request entry's own aid and iid")
	}
	// getCharacteristic compares aid with the accessory id and iid with the characteristic id
	if g := p.Func("hap/http", "(*Server).getCharacteristic"); g != nil {
		aidOK, iidOK := false, false
		core.Instrs(g, func(i ssa.Instruction) {
			b, ok := i.(*ssa.BinOp)
			if !ok || (b.Op != token.EQL && b.Op != token.NEQ) { // the polarity of the match is C09-R4 lookup-returns-match
				return
			}
			for _, pair := range [][2]ssa.Value{{b.X, b.Y}, {b.Y, b.X}} {
				if _, ok := core.FieldLoad(pair[0], mod+"/accessory.Accessory", "ID"); ok && pair[1] == ssa.Value(g.Params[1]) {
					aidOK = true
				}
				if _, ok := core.FieldLoad(pair[0], tChar, "ID"); ok && pair[1] == ssa.Value(g.Params[2]) {
					iidOK = true
				}
			}
		})
		// polarity: a characteristic is handed back only where both comparisons came out equal (== ... return, or != ... continue)
		matchFact := func(typ string, par ssa.Value) core.CondFact {
			return core.CmpFact(func(x, y ssa.Value) (bool, bool) {
				for _, pair := range [][2]ssa.Value{{x, y}, {y, x}} {
					if _, ok := core.FieldLoad(pair[0], typ, "ID"); ok && pair[1] == par {
						return true, false
					}
				}
				return false, false
			})
		}
		core.Instrs(g, func(i ssa.Instruction) {
			r, ok := i.(*ssa.Return)
			if !ok || len(res(r)) != 1 || core.IsNilConst(res(r)[0]) {
				return
			}
			if !core.Dominated(r, matchFact(mod+"/accessory.Accessory", g.Params[1])) {
				aidOK = false
			}
			if !core.Dominated(r, matchFact(tChar, g.Params[2])) {
				iidOK = false
			}
		})
		c.Check(aidOK && iidOK, "lookup-keys@"+fname(g), g.Pos(), "lookup matches aid against Accessory.ID and iid against Characteristic.ID", "the lookup does not match (aid, iid) against (Accessory.ID, Characteristic.ID)")
	}
	// member names
	want := map[string]map[string]string{
		"CharacteristicResponse":  {"AccessoryID": "aid", "CharacteristicID": "iid", "Value": "value,omitempty", "Status": "status,omitempty"},
		"CharacteristicRequest":   {"AccessoryID": "aid", "CharacteristicID": "iid", "Value": "value", "Events": "ev,omitempty"},
		"CharacteristicsResponse": {"Characteristics": "characteristics"},
	}
	for typ, w := range want {
		got := jsonTags(p, "hap/http", typ)
		ok := got != nil
		for k, v := range w {
			if got[k] != v {
				ok = false
			}
		}
		c.Check(ok, "json-tags:"+typ, token.NoPos, fmt.Sprintf("%v", w), fmt.Sprintf("JSON member names of %s are %v, HAP requires %v", typ, got, w))
	}
	// the event body carries the stored value of the same characteristic
	if g := p.Func("hap", "Body"); g != nil {
		ok := false
		core.Instrs(g, func(i ssa.Instruction) {
			st, isSt := i.(*ssa.Store)
			if !isSt {
				return
			}
			if fa, isFa := st.Addr.(*ssa.FieldAddr); isFa && fieldNameOf(fa) == "Value" {
				if base, isLoad := core.FieldLoad(st.Val, tChar, "Value"); isLoad && base == ssa.Value(g.Params[1]) {
					ok = true
				}
			}
		})
		c.Check(ok, "event-body-value@"+fname(g), g.Pos(), "the notification carries c.Value unchanged", "the notification body does not carry the characteristic's stored value")
	}
}

func connOfRequest(v ssa.Value, req ssa.Value) bool {
	return core.AnySource(v, func(s ssa.Value) bool {
		call, ok := s.(*ssa.Call)
		return ok && core.IsInvoke(call, qSession, "Connection") && req != nil && sessionOfRequest(call.Call.Value, req)
	})
}

func c09r5(c *core.Ctx) {
	p := c.P
	cw := p.Func("hap", "(*chunkedWriter).Write")
	if cw == nil {
		c.Undecided("chunkedWriter.Write", token.NoPos, "not found")
		return
	}
	// pattern: inner write of p[nn:end]; nn += n (n = count of the inner write); loop while nn < len(p); end = min(nn+chunk, len(p))
	var inner *ssa.Call
	core.Instrs(cw, func(i ssa.Instruction) {
		if call, ok := i.(*ssa.Call); ok && core.IsInvoke(call, "io.Writer", "Write") {
			inner = call
		}
	})
	if inner == nil {
		c.Undecided("inner-write@"+fname(cw), cw.Pos(), "no inner io.Writer.Write")
		return
	}
	pp := cw.Params[1]
	sl, isSl := core.StripConv(inner.Call.Args[0]).(*ssa.Slice)
	okSlice := isSl && sl.X == ssa.Value(pp) && sl.Low != nil && sl.High != nil
	c.Check(okSlice, "chunk-slice@"+fname(cw), posOf(inner), "each inner write is of p[nn:end]", "the inner write is not a sub-slice p[nn:end] of the payload")
	if okSlice {
		nn, isPhi := sl.Low.(*ssa.Phi)
		advOK := false
		if isPhi {
			for _, e := range nn.Edges {
				if b, ok := e.(*ssa.BinOp); ok && b.Op == token.ADD {
					cnt := func(v ssa.Value) bool {
						ex, ok := v.(*ssa.Extract)
						return ok && ex.Tuple == ssa.Value(inner) && ex.Index == 0
					}
					if (b.X == ssa.Value(nn) && cnt(b.Y)) || (b.Y == ssa.Value(nn) && cnt(b.X)) {
						advOK = true
					}
				}
			}
		}
		c.Check(advOK, "chunk-advance@"+fname(cw), posOf(inner), "the offset advances by exactly the count the inner writer reported", "the offset does not advance by the inner writer's count: bytes are skipped or repeated")
		// end is bounded by len(p): a phi of (nn+chunk) and len(p) guarded by end > max
		endOK := false
		if ph, ok := sl.High.(*ssa.Phi); ok {
			hasLen, hasSum := false, false
			for _, e := range ph.Edges {
				if call, ok := e.(*ssa.Call); ok {
					if b, ok := call.Call.Value.(*ssa.Builtin); ok && b.Name() == "len" && call.Call.Args[0] == ssa.Value(pp) {
						hasLen = true
					}
				}
				if b, ok := e.(*ssa.BinOp); ok && b.Op == token.ADD {
					hasSum = true
				}
			}
			endOK = hasLen && hasSum
		} else if call, ok := sl.High.(*ssa.Call); ok {
			if b, ok := call.Call.Value.(*ssa.Builtin); ok && b.Name() == "min" {
				endOK = true
			}
		}
		c.Check(endOK, "chunk-end@"+fname(cw), posOf(inner), "end = min(nn+chunk, len(p))", "the end of a chunk is not clamped to len(p)")
		// loop exit only when nn >= len(p) or on error
		exitOK := false
		core.Instrs(cw, func(i ssa.Instruction) {
			if b, ok := i.(*ssa.BinOp); ok && b.Op == token.LSS && isPhi && b.X == ssa.Value(nn) {
				if call, ok := b.Y.(*ssa.Call); ok {
					if bi, ok := call.Call.Value.(*ssa.Builtin); ok && bi.Name() == "len" {
						exitOK = true
					}
				}
			}
		})
		c.Check(exitOK, "chunk-loop-complete@"+fname(cw), cw.Pos(), "the loop runs while nn < len(p)", "the chunk loop does not run until the whole payload is written")
	}
	// does Connection.Write report a count that is not bounded by len(p)?
	unbounded := false
	if ew := p.Func("hap", "(*Connection).EncryptedWrite"); ew != nil {
		core.Instrs(ew, func(i ssa.Instruction) {
			r, ok := i.(*ssa.Return)
			if !ok || len(res(r)) != 2 {
				return
			}
			for _, s := range core.Sources(res(r)[0]) {
				if e, ok := s.(*ssa.Extract); ok {
					if call, ok := e.Tuple.(*ssa.Call); ok && rawSocketWrite(call) {
						if _, isParam := call.Call.Args[0].(*ssa.Parameter); !isParam {
							unbounded = true
						}
					}
				}
			}
		})
	}
	c.Note("connection-write-count", token.NoPos, "Connection.EncryptedWrite reports the ciphertext byte count (may exceed len(p)): %v — net/http's buffered writer must therefore never write more than its buffer size in one call", unbounded)
	// body writes in the handler packages
	n := 0
	for _, g := range libFuncs(p) {
		pp := pkgPathOf(g)
		if pp != mod+"/hap/http" && pp != mod+"/hap/endpoint" {
			continue
		}
		core.Instrs(g, func(i ssa.Instruction) {
			if core.IsInvoke(i, "net/http.ResponseWriter", "Write") {
				n++
				if unbounded {
					c.Bad("direct-body-write@"+fname(g), posOf(i), "a response body is written directly to the ResponseWriter; on an encrypted connection a write larger than net/http's 4096-byte buffer reaches Connection.Write in one piece, whose count exceeds len(p), and bufio slices out of range: large responses are cut off")
				} else {
					c.OK("direct-body-write@"+fname(g), posOf(i), "Connection.Write honours the io.Writer count contract; direct writes are fine")
				}
				return
			}
			if core.IsCall(i, mod+"/hap.NewChunkedWriter") {
				n++
				sz, isK := core.ConstInt(core.Args(i)[1])
				_, toRW := core.Args(i)[0].(*ssa.Parameter)
				toRW = toRW || core.AnySource(core.Args(i)[0], func(s ssa.Value) bool { _, ok := s.(*ssa.Parameter); return ok })
				c.Check(isK && sz > 0 && sz <= 2048 && toRW, "chunked-body-write@"+fname(g), posOf(i), "body written through the chunked writer with a constant chunk size <= 2048",
					"the chunk size is not a constant <= 2048 (net/http's pre-chunking buffer): chunks are passed through to the connection unbuffered")
				// the whole buffer is written
			}
		})
	}
	c.Count("body_write_sites", n)
	if wj := p.Func("hap/http", "WriteJSON"); wj != nil {
		ok := false
		core.Instrs(wj, func(i ssa.Instruction) {
			if core.IsInvoke(i, "io.Writer", "Write") {
				if call, isC := core.CallOf(i).Args[0].(*ssa.Call); isC && core.IsCall(call, "(*bytes.Buffer).Bytes") {
					if core.AnySource(core.CallOf(i).Value, func(s ssa.Value) bool {
						cc, ok := s.(*ssa.Call)
						return ok && core.IsCall(cc, mod+"/hap.NewChunkedWriter")
					}) {
						ok = true
					}
				}
			}
		})
		c.Check(ok, "WriteJSON-whole-buffer", wj.Pos(), "WriteJSON writes the encoder's whole buffer through the chunked writer", "WriteJSON does not hand the encoder's complete buffer to the chunked writer")
	}
}

// convertKeepsStrings: for the string-valued formats convert hands back the string form of what it was given, whole. Numbers have a
// declared range that the stored value is brought into (C12); strings have none in the attribute database this library serves, so a
// string that is cut, trimmed or re-cased on the way in is a value the controller reads that nobody set.
func convertKeepsStrings(c *core.Ctx) {
	f := c.P.Func("characteristic", "(*Characteristic).convert")
	if f == nil || len(f.Params) < 2 {
		c.Undecided("convert", token.NoPos, "not found")
		return
	}
	param := f.Params[1]
	var whole func(v ssa.Value, d int) bool
	whole = func(v ssa.Value, d int) bool {
		if d == 0 {
			return false
		}
		switch x := v.(type) {
		case *ssa.Call:
			// the conversion of the parameter itself
			cal := x.Call.StaticCallee()
			if cal == nil || core.InModule(cal) || len(x.Call.Args) != 1 {
				return false
			}
			return valIs(x.Call.Args[0], param) && (cal.Name() == "String" || cal.Name() == "Sprint")
		case *ssa.TypeAssert:
			return valIs(x.X, param)
		case *ssa.Extract:
			ta, ok := x.Tuple.(*ssa.TypeAssert)
			return ok && x.Index == 0 && valIs(ta.X, param)
		case *ssa.Phi:
			for _, e := range x.Edges {
				if !whole(e, d-1) {
					return false
				}
			}
			return len(x.Edges) > 0
		case *ssa.ChangeType:
			return whole(x.X, d-1)
		}
		return false
	}
	n, bad := 0, 0
	core.Instrs(f, func(i ssa.Instruction) {
		r, ok := i.(*ssa.Return)
		if !ok || len(res(r)) != 1 {
			return
		}
		// every value boxed for this return (directly, or on the edges of a result variable's phi)
		var boxed []*ssa.MakeInterface
		var gather func(v ssa.Value, d int)
		gather = func(v ssa.Value, d int) {
			switch x := v.(type) {
			case *ssa.MakeInterface:
				boxed = append(boxed, x)
			case *ssa.Phi:
				if d > 0 {
					for _, e := range x.Edges {
						gather(e, d-1)
					}
				}
			}
		}
		gather(res(r)[0], 4)
		for _, mi := range boxed {
			b, ok := mi.X.Type().Underlying().(*types.Basic)
			if !ok || b.Info()&types.IsString == 0 {
				continue
			}
			n++
			if !whole(mi.X, 6) {
				bad++
				c.Bad("convert-keeps-strings@"+fname(f), r.Pos(), "convert returns a string that is not the plain string form of its argument (sliced, trimmed, replaced, concatenated): the value a controller reads is not the value that was set")
			}
		}
	})
	if n == 0 {
		c.Undecided("convert-keeps-strings@"+fname(f), f.Pos(), "convert has no string-valued return")
	} else if bad == 0 {
		c.OK("convert-keeps-strings@"+fname(f), f.Pos(), "%d string-valued return(s): the plain string form of the argument", n)
	}
}

// adaptersPassNewValue: the typed OnValueRemoteUpdate / OnValueUpdate wrappers hand the application the new value — the third
// (remote: conn, c, new, old) resp. second (local: c, new, old) argument of the change callback — not the old one.
func adaptersPassNewValue(c *core.Ctx) {
	p := c.P
	n := 0
	for _, wrapper := range []string{"Bool", "Int", "Float", "String", "Bytes"} {
		for _, spec := range []struct {
			method string
			idx    int
		}{{"OnValueRemoteUpdate", 2}, {"OnValueUpdate", 1}} {
			g := p.Func("characteristic", "(*"+wrapper+")."+spec.method)
			if g == nil {
				continue
			}
			for _, cl := range g.AnonFuncs {
				if len(cl.Params) <= spec.idx+1 {
					continue
				}
				// the application's function is called with a value derived from …
				core.Instrs(cl, func(i ssa.Instruction) {
					call, ok := i.(*ssa.Call)
					if !ok || call.Call.IsInvoke() || call.Call.StaticCallee() != nil {
						return
					}
					if _, isBuiltin := call.Call.Value.(*ssa.Builtin); isBuiltin || len(call.Call.Args) != 1 {
						return
					}
					n++
					usesNew, usesOld := false, false
					walkOperands(call.Call.Args[0], 10, func(v ssa.Value) {
						switch v {
						case ssa.Value(cl.Params[spec.idx]):
							usesNew = true
						case ssa.Value(cl.Params[spec.idx+1]):
							usesOld = true
						}
					})
					// a constant argument (the empty value handed over when a payload does not decode) uses neither
					_, isConst := call.Call.Args[0].(*ssa.Const)
					fromNew := !usesOld && (usesNew || isConst || !dependsOnParams(call.Call.Args[0], cl))
					c.Check(fromNew, "adapter-passes-new-value:"+wrapper+"."+spec.method, posOf(i), "the application's callback receives the new value",
						wrapper+"."+spec.method+" hands the application's callback something else than the new value of the change (the old value, for one): what a controller wrote is not what the remote-update callback receives")
				})
			}
		}
	}
	if n == 0 {
		c.Undecided("adapter-passes-new-value", token.NoPos, "no typed update adapters found")
	}
}

func dependsOnParams(v ssa.Value, f *ssa.Function) bool {
	dep := false
	walkOperands(v, 10, func(x ssa.Value) {
		if pa, ok := x.(*ssa.Parameter); ok && pa.Parent() == f {
			dep = true
		}
	})
	return dep
}

// signedFormatSignedConversion: the value of a signed integer format does not pass through an unsigned integer on its way from the
// controller's JSON number (a float64) to the stored int. The conversion of a negative floating-point value to an unsigned integer
// type is implementation-dependent in Go (spec, Conversions: "if the result type cannot represent the value the conversion
// succeeds but the result value is implementation-dependent"): amd64 wraps around, and int(uint64(-30.0)) happens to be -30;
// arm64 (FCVTZU) saturates, and the same expression is 0. On the platform most accessories run on, a controller that writes -30
// to a tilt angle (int, -90..90) stores 0.
func signedFormatSignedConversion(c *core.Ctx) {
	p := c.P
	f := p.Func("characteristic", "(*Characteristic).convert")
	if f == nil {
		c.Undecided("convert", token.NoPos, "not found")
		return
	}
	consts := formatConstants(p)
	v, ok := consts["FormatInt32"]
	if !ok {
		c.Undecided("signed-format-signed-conversion", f.Pos(), "FormatInt32 not found")
		return
	}
	blk := formatSwitch(f)[v]
	if blk == nil {
		c.Undecided("signed-format-signed-conversion", f.Pos(), "convert has no case for the signed integer format")
		return
	}
	isUnsigned := func(t types.Type) bool {
		b, ok := t.Underlying().(*types.Basic)
		return ok && b.Info()&types.IsUnsigned != 0
	}
	var via ssa.Value
	for _, x := range caseResults(blk) {
		{
			walkOperands(x, 8, func(o ssa.Value) {
				switch y := o.(type) {
				case *ssa.Call:
					if sig := y.Call.Signature(); sig.Results().Len() == 1 && isUnsigned(sig.Results().At(0).Type()) {
						via = y
					}
				case *ssa.Convert:
					if isUnsigned(y.Type()) {
						if b, ok := y.X.Type().Underlying().(*types.Basic); ok && b.Info()&types.IsFloat != 0 {
							via = y
						}
					}
				}
			})
		}
	}
	pos := f.Pos()
	if via != nil {
		pos = via.Pos()
	}
	c.Check(via == nil, "signed-format-signed-conversion@"+fname(f), pos, "the signed integer format is converted without an unsigned intermediate",
		"the value of the signed integer format is converted through an unsigned integer: for a negative JSON number (a float64) that conversion is implementation-dependent in Go — amd64 wraps (and the result happens to be right), arm64 saturates to 0: a controller that writes -30 stores 0 on arm64")
}

package rules

import (
	"go/token"
	"go/types"

	"golang.org/x/tools/go/ssa"

	"hcsa/core"
)

const tTransport = mod + ".ipTransport"
const tSessImpl = mod + "/hap.session"

func init() {
	register(&core.Property{
		ID:    "C10",
		Level: "other",
		Explanation: "Guard structure of the event fan-out and its wiring. In (*ipTransport).notifyListener the write to a connection is dominated by: the connection is not the originator, it has a session, " +
			"and that session is subscribed to the very characteristic that changed; at most one write per recipient per call; the body is the notification for that characteristic. addAccessory registers, for every " +
			"characteristic of every service of every accessory given to the transport, a remote-change callback that passes its own connection as the originator and a local-change callback that passes none. " +
			"In updateValue both callback fan-outs are dominated by 'stored value != the value that is going to be stored' (or updateOnSameValue), where the compared value is the very SSA value that is stored and " +
			"handed to the callbacks. Subscriptions are kept per session in a map keyed by the characteristic object (instance ids are unique only within one accessory), under the session mutex; " +
			"Subscribe is called only by the PUT handler on the requesting session; Close removes the session.",
		Assumptions: []string{"delivery itself: C07/C08", "the value carried: C09-R4"},
		NotDecided:  []string{"exactly-once across interleavings of subscribe/close with an in-flight change", "histories as such"},
		NeedsCG:     true,
		Rules: []core.Rule{
			{ID: "C10-R1", Title: "fan-out guards: originator skipped, session present, subscribed to this characteristic, one write per recipient", Decides: "exactly the subscribed others receive exactly one event", Floor: 5, Run: func(c *core.Ctx) { c10r1(c); eventNotInsideResponse(c); returnsUndecorated(c, "C10") }},
			{ID: "C10-R2", Title: "callback wiring for every characteristic", Decides: "every change of every characteristic reaches the fan-out with the right originator", Floor: 5, Run: c10r2},
			{ID: "C10-R3", Title: "unchanged value => no callbacks; compared value = stored value", Decides: "no event when the value did not change", Floor: 3, Run: func(c *core.Ctx) { c10r3(c); passThrough(c, "C10"); callbackArgumentOrder(c) }},
			{ID: "C10-R4", Title: "subscription state per session, keyed by the characteristic object", Decides: "never-subscribed / unsubscribed connections receive none", Floor: 6, Run: c10r4},
			{ID: "C10-R5", Title: "closed connections leave the recipient set; a recipient that closes during the fan-out does not abort it", Decides: "closed connections receive none", Floor: 2, Run: func(c *core.Ctx) { c10r5(c); onlySessionsOfConnectionsInStore(c); polarityEverywhere(c, "C10") }},
			{ID: "C10-R6", Title: "the fan-out has no side effects on characteristics", Decides: "exactly one event carrying the new value; none to the originator", Floor: 1, Run: fanoutHasNoSideEffects},
		},
	})
}

func c10r1(c *core.Ctx) {
	p := c.P
	f := p.Func("", "(*ipTransport).notifyListener")
	if f == nil {
		c.Undecided("notifyListener", token.NoPos, "not found")
		return
	}
	var pa, pc, pexcept *ssa.Parameter
	for _, pr := range f.Params {
		switch {
		case core.TypeIs(pr.Type(), mod+"/accessory.Accessory"):
			pa = pr
		case core.TypeIs(pr.Type(), tChar):
			pc = pr
		case core.TypeIs(pr.Type(), "net.Conn"):
			pexcept = pr
		}
	}
	if pa == nil || pc == nil || pexcept == nil {
		c.Undecided("notifyListener-params", f.Pos(), "expected (accessory, characteristic, originator) parameters")
		return
	}
	isElem := func(v ssa.Value) bool { // an element of ActiveConnections()
		return core.AnySource(v, func(s ssa.Value) bool {
			u, ok := s.(*ssa.UnOp)
			if !ok {
				return false
			}
			ia, ok := u.X.(*ssa.IndexAddr)
			if !ok {
				return false
			}
			return core.AnySource(ia.X, func(sv ssa.Value) bool {
				call, ok := sv.(*ssa.Call)
				return ok && core.IsInvoke(call, qContext, "ActiveConnections")
			})
		})
	}
	// the writes, directly in the loop or in a helper the loop hands the connection to. The connection written to is an element of
	// ActiveConnections(), or an element of a list that was filled with such elements beforehand ("collect the recipients, then
	// send"): in that case the guards are owed where the element is put on the list.
	type guardAt struct {
		site ssa.Instruction
		conn ssa.Value
	}
	var writes []ssa.Instruction
	connOf := map[ssa.Instruction]ssa.Value{}
	perSite := map[ssa.Instruction]int{}
	guardsOf := map[ssa.Instruction][]guardAt{}
	collected := func(v ssa.Value) []guardAt {
		var out []guardAt
		bad := false
		for _, s := range core.Sources(v) {
			u, ok := s.(*ssa.UnOp)
			if !ok {
				return nil
			}
			ia, ok := u.X.(*ssa.IndexAddr)
			if !ok {
				return nil
			}
			for _, ls := range core.Sources(ia.X) {
				call, ok := ls.(*ssa.Call)
				if !ok {
					if k, isK := ls.(*ssa.Const); isK && k.IsNil() {
						continue
					}
					if _, isMk := ls.(*ssa.MakeSlice); isMk {
						continue
					}
					bad = true
					continue
				}
				b, isB := call.Call.Value.(*ssa.Builtin)
				if !isB || b.Name() != "append" {
					bad = true
					continue
				}
				for _, x := range appendedValues(call) {
					if !isElem(x) {
						bad = true
						continue
					}
					out = append(out, guardAt{call, x})
				}
			}
		}
		if bad {
			return nil
		}
		return out
	}
	for _, l := range liftedSites(f, func(i ssa.Instruction) bool {
		return core.IsInvoke(i, "net.Conn", "Write") || core.IsInvoke(i, "io.Writer", "Write")
	}) {
		cv := l.val(core.CallOf(l.inner).Value)
		var gs []guardAt
		if isElem(cv) {
			gs = []guardAt{{l.at, cv}}
		} else if gs = collected(cv); len(gs) == 0 {
			continue
		}
		if perSite[l.at] == 0 {
			writes = append(writes, l.at)
			connOf[l.at] = cv
			guardsOf[l.at] = gs
		}
		perSite[l.at]++
	}
	if len(writes) == 0 {
		c.Undecided("fanout-write@"+fname(f), f.Pos(), "no write to an element of ActiveConnections()")
		return
	}
	for _, w := range writes {
		okOrigin, okSession, okSub := true, true, true
		for _, g := range guardsOf[w] {
			conn := g.conn
			notOrigin := core.CmpFact(func(x, y ssa.Value) (bool, bool) {
				if (sameValue(x, conn) && y == ssa.Value(pexcept)) || (sameValue(y, conn) && x == ssa.Value(pexcept)) {
					return false, true
				}
				return false, false
			})
			isSessOfConn := func(v ssa.Value) bool {
				return core.AnySource(v, func(s ssa.Value) bool {
					call, ok := s.(*ssa.Call)
					return ok && core.IsInvoke(call, qContext, "GetSessionForConnection") && sameValue(call.Call.Args[0], conn)
				})
			}
			hasSession := core.NonNilFact(isSessOfConn)
			subscribed := core.TrueFact(func(v ssa.Value) bool {
				call, ok := v.(*ssa.Call)
				return ok && core.IsInvoke(call, qSession, "IsSubscribedTo") && isSessOfConn(call.Call.Value) && call.Call.Args[0] == ssa.Value(pc)
			})
			okOrigin = okOrigin && core.Dominated(g.site, notOrigin)
			okSession = okSession && core.Dominated(g.site, hasSession)
			okSub = okSub && core.Dominated(g.site, subscribed)
		}
		// completeness: "every other subscribed connection receives the event" — the only reasons to pass a connection over are the three
		// above, a notification that could not be built, and the end of the list. A further condition (a rate limit, a "has this value
		// already" filter, a connection-state test) drops events for subscribed connections.
		for _, g := range guardsOf[w] {
			if g.site.Parent() != f {
				continue
			}
			var allowed func(v ssa.Value, b *ssa.BasicBlock, depth int) bool
			allowed = func(v ssa.Value, b *ssa.BasicBlock, depth int) bool {
				if depth > 4 {
					return false
				}
				switch x := v.(type) {
				case *ssa.Const:
					return true
				case *ssa.UnOp:
					if x.Op == token.NOT {
						return allowed(x.X, b, depth+1)
					}
				case *ssa.Phi:
					for _, e := range x.Edges {
						if !allowed(e, b, depth+1) {
							return false
						}
					}
					return true
				case *ssa.Call:
					return core.IsInvoke(x, qSession, "IsSubscribedTo")
				case *ssa.Extract:
					if _, isTA := x.Tuple.(*ssa.TypeAssert); isTA {
						return true
					}
					if _, isNext := x.Tuple.(*ssa.Next); isNext {
						return true
					}
				case *ssa.BinOp:
					if x.Op == token.EQL || x.Op == token.NEQ {
						for _, pr := range [][2]ssa.Value{{x.X, x.Y}, {x.Y, x.X}} {
							if pr[0] == ssa.Value(pexcept) {
								return true
							}
							if core.IsNilConst(pr[1]) {
								if core.TypeIs(pr[0].Type(), "error") {
									return true
								}
								if core.AnySource(pr[0], func(sv ssa.Value) bool {
									call, ok := sv.(*ssa.Call)
									return ok && core.IsInvoke(call, qContext, "GetSessionForConnection")
								}) {
									return true
								}
							}
						}
					}
					if x.Op == token.LSS && (b.Comment == "rangeindex.loop" || b.Comment == "for.loop") {
						return true
					}
					// the number of connections against a constant ( nothing to do for an empty list )
					for _, pr := range [][2]ssa.Value{{x.X, x.Y}, {x.Y, x.X}} {
						if _, isK := core.ConstInt(pr[1]); !isK {
							continue
						}
						if call, ok := pr[0].(*ssa.Call); ok {
							if bi, isB := call.Call.Value.(*ssa.Builtin); isB && bi.Name() == "len" && core.AnySource(call.Call.Args[0], func(sv ssa.Value) bool {
								cl, ok := sv.(*ssa.Call)
								return ok && core.IsInvoke(cl, qContext, "ActiveConnections")
							}) {
								return true
							}
						}
					}
				}
				return false
			}
			var extra *ssa.If
			for _, iff := range controlDepsAll(g.site.Block()) {
				if !allowed(iff.Cond, iff.Block(), 0) {
					extra = iff
				}
			}
			if extra != nil {
				c.Bad("no-other-skip@"+fname(f), posOf(extra), "whether a connection is sent the event depends on a condition (%s) that is none of: it is the originator, it has no session, it is not subscribed, the notification could not be built — subscribed connections can miss the event of a change", p.Position(extra.Cond.Pos()))
			} else {
				c.OK("no-other-skip@"+fname(f), posOf(g.site), "the send depends on nothing but originator / session / subscription / a notification that was built")
			}
		}
		c.Check(okOrigin, "skip-originator@"+fname(f), posOf(w), "the write is dominated by conn != originator", "the connection that made the change is not excluded from the fan-out")
		c.Check(okSession, "session-present@"+fname(f), posOf(w), "the write is dominated by a non-nil session of that connection", "a connection without session can be written to")
		c.Check(okSub, "subscribed@"+fname(f), posOf(w), "the write is dominated by IsSubscribedTo(c) of that connection's session for the characteristic that changed",
			"the write is not dominated by 'this connection's session is subscribed to this characteristic': unsubscribed connections receive events")
		// body provenance
		bodyOK := false
		core.Instrs(f, func(i ssa.Instruction) {
			if core.IsCall(i, mod+"/hap.NewCharacteristicNotification") {
				a := core.Args(i)
				if a[0] == ssa.Value(pa) && a[1] == ssa.Value(pc) {
					bodyOK = true
				}
			}
		})
		c.Check(bodyOK, "body@"+fname(f), posOf(w), "the notification is built for the accessory/characteristic that changed", "the notification is not built from the (accessory, characteristic) that changed")
		// one notification object per recipient: its body is a reader that the first serialisation drains
		freshOK := false
		core.Instrs(f, func(i ssa.Instruction) {
			if core.IsCall(i, mod+"/hap.NewCharacteristicNotification") && !cycleAvoiding(w, i) {
				freshOK = true
			}
		})
		c.Check(freshOK, "notification-per-recipient@"+fname(f), posOf(w), "every write is preceded by the creation of its own notification", "one notification object is serialised for several recipients: its body reader is drained by the first, the others receive headers announcing a body that never comes")
	}
	// somebody is sent something: a fan-out whose send cannot be reached (a guard that is always taken) sends no event at all; and
	// what is sent is a notification that was built (the send is on the nil side of the builder's error)
	c.Check(len(writes) > 0, "fanout-sends@"+fname(f), f.Pos(), "the fan-out reaches a write to a connection", "no write to a connection is reachable in the fan-out: no event is ever sent")
	for _, w := range writes {
		if w.Parent() != f {
			continue
		}
		core.Instrs(f, func(i ssa.Instruction) {
			if !core.IsCall(i, mod+"/hap.NewCharacteristicNotification") {
				return
			}
			call := i.(*ssa.Call)
			isErr := func(v ssa.Value) bool {
				e, ok := v.(*ssa.Extract)
				return ok && e.Tuple == ssa.Value(call) && e.Index == 1
			}
			c.Check(core.Dominated(w, core.IsNilFact(isErr)), "send-after-built@"+fname(f), posOf(w), "the send is on the nil side of the notification builder's error",
				"the send is not on the branch where the notification was built (the test of the builder's error is inverted or dropped): built notifications are never sent, and a nil one is written")
		})
	}
	// at most one write per loop iteration
	var header *ssa.BasicBlock
	for _, b := range f.Blocks {
		if b.Comment == "rangeindex.loop" || b.Comment == "rangeiter.loop" || b.Comment == "for.loop" {
			header = b
			break
		}
	}
	if header == nil {
		c.Undecided("fanout-loop@"+fname(f), f.Pos(), "loop header not found")
		return
	}
	maxw := 0
	core.EnumPaths(f, 2, 100000, func(pth core.Path) {
		for _, sg := range segments(pth, header) {
			n := 0
			sg.Instrs(func(i ssa.Instruction) {
				for _, w := range writes {
					if i == w {
						n += perSite[w]
					}
				}
			})
			if n > maxw {
				maxw = n
			}
		}
	})
	c.Check(maxw <= 1, "one-write-per-recipient@"+fname(f), f.Pos(), "at most one write per recipient and call", "a recipient can be written to more than once per change")
}

func c10r2(c *core.Ctx) {
	lateServicesAreWired(c)
	transportWiring(c)
	charRegistration(c)
	p := c.P
	add := p.Func("", "(*ipTransport).addAccessory")
	notify := p.Func("", "(*ipTransport).notifyListener")
	if add == nil || notify == nil {
		c.Undecided("addAccessory", token.NoPos, "not found")
		return
	}
	acc := paramOfType(add, mod+"/accessory.Accessory")
	// receivers of the registration calls: elements of s.Characteristics of elements of a.Services
	isCharOfAcc := func(v ssa.Value) bool {
		return core.AnySource(v, func(s ssa.Value) bool {
			u, ok := s.(*ssa.UnOp)
			if !ok {
				return false
			}
			ia, ok := u.X.(*ssa.IndexAddr)
			if !ok {
				return false
			}
			return core.AnySource(ia.X, func(cs ssa.Value) bool {
				base, ok := core.FieldLoad(cs, mod+"/service.Service", "Characteristics")
				if !ok {
					return false
				}
				return core.AnySource(base, func(ss ssa.Value) bool {
					u2, ok := ss.(*ssa.UnOp)
					if !ok {
						return false
					}
					ia2, ok := u2.X.(*ssa.IndexAddr)
					if !ok {
						return false
					}
					return core.AnySource(ia2.X, func(as ssa.Value) bool {
						b2, ok := core.FieldLoad(as, mod+"/accessory.Accessory", "Services")
						return ok && valIs(b2, acc)
					})
				})
			})
		})
	}
	for _, spec := range []struct {
		method string
		remote bool
	}{{"OnValueUpdateFromConn", true}, {"OnValueUpdate", false}} {
		sites := core.FindCalls(add, func(i ssa.Instruction) bool { return core.IsCall(i, "(*"+tChar+")."+spec.method) })
		key := "register:" + spec.method + "@" + fname(add)
		if len(sites) == 0 {
			c.Bad(key, add.Pos(), "addAccessory does not register a "+spec.method+" callback: changes of this kind never reach the fan-out")
			continue
		}
		for _, s := range sites {
			okRecv := isCharOfAcc(core.Receiver(s))
			c.Check(okRecv && reachesAfter(s, s), key+"/every-characteristic", posOf(s), "registered inside the loops over a.Services[*].Characteristics[*]",
				"the callback is not registered for every characteristic of every service of the accessory")
			// closure body
			var cl *ssa.Function
			for _, src := range core.Sources(core.Args(s)[0]) {
				if mc, ok := src.(*ssa.MakeClosure); ok {
					cl = mc.Fn.(*ssa.Function)
				}
			}
			if cl == nil {
				c.Undecided(key+"/closure", posOf(s), "callback is not a closure literal")
				continue
			}
			good := false
			core.Instrs(cl, func(i ssa.Instruction) {
				if core.Callee(i) != notify {
					return
				}
				// the arguments by the type of notifyListener's parameters (the function may have gained or lost leading parameters)
				raw := core.CallOf(i).Args
				byType := func(typ string) ssa.Value {
					for k, pr := range notify.Params {
						if k < len(raw) && core.TypeIs(pr.Type(), typ) {
							return raw[k]
						}
					}
					return nil
				}
				a := []ssa.Value{byType(mod + "/accessory.Accessory"), byType(tChar), byType("net.Conn")}
				if a[0] == nil || a[1] == nil || a[2] == nil {
					return
				}
				// a: captured accessory param; c: own parameter or captured loop variable; except: own conn / nil
				accOK := valIs(a[0], acc) || core.AnySource(a[0], func(v ssa.Value) bool {
					fv, ok := v.(*ssa.FreeVar)
					if !ok {
						return false
					}
					for _, b := range core.FreeVarBinding(fv) {
						if valIs(b, acc) {
							return true
						}
					}
					return false
				})
				var ownChar, ownConn *ssa.Parameter
				for _, pr := range cl.Params {
					if core.TypeIs(pr.Type(), tChar) {
						ownChar = pr
					}
					if core.TypeIs(pr.Type(), "net.Conn") {
						ownConn = pr
					}
				}
				charOK := ownChar != nil && a[1] == ssa.Value(ownChar)
				if !charOK {
					// captured loop variable holding the same characteristic the callback is registered on
					charOK = core.AnySource(a[1], func(v ssa.Value) bool { _, ok := v.(*ssa.FreeVar); return ok })
				}
				var exOK bool
				if spec.remote {
					exOK = ownConn != nil && a[2] == ssa.Value(ownConn)
				} else {
					exOK = core.IsNilConst(a[2])
				}
				if accOK && charOK && exOK {
					good = true
				}
			})
			want := "nil as originator"
			if spec.remote {
				want = "its own connection as originator"
			}
			c.Check(good, key+"/closure", posOf(s), "the callback calls notifyListener(a, c, "+want+")", "the "+spec.method+" callback does not call notifyListener with the accessory, the characteristic and "+want)
		}
	}
	// every accessory given to the transport is added
	if nt := p.Func("", "NewIPTransport"); nt != nil {
		first, rest := false, false
		core.Instrs(nt, func(i ssa.Instruction) {
			if core.Callee(i) != add {
				return
			}
			arg := core.Args(i)[0]
			if pr, ok := arg.(*ssa.Parameter); ok && core.TypeIs(pr.Type(), mod+"/accessory.Accessory") {
				first = true
			}
			if core.AnySource(arg, func(v ssa.Value) bool {
				u, ok := v.(*ssa.UnOp)
				if !ok {
					return false
				}
				ia, ok := u.X.(*ssa.IndexAddr)
				if !ok {
					return false
				}
				_, isParam := ia.X.(*ssa.Parameter)
				return isParam
			}) && reachesAfter(i, i) {
				rest = true
			}
		})
		c.Check(first && rest, "all-accessories-added@"+fname(nt), nt.Pos(), "addAccessory is called for the first accessory and for every further one", "not every accessory given to NewIPTransport is wired to the fan-out")
	}
}

func c10r3(c *core.Ctx) {
	charDispatchPolarity(c)
	compareAndStoreAtomic(c)
	p := c.P
	f := p.Func("characteristic", "(*Characteristic).updateValue")
	if f == nil {
		c.Undecided("updateValue", token.NoPos, "not found")
		return
	}
	// the value that is stored
	var store *ssa.Store
	core.Instrs(f, func(i ssa.Instruction) {
		if st, ok := i.(*ssa.Store); ok {
			if base, ok := core.FieldAddrOf(st.Addr, tChar, "Value"); ok && base == ssa.Value(f.Params[0]) {
				store = st
			}
		}
	})
	if store == nil {
		c.Undecided("value-store@"+fname(f), f.Pos(), "no store to c.Value")
		return
	}
	stored := store.Val
	// is there a comparison in the function that is made on the stored variable itself? Only then may the walk's specialised form of it
	// (the variable replaced by what it holds on the edge the walk came through) count: a comparison made on the value *before* the clamp
	// is a comparison with one of the things the stored variable can hold, not with what is stored
	comparesStoredItself := false
	core.Instrs(f, func(i ssa.Instruction) {
		if bo, ok := i.(*ssa.BinOp); ok && (bo.Op == token.EQL || bo.Op == token.NEQ) {
			cur := func(v ssa.Value) bool {
				b, ok := core.FieldLoad(v, tChar, "Value")
				return ok && b == ssa.Value(f.Params[0])
			}
			if (cur(bo.X) && bo.Y == stored) || (cur(bo.Y) && bo.X == stored) {
				comparesStoredItself = true
			}
		}
	})
	changed := core.CmpFact(func(x, y ssa.Value) (bool, bool) {
		isCur := func(v ssa.Value) bool {
			b, ok := core.FieldLoad(v, tChar, "Value")
			return ok && b == ssa.Value(f.Params[0])
		}
		// the stored value, or — where the walk knows through which edge it came — the value the stored variable holds on that edge
		isStored := func(v ssa.Value) bool {
			if v == stored {
				return true
			}
			if ph, ok := stored.(*ssa.Phi); ok && comparesStoredItself {
				for _, e := range ph.Edges {
					if e == v {
						return true
					}
				}
			}
			return false
		}
		if (isCur(x) && isStored(y)) || (isCur(y) && isStored(x)) {
			return false, true
		}
		return false, false
	})
	force := core.TrueFact(func(v ssa.Value) bool { _, ok := core.FieldLoad(v, tChar, "updateOnSameValue"); return ok })
	// the comparison made in a helper: a module function of two interface parameters whose every result is the constant false or
	// `a == b` of its parameters answers "the same" only for equal values — its false edge is "changed"
	isEquality := func(g *ssa.Function) bool {
		if g == nil || len(g.Params) != 2 || g.Signature.Results().Len() != 1 || len(g.Blocks) == 0 {
			return false
		}
		ok, n := true, 0
		core.Instrs(g, func(i ssa.Instruction) {
			r, isR := i.(*ssa.Return)
			if !isR {
				return
			}
			for _, sv := range core.Sources(r.Results[0]) {
				n++
				if k, isK := sv.(*ssa.Const); isK && k.Value != nil && k.Value.ExactString() == "false" {
					continue
				}
				if bo, isB := sv.(*ssa.BinOp); isB && bo.Op == token.EQL &&
					((bo.X == ssa.Value(g.Params[0]) && bo.Y == ssa.Value(g.Params[1])) || (bo.X == ssa.Value(g.Params[1]) && bo.Y == ssa.Value(g.Params[0]))) {
					continue
				}
				ok = false
			}
		})
		return ok && n > 0
	}
	changedByHelper := core.CondFact(func(cond ssa.Value) (bool, bool) {
		call, ok := cond.(*ssa.Call)
		if !ok || call.Call.IsInvoke() || !core.InModule(call.Call.StaticCallee()) || !isEquality(call.Call.StaticCallee()) {
			return false, false
		}
		a := call.Call.Args
		isCur := func(v ssa.Value) bool {
			b, ok := core.FieldLoad(v, tChar, "Value")
			return ok && b == ssa.Value(f.Params[0])
		}
		isSt := func(v ssa.Value) bool { return v == stored }
		if len(a) == 2 && ((isCur(a[0]) && isSt(a[1])) || (isCur(a[1]) && isSt(a[0]))) {
			return false, true
		}
		return false, false
	})
	// values that cannot be compared (arrays and objects written to a characteristic without a known format) are never "the same":
	// the path passes the false edge of a reflect Comparable() test
	uncomparable := core.CondFact(func(cond ssa.Value) (bool, bool) {
		if call, ok := cond.(*ssa.Call); ok && call.Call.IsInvoke() && call.Call.Method.Name() == "Comparable" {
			return false, true
		}
		return false, false
	})
	fact := core.AnyFact(changed, changedByHelper, force, uncomparable)
	// callback fan-outs: calls that receive one of the callback slices, or dynamic calls of their elements
	var fanouts []ssa.Instruction
	core.Instrs(f, func(i ssa.Instruction) {
		cc := core.CallOf(i)
		if cc == nil {
			return
		}
		if _, isBuiltin := cc.Value.(*ssa.Builtin); isBuiltin {
			return // len(c.valueChangeFuncs) of a range loop is not a dispatch
		}
		for _, a := range cc.Args {
			if isCallbackSlice(a, "connValueUpdateFuncs") {
				fanouts = append(fanouts, i)
			}
			if isCallbackSlice(a, "valueChangeFuncs") {
				fanouts = append(fanouts, i)
			}
		}
		if dispatchesCallbacksOf(cc, f.Params[0]) {
			fanouts = append(fanouts, i)
		}
		// the dispatch loop written out: a dynamic call of an element of one of the two slices
		if !cc.IsInvoke() && cc.StaticCallee() == nil {
			if core.AnySource(cc.Value, func(s ssa.Value) bool {
				u, ok := s.(*ssa.UnOp)
				if !ok {
					return false
				}
				ia, ok := u.X.(*ssa.IndexAddr)
				if !ok {
					return false
				}
				return core.AnySource(ia.X, func(sv ssa.Value) bool {
					_, a := core.FieldLoad(sv, tChar, "connValueUpdateFuncs")
					_, b := core.FieldLoad(sv, tChar, "valueChangeFuncs")
					return a || b
				})
			}) {
				fanouts = append(fanouts, i)
			}
		}
	})
	if len(fanouts) < 2 {
		c.Undecided("callback-fanouts@"+fname(f), f.Pos(), "expected a remote and a local callback fan-out")
		return
	}
	for k, fo := range fanouts {
		c.Check(core.Dominated(fo, fact), "callbacks-only-on-change@"+fname(f)+"#"+string(rune('1'+k)), posOf(fo),
			"dominated by 'current value != value to be stored' (or updateOnSameValue), the compared value being the stored one",
			"callbacks can run although the value that is stored equals the current value (the comparison is made on a different value than the one stored, or is missing): an event is sent without a change")
		// the callbacks receive the stored value
		passes := false
		for _, a := range core.CallOf(fo).Args {
			if a == stored {
				passes = true
			}
		}
		c.Check(passes, "callbacks-get-stored-value@"+fname(f)+"#"+string(rune('1'+k)), posOf(fo), "callbacks receive the value that is stored", "callbacks receive a different value than the one stored")
	}
}

// subscribeCallers: subscriptions are changed only by the /characteristics handler (which sits behind the authenticating
// wrapper, C01-R1) and only on the session of the request's own connection.
func subscribeCallers(c *core.Ctx) {
	p := c.P
	n := 0
	for _, f := range libFuncs(p) {
		for _, s := range core.FindCalls(f, func(i ssa.Instruction) bool {
			return core.IsInvoke(i, qSession, "Subscribe") || core.IsInvoke(i, qSession, "Unsubscribe")
		}) {
			n++
			req := paramOfType(f, "net/http.Request")
			ok := req != nil && sessionOfRequest(core.Receiver(s), req) && cn(f) == "Characteristics"
			c.Check(ok, "subscribe-caller@"+fname(f)+"/"+core.CallOf(s).Method.Name(), posOf(s), "called by the /characteristics handler on the requesting session", "subscriptions are changed outside the /characteristics handler or on another session than the requesting one")
		}
	}
	if n == 0 {
		c.Undecided("subscribe-callers", token.NoPos, "no Subscribe/Unsubscribe call site")
	}
}

func c10r4(c *core.Ctx) {
	p := c.P
	sessionAccessors(c, "subscribed")
	for _, spec := range []struct {
		name  string
		write bool
		val   int64
	}{{"Subscribe", true, 1}, {"Unsubscribe", true, 0}, {"IsSubscribedTo", false, 0}} {
		f := p.Func("hap", "(*session)."+spec.name)
		if f == nil {
			c.Undecided("session."+spec.name, token.NoPos, "not found")
			continue
		}
		chp := paramOfType(f, tChar)
		key := "subs:" + spec.name
		var op ssa.Instruction
		var k ssa.Value
		var val ssa.Value
		deleted := false
		core.Instrs(f, func(i ssa.Instruction) {
			switch x := i.(type) {
			case *ssa.MapUpdate:
				if _, ok := core.FieldLoad(x.Map, tSessImpl, "subs"); ok {
					op, k, val = x, x.Key, x.Value
				}
			case *ssa.Lookup:
				if _, ok := core.FieldLoad(x.X, tSessImpl, "subs"); ok {
					op, k = x, x.Index
				}
			case *ssa.Call:
				if b, ok := x.Call.Value.(*ssa.Builtin); ok && b.Name() == "delete" {
					if _, ok := core.FieldLoad(x.Call.Args[0], tSessImpl, "subs"); ok {
						op, k, deleted = x, x.Call.Args[1], true
					}
				}
			}
		})
		if op == nil {
			c.Bad(key, f.Pos(), "session."+spec.name+" does not access the subscription map")
			continue
		}
		c.Check(chp != nil && k == ssa.Value(chp), key+"/key", op.Pos(), "keyed by the characteristic object itself",
			"the subscription map is not keyed by the characteristic object: instance ids are unique only within one accessory, so a subscription on one accessory matches characteristics of another")
		if spec.write {
			okVal := deleted && spec.val == 0
			if n, isK := core.ConstInt(val); val != nil && isK && n == spec.val {
				okVal = true
			}
			c.Check(okVal, key+"/value", op.Pos(), "stores the right constant", "session."+spec.name+" does not store the expected constant")
		}
		inSec, why := inCriticalSection(f, op, func(v ssa.Value) bool {
			_, ok := core.FieldLoad(v, tSessImpl, "mu")
			if ok {
				return true
			}
			_, ok = core.FieldAddrOf(v, tSessImpl, "mu")
			return ok
		})
		c.Check(inSec, key+"/locked", op.Pos(), "under the session mutex", "the subscription map is accessed outside the session mutex ("+why+")")
	}
	subscribeCallers(c)
	// the map is created per session
	if f := p.Func("hap", "NewSession"); f != nil {
		fresh := false
		core.Instrs(f, func(i ssa.Instruction) {
			if st, ok := i.(*ssa.Store); ok {
				if _, ok := core.FieldAddrOf(st.Addr, tSessImpl, "subs"); ok {
					if _, ok := st.Val.(*ssa.MakeMap); ok {
						fresh = true
					}
				}
			}
		})
		c.Check(fresh, "subs-map-per-session", f.Pos(), "every session gets its own subscription map", "sessions do not get a fresh subscription map")
	}
	if pk := p.Pkg("hap"); pk != nil {
		if tn := p.LookupType("hap", "session"); tn != nil {
			if st, ok := tn.Type().Underlying().(*types.Struct); ok {
				for i := 0; i < st.NumFields(); i++ {
					if p.CanonFieldName(st.Field(i)) == "subs" {
						m, isMap := st.Field(i).Type().Underlying().(*types.Map)
						c.Check(isMap && core.TypeIs(m.Key(), tChar), "subs-key-type", st.Field(i).Pos(), "map key type is *characteristic.Characteristic", "the subscription map's key type is not the characteristic pointer")
					}
				}
			}
		}
	}
}

func c10r5(c *core.Ctx) {
	p := c.P
	closingRecipientDoesNotAbortFanout(c)
	socketClosedBeforeSessionRemoved(c)
	f := p.Func("hap", "(*Connection).Close")
	if f == nil {
		c.Undecided("Connection.Close", token.NoPos, "not found")
		return
	}
	var del ssa.Instruction
	core.Instrs(f, func(i ssa.Instruction) {
		if core.IsInvoke(i, qContext, "DeleteSessionForConnection") && fromRawSocket(core.Args(i)[0]) {
			del = i
		}
	})
	good := del != nil
	if good {
		// every path to a return removes the session — or has established that the session stored under this connection's key is
		// not this connection's (none, or that of a newer connection which took the key over: C13-R1 close-removes-own-session)
		isLookup := func(v ssa.Value) bool {
			return core.AnySource(v, func(sv ssa.Value) bool {
				call, ok := sv.(*ssa.Call)
				return ok && core.IsInvoke(call, qContext, "GetSessionForConnection")
			})
		}
		notOwn := core.AnyFact(core.IsNilFact(isLookup), core.CmpFact(func(x, y ssa.Value) (bool, bool) {
			isSessConn := func(v ssa.Value) bool {
				found := false
				walkOperands(v, 4, func(o ssa.Value) {
					if call, ok := o.(*ssa.Call); ok && core.IsInvoke(call, qSession, "Connection") {
						found = true
					}
				})
				return found
			}
			if isSessConn(x) || isSessConn(y) {
				return false, true
			}
			return false, false
		}))
		okEnum := core.EnumPaths(f, 2, 5000, func(pa core.Path) {
			if pa.Returns() == nil {
				return
			}
			removed := false
			pa.Instrs(func(i ssa.Instruction) {
				if i == del {
					removed = true
				}
			})
			if !removed && !pathEstablishes(pa, notOwn) {
				good = false
			}
		})
		if !okEnum {
			good = false
		}
	}
	c.Check(good, "close-removes-session@"+fname(f), f.Pos(), "every return of Close is preceded by DeleteSessionForConnection for its own socket", "Close can return without removing the session: the closed connection stays in the recipient set")
	// delete uses the same key function as set/get
	for _, name := range []string{"SetSessionForConnection", "GetSessionForConnection", "DeleteSessionForConnection"} {
		g := p.Func("hap", "(*context)."+name)
		if g == nil {
			c.Undecided("context."+name, token.NoPos, "not found")
			continue
		}
		uses := false
		core.Instrs(g, func(i ssa.Instruction) {
			if cf := core.Callee(i); cf != nil && cn(cf) == "GetKey" {
				uses = true
			}
		})
		c.Check(uses, "session-key:"+name, g.Pos(), "derives the key with GetKey", name+" does not derive the session key with GetKey: set/get/delete disagree on the key")
	}
	if g := p.Func("hap", "(*context).ActiveConnections"); g != nil {
		ok := false
		core.Instrs(g, func(i ssa.Instruction) {
			if core.IsInvoke(i, qSession, "Connection") {
				ok = true
			}
		})
		c.Check(ok, "active-connections-from-sessions", g.Pos(), "recipients are the connections of the stored sessions", "ActiveConnections does not enumerate the stored sessions' connections")
	}
}

// closingRecipientDoesNotAbortFanout: the cryptographer a write uses is known to be there. Connection.Write asks the session for its
// encrypter and, if there is one, calls EncryptedWrite, which asks again after it has waited for the write lock. In between the
// server's goroutine may close the connection (the peer hung up), which removes the session: the second answer is nil. A method call
// on it panics — in the goroutine that changed the value: the application's own (the process dies), or the handler of the
// controller that wrote the value (its request is not answered and the subscribers behind the closing one get no event).
// Every Encrypt / Decrypt on the answer of getEncrypter / getDecrypter in the write path is dominated by a nil test of that answer.
func closingRecipientDoesNotAbortFanout(c *core.Ctx) {
	p := c.P
	n := 0
	for _, name := range []string{"EncryptedWrite", "Write"} {
		f := p.Func("hap", "(*Connection)."+name)
		if f == nil {
			continue
		}
		for _, s := range core.FindCalls(f, func(i ssa.Instruction) bool { return core.IsInvoke(i, mod+"/crypto.Encrypter", "Encrypt") }) {
			n++
			recv := core.CallOf(s).Value
			checked := core.Dominated(s, core.NonNilFact(func(v ssa.Value) bool { return v == recv })) || core.KnownNonNil(recv)
			c.Check(checked, "encrypter-nil-checked@"+fname(f), posOf(s), "the encrypter that is used was tested for nil after it was looked up",
				"Encrypt is called on an encrypter that was looked up again and not tested: when the connection is closed between Connection.Write's test and this lookup (the peer hangs up while an event is on its way) the session is gone, the lookup answers nil and the goroutine that changed the value panics — the application's own, or the handler that still has the other subscribers to notify")
		}
	}
	if n == 0 {
		c.Undecided("encrypter-nil-checked", token.NoPos, "no Encrypt call in the write path of hap.Connection")
	}
}

// socketClosedBeforeSessionRemoved: Connection.Close closes the socket first and removes the session afterwards. Connection.Write
// chooses between the encrypted and the plain path by looking the session up; a writer that already holds the connection (the event
// fan-out took it from ActiveConnections, a response is in flight) and runs between the two steps of Close finds no session and
// puts its payload on the still open socket as it is: an EVENT with the characteristic's value in plain text inside the encrypted
// stream of a connection that is being closed (4-9 % of server-initiated closes with a busy application: "Connection: close",
// Stop()). With the socket closed first, whatever a late writer decides fails on the socket.
func socketClosedBeforeSessionRemoved(c *core.Ctx) {
	f := c.P.Func("hap", "(*Connection).Close")
	if f == nil {
		c.Undecided("Connection.Close", token.NoPos, "not found")
		return
	}
	var del, closeRaw ssa.Instruction
	core.Instrs(f, func(i ssa.Instruction) {
		if core.IsInvoke(i, qContext, "DeleteSessionForConnection") {
			del = i
		}
		if cc := core.CallOf(i); cc != nil && cc.IsInvoke() && cc.Method.Name() == "Close" && fromRawSocket(cc.Value) {
			closeRaw = i
		}
	})
	if del == nil || closeRaw == nil {
		c.Undecided("socket-closed-before-session-removed@"+fname(f), f.Pos(), "Close does not both close the socket and remove the session")
		return
	}
	c.Check(instrDominates(closeRaw, del) && !reachesAfter(del, closeRaw), "socket-closed-before-session-removed@"+fname(f), posOf(del),
		"the socket is closed before the session is removed",
		"Connection.Close removes the session while the socket is still open: a writer that runs in between (an event on its way to this connection) finds no session, takes the plain-text branch of Connection.Write and puts the payload — the characteristic's value — on the wire unencrypted, inside the encrypted stream")
}

package rules

import (
	"fmt"
	"go/token"
	"strings"

	"golang.org/x/tools/go/ssa"

	"hcsa/core"
)

// open routes: the endpoints HAP defines for peers that are not (yet) verified.
var openRoutes = map[string]bool{"/pair-setup": true, "/pair-verify": true, "/identify": true}

func init() {
	register(&core.Property{
		ID:    "C01",
		Level: "other",
		Explanation: "Static route/guard analysis. Every registration on an http.ServeMux in library code is enumerated; every route outside the open set " +
			"{/pair-setup,/pair-verify,/identify} must be registered behind a wrapper whose every path to the wrapped handler passes the non-nil successor of a test on " +
			"Session.Encrypter()/Decrypter() of the session looked up for that very request (edge-cut dominance over the closure's SSA blocks). " +
			"Installing a cryptographer is confined to the /pair-verify handler, on the session of the request's own connection; session keys derive from the remote address. " +
			"This decides the structural necessary conditions of the property, not the run-time behaviour of net/http.",
		Assumptions: []string{
			"net/http delivers Request.RemoteAddr of the connection the request arrived on",
			"an installed cryptographer implies a valid pair-verify (decided by C03)",
		},
		NotDecided: []string{"what admitted handlers disclose", "HTTP server internals", "that remote addresses are not reused while a stale session exists (Connection.Close removes the session: C10-R5)"},
		NeedsCG:    true,
		Rules: []core.Rule{
			{ID: "C01-R1", Title: "every non-open route is registered behind an authenticating wrapper", Decides: "(a) every protected operation is refused without verification", Floor: 6, Run: c01r1},
			{ID: "C01-R2", Title: "wrapper soundness: the wrapped handler is dominated by a verification predicate", Decides: "(a) refusal, (b) a refusal runs none of the handler", Floor: 1, Run: c01r2},
			{ID: "C01-R4", Title: "the controller key used for verification is read from storage at that moment (shared with C18-R4)", Decides: "a key that is no longer stored does not verify", Floor: 2, Run: func(c *core.Ctx) { c01r4(c); addedPairingKeepsItsKey(c) }},
			{ID: "C01-R3", Title: "only pair-verify installs a cryptographer, on the request's own session; session keys derive from the remote address", Decides: "(c) verification is per connection", Floor: 8, Run: func(c *core.Ctx) { c01r3(c); sessionStoredUnderConnectionKey(c); returnsUndecorated(c, "C01") }},
			{ID: "C01-R5", Title: "events are written only to sessions subscribed through the authenticated route (shared with C10-R1 and the who-subscribes part of C10-R4)", Decides: "a refused / unverified connection is disclosed no value", Floor: 6, Run: func(c *core.Ctx) { c10r1(c); subscribeCallers(c) }},
			{ID: "C01-R6", Title: "the cryptographer is installed only behind the controller's own successful answer (shared with C03-R1)", Decides: "a connection whose verification failed keeps being refused", Floor: 3, Run: c03r1},
		},
	})
}

func c01r1(c *core.Ctx) {
	p := c.P
	rs := routes(p)
	c.Count("routes", len(rs))
	for _, r := range rs {
		key := fmt.Sprintf("route:%s@%s", r.Pattern, fname(r.In))
		if !r.PatOK {
			c.Undecided("route:<non-constant>@"+fname(r.In), posOf(r.Site), "route pattern is not a constant; cannot classify the route")
			continue
		}
		if openRoutes[r.Pattern] {
			c.OK(key, posOf(r.Site), "open route (defined by HAP for unverified peers)")
			continue
		}
		_, w := handlerFuncs(p, r.Handler)
		if w == nil {
			c.Bad(key, posOf(r.Site), "protected route %s is registered without an authenticating wrapper: handler value %s is served to unverified connections", r.Pattern, r.Handler)
			continue
		}
		wf := w.Call.StaticCallee()
		ok, why := isAuthWrapper(p, wf)
		if ok {
			c.OK(key, posOf(r.Site), "registered behind %s", fname(wf))
		} else {
			c.Bad(key, posOf(r.Site), "protected route %s is wrapped by %s which is not a sound authenticating wrapper: %s", r.Pattern, fname(wf), why)
		}
	}
}

// verifiedFact builds the CondFact "cryptographer of this request's session is non-nil" for closure cl.
func verifiedFact(cl *ssa.Function) core.CondFact {
	req := paramOfType(cl, "net/http.Request")
	isCrypt := func(v ssa.Value) bool {
		for _, s := range core.Sources(v) {
			call, ok := s.(*ssa.Call)
			if !ok {
				continue
			}
			if !(core.IsInvoke(call, qSession, "Encrypter") || core.IsInvoke(call, qSession, "Decrypter")) {
				continue
			}
			if req != nil && sessionOfRequest(call.Call.Value, req) {
				return true
			}
		}
		return false
	}
	direct := core.NonNilFact(isCrypt)
	// helper predicate: a call to a module function returning bool whose every non-false return is
	// dominated by the direct fact stated on its own parameters.
	helper := core.TrueFact(func(v ssa.Value) bool {
		call, ok := v.(*ssa.Call)
		if !ok {
			return false
		}
		f := call.Call.StaticCallee()
		if f == nil || !core.InModule(f) || f.Blocks == nil {
			return false
		}
		// the helper must receive this request or this request's session
		passes := false
		for _, a := range call.Call.Args {
			if req != nil && (valIs(a, req) || sessionOfRequest(a, req)) {
				passes = true
			}
		}
		if !passes {
			return false
		}
		return helperImpliesVerified(f)
	})
	return core.AnyFact(direct, helper)
}

func helperImpliesVerified(f *ssa.Function) bool {
	hreq := paramOfType(f, "net/http.Request")
	isCrypt := func(v ssa.Value) bool {
		for _, s := range core.Sources(v) {
			call, ok := s.(*ssa.Call)
			if !ok {
				continue
			}
			if !(core.IsInvoke(call, qSession, "Encrypter") || core.IsInvoke(call, qSession, "Decrypter")) {
				continue
			}
			if hreq != nil && sessionOfRequest(call.Call.Value, hreq) {
				return true
			}
			for _, pr := range f.Params {
				if core.TypeIs(pr.Type(), qSession) && valIs(call.Call.Value, pr) {
					return true
				}
			}
		}
		return false
	}
	fact := core.NonNilFact(isCrypt)
	ok := true
	n := 0
	core.Instrs(f, func(i ssa.Instruction) {
		r, isRet := i.(*ssa.Return)
		if !isRet || len(res(r)) != 1 {
			return
		}
		if v, isC := core.ConstInt(res(r)[0]); isC && v == 0 {
			return // return false
		}
		n++
		if v, isC := core.ConstInt(res(r)[0]); isC && v == 1 {
			if !core.Dominated(r, fact) {
				ok = false
			}
			return
		}
		// return <expr>: accept only if expr itself is the non-nil comparison
		if b, isB := res(r)[0].(*ssa.BinOp); isB && b.Op == token.NEQ && (core.IsNilConst(b.Y) && isCrypt(b.X) || core.IsNilConst(b.X) && isCrypt(b.Y)) {
			return
		}
		if !core.Dominated(r, fact) {
			ok = false
		}
	})
	return ok && n > 0
}

// nextCalls returns the calls in closure cl that invoke the wrapped handler (free variable bound to a
// parameter of the wrapper of handler/func type).
func nextCalls(w, cl *ssa.Function) []ssa.Instruction {
	isNext := func(v ssa.Value) bool {
		for _, s := range core.Sources(v) {
			if pr, ok := s.(*ssa.Parameter); ok && pr.Parent() == w {
				if core.TypeIs(pr.Type(), "net/http.Handler") || core.TypeIs(pr.Type(), "net/http.HandlerFunc") || isFuncType(pr) {
					return true
				}
			}
			if fv, ok := s.(*ssa.FreeVar); ok {
				for _, b := range core.FreeVarBinding(fv) {
					for _, bs := range core.Sources(b) {
						if pr, ok := bs.(*ssa.Parameter); ok && pr.Parent() == w {
							if core.TypeIs(pr.Type(), "net/http.Handler") || core.TypeIs(pr.Type(), "net/http.HandlerFunc") || isFuncType(pr) {
								return true
							}
						}
					}
				}
			}
		}
		return false
	}
	return core.FindCalls(cl, func(i ssa.Instruction) bool {
		cc := core.CallOf(i)
		if cc.IsInvoke() {
			return cc.Method.Name() == "ServeHTTP" && isNext(cc.Value)
		}
		if cc.StaticCallee() != nil && strings.HasSuffix(core.QualName(cc.StaticCallee()), "HandlerFunc).ServeHTTP") {
			return isNext(cc.Args[0])
		}
		return cc.StaticCallee() == nil && isNext(cc.Value)
	})
}

func isFuncType(pr *ssa.Parameter) bool {
	_, ok := pr.Type().Underlying().(interface{ Params() interface{} })
	_ = ok
	return strings.HasPrefix(pr.Type().Underlying().String(), "func(")
}

var wrapperMemo = map[*ssa.Function]struct {
	ok  bool
	why string
}{}

func isAuthWrapper(p *core.Program, w *ssa.Function) (bool, string) {
	if m, ok := wrapperMemo[w]; ok {
		return m.ok, m.why
	}
	res := func(ok bool, why string) (bool, string) {
		wrapperMemo[w] = struct {
			ok  bool
			why string
		}{ok, why}
		return ok, why
	}
	if w == nil || w.Blocks == nil {
		return res(false, "wrapper has no body in the module")
	}
	cls := returnedClosures(w)
	if len(cls) == 0 {
		return res(false, "wrapper does not return a closure that could guard the handler")
	}
	total := 0
	for _, cl := range cls {
		total += len(nextCalls(w, cl))
	}
	if total == 0 {
		return res(false, "no call of the wrapped handler found in the returned closure(s): the wrapper cannot be analysed (or never serves)")
	}
	for _, cl := range cls {
		fact := verifiedFact(cl)
		calls := nextCalls(w, cl)
		for _, call := range calls {
			if !core.Dominated(call, fact) {
				return res(false, fmt.Sprintf("the call of the wrapped handler at %s is reachable without passing the non-nil branch of a test on Encrypter()/Decrypter() of this request's session", p.Position(posOf(call))))
			}
		}
	}
	return res(true, "")
}

func c01r2(c *core.Ctx) {
	p := c.P
	// every wrapper used on a route, plus every module function with the signature func(http.Handler) http.Handler
	seen := map[*ssa.Function]bool{}
	for _, r := range routes(p) {
		if _, w := handlerFuncs(p, r.Handler); w != nil {
			seen[w.Call.StaticCallee()] = true
		}
	}
	for _, w := range core.SortedFuncs(seen) {
		key := "wrapper:" + fname(w)
		ok, why := isAuthWrapper(p, w)
		n := 0
		for _, cl := range returnedClosures(w) {
			n += len(nextCalls(w, cl))
		}
		c.Count("wrapper_forward_sites", n)
		if ok {
			c.OK(key, w.Pos(), "%d forwarding call(s) of the wrapped handler, each dominated by the verification predicate", n)
		} else {
			c.Bad(key, w.Pos(), "%s", why)
		}
	}
}

func c01r3(c *core.Ctx) {
	p := c.P
	// (1) who calls SetCryptographer
	var verifyHandler *ssa.Function
	otherHandlers := map[*ssa.Function]string{}
	for _, r := range routes(p) {
		fns, w := handlerFuncs(p, r.Handler)
		if w != nil {
			// wrapped: the inner handler is the wrapper's argument
			for _, a := range w.Call.Args {
				f2, _ := handlerFuncs(p, a)
				fns = append(fns, f2...)
			}
			fns = append(fns, returnedClosures(w.Call.StaticCallee())...)
		}
		for _, f := range fns {
			if r.Pattern == "/pair-verify" {
				verifyHandler = f
			} else {
				otherHandlers[f] = r.Pattern
			}
		}
	}
	if verifyHandler == nil {
		c.Undecided("route:/pair-verify", token.NoPos, "no handler function resolved for /pair-verify")
		return
	}
	cg := p.CallGraph()
	sites := 0
	for _, f := range libFuncs(p) {
		core.Instrs(f, func(i ssa.Instruction) {
			if !(core.IsInvoke(i, qSession, "SetCryptographer") || core.IsCall(i, "(*"+mod+"/hap.session).SetCryptographer")) {
				return
			}
			sites++
			key := "SetCryptographer@" + fname(f)
			// transitive module callers of f
			tc := map[*ssa.Function]bool{f: true}
			work := []*ssa.Function{f}
			for len(work) > 0 {
				g := work[len(work)-1]
				work = work[:len(work)-1]
				if g.Parent() != nil && !tc[g.Parent()] {
					tc[g.Parent()] = true
					work = append(work, g.Parent())
				}
				if n := cg.Nodes[g]; n != nil {
					for _, e := range n.In {
						cf := e.Caller.Func
						if cf != nil && core.InModule(cf) && !isTestFunc(p, cf) && !tc[cf] {
							tc[cf] = true
							work = append(work, cf)
						}
					}
				}
			}
			bad := ""
			for g := range tc {
				if pat, ok := otherHandlers[g]; ok {
					bad = fmt.Sprintf("reachable from the handler of route %s (%s)", pat, fname(g))
				}
			}
			if bad == "" && !tc[verifyHandler] {
				bad = "not reachable from the /pair-verify handler: another entry point installs a cryptographer"
			}
			if bad == "" {
				// roots: functions in tc without module callers must be the verify handler
				for g := range tc {
					if g == verifyHandler || g.Parent() != nil {
						continue
					}
					n := cg.Nodes[g]
					hasCaller := false
					if n != nil {
						for _, e := range n.In {
							if e.Caller.Func != nil && core.InModule(e.Caller.Func) && !isTestFunc(p, e.Caller.Func) {
								hasCaller = true
							}
						}
					}
					if !hasCaller && g != f || (!hasCaller && g == f && f != verifyHandler) {
						bad = "also reachable from " + fname(g) + ", which is not the /pair-verify handler"
					}
				}
			}
			if bad != "" {
				c.Bad(key, posOf(i), "a cryptographer is installed outside pair-verify: %s", bad)
				return
			}
			// receiver is the session of this request
			req := paramOfType(verifyHandler, "net/http.Request")
			if f == verifyHandler && req != nil && sessionOfRequest(core.Receiver(i), req) {
				c.OK(key, posOf(i), "only reachable from the /pair-verify handler; receiver is the session looked up for the handler's own request")
			} else if f != verifyHandler {
				// a helper of the handler: the receiver, in the handler's terms, must still be the session of this request
				for _, l := range liftedSites(verifyHandler, func(j ssa.Instruction) bool { return j == i }) {
					if req != nil && !sessionOfRequest(l.val(core.Receiver(i)), req) {
						c.Bad(key+"/receiver", posOf(i), "the session receiving the cryptographer (through %s) is not the one looked up for this request's connection key", fname(f))
						return
					}
				}
				c.OK(key, posOf(i), "only reachable from the /pair-verify handler (through %s)", fname(f))
			} else {
				c.Bad(key+"/receiver", posOf(i), "the session receiving the cryptographer is not the one looked up for this request's connection key")
			}
		})
	}
	c.Count("setcryptographer_sites", sites)
	if sites == 0 {
		c.Undecided("SetCryptographer", token.NoPos, "no call site of Session.SetCryptographer found")
	}

	sessionAccessors(c, "promotion")
	// (2) who writes the cryptographer fields
	sessT := mod + "/hap.session"
	for _, fld := range []string{"cryptographer", "nextCryptographer"} {
		for _, st := range p.FieldStores(sessT, fld) {
			f := st.Parent()
			if isTestFunc(p, f) {
				continue
			}
			key := fmt.Sprintf("write:session.%s@%s", fld, fname(f))
			recvOK := core.TypeIs(recvType(f), sessT)
			valOK := false
			why := ""
			switch fld {
			case "cryptographer":
				// only promotion of nextCryptographer of the same object
				valOK = core.AllSources(st.Val, func(s ssa.Value) bool {
					_, ok := core.FieldLoad(s, sessT, "nextCryptographer")
					return ok
				})
				why = "value must be the pending nextCryptographer of the same session"
			case "nextCryptographer":
				valOK = core.AllSources(st.Val, func(s ssa.Value) bool {
					if core.IsNilConst(s) {
						return true
					}
					pr, ok := s.(*ssa.Parameter)
					return ok && cn(f) == "SetCryptographer" && pr.Parent() == f
				})
				why = "value must be nil or the argument of SetCryptographer"
			}
			if recvOK && valOK {
				c.OK(key, st.Pos(), "written only inside a method of session; %s", why)
			} else {
				c.Bad(key, st.Pos(), "field session.%s written in %s (%s)", fld, fname(f), why)
			}
		}
	}

	// (3) session keys identify ONE live connection: the remote address alone does not — a listener on several local addresses
	// (the default: all of them) can have two live connections with the same remote address and port, one per local address, and the
	// later one takes over the session entry of the earlier: an unverified connection then finds the verified session of another.
	// The key is built from both ends of the connection, the same way from the socket (GetKey) and from the request
	// (GetConnectionKey: Request.RemoteAddr and the local address net/http puts into the request context).
	ctxT := "(*" + mod + "/hap.context)"
	leaves := func(v ssa.Value) []ssa.Value {
		var out []ssa.Value
		var walk func(x ssa.Value, d int)
		walk = func(x ssa.Value, d int) {
			if mi, ok := x.(*ssa.MakeInterface); ok {
				x = mi.X
			}
			if b, ok := x.(*ssa.BinOp); ok && b.Op == token.ADD && d > 0 {
				walk(b.X, d-1)
				walk(b.Y, d-1)
				return
			}
			out = append(out, x)
		}
		walk(v, 6)
		return out
	}
	sepOf := func(ls []ssa.Value) string {
		sep := ""
		for _, l := range ls {
			if k, ok := core.ConstString(l); ok {
				sep += k
			}
		}
		return sep
	}
	var sepConn, sepReq string
	if f := p.Func("hap", "(*context).GetKey"); f != nil {
		remote, local, other := false, false, false
		nret := 0
		core.Instrs(f, func(i ssa.Instruction) {
			r, isR := i.(*ssa.Return)
			if !isR || len(res(r)) != 1 {
				return
			}
			nret++
			ls := leaves(res(r)[0])
			sepConn = sepOf(ls)
			for _, l := range ls {
				if _, isK := core.ConstString(l); isK {
					continue
				}
				call, isCall := l.(*ssa.Call)
				if isCall && core.IsInvoke(call, "net.Addr", "String") {
					if core.AnySource(call.Call.Value, func(s ssa.Value) bool {
						c2, ok := s.(*ssa.Call)
						return ok && core.IsInvoke(c2, "net.Conn", "RemoteAddr") && valIs(c2.Call.Value, f.Params[1])
					}) {
						remote = true
						continue
					}
					if core.AnySource(call.Call.Value, func(s ssa.Value) bool {
						c2, ok := s.(*ssa.Call)
						return ok && core.IsInvoke(c2, "net.Conn", "LocalAddr") && valIs(c2.Call.Value, f.Params[1])
					}) {
						local = true
						continue
					}
				}
				if valIs(l, f.Params[1]) {
					remote, local = true, true // the connection object itself
					continue
				}
				other = true
			}
		})
		c.Check(remote && !other && nret == 1, "key:"+ctxT+".GetKey", f.Pos(), "connection key is built from c.RemoteAddr()", "GetKey does not derive the key from the connection's remote address: sessions of different connections can collide")
		c.Check(local && !other && nret == 1, "key-unique:"+ctxT+".GetKey", f.Pos(), "connection key is built from both the remote and the local address of the connection", "the session key of a connection is its remote address alone: on a listener with several local addresses two live connections can have the same remote address and port (one per local address); the later one replaces the session entry of the earlier, and an unverified connection is served with the verified session of another")
	} else {
		c.Undecided("key:GetKey", token.NoPos, "(*context).GetKey not found")
	}
	if f := p.Func("hap", "(*context).GetConnectionKey"); f != nil {
		good, full := true, false
		// every value the function can hand back: the operand of each return, and for a result variable each value it merges
		var alternatives []ssa.Value
		var split func(v ssa.Value, depth int)
		split = func(v ssa.Value, depth int) {
			switch x := v.(type) {
			case *ssa.MakeInterface:
				split(x.X, depth)
				return
			case *ssa.Phi:
				if depth < 4 {
					for _, e := range x.Edges {
						split(e, depth+1)
					}
					return
				}
			}
			alternatives = append(alternatives, v)
		}
		core.Instrs(f, func(i ssa.Instruction) {
			if r, isR := i.(*ssa.Return); isR && len(res(r)) == 1 {
				split(res(r)[0], 0)
			}
		})
		for _, alt := range alternatives {
			ls := leaves(alt)
			remote, local := false, false
			for _, l := range ls {
				if _, isK := core.ConstString(l); isK {
					continue
				}
				if base, ok := core.FieldLoad(l, "net/http.Request", "RemoteAddr"); ok && valIs(base, f.Params[1]) {
					remote = true
					continue
				}
				if call, isCall := l.(*ssa.Call); isCall && core.IsInvoke(call, "net.Addr", "String") {
					fromCtx := false
					walkOperands(call.Call.Value, 8, func(x ssa.Value) {
						if g, ok := x.(*ssa.Global); ok && g.Name() == "LocalAddrContextKey" {
							fromCtx = true
						}
					})
					if fromCtx {
						local = true
						continue
					}
				}
				good = false
			}
			if !remote {
				good = false
			}
			if remote && local {
				full = true
				sepReq = sepOf(ls)
			}
		}
		c.Check(good, "key:"+ctxT+".GetConnectionKey", f.Pos(), "request key is built from r.RemoteAddr", "GetConnectionKey does not derive the key from the request's remote address")
		c.Check(good && full && sepReq == sepConn, "key-unique:"+ctxT+".GetConnectionKey", f.Pos(), "request key is built from r.RemoteAddr and the local address of the connection, like the connection key", "the key under which a request looks up its session is not built from both ends of the connection in the same way as the key of the connection itself (remote address, separator, local address): requests find the session of another connection, or none")
	} else {
		c.Undecided("key:GetConnectionKey", token.NoPos, "(*context).GetConnectionKey not found")
	}
	if f := p.Func("hap", "(*context).GetSessionForRequest"); f != nil {
		ok := returnsOnly(f, func(v ssa.Value) bool { return sessionOfRequest(v, f.Params[1]) || sessionViaStaticGet(v, f.Params[1]) })
		c.Check(ok, "key:"+ctxT+".GetSessionForRequest", f.Pos(), "session = Get(GetConnectionKey(r))", "GetSessionForRequest does not look the session up under this request's connection key")
	} else {
		c.Undecided("key:GetSessionForRequest", token.NoPos, "not found")
	}
	if f := p.Func("hap", "(*Connection).RemoteAddr"); f != nil {
		ok := returnsOnly(f, func(v ssa.Value) bool {
			call, isCall := v.(*ssa.Call)
			if !isCall || !core.IsInvoke(call, "net.Conn", "RemoteAddr") {
				return false
			}
			_, ok := core.FieldLoad(call.Call.Value, mod+"/hap.Connection", "connection")
			return ok
		})
		c.Check(ok, "key:(*hap.Connection).RemoteAddr", f.Pos(), "forwards to the wrapped socket", "Connection.RemoteAddr does not forward to the wrapped socket")
	} else {
		c.Undecided("key:Connection.RemoteAddr", token.NoPos, "not found")
	}
	// (4) a session is created per accepted connection and registered under that connection
	if f := p.Func("hap", "NewConnection"); f != nil {
		found := false
		core.Instrs(f, func(i ssa.Instruction) {
			if core.IsInvoke(i, qContext, "SetSessionForConnection") {
				a := core.Args(i)
				sessFresh := core.AnySource(a[0], func(s ssa.Value) bool {
					c2, ok := s.(*ssa.Call)
					return ok && core.IsCall(c2, mod+"/hap.NewSession")
				})
				connNew := core.AnySource(a[1], func(s ssa.Value) bool { _, ok := s.(*ssa.Alloc); return ok })
				if sessFresh && connNew {
					found = true
				}
			}
		})
		c.Check(found, "session-per-connection:hap.NewConnection", f.Pos(), "registers a fresh session under the new connection", "NewConnection does not register a fresh session for the new connection")
	} else {
		c.Undecided("session-per-connection", token.NoPos, "hap.NewConnection not found")
	}
}

// sessionViaStaticGet: inside *context methods Get/GetConnectionKey are static calls on the receiver.
func sessionViaStaticGet(v ssa.Value, r ssa.Value) bool {
	for _, s := range core.Sources(v) {
		call, ok := s.(*ssa.Call)
		if !ok {
			continue
		}
		f := call.Call.StaticCallee()
		if f == nil || cn(f) != "Get" || !core.InModule(f) {
			continue
		}
		for _, a := range core.Args(call) {
			for _, ks := range core.Sources(a) {
				if kc, ok := ks.(*ssa.Call); ok {
					if kf := kc.Call.StaticCallee(); kf != nil && cn(kf) == "GetConnectionKey" {
						for _, ka := range core.Args(kc) {
							if valIs(ka, r) {
								return true
							}
						}
					}
				}
			}
		}
	}
	return false
}

// returnsOnly: every Return of f returns (as first result) a value all of whose sources satisfy pred.
func returnsOnly(f *ssa.Function, pred func(ssa.Value) bool) bool {
	ok, n := true, 0
	core.Instrs(f, func(i ssa.Instruction) {
		if r, isR := i.(*ssa.Return); isR && len(res(r)) > 0 {
			n++
			if !core.AllSources(res(r)[0], pred) {
				ok = false
			}
		}
	})
	return ok && n > 0
}

func c01r4(c *core.Ctx) {
	// pair-verify looks the controller up with Database.EntityWithName; that lookup must hit the storage every time
	p := c.P
	f := p.Func("hap/pair", "(*VerifyServerController).handlePairVerifyFinish")
	if f == nil {
		c.Undecided("handlePairVerifyFinish", token.NoPos, "not found")
		return
	}
	n := len(core.FindCalls(f, func(i ssa.Instruction) bool { return core.IsInvoke(i, qDatabase, "EntityWithName") }))
	c.Check(n > 0, "verify-looks-up-stored-key@"+fname(f), f.Pos(), "the controller's key is looked up with Database.EntityWithName at verification time", "pair-verify does not look the controller key up in the database")
	c18r4(c)
	databaseImplsReadStorage(c)
}

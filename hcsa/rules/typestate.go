package rules

import (
	"fmt"
	"go/token"
	"go/types"
	"sort"

	"golang.org/x/tools/go/ssa"

	"hcsa/core"
)

// pathEstablishes: some If on the path is taken along an edge on which fact holds.
func pathEstablishes(p core.Path, fact core.CondFact) bool {
	cut := core.CutWhere(fact)
	for k := 0; k+1 < len(p); k++ {
		b := p[k]
		for idx, s := range b.Succs {
			if s == p[k+1] && cut(b, idx) {
				return true
			}
		}
		// a test of a merged boolean ( done := a || b; if !done { done = rem.Len() == 0 }; if done {...} ): on this path the
		// variable has the value of the edge the path came in by
		if len(b.Instrs) == 0 || len(b.Succs) != 2 || b.Succs[0] == b.Succs[1] {
			continue
		}
		iff, ok := b.Instrs[len(b.Instrs)-1].(*ssa.If)
		if !ok {
			continue
		}
		kk := k
		var resolving core.CondFact
		resolving = func(cond ssa.Value) (bool, bool) {
			if _, isPhi := cond.(*ssa.Phi); isPhi {
				if r := p.ResolveAt(kk, cond); r != cond {
					if _, still := r.(*ssa.Phi); !still {
						return core.EvalFact(r, resolving)
					}
				}
				return false, false
			}
			return fact(cond)
		}
		t, f := core.EvalFact(iff.Cond, resolving)
		if (p[k+1] == b.Succs[0] && t) || (p[k+1] == b.Succs[1] && f) {
			return true
		}
	}
	return false
}

// errIsNilFact: the fact "v == nil" where v is the error result idx of a call satisfying pred.
func errNilFact(idx int, pred func(ssa.Instruction) bool) core.CondFact {
	return core.IsNilFact(func(v ssa.Value) bool {
		// every source is that call's error: a variable that merges several errors ( err = f(); if err == nil { err = g() } ) says
		// nothing about one of them by itself — Dominated looks at such a test once per incoming edge, with the merged value replaced
		found := false
		for _, s := range core.Sources(v) {
			if core.CallResult(s, idx, pred) != nil {
				found = true
				continue
			}
			return false // nil constant (the variable may have been reset), or another call's error
		}
		return found
	})
}

// stepEffect summarises what a function does to the field typ.step of its receiver:
// kind 0 = no effect, 1 = always stores the constant val on every path (last effect), 2 = unknown.
type stepEffect struct {
	kind int
	val  int64
}

func stepSummary(f *ssa.Function, typ, field string, depth int) stepEffect {
	if f == nil || f.Blocks == nil || depth == 0 {
		return stepEffect{kind: 2}
	}
	var stores []*ssa.Store
	calls := false
	core.Instrs(f, func(i ssa.Instruction) {
		if st, ok := i.(*ssa.Store); ok {
			if _, ok := core.FieldAddrOf(st.Addr, typ, field); ok {
				stores = append(stores, st)
			}
		}
		if c := core.Callee(i); c != nil && core.TypeIs(recvType(c), typ) {
			if stepSummary(c, typ, field, depth-1).kind != 0 {
				calls = true
			}
		}
	})
	if len(stores) == 0 && !calls {
		return stepEffect{kind: 0}
	}
	if len(stores) == 1 && !calls && len(f.Blocks) == 1 {
		if n, ok := core.ConstInt(stores[0].Val); ok {
			return stepEffect{kind: 1, val: n}
		}
	}
	return stepEffect{kind: 2}
}

// stepOnPath tracks the last constant stored to typ.field along a path. known=false if the last effect is not a constant.
// The callback onInstr (optional) is invoked with the current abstract value before each instruction.
func stepOnPath(p core.Path, typ, field string, onInstr func(i ssa.Instruction, known bool, val int64, set bool)) (set, known bool, val int64) {
	p.Instrs(func(i ssa.Instruction) {
		if onInstr != nil {
			onInstr(i, known, val, set)
		}
		if st, ok := i.(*ssa.Store); ok {
			if _, ok := core.FieldAddrOf(st.Addr, typ, field); ok {
				set = true
				val, known = core.ConstInt(st.Val)
			}
			return
		}
		if _, isDefer := i.(*ssa.Defer); isDefer {
			return // deferred effects are applied at RunDefers by the caller of stepOnPath if needed
		}
		if c := core.Callee(i); c != nil && core.TypeIs(recvType(c), typ) {
			switch e := stepSummary(c, typ, field, 3); e.kind {
			case 1:
				set, known, val = true, true, e.val
			case 2:
				set, known = true, false
			}
		}
	})
	return
}

// stepEqFact: the fact "recv.field == k".
func stepEqFact(typ, field string, k int64) core.CondFact {
	return core.CmpFact(func(x, y ssa.Value) (bool, bool) {
		isStep := func(v ssa.Value) bool { _, ok := core.FieldLoad(core.StripConv(v), typ, field); return ok }
		if n, ok := core.ConstInt(y); ok && n == k && isStep(x) {
			return true, false
		}
		if n, ok := core.ConstInt(x); ok && n == k && isStep(y) {
			return true, false
		}
		return false, false
	})
}

// guardConstant finds the unique constant k in [0,max] such that site is dominated by "step == k".
func guardConstant(site ssa.Instruction, typ, field string, max int64) (int64, bool) {
	found, n := int64(-1), 0
	for k := int64(0); k <= max; k++ {
		if core.Dominated(site, stepEqFact(typ, field, k)) {
			found = k
			n++
		}
	}
	return found, n == 1
}

// byteSeq flattens an append chain into the ordered list of appended pieces.
// ok=false when the value is built by an idiom the abstraction does not know.
func byteSeq(v ssa.Value) (parts []ssa.Value, ok bool) {
	v = core.StripConv(v)
	switch x := v.(type) {
	case *ssa.Const:
		if x.Value == nil {
			return nil, true
		}
		return []ssa.Value{x}, true
	case *ssa.MakeSlice:
		if n, isC := core.ConstInt(x.Len); isC && n == 0 {
			return nil, true
		}
		if parts, ok := copySeq(x); ok {
			return parts, true
		}
		if parts, ok := indexedSeq(x); ok {
			return parts, true
		}
		return nil, false
	case *ssa.Call:
		if b, isB := x.Call.Value.(*ssa.Builtin); isB && b.Name() == "append" && len(x.Call.Args) == 2 {
			base, ok := byteSeq(x.Call.Args[0])
			if !ok {
				return nil, false
			}
			return append(base, x.Call.Args[1]), true
		}
		if parts, ok := helperSeq(x); ok {
			return parts, true
		}
		if parts, ok := joinSeq(x); ok {
			return parts, true
		}
		if parts, ok := bufferSeq(x); ok {
			return parts, true
		}
		return []ssa.Value{x}, true
	case *ssa.Phi:
		if parts, ok := loopConcatSeq(x); ok {
			return parts, true
		}
		return nil, false
	case *ssa.Slice:
		if n, ok := knownLen(x); ok && n == 0 {
			return nil, true // make([]byte, 0)
		}
		return []ssa.Value{x}, true
	case *ssa.UnOp:
		if x.Op == token.MUL {
			if a, isA := x.X.(*ssa.Alloc); isA {
				// single store into a local
				var st *ssa.Store
				n := 0
				for _, r := range *a.Referrers() {
					if s, ok := r.(*ssa.Store); ok && s.Addr == a {
						st = s
						n++
					}
				}
				if n == 1 {
					return byteSeq(st.Val)
				}
				return nil, false
			}
		}
		return []ssa.Value{x}, true
	default:
		return []ssa.Value{v}, true
	}
}

// tlvRead: v is container.GetBytes/GetString/GetByte(tag) with constant tag; returns the container value and tag.
func tlvRead(v ssa.Value) (cont ssa.Value, method string, tag int64, ok bool) {
	return tlvReadDepth(v, 0)
}

func tlvReadDepth(v ssa.Value, depth int) (cont ssa.Value, method string, tag int64, ok bool) {
	for _, s := range core.Sources(v) {
		// the item read by the only caller and handed in
		if pr, isP := s.(*ssa.Parameter); isP && depth < 3 {
			if a := core.Active.SoleCallArg(pr); a != nil {
				if c, m, t, ok := tlvReadDepth(a, depth+1); ok {
					return c, m, t, true
				}
			}
			continue
		}
		c, isC := s.(*ssa.Call)
		if !isC || !c.Call.IsInvoke() || !core.TypeIs(c.Call.Value.Type(), qContainer) {
			continue
		}
		m := c.Call.Method.Name()
		if m != "GetBytes" && m != "GetString" && m != "GetByte" && m != "GetBuffer" {
			continue
		}
		if t, isK := core.ConstInt(c.Call.Args[0]); isK {
			return c.Call.Value, m, t, true
		}
	}
	return nil, "", 0, false
}

// containerParsedFrom: cont is util.NewTLV8ContainerFromReader(r) where r wraps (bytes.NewBuffer/NewReader) the value data.
func containerParsedFrom(cont ssa.Value) (data ssa.Value, ok bool) {
	for _, s := range core.Sources(cont) {
		call := core.CallResult(s, 0, func(i ssa.Instruction) bool { return core.IsCall(i, mod+"/util.NewTLV8ContainerFromReader") })
		if call == nil {
			continue
		}
		for _, rs := range core.Sources(call.Common().Args[0]) {
			if rc, isC := rs.(*ssa.Call); isC && (core.IsCall(rc, "bytes.NewBuffer") || core.IsCall(rc, "bytes.NewReader")) {
				return rc.Call.Args[0], true
			}
		}
	}
	return nil, false
}

// sliceOfField: v is recv.field[:] (slice of a field load/address) of struct typ.
func sliceOfField(v ssa.Value, typ, field string) bool {
	v = core.StripConv(v)
	if sl, ok := v.(*ssa.Slice); ok {
		if _, ok := core.FieldAddrOf(sl.X, typ, field); ok {
			return true
		}
		if _, ok := core.FieldLoad(sl.X, typ, field); ok {
			return true
		}
		// slice of a local copy of the field (value receivers / spilled arrays)
		if a, ok := sl.X.(*ssa.Alloc); ok {
			for _, r := range *a.Referrers() {
				if st, ok := r.(*ssa.Store); ok && st.Addr == a {
					if _, ok := core.FieldLoad(st.Val, typ, field); ok {
						return true
					}
				}
			}
		}
	}
	if _, ok := core.FieldLoad(v, typ, field); ok {
		return true
	}
	return false
}

func isNamedConstOf(v ssa.Value, t types.Type) bool {
	c, ok := core.StripConv(v).(*ssa.Const)
	return ok && c.Value != nil && types.Identical(c.Type(), t)
}

func describeStep(set, known bool, val int64) string {
	if !set {
		return "unchanged"
	}
	if !known {
		return "non-constant"
	}
	return fmt.Sprintf("%d", val)
}

// helperSeq looks through a module helper that only concatenates its parameters (and constants): the call
// signingMaterial(a, b, c)  whose body returns  append(append(append(nil, a...), b...), c...)  is the sequence [a b c]
// in the caller's values. Anything else inside the helper keeps the call opaque.
func helperSeq(call *ssa.Call) ([]ssa.Value, bool) {
	g := call.Call.StaticCallee()
	if g == nil || !core.InModule(g) || g.Blocks == nil || g.Signature.Results().Len() != 1 || g.Signature.Recv() != nil {
		return nil, false
	}
	var rets []*ssa.Return
	core.Instrs(g, func(i ssa.Instruction) {
		if r, ok := i.(*ssa.Return); ok {
			rets = append(rets, r)
		}
	})
	if len(rets) != 1 {
		return nil, false
	}
	rv := res(rets[0])[0]
	if c, ok := core.StripConv(rv).(*ssa.Call); !ok || c.Call.StaticCallee() != nil {
		return nil, false // only append chains (a builtin call), never another helper: bounded and no recursion
	}
	inner, ok := byteSeq(rv)
	if !ok || len(inner) == 0 {
		return nil, false
	}
	out := make([]ssa.Value, 0, len(inner))
	for _, part := range inner {
		v := paramOf(part, g)
		if v < 0 {
			if k, isK := core.StripConv(part).(*ssa.Const); isK {
				out = append(out, k)
				continue
			}
			return nil, false
		}
		out = append(out, call.Call.Args[v])
	}
	return out, true
}

// paramOf: part is a parameter of g, a conversion of one, or a slice  p[:]  of (the spilled copy of) one; -1 otherwise.
func paramOf(part ssa.Value, g *ssa.Function) int {
	part = core.StripConv(part)
	if sl, ok := part.(*ssa.Slice); ok && sl.Low == nil && sl.High == nil {
		part = sl.X
		if a, isA := part.(*ssa.Alloc); isA {
			var val ssa.Value
			n := 0
			for _, r := range *a.Referrers() {
				if st, ok := r.(*ssa.Store); ok && st.Addr == ssa.Value(a) {
					val = st.Val
					n++
				}
			}
			if n != 1 {
				return -1
			}
			part = core.StripConv(val)
		}
	}
	for k, q := range g.Params {
		if ssa.Value(q) == part {
			return k
		}
	}
	return -1
}

// joinSeq:  bytes.Join([][]byte{a, b, c}, nil)  is the sequence [a b c].
func joinSeq(call *ssa.Call) ([]ssa.Value, bool) {
	if !core.IsCall(call, "bytes.Join") {
		return nil, false
	}
	args := core.Args(call)
	if !core.IsNilConst(args[1]) {
		if n, ok := knownLen(args[1]); !ok || n != 0 {
			return nil, false
		}
	}
	sl, ok := args[0].(*ssa.Slice)
	if !ok || sl.Low != nil || sl.High != nil {
		return nil, false
	}
	a, ok := sl.X.(*ssa.Alloc)
	if !ok {
		return nil, false
	}
	arr, ok := a.Type().(*types.Pointer).Elem().Underlying().(*types.Array)
	if !ok {
		return nil, false
	}
	elems := make([]ssa.Value, arr.Len())
	for _, r := range *a.Referrers() {
		ia, ok := r.(*ssa.IndexAddr)
		if !ok {
			continue
		}
		k, isK := core.ConstInt(ia.Index)
		if !isK || k < 0 || k >= arr.Len() {
			return nil, false
		}
		for _, rr := range *ia.Referrers() {
			if st, ok := rr.(*ssa.Store); ok && st.Addr == ssa.Value(ia) {
				if elems[k] != nil {
					return nil, false
				}
				elems[k] = st.Val
			}
		}
	}
	for _, e := range elems {
		if e == nil {
			return nil, false
		}
	}
	return elems, true
}

// bufferSeq:  var b bytes.Buffer; b.Write(x); b.WriteString(s); b.WriteByte(c); ... b.Bytes()  is the sequence of the written
// pieces, provided the buffer is local, every write happens unconditionally before the Bytes call (each write dominates the
// next and the Bytes call) and nothing else touches the buffer.
func bufferSeq(call *ssa.Call) ([]ssa.Value, bool) {
	if !core.IsCall(call, "(*bytes.Buffer).Bytes") && !core.IsCall(call, "(*bytes.Buffer).String") {
		return nil, false
	}
	buf, ok := call.Call.Args[0].(*ssa.Alloc)
	if !ok {
		return nil, false
	}
	var writes []*ssa.Call
	for _, r := range *buf.Referrers() {
		c, ok := r.(*ssa.Call)
		if !ok {
			if _, isDbg := r.(*ssa.DebugRef); isDbg {
				continue
			}
			return nil, false // the buffer escapes or is overwritten
		}
		if c == call {
			continue
		}
		g := c.Call.StaticCallee()
		if g == nil || len(c.Call.Args) == 0 || c.Call.Args[0] != ssa.Value(buf) {
			return nil, false
		}
		switch core.QualName(g) {
		case "(*bytes.Buffer).Write", "(*bytes.Buffer).WriteString", "(*bytes.Buffer).WriteByte":
			writes = append(writes, c)
		case "(*bytes.Buffer).Bytes", "(*bytes.Buffer).String", "(*bytes.Buffer).Len":
		default:
			return nil, false
		}
	}
	// order by dominance: a total chain ending in the Bytes call
	sort.SliceStable(writes, func(i, j int) bool { return instrDominates(writes[i], writes[j]) })
	for i := 0; i+1 < len(writes); i++ {
		if !instrDominates(writes[i], writes[i+1]) {
			return nil, false
		}
	}
	for _, w := range writes {
		if !instrDominates(w, call) || !instrDominates(buf, w) || cycleAvoiding(w, buf) {
			return nil, false
		}
	}
	var parts []ssa.Value
	for _, w := range writes {
		parts = append(parts, w.Call.Args[1])
	}
	return parts, true
}

// inLoop: block b lies on a cycle of its function.
func inLoop(b *ssa.BasicBlock) bool {
	seen := map[*ssa.BasicBlock]bool{}
	work := append([]*ssa.BasicBlock(nil), b.Succs...)
	for len(work) > 0 {
		x := work[len(work)-1]
		work = work[:len(work)-1]
		if x == b {
			return true
		}
		if seen[x] {
			continue
		}
		seen[x] = true
		work = append(work, x.Succs...)
	}
	return false
}

// copySeq:  m := make([]byte, len(a)+len(b)+len(c)); n := copy(m, a); n += copy(m[n:], b); copy(m[n:], c)  is the sequence
// [a b c]: every copy targets the buffer at the offset that is the sum of the lengths (or copy results) of all earlier pieces,
// the copies run unconditionally in that order, and the buffer's length is the sum of the pieces' lengths.
func copySeq(m *ssa.MakeSlice) ([]ssa.Value, bool) {
	type cp struct {
		call *ssa.Call
		low  ssa.Value
		src  ssa.Value
	}
	var cps []cp
	for _, r := range *m.Referrers() {
		switch x := r.(type) {
		case *ssa.DebugRef:
		case *ssa.Call:
			if b, ok := x.Call.Value.(*ssa.Builtin); ok && b.Name() == "copy" && x.Call.Args[0] == ssa.Value(m) {
				cps = append(cps, cp{x, nil, x.Call.Args[1]})
			}
			// other uses (the consumer of the finished buffer) are fine
		case *ssa.Slice:
			if x.High != nil || x.Max != nil {
				return nil, false
			}
			for _, rr := range *x.Referrers() {
				c, ok := rr.(*ssa.Call)
				if !ok {
					if _, isDbg := rr.(*ssa.DebugRef); isDbg {
						continue
					}
					return nil, false
				}
				b, ok := c.Call.Value.(*ssa.Builtin)
				if !ok || b.Name() != "copy" || c.Call.Args[0] != ssa.Value(x) {
					return nil, false
				}
				cps = append(cps, cp{c, x.Low, c.Call.Args[1]})
			}
		case *ssa.IndexAddr, *ssa.Store:
			return nil, false
		}
	}
	if len(cps) < 2 {
		return nil, false
	}
	sort.SliceStable(cps, func(i, j int) bool { return instrDominates(cps[i].call, cps[j].call) })
	for i := range cps {
		// every execution of a copy belongs to a fresh buffer: no cycle through the copy that avoids the make
		if i+1 < len(cps) && !instrDominates(cps[i].call, cps[i+1].call) || !instrDominates(m, cps[i].call) || cycleAvoiding(cps[i].call, m) {
			return nil, false
		}
	}
	// offsets: the k-th copy starts at the sum over pieces 0..k-1
	var terms func(v ssa.Value, k int, used map[int]bool) bool
	terms = func(v ssa.Value, k int, used map[int]bool) bool {
		v = core.StripConv(v)
		if b, ok := v.(*ssa.BinOp); ok && b.Op == token.ADD {
			return terms(b.X, k, used) && terms(b.Y, k, used)
		}
		for j := 0; j < k; j++ {
			if used[j] {
				continue
			}
			if v == ssa.Value(cps[j].call) || isLenOfPiece(v, cps[j].src) {
				used[j] = true
				return true
			}
		}
		return false
	}
	for k := range cps {
		used := map[int]bool{}
		if k == 0 {
			if cps[k].low != nil {
				if z, ok := core.ConstInt(cps[k].low); !ok || z != 0 {
					return nil, false
				}
			}
			continue
		}
		if cps[k].low == nil || !terms(cps[k].low, k, used) || len(used) != k {
			return nil, false
		}
	}
	// total length = sum of all pieces
	used := map[int]bool{}
	all := len(cps)
	var total func(v ssa.Value) bool
	total = func(v ssa.Value) bool {
		v = core.StripConv(v)
		if b, ok := v.(*ssa.BinOp); ok && b.Op == token.ADD {
			return total(b.X) && total(b.Y)
		}
		for j := 0; j < all; j++ {
			if !used[j] && isLenOfPiece(v, cps[j].src) {
				used[j] = true
				return true
			}
		}
		return false
	}
	if !total(m.Len) || len(used) != all {
		return nil, false
	}
	var parts []ssa.Value
	for _, c := range cps {
		parts = append(parts, c.src)
	}
	return parts, true
}

// isLenOfPiece: v is len(x) for the value x (or for the array/string x is a slice or conversion of), or the constant length of x.
func isLenOfPiece(v, x ssa.Value) bool {
	// x = y[:v]
	if sl, ok := core.StripConv(x).(*ssa.Slice); ok && sl.Low == nil && sl.High != nil && (sl.High == v || core.StripConv(sl.High) == core.StripConv(v)) {
		return true
	}
	if call, ok := v.(*ssa.Call); ok {
		if b, isB := call.Call.Value.(*ssa.Builtin); isB && b.Name() == "len" {
			a := call.Call.Args[0]
			if sameValue(a, x) || sameValue(core.StripConv(a), core.StripConv(x)) {
				return true
			}
			// two loads of one field of one variable ( len(item.value) ... copy(dst, item.value) )
			if ua, ok := core.StripConv(a).(*ssa.UnOp); ok {
				if ux, ok := core.StripConv(x).(*ssa.UnOp); ok {
					fa, okA := ua.X.(*ssa.FieldAddr)
					fx, okX := ux.X.(*ssa.FieldAddr)
					if okA && okX && fa.Field == fx.Field && (fa.X == fx.X || sameValue(fa.X, fx.X)) {
						return true
					}
				}
			}
			if sl, ok := x.(*ssa.Slice); ok && sl.Low == nil && sl.High == nil {
				// len(arr) for x = arr[:]
				if u, ok := a.(*ssa.UnOp); ok && u.X == sl.X {
					return true
				}
				if fa, ok := sl.X.(*ssa.FieldAddr); ok {
					if u, ok := a.(*ssa.UnOp); ok {
						if fb, ok := u.X.(*ssa.FieldAddr); ok && fb.Field == fa.Field && sameValue(fb.X, fa.X) {
							return true
						}
					}
				}
			}
		}
	}
	if k, ok := core.ConstInt(v); ok {
		if n, ok := knownLen(x); ok && n == k {
			return true
		}
	}
	return false
}

// resetState: the step constant that means "waiting for the first message". It is what reset() stores; when reset() was written
// out at its call sites (the helper no longer exists) it is the constant the constructor starts the controller in.
func resetState(p *core.Program, ctrl, typ string) (val int64, pos token.Pos, ok bool) {
	if reset := p.Func("hap/pair", "(*"+ctrl+").reset"); reset != nil {
		if rs := stepSummary(reset, typ, "step", 3); rs.kind == 1 {
			return rs.val, reset.Pos(), true
		}
		return 0, reset.Pos(), false
	}
	ctor := p.Func("hap/pair", "New"+ctrl)
	if ctor == nil {
		return 0, token.NoPos, false
	}
	n := 0
	core.Instrs(ctor, func(i ssa.Instruction) {
		if st, isSt := i.(*ssa.Store); isSt {
			if _, isStep := core.FieldAddrOf(st.Addr, typ, "step"); isStep {
				if k, isK := core.ConstInt(st.Val); isK {
					val, pos = k, st.Pos()
					n++
				} else {
					n = 100
				}
			}
		}
	})
	return val, pos, n == 1
}

// indexedSeq:  b := make([]byte, 2+len(v)); b[0] = tag; b[1] = n; copy(b[2:], v)  is the sequence [tag n v]: single bytes stored at
// constant indices 0..k-1 followed by one copy at the constant offset k, all unconditional and each before the buffer is used.
func indexedSeq(m *ssa.MakeSlice) ([]ssa.Value, bool) {
	bytesAt := map[int64]ssa.Value{}
	var tail ssa.Value
	tailOff := int64(-1)
	for _, r := range *m.Referrers() {
		switch x := r.(type) {
		case *ssa.DebugRef:
		case *ssa.IndexAddr:
			k, isK := core.ConstInt(x.Index)
			if !isK {
				return nil, false
			}
			for _, rr := range *x.Referrers() {
				st, ok := rr.(*ssa.Store)
				if !ok || st.Addr != ssa.Value(x) || cycleAvoiding(st, m) || !instrDominates(m, st) {
					return nil, false
				}
				if _, dup := bytesAt[k]; dup {
					return nil, false
				}
				bytesAt[k] = st.Val
			}
		case *ssa.Slice:
			if x.High != nil || x.Max != nil || x.Low == nil {
				continue // a view of the finished buffer
			}
			lo, isK := core.ConstInt(x.Low)
			if !isK {
				return nil, false
			}
			for _, rr := range *x.Referrers() {
				c, ok := rr.(*ssa.Call)
				if !ok {
					continue
				}
				if b, isB := c.Call.Value.(*ssa.Builtin); isB && b.Name() == "copy" && c.Call.Args[0] == ssa.Value(x) {
					if tail != nil || cycleAvoiding(c, m) || !instrDominates(m, c) {
						return nil, false
					}
					tail, tailOff = c.Call.Args[1], lo
				}
			}
		}
	}
	if tail == nil || int64(len(bytesAt)) != tailOff {
		return nil, false
	}
	var parts []ssa.Value
	for k := int64(0); k < tailOff; k++ {
		v, ok := bytesAt[k]
		if !ok {
			return nil, false
		}
		parts = append(parts, v)
	}
	// the buffer is exactly prefix + tail long
	okLen := false
	if b, ok := core.StripConv(m.Len).(*ssa.BinOp); ok && b.Op == token.ADD {
		for _, pr := range [][2]ssa.Value{{b.X, b.Y}, {b.Y, b.X}} {
			if k, isK := core.ConstInt(pr[0]); isK && k == tailOff && isLenOfPiece(pr[1], tail) {
				okLen = true
			}
		}
	}
	if !okLen {
		return nil, false
	}
	return append(parts, tail), true
}

// pathTakesNonNilEdge: on the path, a nil test of a value that — with merged variables resolved by the edges the path took — is an
// error accepted by isErr takes the "not nil" edge. (pathEstablishes with a strict errNil/NonNil fact cannot say this for a variable
// that merges the errors of several calls: whether the merged value is this call's error depends on the path.)
func pathTakesNonNilEdge(pa core.Path, isErr func(ssa.Value) bool) bool {
	for k := 0; k+1 < len(pa); k++ {
		b := pa[k]
		iff, ok := b.Instrs[len(b.Instrs)-1].(*ssa.If)
		if !ok {
			continue
		}
		bin, ok := iff.Cond.(*ssa.BinOp)
		if !ok || (bin.Op != token.NEQ && bin.Op != token.EQL) {
			continue
		}
		var v ssa.Value
		switch {
		case core.IsNilConst(bin.Y):
			v = bin.X
		case core.IsNilConst(bin.X):
			v = bin.Y
		default:
			continue
		}
		v = pa.ResolveAt(k, v)
		if v == nil || !isErr(v) {
			continue
		}
		tookTrue := pa[k+1] == b.Succs[0]
		if (bin.Op == token.NEQ && tookTrue) || (bin.Op == token.EQL && !tookTrue) {
			return true
		}
	}
	return false
}

// loopConcatSeq: the accumulator of  for _, part := range parts { acc = append(acc, part...) }  over a variadic argument array
// built at the (inlined) call site: the parts in order.
func loopConcatSeq(ph *ssa.Phi) ([]ssa.Value, bool) {
	if len(ph.Edges) != 2 {
		return nil, false
	}
	var init, step ssa.Value
	for _, e := range ph.Edges {
		if call, ok := e.(*ssa.Call); ok {
			if b, isB := call.Call.Value.(*ssa.Builtin); isB && b.Name() == "append" && len(call.Call.Args) == 2 && call.Call.Args[0] == ssa.Value(ph) {
				step = e
				continue
			}
		}
		init = e
	}
	if init == nil || step == nil {
		return nil, false
	}
	base, ok := byteSeq(init)
	if !ok {
		return nil, false
	}
	elem := core.StripConv(step.(*ssa.Call).Call.Args[1])
	ld, ok := elem.(*ssa.UnOp)
	if !ok || ld.Op != token.MUL {
		return nil, false
	}
	ia, ok := ld.X.(*ssa.IndexAddr)
	if !ok {
		return nil, false
	}
	sl, ok := ia.X.(*ssa.Slice)
	if !ok || sl.Low != nil || sl.High != nil {
		return nil, false
	}
	arr, ok := sl.X.(*ssa.Alloc)
	if !ok {
		return nil, false
	}
	// the index runs over the whole array: a loop counter (phi) — not a constant
	if _, isPhi := ia.Index.(*ssa.Phi); !isPhi {
		if _, isBin := ia.Index.(*ssa.BinOp); !isBin {
			return nil, false
		}
	}
	at := map[int64]ssa.Value{}
	for _, r := range *arr.Referrers() {
		ea, ok := r.(*ssa.IndexAddr)
		if !ok || ea == ia {
			continue
		}
		k, isK := core.ConstInt(ea.Index)
		if !isK {
			return nil, false
		}
		for _, rr := range *ea.Referrers() {
			if st, ok := rr.(*ssa.Store); ok && st.Addr == ssa.Value(ea) {
				if _, dup := at[k]; dup {
					return nil, false
				}
				at[k] = st.Val
			}
		}
	}
	out := base
	for k := int64(0); k < int64(len(at)); k++ {
		v, ok := at[k]
		if !ok {
			return nil, false
		}
		out = append(out, v)
	}
	if len(at) == 0 {
		return nil, false
	}
	return out, true
}

package rules

import (
	"go/token"
	"strings"

	"golang.org/x/tools/go/ssa"

	"hcsa/core"
)

// frameAtATime: the read path of an encrypted connection hands the session's Decrypt whole frames only.
//
// Decrypt consumes its reader (length, ciphertext, tag) and ends a message at the first frame shorter than the maximum. Given the
// reader over the socket this goes wrong in three ways, each demonstrated on the pinned tree (DESIGN.md section 4):
//
//   - a read time-out after part of a frame was consumed (net/http aborts its background read that way after every response)
//     loses the consumed bytes: the stream is out of step for good;
//   - after a frame of the maximum size Decrypt waits for another frame although the message may be complete: a request of exactly
//     k*1024 bytes is never delivered, and if a time-out ends the wait the frames already authenticated and counted are dropped —
//     the next call releases the frames that follow: plaintext that is not a prefix of what the peer sent;
//
// The accepted form: the bytes of a frame are looked at without consuming them (Peek of the length, Peek of the whole frame), Decrypt
// gets a reader over exactly those bytes, and the frame is discarded from the read-ahead buffer afterwards.
//
// frameAtATimeHolds reports the verdict for other rules (C07-R3).
func frameAtATimeHolds(p *core.Program) (ok bool, site ssa.Instruction, why string) {
	dr := p.Func("hap", "(*Connection).DecryptedRead")
	if dr == nil {
		return false, nil, "DecryptedRead not found"
	}
	sites := core.FindCalls(dr, func(i ssa.Instruction) bool { return core.IsInvoke(i, mod+"/crypto.Decrypter", "Decrypt") })
	if len(sites) == 0 {
		return false, nil, "no Decrypt call in DecryptedRead"
	}
	isReadAhead := func(v ssa.Value) bool { _, ok := core.FieldLoad(v, tConn, "bufferedReader"); return ok }
	var frameCounts []ssa.Value
	for _, s := range sites {
		arg := core.Args(s)[0]
		// reader over peeked bytes
		var peek *ssa.Call
		for _, src := range core.Sources(arg) {
			call, isC := src.(*ssa.Call)
			if !isC || !(core.IsCall(call, "bytes.NewReader") || core.IsCall(call, "bytes.NewBuffer")) {
				continue
			}
			for _, b := range core.Sources(call.Call.Args[0]) {
				if pk := core.CallResult(b, 0, func(ci ssa.Instruction) bool { return core.IsCall(ci, "(*bufio.Reader).Peek") }); pk != nil {
					if pc, ok := pk.(*ssa.Call); ok && isReadAhead(pc.Call.Args[0]) {
						peek = pc
					}
				}
			}
		}
		if peek == nil {
			if core.SomeSource(arg, isReadAhead) {
				return false, s, "Decrypt reads from the socket's read-ahead buffer itself"
			}
			return false, s, "the reader handed to Decrypt is not a reader over bytes peeked from the read-ahead buffer"
		}
		// the count: 2 + length field + 16, the length field taken from a 2-byte peek
		n := peek.Call.Args[1]
		sum, fromHeader := int64(0), false
		var addLeaves func(x ssa.Value, d int)
		addLeaves = func(x ssa.Value, d int) {
			if b, ok := x.(*ssa.BinOp); ok && b.Op == token.ADD && d > 0 {
				addLeaves(b.X, d-1)
				addLeaves(b.Y, d-1)
				return
			}
			if k, isK := x.(*ssa.Const); isK {
				if v, ok := core.ConstInt(k); ok {
					sum += v
				}
			}
		}
		addLeaves(n, 6)
		walkOperands(n, 8, func(x ssa.Value) {
			if call, isC := x.(*ssa.Call); isC {
				if g := call.Call.StaticCallee(); g != nil && strings.HasSuffix(core.QualName(g), "littleEndian).Uint16") {
					for _, b := range core.Sources(call.Call.Args[len(call.Call.Args)-1]) {
						if pk := core.CallResult(b, 0, func(ci ssa.Instruction) bool { return core.IsCall(ci, "(*bufio.Reader).Peek") }); pk != nil {
							if pc, ok := pk.(*ssa.Call); ok && isReadAhead(pc.Call.Args[0]) {
								if k, isK := core.ConstInt(pc.Call.Args[1]); isK && k == 2 {
									fromHeader = true
								}
							}
						}
					}
				}
			}
		})
		if !fromHeader || sum != 18 {
			return false, s, "the number of bytes peeked for a frame is not 2 + the little-endian length field + 16"
		}
		// discarded afterwards, the same count
		discarded := false
		core.Instrs(dr, func(i ssa.Instruction) {
			if core.IsCall(i, "(*bufio.Reader).Discard") && isReadAhead(core.Receiver(i)) && sameValue(core.Args(i)[0], n) && instrDominates(s, i) {
				discarded = true
			}
		})
		if !discarded {
			return false, s, "the frame handed to Decrypt is not discarded from the read-ahead buffer afterwards (it would be decrypted again)"
		}
		frameCounts = append(frameCounts, n)
	}
	// nothing else leaves the read-ahead buffer: every byte consumed from it was part of a frame handed to Decrypt (and so was
	// authenticated and counted)
	var stray ssa.Instruction
	core.Instrs(dr, func(i ssa.Instruction) {
		g := core.Callee(i)
		if g == nil || g.Pkg == nil || g.Pkg.Pkg.Path() != "bufio" || !core.TypeIs(recvType(g), "bufio.Reader") {
			return
		}
		switch cn(g) {
		case "Peek", "Buffered", "Size":
			return
		}
		cc := core.CallOf(i)
		if len(cc.Args) == 0 || !isReadAhead(cc.Args[0]) {
			return
		}
		if cn(g) == "Discard" {
			for k, s := range sites {
				if k < len(frameCounts) && sameValue(core.Args(i)[0], frameCounts[k]) && instrDominates(s, i) {
					return
				}
			}
		}
		if stray == nil {
			stray = i
		}
	})
	if stray != nil {
		return false, stray, "bytes leave the read-ahead buffer that were not handed to Decrypt: they are dropped from the stream without being authenticated or counted (an on-path adversary can insert them at will)"
	}
	return true, sites[0], ""
}

func frameAtATime(c *core.Ctx) {
	ok, site, why := frameAtATimeHolds(c.P)
	pos := token.NoPos
	if site != nil {
		pos = site.Pos()
	}
	c.Check(ok, "frame-at-a-time@(*hap.Connection).DecryptedRead", pos, "Decrypt is handed a reader over one complete frame, peeked from the read-ahead buffer and discarded afterwards",
		"the read path does not hand Decrypt whole frames ("+why+"): a read time-out inside a frame loses the bytes already consumed (the stream is out of step for good), after a frame of the maximum size the read waits for another frame although the message may be complete (a request of exactly k*1024 bytes is never delivered), and a time-out in that wait drops frames that were already authenticated and counted — the following frames are then released without them")
}

// plaintextReadNoReadAhead (C05-R4): while a connection is not encrypted yet, its Read hands out at most one byte per call. net/http
// reads through this method with a 4096-byte buffer: whatever an on-path adversary puts into the same segment behind the request
// that completes pair-verify would be read — as plain text, before the keys are active — into the server's buffer, and be served
// after the switch as a request of the verified controller (demonstrated: a plain-text PUT /characteristics behind M3 is executed).
// One byte at a time, the server never holds more than the request it is parsing; everything behind it is read after the switch
// and must decrypt.
func plaintextReadNoReadAhead(c *core.Ctx) {
	f := c.P.Func("hap", "(*Connection).Read")
	if f == nil || len(f.Params) < 2 {
		c.Undecided("Connection.Read", token.NoPos, "not found")
		return
	}
	n := 0
	core.Instrs(f, func(i ssa.Instruction) {
		cc := core.CallOf(i)
		if cc == nil {
			return
		}
		var buf ssa.Value
		switch {
		case cc.IsInvoke() && cc.Method.Name() == "Read" && fromRawSocket(cc.Value):
			buf = cc.Args[0]
		case core.IsCall(i, "(*bufio.Reader).Read") && isReadAheadField(cc.Args[0]):
			// the byte comes out of the connection's read-ahead buffer: what is behind it stays there, and DecryptedRead takes it from there
			buf = cc.Args[1]
		default:
			return
		}
		n++
		one, other := false, false
		var walk func(v ssa.Value, d int)
		walk = func(v ssa.Value, d int) {
			if d == 0 {
				other = true
				return
			}
			switch x := v.(type) {
			case *ssa.Phi:
				for _, e := range x.Edges {
					walk(e, d-1)
				}
			case *ssa.Slice:
				if k, isK := core.ConstInt(x.High); x.High != nil && isK && k == 1 {
					one = true
				} else {
					other = true
				}
			case *ssa.Parameter:
				// the caller's buffer as it is: only on the edge where it holds at most one byte — decided below by dominance
			default:
				other = true
			}
		}
		walk(buf, 4)
		// the unsliced buffer reaches the read only where len(b) <= 1
		small := func(cond ssa.Value) (bool, bool) {
			bo, ok := cond.(*ssa.BinOp)
			if !ok {
				return false, false
			}
			call, ok := bo.X.(*ssa.Call)
			if !ok {
				return false, false
			}
			bi, ok := call.Call.Value.(*ssa.Builtin)
			if !ok || bi.Name() != "len" || !valIs(call.Call.Args[0], f.Params[1]) {
				return false, false
			}
			k, isK := core.ConstInt(bo.Y)
			if !isK {
				return false, false
			}
			switch {
			case bo.Op == token.GTR && k == 1, bo.Op == token.GEQ && k == 2:
				return false, true
			case bo.Op == token.LEQ && k == 1, bo.Op == token.LSS && k == 2:
				return true, false
			}
			return false, false
		}
		_ = small
		c.Check(one && !other, "plaintext-read-no-read-ahead@"+fname(f), posOf(i), "a plain-text read asks the socket for one byte",
			"a plain-text Read hands the caller's whole buffer to the socket: net/http reads ahead, and bytes that follow the request completing pair-verify in the same segment are taken as plain text before the keys are active and served afterwards as requests of the verified controller (a plain-text PUT spliced in behind M3 by an on-path adversary is executed)")
	})
	if n == 0 {
		c.Undecided("plaintext-read@"+fname(f), f.Pos(), "no plain-text read of the socket in Connection.Read")
	}
}

func isReadAheadField(v ssa.Value) bool {
	_, ok := core.FieldLoad(v, tConn, "bufferedReader")
	return ok
}

// modeDecidedAfterData (C07-R6): Connection.Read asks the session for the decrypter — the call which also activates a cryptographer
// installed by pair-verify — only once the bytes it is about to read have arrived, and nothing was consumed while it waited.
//
// net/http keeps a one-byte read pending on the connection from the moment a request body was consumed. With the mode chosen
// before blocking, the read that is pending while the pair-verify finish request is handled waits in the plain-text branch: the
// first byte of the first encrypted frame is handed to the HTTP parser as it is, the frame that follows starts one byte late, and
// the first request of the verified controller is never answered (demonstrated: 10 of 580 connections against the library's own
// server on loopback; deterministic with a scheduling delay). The accepted form waits with a Peek on the connection's read-ahead
// buffer (nothing consumed, a time-out leaves everything in place), then decides, and the plain-text branch takes its byte from
// that same buffer.
func modeDecidedAfterData(c *core.Ctx) {
	f := c.P.Func("hap", "(*Connection).Read")
	if f == nil || len(f.Params) < 2 {
		c.Undecided("Connection.Read", token.NoPos, "not found")
		return
	}
	isDecider := func(i ssa.Instruction) bool {
		if g := core.Callee(i); g != nil && cn(g) == "getDecrypter" && core.TypeIs(recvType(g), tConn) {
			return true
		}
		if core.IsInvoke(i, mod+"/hap.Session", "Decrypter") {
			return true
		}
		// the getter under another name and parameter list
		if v, ok := i.(ssa.Value); ok {
			if call, isC := i.(*ssa.Call); isC && !call.Call.IsInvoke() && core.Callee(call) != nil && core.InModule(core.Callee(call)) {
				return cryptoQuery(v, "getDecrypter", "Decrypter")
			}
		}
		return false
	}
	sites := core.FindCalls(f, isDecider)
	if len(sites) == 0 {
		c.Undecided("mode-decided-after-data@"+fname(f), f.Pos(), "Connection.Read does not ask for the decrypter")
		return
	}
	peekOK := errNilFact(1, func(i ssa.Instruction) bool {
		if !core.IsCall(i, "(*bufio.Reader).Peek") || !isReadAheadField(core.CallOf(i).Args[0]) {
			return false
		}
		k, isK := core.ConstInt(core.CallOf(i).Args[1])
		return isK && k >= 1
	})
	pending := core.NonNilFact(func(v ssa.Value) bool { _, ok := core.FieldLoad(v, tConn, "readBuffer"); return ok })
	// len(b) == 0: nothing will be read
	isLenB := func(v ssa.Value) bool {
		call, ok := v.(*ssa.Call)
		if !ok {
			return false
		}
		bi, ok := call.Call.Value.(*ssa.Builtin)
		return ok && bi.Name() == "len" && valIs(call.Call.Args[0], f.Params[1])
	}
	empty := func(cond ssa.Value) (bool, bool) {
		bo, ok := cond.(*ssa.BinOp)
		if !ok || !isLenB(bo.X) {
			return false, false
		}
		k, isK := core.ConstInt(bo.Y)
		if !isK {
			return false, false
		}
		switch {
		case bo.Op == token.EQL && k == 0, bo.Op == token.LSS && k == 1, bo.Op == token.LEQ && k == 0:
			return true, false
		case bo.Op == token.NEQ && k == 0, bo.Op == token.GTR && k == 0, bo.Op == token.GEQ && k == 1:
			return false, true
		}
		return false, false
	}
	isDeciderResult := func(v ssa.Value) bool {
		n := 0
		for _, src := range core.Sources(v) {
			if core.IsNilConst(src) {
				continue
			}
			if call, ok := src.(*ssa.Call); !ok || !isDecider(call) {
				return false
			}
			n++
		}
		return n > 0
	}
	// an earlier answer "encrypted" stands: a cryptographer is never taken away again (C01-R3), so no plain-text read follows it
	fact := core.AnyFact(peekOK, pending, empty, core.NonNilFact(isDeciderResult))
	plain := core.FindCalls(f, func(i ssa.Instruction) bool {
		cc := core.CallOf(i)
		if cc == nil {
			return false
		}
		if cc.IsInvoke() && cc.Method.Name() == "Read" && fromRawSocket(cc.Value) {
			return true
		}
		return core.IsCall(i, "(*bufio.Reader).Read") && isReadAheadField(cc.Args[0])
	})
	if len(plain) == 0 {
		c.Undecided("mode-decided-after-data@"+fname(f), f.Pos(), "no plain-text read in Connection.Read")
		return
	}
	for _, r := range plain {
		ok := false
		for _, d := range sites {
			dv, _ := d.(ssa.Value)
			if dv == nil {
				continue
			}
			saidPlain := core.IsNilFact(func(v ssa.Value) bool {
				// the answer itself, or the answer merged with "no session" (the getter written out: nil when there is none)
				n := 0
				for _, src := range core.Sources(v) {
					if core.IsNilConst(src) {
						continue
					}
					if src != dv {
						return false
					}
					n++
				}
				return n == 1
			})
			if core.Dominated(r, saidPlain) && core.Dominated(d, fact) {
				ok = true
			}
		}
		c.Check(ok, "mode-decided-after-data@"+fname(f), posOf(r),
			"a plain-text read follows an answer 'no decrypter' that was obtained after a Peek on the read-ahead buffer had shown that the data is there",
			"Connection.Read chooses plain text before the data has arrived: a read that is pending while pair-verify completes (net/http keeps one pending between requests) consumes the first byte of the first encrypted frame as plain text — the stream is out of step for good and the first request of the verified controller is never answered")
	}
	// what was waited on is what is read: a raw socket read would overtake the bytes the Peek has buffered
	peeks := core.FindCalls(f, func(i ssa.Instruction) bool {
		return core.IsCall(i, "(*bufio.Reader).Peek") && isReadAheadField(core.CallOf(i).Args[0])
	})
	if len(peeks) > 0 {
		raw := core.FindCalls(f, func(i ssa.Instruction) bool {
			cc := core.CallOf(i)
			return cc != nil && cc.IsInvoke() && cc.Method.Name() == "Read" && fromRawSocket(cc.Value)
		})
		pos := f.Pos()
		if len(raw) > 0 {
			pos = posOf(raw[0])
		}
		c.Check(len(raw) == 0, "plain-read-from-waited-buffer@"+fname(f), pos, "plain text is taken from the read-ahead buffer the read waited on",
			"Connection.Read waits on the read-ahead buffer but reads plain text from the socket: the bytes the wait has buffered are overtaken (delivered late or, after the switch, decrypted out of order)")
	}
}

package rules

import (
	"go/token"
	"go/types"

	"golang.org/x/tools/go/ssa"

	"hcsa/core"
)

// Three structural facts that the library, as it stands, does not have. Each was demonstrated as a violation of its property by an
// independent probe (DESIGN.md section 4, "recorded, not repaired"); the repairs are redesigns of the locking of a connection or of
// a characteristic (40 and more changed lines in code every other rule leans on), so they are listed in known_findings.json and the
// obligations below stay in force: they report again should the code change shape without gaining the fact.

// compareAndStoreAtomic (C10-R3): updateValue compares the new value with the stored one, returns if they are equal, and otherwise
// stores it and runs the callbacks. Two controllers that write the same new value at the same time both pass the comparison: one
// change, two notifications (and each of the writers is notified of "the other's" change). The comparison and the store have to be
// one step — inside a critical section of a mutex of the characteristic.
func compareAndStoreAtomic(c *core.Ctx) {
	f := c.P.Func("characteristic", "(*Characteristic).updateValue")
	if f == nil {
		return
	}
	var store *ssa.Store
	core.Instrs(f, func(i ssa.Instruction) {
		if st, ok := i.(*ssa.Store); ok {
			if _, isV := core.FieldAddrOf(st.Addr, tChar, "Value"); isV {
				store = st
			}
		}
	})
	if store == nil {
		return
	}
	isMutex := func(v ssa.Value) bool {
		t := v.Type()
		if p, ok := t.Underlying().(*types.Pointer); ok {
			t = p.Elem()
		}
		return t.String() == "sync.Mutex" || t.String() == "sync.RWMutex"
	}
	in, _ := inCriticalSection(f, store, isMutex)
	c.Check(in, "compare-and-store-atomic@"+fname(f), store.Pos(), "the comparison with the stored value and the store are inside one critical section",
		"updateValue compares and stores without a lock: two connections that write the same new value at the same time both find the value changed — two event notifications for one change, and each writer is notified of its own change by way of the other")
}

// eventNotInsideResponse (C10-R1): net/http hands a response larger than its buffer to the connection in several Write calls. The
// write mutex of the connection keeps single writes apart, not responses: an event notification that another goroutine writes with
// the same Write lands between two pieces of the response — the controller can parse neither. Events therefore go through an entry
// of the connection of their own (one that waits for, or queues behind, a response in flight), not through Write.
func eventNotInsideResponse(c *core.Ctx) {
	f := c.P.Func("", "(*ipTransport).notifyListener")
	if f == nil {
		return
	}
	n := 0
	core.InstrsDeep(f, func(g *ssa.Function, i ssa.Instruction) {
		cc := core.CallOf(i)
		if cc == nil || !cc.IsInvoke() || cc.Method.Name() != "Write" || !core.TypeIs(cc.Value.Type(), "net.Conn") {
			return
		}
		n++
		c.Bad("event-not-inside-response@"+fname(f), posOf(i), "an event notification is written with the connection's plain Write from the goroutine that changed the value: when the connection's own goroutine is in the middle of a response that goes out in several writes (/accessories of a bridge, a long /characteristics answer) the event is spliced into the response and the controller's stream is broken from there on")
	})
	if n == 0 {
		c.OK("event-not-inside-response@"+fname(f), f.Pos(), "event notifications do not use the connection's plain Write")
	}
}

// switchOrderedWithWrites (C08-R5): whether a write goes out encrypted is decided by asking the session for its encrypter; the
// encrypter changes when a pending cryptographer is activated (after pair-verify). Decision, sealing and socket write of one payload
// have to be one step with respect to other writers: a writer that decided "plain" (or took the old keys) before the switch and
// writes after it puts bytes on the wire that the peer, which has switched with the M4 response, cannot decrypt.
func switchOrderedWithWrites(c *core.Ctx) {
	f := c.P.Func("hap", "(*Connection).Write")
	if f == nil {
		return
	}
	isWriteMutex := func(v ssa.Value) bool {
		if _, ok := core.FieldLoad(v, tConn, "writeMutex"); ok {
			return true
		}
		_, ok := core.FieldAddrOf(v, tConn, "writeMutex")
		return ok
	}
	n := 0
	core.Instrs(f, func(i ssa.Instruction) {
		g := core.Callee(i)
		if g == nil || cn(g) != "getEncrypter" {
			return
		}
		n++
		in, _ := inCriticalSection(f, i, isWriteMutex)
		c.Check(in, "switch-ordered-with-writes@"+fname(f), posOf(i), "the plain/encrypted decision is taken inside the write section",
			"Connection.Write decides between plain and encrypted outside the write lock (and the pending cryptographer is activated by whichever goroutine reads next): a writer that decided before the key switch and writes after it — a keep-alive around the first pair-verify, an event during a repeated pair-verify — sends bytes the peer cannot decrypt; the frames after it fail too")
	})
	if n == 0 {
		c.Note("switch-ordered-with-writes@"+fname(f), f.Pos(), "Connection.Write does not ask for the encrypter")
	}
	_ = token.NoPos
}

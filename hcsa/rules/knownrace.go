package rules

import (
	"go/token"
	"go/types"

	"golang.org/x/tools/go/ssa"

	"hcsa/core"
)

// Three structural facts that the library, as it stands, does not have. Each was demonstrated as a violation of its property by an
// independent probe (DESIGN.md section 4, "recorded, not repaired"); the repairs are redesigns of the locking of a connection or of
// a characteristic (40 and more changed lines in code every other rule leans on), so they are listed in known_findings.json and the
// obligations below stay in force: they report again should the code change shape without gaining the fact.

// compareAndStoreAtomic (C10-R3): updateValue compares the new value with the stored one, returns if they are equal, and otherwise
// stores it and runs the callbacks. Two controllers that write the same new value at the same time both pass the comparison: one
// change, two notifications (and each of the writers is notified of "the other's" change). The comparison and the store have to be
// one step — inside a critical section of a mutex of the characteristic.
func compareAndStoreAtomic(c *core.Ctx) {
	f := c.P.Func("characteristic", "(*Characteristic).updateValue")
	if f == nil {
		return
	}
	var store *ssa.Store
	core.Instrs(f, func(i ssa.Instruction) {
		if st, ok := i.(*ssa.Store); ok {
			if _, isV := core.FieldAddrOf(st.Addr, tChar, "Value"); isV {
				store = st
			}
		}
	})
	if store == nil {
		return
	}
	isMutex := func(v ssa.Value) bool {
		t := v.Type()
		if p, ok := t.Underlying().(*types.Pointer); ok {
			t = p.Elem()
		}
		return t.String() == "sync.Mutex" || t.String() == "sync.RWMutex"
	}
	in, _ := inCriticalSection(f, store, isMutex)
	c.Check(in, "compare-and-store-atomic@"+fname(f), store.Pos(), "the comparison with the stored value and the store are inside one critical section",
		"updateValue compares and stores without a lock: two connections that write the same new value at the same time both find the value changed — two event notifications for one change, and each writer is notified of its own change by way of the other")
}

// eventNotInsideResponse (C10-R1): net/http hands a response larger than its buffer to the connection in several Write calls. The
// write mutex of the connection keeps single writes apart, not responses: an event notification that another goroutine writes with
// the same Write lands between two pieces of the response — the controller can parse neither. Events therefore go through an entry
// of the connection of their own (one that waits for, or queues behind, a response in flight), not through Write.
func eventNotInsideResponse(c *core.Ctx) {
	f := c.P.Func("", "(*ipTransport).notifyListener")
	if f == nil {
		return
	}
	n := 0
	core.InstrsDeep(f, func(g *ssa.Function, i ssa.Instruction) {
		cc := core.CallOf(i)
		if cc == nil || !cc.IsInvoke() || cc.Method.Name() != "Write" || !core.TypeIs(cc.Value.Type(), "net.Conn") {
			return
		}
		n++
		c.Bad("event-not-inside-response@"+fname(f), posOf(i), "an event notification is written with the connection's plain Write from the goroutine that changed the value: when the connection's own goroutine is in the middle of a response that goes out in several writes (/accessories of a bridge, a long /characteristics answer) the event is spliced into the response and the controller's stream is broken from there on")
	})
	if n == 0 {
		c.OK("event-not-inside-response@"+fname(f), f.Pos(), "event notifications do not use the connection's plain Write")
	}
}

// switchOrderedWithWrites (C08-R5): whether a write goes out encrypted is decided by asking the session for its encrypter; the
// encrypter changes when a pending cryptographer is activated (after pair-verify). Decision, sealing and socket write of one payload
// have to be one step with respect to other writers: a writer that decided "plain" (or took the old keys) before the switch and
// writes after it puts bytes on the wire that the peer, which has switched with the M4 response, cannot decrypt.
func switchOrderedWithWrites(c *core.Ctx) {
	f := c.P.Func("hap", "(*Connection).Write")
	if f == nil {
		return
	}
	isWriteMutex := func(v ssa.Value) bool {
		if _, ok := core.FieldLoad(v, tConn, "writeMutex"); ok {
			return true
		}
		_, ok := core.FieldAddrOf(v, tConn, "writeMutex")
		return ok
	}
	n := 0
	core.Instrs(f, func(i ssa.Instruction) {
		g := core.Callee(i)
		if g == nil || cn(g) != "getEncrypter" {
			return
		}
		n++
		in, _ := inCriticalSection(f, i, isWriteMutex)
		c.Check(in, "switch-ordered-with-writes@"+fname(f), posOf(i), "the plain/encrypted decision is taken inside the write section",
			"Connection.Write decides between plain and encrypted outside the write lock (and the pending cryptographer is activated by whichever goroutine reads next): a writer that decided before the key switch and writes after it — a keep-alive around the first pair-verify, an event during a repeated pair-verify — sends bytes the peer cannot decrypt; the frames after it fail too")
	})
	if n == 0 {
		c.Note("switch-ordered-with-writes@"+fname(f), f.Pos(), "Connection.Write does not ask for the encrypter")
	}
	_ = token.NoPos
}

// Three more, recorded after the third hunt (DESIGN.md section 4): the repairs are new mechanisms (a positional TLV8 reader; a
// service hook between accessory and transport; a bound on plain-text reads set by the pair-verify endpoint), not minimal patches.

// emptyValueKeepsItsItem (C17-R4): a zero-length value has an item of its own on the wire and in the reader. The struct writer
// fragments a value into items of at most 255 bytes and writes none for an empty value; the reader drops items of length zero. An
// empty string or byte field inside a list element therefore leaves no trace: in an inline list the values of the later elements move
// up ( [{1,""},{2,"bob"},{3,"eve"}] comes back as [{1,"bob"},{2,"eve"},{3,""}] ), a tagged list loses its empty elements.
func emptyValueKeepsItsItem(c *core.Ctx) {
	p := c.P
	if f := p.Func("tlv8", "(*writer).writeBytes"); f != nil && len(f.Blocks) > 0 {
		writes := map[*ssa.BasicBlock]bool{}
		core.Instrs(f, func(i ssa.Instruction) {
			if g := core.Callee(i); g != nil && (cn(g) == "write" || cn(g) == "Write" || cn(g) == "WriteByte") {
				writes[i.Block()] = true
			}
		})
		silent := false
		for b := range core.Reach(f.Blocks[0], nil, func(x *ssa.BasicBlock) bool { return writes[x] }) {
			if writes[b] {
				continue
			}
			if _, isRet := b.Instrs[len(b.Instrs)-1].(*ssa.Return); isRet {
				silent = true
			}
		}
		c.Check(!silent && len(writes) > 0, "empty-value-keeps-its-item@"+fname(f), f.Pos(), "every value, also an empty one, is written as at least one item",
			"the struct writer writes no item for a zero-length value: an empty string or byte field inside a list element leaves no trace on the wire — a tagged list loses its empty elements, and in an inline list the values of later elements move into earlier ones when the bytes are decoded")
	}
	if f := p.Func("tlv8", "read"); f != nil {
		var dropped ssa.Value
		core.Instrs(f, func(i ssa.Instruction) {
			if _, ok := i.(*ssa.MapUpdate); !ok {
				return
			}
			for _, iff := range controlDepsAll(i.Block()) {
				bo, ok := iff.Cond.(*ssa.BinOp)
				if !ok {
					continue
				}
				call, ok := bo.X.(*ssa.Call)
				if !ok {
					continue
				}
				if bi, isB := call.Call.Value.(*ssa.Builtin); isB && bi.Name() == "len" {
					if k, isK := core.ConstInt(bo.Y); isK && k == 0 {
						if _, isSlice := call.Call.Args[0].Type().Underlying().(*types.Slice); isSlice {
							dropped = iff.Cond
						}
					}
				}
			}
		})
		pos := f.Pos()
		if dropped != nil && dropped.Pos().IsValid() {
			pos = dropped.Pos()
		}
		c.Check(dropped == nil, "zero-length-item-kept@"+fname(f), pos, "items of length zero are filed like any other item",
			"the struct reader drops items of length zero (other than nothing can tell them from the list delimiter): an empty field of a list element does not hold its place, the values behind it are attributed to the wrong element")
	}
}

// lateServicesAreWired (C10-R2): the transport registers its notification callbacks on the characteristics it finds when it is
// created. Accessory.AddService is exported, numbers the new service at once (row 34) and the library's own television example
// calls it after NewIPTransport: such a service is served, readable, writable, accepts ev:true — and never sends an event. Either
// AddService tells somebody (a hook of the accessory that the transport registered), or nothing does.
func lateServicesAreWired(c *core.Ctx) {
	f := c.P.Func("accessory", "(*Accessory).AddService")
	if f == nil {
		return
	}
	hook := false
	core.Instrs(f, func(i ssa.Instruction) {
		call, ok := i.(*ssa.Call)
		if !ok || call.Call.IsInvoke() || call.Call.StaticCallee() != nil {
			return
		}
		if _, isB := call.Call.Value.(*ssa.Builtin); isB {
			return
		}
		hook = true // a call through a function value: somebody is told
	})
	c.Check(hook, "late-services-are-wired@"+fname(f), f.Pos(), "AddService notifies registered hooks",
		"a service added to an accessory after the transport was created (as the library's television example does) is never wired for notifications: its characteristics accept subscriptions and never send an event")
}

// plaintextBoundedByRequest (C05-R4): while the finish request of pair-verify is handled, nothing behind that request is handed
// out as plain text. net/http starts a one-byte read as soon as the request body has been consumed — the handler is still checking
// the signature, the keys are not active yet. A byte that an on-path adversary appended to the request in the same segment is
// already in the read-ahead buffer and is handed over as plain text; after the switch net/http puts it in front of the first
// decrypted request ("XPUT /characteristics …": answered 200, executed never, no error anywhere). Rows 38 and 40 brought the
// read-ahead down from 4096 bytes to one; the last byte needs the endpoint to tell the connection where its request ends.
func plaintextBoundedByRequest(c *core.Ctx) {
	f := c.P.Func("hap/endpoint", "(*PairVerify).ServeHTTP")
	if f == nil {
		return
	}
	bounded := false
	core.Instrs(f, func(i ssa.Instruction) {
		if g := core.Callee(i); g != nil && core.TypeIs(recvType(g), tConn) {
			bounded = true // the endpoint talks to its hap.Connection
		}
	})
	c.Check(bounded, "plaintext-bounded-by-request@"+fname(f), f.Pos(), "the pair-verify endpoint bounds the plain-text reads of its connection to the request in progress",
		"nothing keeps the connection from handing out, as plain text, a byte that follows the finish request of pair-verify in the same segment (net/http reads one byte ahead while the handler runs): after the switch that byte is glued in front of the first decrypted request — an on-path adversary neutralises the first command of the verified session without an error on either side")
}

package rules

import (
	"fmt"
	"go/constant"
	"go/token"
	"go/types"
	"os"
	"sort"
	"strings"

	"golang.org/x/tools/go/ssa"

	"hcsa/core"
)

const tFileStorage = mod + "/util.fileStorage"
const tDatabase = mod + "/db.database"

func init() {
	register(&core.Property{
		ID:    "C18",
		Level: "other",
		Explanation: "Shape of the storage and pairing-database code that a persistent map needs: every file that Set opens for writing is opened truncating (or exclusively) and the destination is replaced by rename; Set, Get and Delete " +
			"derive the file name from the key through the same function and KeysWithSuffix lists the same directory; an entity key is hex(name) in full (no truncation or other lossy step) plus a constant suffix that " +
			"equals the suffix Entities lists, and SaveEntity / EntityWithName / DeleteEntity all key by that function; every lookup that reports success has read the storage on that path (no memoised entities that a " +
			"delete or another store object on the same directory would not see); write, read and decode errors are returned.",
		Assumptions: []string{"POSIX file semantics", "encoding/hex is injective"},
		NotDecided:  []string{"collisions between *storage* keys that differ only by ':'", "concurrent processes"},
		Rules: []core.Rule{
			{ID: "C18-R1", Title: "overwrite replaces: truncating open, then rename", Decides: "get returns exactly the last value set (also after a shorter overwrite)", Floor: 2, Run: c18r1},
			{ID: "C18-R2", Title: "one path function for all operations", Decides: "set/get/delete/list address the same file", Floor: 4, Run: func(c *core.Ctx) {
				c18r2(c)
				passThrough(c, "C18")
				tempFileInStorageDirectory(c)
				returnsUndecorated(c, "C18")
			}},
			{ID: "C18-R3", Title: "entity keys: full hex of the name + the listed suffix, used by all operations", Decides: "holds for every entity name; listing returns exactly the live entries", Floor: 6, Run: func(c *core.Ctx) { c18r3(c); entityCtorPasses(c) }},
			{ID: "C18-R4", Title: "errors surface; successful lookups read the storage", Decides: "not-found after delete; no stale entries", Floor: 4, Run: func(c *core.Ctx) { c18r4(c); polarityEverywhere(c, "C18") }},
			{ID: "C18-R5", Title: "exact listing filter; only Set/Delete change files; writes and deletes are unconditional; opening is read-only", Decides: "listing returns exactly the live entries; values survive re-opening; the last value set is what is read", Floor: 6, Run: c18r5},
		},
	})
	register(&core.Property{
		ID:    "C19",
		Level: "other",
		Explanation: "Ordering rule for crash-atomic replacement of a single-file value, checked on every path of (*fileStorage).Set with its module helpers inlined: the destination path (the key's file) is never opened for " +
			"writing and never removed; the only operation that touches it is rename(temp, destination) where temp is the destination plus a constant suffix (same directory), opened with O_CREATE|O_TRUNC or O_EXCL; " +
			"all writes precede the close, the close precedes the rename, and the rename is dominated by the success of write and close; failing paths do not rename. The temp suffix is invisible to every " +
			"KeysWithSuffix constant and contains no ':'. SaveEntity performs one Set per entity. Given POSIX rename atomicity this shape is necessary and sufficient for 'old or new value in full' per key " +
			"against a process kill at any point, including a first write (absent or complete).",
		Assumptions: []string{"rename(2) atomically replaces the directory entry", "a killed process leaves completed system calls intact (no power loss: fsync not required)"},
		NotDecided:  []string{"durability across power loss"},
		Rules: []core.Rule{
			{ID: "C19-R1", Title: "the destination is never written in place and never removed", Decides: "never a mixture, an empty or a truncated value; never absent after it held a value", Floor: 2, Run: c19r1},
			{ID: "C19-R2", Title: "write, close, then rename; rename only after success", Decides: "either the previous or the new value in full", Floor: 3, Run: func(c *core.Ctx) { c19r2(c); polarityEverywhere(c, "C19") }},
			{ID: "C19-R3", Title: "temp files are invisible to listings", Decides: "other keys / listings are untouched by an interrupted write", Floor: 1, Run: func(c *core.Ctx) { c19r3(c); tempFileInStorageDirectory(c) }},
			{ID: "C19-R4", Title: "one Set per entity / per config key", Decides: "database operations built on Set are atomic per key", Floor: 2, Run: func(c *core.Ctx) { c19r4(c); noDeleteBeforeSave(c) }},
			{ID: "C19-R5", Title: "only Set renames, only Set/Delete remove; opening and reading change no file (shared with C18-R5)", Decides: "a left-over temporary file is never promoted to a value", Floor: 6, Run: c18r5},
		},
	})
}

// fileEffect is one file-system operation observed on a path.
type fileEffect struct {
	op    string // open, write, close, rename, remove, writefile
	path  string // class of the (first) path argument: dest, temp, other, file(<class>)
	path2 string // rename destination class
	flags int64
	at    ssa.Instruction
}

type pathEnv map[*ssa.Parameter]ssa.Value

func resolve(v ssa.Value, env pathEnv) ssa.Value {
	for k := 0; k < 8; k++ {
		if pr, ok := v.(*ssa.Parameter); ok {
			if x, ok := env[pr]; ok {
				v = x
				continue
			}
		}
		// the result variable of a helper ( tmpPath, err := f.writeTempFile(path, value) , inlined): the one value that is not the
		// zero value handed back on its error returns
		if ph, ok := v.(*ssa.Phi); ok {
			var only ssa.Value
			n := 0
			for _, e := range ph.Edges {
				if s, isK := core.ConstString(e); isK && s == "" {
					continue
				}
				if core.IsNilConst(e) {
					continue
				}
				if only != e {
					only = e
					n++
				}
			}
			if n == 1 {
				v = only
				continue
			}
		}
		// a variable that lives in a cell because a closure (a deferred clean-up) reads it: assigned once
		if u, ok := v.(*ssa.UnOp); ok && u.Op == token.MUL {
			if a, isA := u.X.(*ssa.Alloc); isA {
				if x := singleStore(a); x != nil {
					v = x
					continue
				}
			}
		}
		break
	}
	return v
}

// singleStore: the one value ever stored in the cell a — its address goes nowhere but to loads, that store, and closures which only
// read it; nil otherwise.
func singleStore(a *ssa.Alloc) ssa.Value {
	var val ssa.Value
	n := 0
	for _, r := range *a.Referrers() {
		switch x := r.(type) {
		case *ssa.Store:
			if x.Addr != ssa.Value(a) {
				return nil // the address itself is stored somewhere
			}
			val = x.Val
			n++
		case *ssa.UnOp:
			if x.Op != token.MUL {
				return nil
			}
		case *ssa.DebugRef:
		case *ssa.MakeClosure:
			fn, _ := x.Fn.(*ssa.Function)
			if fn == nil {
				return nil
			}
			for k, b := range x.Bindings {
				if b != ssa.Value(a) || k >= len(fn.FreeVars) {
					continue
				}
				for _, fr := range *fn.FreeVars[k].Referrers() {
					if u, isLoad := fr.(*ssa.UnOp); !isLoad || u.Op != token.MUL {
						return nil
					}
				}
			}
		default:
			return nil
		}
	}
	if n != 1 {
		return nil
	}
	return val
}

// classify a path string value: dest = filePathToFile(key); temp = dest + const; other.
func classifyPath(v ssa.Value, env pathEnv) (class string, suffix string) {
	v = resolve(v, env)
	isDest := func(x ssa.Value) bool {
		x = resolve(x, env)
		if call, ok := x.(*ssa.Call); ok && core.Callee(call) != nil && cn(core.Callee(call)) == "filePathToFile" && core.TypeIs(recvType(core.Callee(call)), tFileStorage) {
			return true
		}
		// the same derivation under other helper names, or written out
		if want := destShape(core.Active); want != "" && strings.Contains(want, "KEY") {
			anyKey := func(v ssa.Value) bool {
				pr, ok := v.(*ssa.Parameter)
				return ok && pr.Type().String() == "string" && core.TypeIs(recvType(pr.Parent()), tFileStorage)
			}
			return pathShape(x, anyKey, env, 8) == want
		}
		return false
	}
	if isDest(v) {
		return "dest", ""
	}
	if b, ok := v.(*ssa.BinOp); ok && b.Op == token.ADD && isDest(b.X) {
		if s, isK := core.ConstString(b.Y); isK {
			return "temp", s
		}
		return "temp?", ""
	}
	// (*os.File).Name() of a temp file created in the storage directory
	if call, ok := v.(*ssa.Call); ok && core.IsCall(call, "(*os.File).Name") {
		return "tempfile", ""
	}
	return "other", ""
}

// collectEffects walks a path of f and appends file effects; module callees are summarised in block order.
func collectEffects(pa core.Path, env pathEnv, files map[ssa.Value]string, depth int) []fileEffect {
	var out []fileEffect
	fileClass := func(v ssa.Value) string {
		v = resolve(v, env)
		for _, s := range core.Sources(v) {
			if c, ok := files[s]; ok {
				return c
			}
			if e, ok := s.(*ssa.Extract); ok {
				if c, ok := files[e.Tuple]; ok {
					return c
				}
			}
		}
		return "?"
	}
	pa.Instrs(func(i ssa.Instruction) {
		if _, isDefer := i.(*ssa.Defer); isDefer {
			if g := core.Callee(i); g != nil && core.QualName(g) == "(*os.File).Close" {
				out = append(out, fileEffect{op: "defer-close", path: fileClass(core.CallOf(i).Args[0]), at: i})
			}
			return
		}
		g := core.Callee(i)
		if g == nil {
			return
		}
		q := core.QualName(g)
		args := core.CallOf(i).Args
		switch q {
		case "os.OpenFile":
			cl, _ := classifyPath(args[0], env)
			fl, _ := core.ConstInt(args[1])
			if cl == "other" && fl&oCREATE != 0 && fl&oEXCL != 0 {
				cl = "temp" // a file created exclusively under a name of its own
			}
			out = append(out, fileEffect{op: "open", path: cl, flags: fl, at: i})
			files[i.(ssa.Value)] = cl
		case "os.Create":
			cl, _ := classifyPath(args[0], env)
			out = append(out, fileEffect{op: "open", path: cl, flags: 0x241, at: i}) // O_WRONLY? O_RDWR|O_CREATE|O_TRUNC
			files[i.(ssa.Value)] = cl
		case "os.Open":
			cl, _ := classifyPath(args[0], env)
			out = append(out, fileEffect{op: "open", path: cl, flags: 0, at: i})
			files[i.(ssa.Value)] = cl
		case "io/ioutil.WriteFile", "os.WriteFile":
			cl, _ := classifyPath(args[0], env)
			out = append(out, fileEffect{op: "writefile", path: cl, at: i})
		case "io/ioutil.TempFile", "os.CreateTemp":
			out = append(out, fileEffect{op: "open", path: "temp", flags: 0x2c2, at: i}) // O_RDWR|O_CREATE|O_EXCL
			files[i.(ssa.Value)] = "temp"
		case "(*os.File).Write", "(*os.File).WriteString":
			out = append(out, fileEffect{op: "write", path: fileClass(args[0]), at: i})
		case "(*os.File).Close":
			out = append(out, fileEffect{op: "close", path: fileClass(args[0]), at: i})
		case "(*os.File).Sync":
		case "os.Rename":
			a, _ := classifyPath(args[0], env)
			b, _ := classifyPath(args[1], env)
			if a == "tempfile" {
				a = "temp"
			}
			out = append(out, fileEffect{op: "rename", path: a, path2: b, at: i})
		case "os.Remove", "os.RemoveAll":
			cl, _ := classifyPath(args[0], env)
			if cl == "tempfile" {
				cl = "temp"
			}
			out = append(out, fileEffect{op: "remove", path: cl, at: i})
		default:
			if core.InModule(g) && g.Blocks != nil && depth > 0 {
				env2 := pathEnv{}
				for k, v := range env {
					env2[k] = v
				}
				for k, pr := range g.Params {
					if k < len(args) {
						env2[pr] = resolve(args[k], env)
					}
				}
				sub := core.Path(g.Blocks) // summary: all blocks in order
				eff := collectEffects(sub, env2, files, depth-1)
				// files returned by the helper: map the call value to the class of the file it opened
				for _, e := range eff {
					if e.op == "open" {
						files[i.(ssa.Value)] = e.path
					}
				}
				out = append(out, eff...)
			}
		}
	})
	return out
}

const oWRONLY, oRDWR, oCREATE, oEXCL, oTRUNC, oAPPEND = 0x1, 0x2, 0x40, 0x80, 0x200, 0x400

func writable(flags int64) bool { return flags&(oWRONLY|oRDWR) != 0 }

func storageSet(p *core.Program) *ssa.Function { return p.Func("util", "(*fileStorage).Set") }

func forEachSetPath(c *core.Ctx, f func(pa core.Path, eff []fileEffect)) bool {
	set := storageSet(c.P)
	if set == nil {
		c.Undecided("fileStorage.Set", token.NoPos, "not found")
		return false
	}
	n := 0
	ok := core.EnumPaths(set, 2, 50000, func(pa core.Path) {
		n++
		f(pa, collectEffects(pa, pathEnv{}, map[ssa.Value]string{}, 3))
	})
	c.Count("set_paths", n)
	if !ok {
		c.Undecided("paths@"+fname(set), set.Pos(), "too many paths")
	}
	return ok
}

func c18r1(c *core.Ctx) {
	tempFileExclusive(c)
	set := storageSet(c.P)
	bad := map[string]ssa.Instruction{}
	nOpen, nRename := 0, 0
	if !forEachSetPath(c, func(pa core.Path, eff []fileEffect) {
		for _, e := range eff {
			if e.op == "open" && writable(e.flags) {
				nOpen++
				if e.flags&oTRUNC == 0 && e.flags&oEXCL == 0 {
					bad[fmt.Sprintf("open-without-truncate:%s", e.path)] = e.at
				}
				if e.flags&oAPPEND != 0 {
					bad["open-append:"+e.path] = e.at
				}
			}
			if e.op == "rename" && e.path2 == "dest" {
				nRename++
			}
		}
		// a successful path must have replaced the destination
		if ret := pa.Returns(); ret != nil && !provablyNonNil(pa, res(ret)[0]) {
			replaced := false
			for _, e := range eff {
				if (e.op == "rename" && e.path2 == "dest") || (e.op == "open" && e.path == "dest" && e.flags&oTRUNC != 0) || (e.op == "writefile" && e.path == "dest") {
					replaced = true
				}
			}
			if !replaced {
				bad["success-without-replace"] = ret
			}
		}
	}) {
		return
	}
	for k, at := range bad {
		switch {
		case strings.HasPrefix(k, "open-without-truncate"):
			c.Bad(k+"@"+fname(set), posOf(at), "a file is opened for writing without O_TRUNC (or O_EXCL): if it already exists and holds a longer value (an earlier value, or a stale temp file of an interrupted write) its tail survives and becomes part of the stored value")
		case strings.HasPrefix(k, "open-append"):
			c.Bad(k+"@"+fname(set), posOf(at), "a value file is opened with O_APPEND")
		default:
			c.Bad(k+"@"+fname(set), posOf(at), "a path of Set can report success without having replaced the destination")
		}
	}
	if len(bad) == 0 {
		c.OK("truncating-open@"+fname(set), set.Pos(), "every write-open on every path truncates (or is exclusive); %d open effects", nOpen)
		c.Check(nRename > 0 || nOpen > 0, "replaces-destination@"+fname(set), set.Pos(), "every successful path replaces the destination", "no path replaces the destination")
	}
}

func c18r2(c *core.Ctx) {
	p := c.P
	for _, name := range []string{"Set", "Get", "Delete"} {
		f := p.Func("util", "(*fileStorage)."+name)
		if f == nil {
			c.Undecided("fileStorage."+name, token.NoPos, "not found")
			continue
		}
		key := f.Params[1]
		uses := false
		var walk func(g *ssa.Function, isKey func(ssa.Value) bool, d int)
		walk = func(g *ssa.Function, isKey func(ssa.Value) bool, d int) {
			core.Instrs(g, func(i ssa.Instruction) {
				h := core.Callee(i)
				if h == nil {
					return
				}
				args := core.CallOf(i).Args
				if cn(h) == "filePathToFile" && core.TypeIs(recvType(h), tFileStorage) && len(args) == 2 && isKey(args[1]) {
					uses = true
				}
				if core.InModule(h) && h.Blocks != nil && d > 0 {
					for k, a := range args {
						if isKey(a) && k < len(h.Params) {
							pr := h.Params[k]
							walk(h, func(v ssa.Value) bool { return v == ssa.Value(pr) }, d-1)
						}
					}
				}
			})
		}
		walk(f, func(v ssa.Value) bool { return v == ssa.Value(key) }, 2)
		if !uses {
			// the helpers were renamed / split / written out: compare the derivation itself with the one Get uses
			want := destShape(p)
			isKey := func(v ssa.Value) bool { return v == ssa.Value(key) }
			var walk2 func(g *ssa.Function, env pathEnv, d int)
			walk2 = func(g *ssa.Function, env pathEnv, d int) {
				core.Instrs(g, func(i ssa.Instruction) {
					h := core.Callee(i)
					if h == nil {
						return
					}
					switch core.QualName(h) {
					case "os.OpenFile", "os.Open", "os.Remove", "os.Rename", "os.Create", "io/ioutil.ReadFile", "io/ioutil.WriteFile":
						for _, a := range core.CallOf(i).Args {
							if a.Type().String() != "string" {
								continue
							}
							sh := pathShape(a, isKey, env, 8)
							if os.Getenv("HCSA_DEBUG") != "" {
								fmt.Fprintf(os.Stderr, "c18r2 %s in %s: shape %s want %s\n", name, g, sh, want)
							}
							if want != "" && strings.Contains(want, "KEY") && (sh == want || strings.HasPrefix(sh, want+"+")) {
								uses = true
							}
						}
						return
					}
					if core.InModule(h) && h.Blocks != nil && d > 0 {
						env2 := pathEnv{}
						for k, v := range env {
							env2[k] = v
						}
						for k, pr := range h.Params {
							if k < len(core.CallOf(i).Args) {
								env2[pr] = resolve(core.CallOf(i).Args[k], env)
							}
						}
						walk2(h, env2, d-1)
					}
				})
			}
			walk2(f, pathEnv{}, 2)
		}
		c.Check(uses, "path-function:"+name, f.Pos(), name+" derives the file name with filePathToFile(key)", name+" does not derive the file name with filePathToFile(key): operations on one key address different files")
	}
	// ... and the three derive it the same way: the shape of the path each hands to the file system, as a term over its own key
	// ( Join(DIR, Replace(KEY, ":", "", -1)) ), is one and the same. (The test above is satisfied by a call of the path function with
	// the key; this one sees  fileForRead(key + "x")  — found by the argument-transform sweep.)
	shapes := map[string]map[string]bool{}
	for _, name := range []string{"Set", "Get", "Delete"} {
		f := p.Func("util", "(*fileStorage)."+name)
		if f == nil || len(f.Params) < 2 {
			continue
		}
		key := f.Params[1]
		isKey := func(v ssa.Value) bool { return v == ssa.Value(key) }
		shapes[name] = map[string]bool{}
		var walk func(g *ssa.Function, env pathEnv, d int)
		walk = func(g *ssa.Function, env pathEnv, d int) {
			core.Instrs(g, func(i ssa.Instruction) {
				h := core.Callee(i)
				if h == nil {
					return
				}
				switch core.QualName(h) {
				case "os.OpenFile", "os.Open", "os.Remove", "os.Rename", "os.Create", "io/ioutil.ReadFile", "io/ioutil.WriteFile", "os.ReadFile", "os.WriteFile":
					for _, a := range core.CallOf(i).Args {
						if a.Type().String() != "string" {
							continue
						}
						if sh := pathShape(a, isKey, env, 8); strings.Contains(sh, "KEY") {
							shapes[name][sh] = true
						}
					}
					return
				}
				if core.InModule(h) && h.Blocks != nil && d > 0 {
					env2 := pathEnv{}
					for k, v := range env {
						env2[k] = v
					}
					for k, pr := range h.Params {
						if k < len(core.CallOf(i).Args) {
							env2[pr] = resolve(core.CallOf(i).Args[k], env)
						}
					}
					walk(h, env2, d-1)
				}
			})
		}
		walk(f, pathEnv{}, 3)
	}
	all := map[string]bool{}
	complete := true
	for _, name := range []string{"Set", "Get", "Delete"} {
		if len(shapes[name]) == 0 {
			complete = false
		}
		for sh := range shapes[name] {
			all[sh] = true
		}
	}
	if complete {
		var list []string
		for sh := range all {
			list = append(list, sh)
		}
		sort.Strings(list)
		pos := token.NoPos
		if f := p.Func("util", "(*fileStorage).Get"); f != nil {
			pos = f.Pos()
		}
		c.Check(len(all) == 1, "path-function-agreement", pos, "Set, Get and Delete hand the file system the same term over their key: "+strings.Join(list, " | "),
			"Set, Get and Delete do not derive the path from their key the same way ("+strings.Join(list, " | ")+"): a value is written to one file and read from, or removed as, another")
	}
	if f := p.Func("util", "(*fileStorage).KeysWithSuffix"); f != nil {
		ok := false
		core.Instrs(f, func(i ssa.Instruction) {
			if core.IsCall(i, "io/ioutil.ReadDir") || core.IsCall(i, "os.ReadDir") {
				if call, isC := core.Args(i)[0].(*ssa.Call); isC && core.Callee(call) != nil && cn(core.Callee(call)) == "dir" {
					ok = true
				}
				// the accessor written out: the directory field itself
				if _, isDir := core.FieldLoad(core.Args(i)[0], tFileStorage, "dirPath"); isDir {
					ok = true
				}
			}
		})
		c.Check(ok, "listing-directory", f.Pos(), "KeysWithSuffix lists the storage directory", "KeysWithSuffix does not list the storage directory")
		// suffix filter uses the parameter
		sfx := false
		core.Instrs(f, func(i ssa.Instruction) {
			if core.IsCall(i, "strings.HasSuffix") && core.Args(i)[1] == ssa.Value(f.Params[1]) {
				sfx = true
			}
		})
		c.Check(sfx, "listing-suffix", f.Pos(), "filters names by the requested suffix", "KeysWithSuffix does not filter by the requested suffix")
	} else {
		c.Undecided("KeysWithSuffix", token.NoPos, "not found")
	}
	if f := p.Func("util", "(*fileStorage).filePathToFile"); f != nil {
		ok := false
		core.Instrs(f, func(i ssa.Instruction) {
			if core.IsCall(i, "path/filepath.Join") {
				ok = true
			}
		})
		c.Check(ok, "path-in-storage-dir", f.Pos(), "the file lives in the storage directory", "the file path is not built inside the storage directory")
	}
	// different keys, different files: the file name is the key with, at most, constant text added or a constant substring removed
	// everywhere. A name that is cut to a maximum length, hashed to a few bytes or chosen between alternatives maps several keys to one file.
	if sh := destShape(p); sh != "" {
		get := p.Func("util", "(*fileStorage).Get")
		c.Check(injectiveShape(sh), "file-name-injective", get.Pos(), "the file of a key is "+sh, "the file of a key is computed as "+sh+": not the whole key (cut, merged from alternatives, or of unknown form) — two different keys can be stored in one file, and each overwrites, answers for and deletes the other")
	}
}

// injectiveShape: path/filepath.Join(DIR, N) where N is KEY, strings.Replace(N,"c1","c2",-1), N+"const" or "const"+N.
func injectiveShape(sh string) bool {
	const join = "path/filepath.Join(DIR,"
	if !strings.HasPrefix(sh, join) || !strings.HasSuffix(sh, ")") {
		return false
	}
	var name func(s string) bool
	name = func(s string) bool {
		if s == "KEY" {
			return true
		}
		if strings.HasPrefix(s, "strings.Replace(") && strings.HasSuffix(s, ",-1)") {
			in := s[len("strings.Replace(") : len(s)-len(",-1)")]
			// N,"old","new"  — split at the last two top-level quoted constants
			k2 := strings.LastIndex(in, ",\"")
			if k2 < 0 {
				return false
			}
			k1 := strings.LastIndex(in[:k2], ",\"")
			if k1 < 0 {
				return false
			}
			return name(in[:k1])
		}
		if strings.HasPrefix(s, "strings.ReplaceAll(") && strings.HasSuffix(s, ")") {
			in := s[len("strings.ReplaceAll(") : len(s)-1]
			k2 := strings.LastIndex(in, ",\"")
			if k2 < 0 {
				return false
			}
			k1 := strings.LastIndex(in[:k2], ",\"")
			if k1 < 0 {
				return false
			}
			return name(in[:k1])
		}
		// constant prefix / suffix
		if k := strings.LastIndex(s, "+\""); k > 0 && strings.HasSuffix(s, "\"") && !strings.Contains(s[k+2:len(s)-1], "\"") {
			return name(s[:k])
		}
		if strings.HasPrefix(s, "\"") {
			if k := strings.Index(s[1:], "\"+"); k >= 0 {
				return name(s[k+3:])
			}
		}
		return false
	}
	return name(sh[len(join) : len(sh)-1])
}

func c18r3(c *core.Ctx) {
	p := c.P
	tk := p.Func("db", "toEntityKey")
	if tk == nil {
		// the key function under another signature (a method of Entity, say): it is the module function whose result SaveEntity
		// hands to the storage as the key
		if sv := p.Func("db", "(*database).SaveEntity"); sv != nil {
			core.Instrs(sv, func(i ssa.Instruction) {
				if !core.IsInvoke(i, qStorage, "Set") {
					return
				}
				for _, s := range core.Sources(core.Args(i)[0]) {
					if call, ok := s.(*ssa.Call); ok {
						if g := call.Call.StaticCallee(); g != nil && core.InModule(g) && g.Blocks != nil && len(g.Params) == 1 {
							tk = g
						}
					}
				}
			})
		}
	}
	if tk == nil {
		if c18r3Inline(c) {
			return
		}
		c.Undecided("toEntityKey", token.NoPos, "not found")
		return
	}
	// the name inside the key function: its string parameter, or the Name of its Entity parameter
	byEntity := core.TypeIs(tk.Params[0].Type(), mod+"/db.Entity")
	isNameInKey := func(v ssa.Value) bool {
		if !byEntity {
			return v == ssa.Value(tk.Params[0])
		}
		if base, ok := core.FieldLoad(v, mod+"/db.Entity", "Name"); ok {
			if base == ssa.Value(tk.Params[0]) {
				return true
			}
			// a value receiver is spilled to a local first
			if a, isA := base.(*ssa.Alloc); isA {
				n, fromParam := 0, false
				for _, r := range *a.Referrers() {
					if st, isSt := r.(*ssa.Store); isSt && st.Addr == ssa.Value(a) {
						n++
						fromParam = st.Val == ssa.Value(tk.Params[0])
					}
				}
				return n == 1 && fromParam
			}
		}
		if fl, ok := v.(*ssa.Field); ok && fl.X == ssa.Value(tk.Params[0]) {
			return fieldIsName(fl)
		}
		return false
	}
	suffix := ""
	full := false
	lossy := false
	core.Instrs(tk, func(i ssa.Instruction) {
		switch x := i.(type) {
		case *ssa.Slice:
			lossy = true
		case *ssa.Return:
			for _, s := range core.Sources(res(x)[0]) {
				if b, ok := s.(*ssa.BinOp); ok && b.Op == token.ADD {
					if sfx, isK := core.ConstString(b.Y); isK {
						suffix = sfx
					}
					if call, ok := b.X.(*ssa.Call); ok && core.IsCall(call, "encoding/hex.EncodeToString") {
						if cv, ok := call.Call.Args[0].(*ssa.Convert); ok && isNameInKey(cv.X) {
							full = true
						}
					}
				}
			}
		case *ssa.Call:
			if g := core.Callee(x); g != nil {
				switch core.QualName(g) {
				case "encoding/hex.EncodeToString":
				default:
					if g.Pkg != nil && (g.Pkg.Pkg.Path() == "strings" || g.Pkg.Pkg.Path() == "crypto/md5" || g.Pkg.Pkg.Path() == "crypto/sha1") {
						lossy = true
					}
				}
			}
		}
	})
	// the same key assembled in a buffer: hex.Encode(key, []byte(name)) fills key[:EncodedLen(len(name))], the constant suffix is copied
	// behind it, and the buffer is exactly that long
	if !full && !byEntity {
		var enc *ssa.Call
		core.Instrs(tk, func(i ssa.Instruction) {
			if call, ok := i.(*ssa.Call); ok && core.IsCall(call, "encoding/hex.Encode") {
				if core.AnySource(call.Call.Args[1], func(sv ssa.Value) bool { return sv == ssa.Value(tk.Params[0]) }) || operandReaches(call.Call.Args[1], tk.Params[0], 4) {
					enc = call
				}
			}
		})
		if enc != nil {
			isEncLen := func(v ssa.Value) bool {
				call, ok := core.StripConv(v).(*ssa.Call)
				return ok && core.IsCall(call, "encoding/hex.EncodedLen") && operandReaches(call.Call.Args[0], tk.Params[0], 4)
			}
			mk, _ := core.StripConv(enc.Call.Args[0]).(*ssa.MakeSlice)
			okCopy := false
			sfx := ""
			if mk != nil {
				for _, r := range *mk.Referrers() {
					sl, ok := r.(*ssa.Slice)
					if !ok || sl.Low == nil || sl.High != nil || !isEncLen(sl.Low) {
						continue
					}
					for _, rr := range *sl.Referrers() {
						if cp, ok := rr.(*ssa.Call); ok {
							if b, isB := cp.Call.Value.(*ssa.Builtin); isB && b.Name() == "copy" && cp.Call.Args[0] == ssa.Value(sl) {
								if k, isK := core.ConstString(cp.Call.Args[1]); isK {
									okCopy, sfx = true, k
								}
							}
						}
					}
				}
			}
			okLen := false
			if mk != nil {
				if bo, ok := core.StripConv(mk.Len).(*ssa.BinOp); ok && bo.Op == token.ADD {
					for _, pr := range [][2]ssa.Value{{bo.X, bo.Y}, {bo.Y, bo.X}} {
						if k, isK := core.ConstInt(pr[1]); isK && isEncLen(pr[0]) && k == int64(len(sfx)) {
							okLen = true
						}
					}
				}
			}
			retOK := returnsOnly(tk, func(v ssa.Value) bool { return v == ssa.Value(mk) })
			if okCopy && okLen && retOK {
				full, suffix, lossy = true, sfx, false
			}
		}
	}
	c.Check(full && !lossy && suffix != "", "entity-key-injective@"+fname(tk), tk.Pos(), "key = hex(name) in full + "+fmt.Sprintf("%q", suffix),
		"the entity key is not the complete hex encoding of the name plus a constant suffix (it is truncated, hashed or otherwise shortened): different names can map to the same file")
	c.Check(!strings.Contains(suffix, ":") && suffix != "", "entity-key-suffix-safe", tk.Pos(), "the suffix contains no ':' (which the path function strips)", "the entity suffix contains ':' or is empty")
	c18r3Rest(c, suffix)
	c18r3Sites(c, tk, byEntity)
}

// c18r3Rest: the listing and the loader agree with the key (suffix = the constant suffix of entity keys).
func c18r3Rest(c *core.Ctx, suffix string) {
	c18LoaderDetails(c, suffix)
	p := c.P
	// listing suffix
	ent := p.Func("db", "(*database).Entities")
	if ent != nil {
		got := ""
		core.Instrs(ent, func(i ssa.Instruction) {
			if core.IsInvoke(i, qStorage, "KeysWithSuffix") {
				got, _ = core.ConstString(core.Args(i)[0])
			}
		})
		c.Check(got == suffix && got != "", "listing-suffix-agrees", ent.Pos(), fmt.Sprintf("Entities lists %q, the suffix of toEntityKey", got), fmt.Sprintf("Entities lists suffix %q but entity keys end in %q: stored entities are not listed", got, suffix))
		// every listed key goes through the same loader
		same := false
		core.Instrs(ent, func(i ssa.Instruction) {
			if g := core.Callee(i); g != nil && cn(g) == "entityForKey" {
				same = true
			}
		})
		if !same {
			// the loader under another name and signature: the module function that reads the storage, called by both
			loader := func(f *ssa.Function) *ssa.Function {
				var l *ssa.Function
				if f == nil {
					return nil
				}
				core.Instrs(f, func(i ssa.Instruction) {
					g := core.Callee(i)
					if g == nil || !core.InModule(g) || g.Blocks == nil {
						return
					}
					core.Instrs(g, func(j ssa.Instruction) {
						if core.IsInvoke(j, qStorage, "Get") {
							l = g
						}
					})
				})
				return l
			}
			ewn := p.Func("db", "(*database).EntityWithName")
			if l := loader(ent); l != nil && l == loader(ewn) {
				same = true
			}
			// ... or the loader written out (inlined) in both: each reads the storage itself and takes the name from the key it read
			if !same && ewn != nil && inlineLoaderNamesFromKey(ent) && inlineLoaderNamesFromKey(ewn) {
				same = true
			}
		}
		c.Check(same, "listing-loader", ent.Pos(), "listed keys are loaded by the loader EntityWithName uses", "Entities does not load entries with the common loader")
	} else {
		c.Undecided("Entities", token.NoPos, "not found")
	}
	// the name an entity comes back with is the name it was stored under. The stored form is JSON, and encoding/json replaces every
	// byte of a string that is not valid UTF-8 by U+FFFD: a name of arbitrary bytes survives only in the key (hex of the name), so
	// the loader takes the name from the key. Otherwise the entity that EntityWithName / Entities return for "ctrl-\x80" is named
	// "ctrl-\ufffd": it cannot be looked up or deleted under the name it reports, and two names that differ in invalid bytes are listed as one.
	if ld := p.Func("db", "(*database).entityForKey"); ld != nil && len(ld.Params) > 1 {
		fromKey := false
		var cutset *ssa.Call
		for _, b := range bodies(ld) {
			core.Instrs(b.fn, func(i ssa.Instruction) {
				st, ok := i.(*ssa.Store)
				if !ok {
					return
				}
				if _, isName := core.FieldAddrOf(st.Addr, mod+"/db.Entity", "Name"); !isName {
					return
				}
				walkOperands(st.Val, 8, func(v ssa.Value) {
					if pk := core.CallResult(v, 0, func(ci ssa.Instruction) bool { return core.IsCall(ci, "encoding/hex.DecodeString") }); pk != nil {
						walkOperands(core.CallOf(pk).Args[0], 8, func(a ssa.Value) {
							if valIs(b.lift(a), ld.Params[1]) || valIs(a, ld.Params[1]) {
								fromKey = true
							}
							// the suffix is taken off as a suffix: the cutset functions of package strings remove every trailing
							// (leading) character that occurs in the set — with ".entity" that includes the hex digit 'e'
							if call, isC := a.(*ssa.Call); isC {
								if g := call.Call.StaticCallee(); g != nil && g.Pkg != nil && g.Pkg.Pkg.Path() == "strings" && (g.Name() == "TrimRight" || g.Name() == "Trim" || g.Name() == "TrimLeft") {
									if set, isK := core.ConstString(call.Call.Args[1]); isK && strings.ContainsAny(set, "0123456789abcdefABCDEF") {
										cutset = call
									}
								}
							}
						})
					}
				})
			})
		}
		if fromKey {
			// ... and it is the last word on the name: a decode of the stored JSON *after* the assignment puts the lossy name back
			var later ssa.Instruction
			for _, b := range bodies(ld) {
				core.Instrs(b.fn, func(i ssa.Instruction) {
					st, ok := i.(*ssa.Store)
					if !ok {
						return
					}
					if _, isName := core.FieldAddrOf(st.Addr, mod+"/db.Entity", "Name"); !isName {
						return
					}
					if d := decodeAfter(st); d != nil {
						later = d
					}
				})
			}
			lp := ld.Pos()
			if later != nil {
				lp = later.Pos()
			}
			c.Check(later == nil, "loaded-name-set-last@"+fname(ld), lp, "nothing decodes into the entity after its name was taken from the key",
				"the stored JSON is decoded into the entity after the name was taken from the key: the decode overwrites the exact name with the one JSON kept (invalid bytes replaced by U+FFFD) — the entity comes back under a name it cannot be found or deleted under")
			pos := ld.Pos()
			if cutset != nil {
				pos = cutset.Pos()
			}
			c.Check(cutset == nil, "loaded-name-key-suffix-removed@"+fname(ld), pos, "the hex part of the key is not trimmed with a character set that contains hex digits",
				"the suffix is removed from the key with a cutset function of package strings (TrimRight/Trim/TrimLeft) whose set contains hex digits: every trailing hex digit that occurs in the set is removed with the suffix, and an entity whose name ends in such a nibble comes back under another name (or the JSON name with its invalid bytes replaced)")
		}
		c.Check(fromKey, "loaded-name-from-key@"+fname(ld), ld.Pos(), "the name of a loaded entity is decoded from its key", "the name of a loaded entity is whatever the stored JSON says: for a name that is not valid UTF-8 that is a different name (invalid bytes replaced by U+FFFD) — the entity cannot be found or deleted under the name it reports, and distinct names are listed as one. C18 holds 'for every entity name', names are arbitrary bytes")
	} else {
		c.Undecided("entityForKey", token.NoPos, "loader not found")
	}
}

func c18r3Sites(c *core.Ctx, tk *ssa.Function, byEntity bool) {
	p := c.P
	for _, spec := range []struct{ name, op string }{{"SaveEntity", "Set"}, {"DeleteEntity", "Delete"}, {"EntityWithName", "Get"}} {
		f := p.Func("db", "(*database)."+spec.name)
		if f == nil {
			c.Undecided("database."+spec.name, token.NoPos, "not found")
			continue
		}
		ok := false
		check := func(g *ssa.Function, nameVal func(ssa.Value) bool) {
			core.Instrs(g, func(i ssa.Instruction) {
				if core.Callee(i) == tk && nameVal(core.Args(i)[0]) {
					ok = true
				}
			})
		}
		check(f, func(v ssa.Value) bool {
			if byEntity {
				// the entity handed to the key function is the one this method was given, or one made up of the name it was given
				named := func(a *ssa.Alloc) bool {
					n, ok := 0, false
					for _, r := range *a.Referrers() {
						fa, isFA := r.(*ssa.FieldAddr)
						if !isFA {
							continue
						}
						if _, isName := core.FieldAddrOf(fa, mod+"/db.Entity", "Name"); !isName {
							continue
						}
						for _, rr := range *fa.Referrers() {
							if st, isSt := rr.(*ssa.Store); isSt && st.Addr == ssa.Value(fa) {
								n++
								ok = st.Val == ssa.Value(f.Params[1])
							}
						}
					}
					return n == 1 && ok
				}
				return core.AllSources(v, func(s ssa.Value) bool {
					if s == ssa.Value(f.Params[1]) && spec.name != "EntityWithName" {
						return true
					}
					if u, isU := s.(*ssa.UnOp); isU && u.Op == token.MUL {
						if a, isA := u.X.(*ssa.Alloc); isA {
							if spec.name == "EntityWithName" {
								return named(a)
							}
							// the spilled parameter
							n, fromParam := 0, false
							for _, r := range *a.Referrers() {
								if st, isSt := r.(*ssa.Store); isSt && st.Addr == ssa.Value(a) {
									n++
									fromParam = st.Val == ssa.Value(f.Params[1])
								}
							}
							return n == 1 && fromParam
						}
					}
					return false
				})
			}
			if spec.name == "EntityWithName" {
				return v == ssa.Value(f.Params[1])
			}
			_, isName := core.FieldLoad(v, mod+"/db.Entity", "Name")
			if isName {
				return true
			}
			return core.AnySource(v, func(s ssa.Value) bool {
				if fl, ok := s.(*ssa.Field); ok {
					return fieldIsName(fl)
				}
				return false
			})
		})
		c.Check(ok, "keyed-by-entity-key:"+spec.name, f.Pos(), spec.name+" keys by toEntityKey(name)", spec.name+" does not key by toEntityKey(name): save, lookup and delete address different files")
	}
}

// c18r3Inline: there is no key function (it was written out, or turned into a helper that the normaliser inlined): the key
// expression is examined where it is used — SaveEntity's Set, DeleteEntity's Delete and the loader call of EntityWithName must
// each address  hex(name) + one constant suffix, name being the entity's / the parameter. Returns false when the sites were not found.
func c18r3Inline(c *core.Ctx) bool {
	p := c.P
	ld := p.Func("db", "(*database).entityForKey")
	type site struct {
		spec string
		f    *ssa.Function
		key  ssa.Value
		pos  token.Pos
	}
	var sites []site
	for _, spec := range []struct{ name, op string }{{"SaveEntity", "Set"}, {"DeleteEntity", "Delete"}, {"EntityWithName", "Get"}} {
		f := p.Func("db", "(*database)."+spec.name)
		if f == nil || len(f.Params) < 2 {
			return false
		}
		var key ssa.Value
		var pos token.Pos
		n := 0
		core.Instrs(f, func(i ssa.Instruction) {
			if core.IsInvoke(i, qStorage, spec.op) {
				key, pos = core.Args(i)[0], i.Pos()
				n++
				return
			}
			if spec.op == "Get" && ld != nil && core.Callee(i) == ld {
				for k, a := range core.CallOf(i).Args {
					if k < len(ld.Params) && isString(ld.Params[k].Type()) {
						key, pos = a, i.Pos()
						n++
					}
				}
			}
		})
		if n != 1 || key == nil {
			return false
		}
		sites = append(sites, site{spec.name, f, key, pos})
	}
	suffix := ""
	allFull := true
	for _, st := range sites {
		f := st.f
		// the entity the method was given (possibly copied into locals), or one made up of the name it was given
		var isEntity func(v ssa.Value, depth int) bool
		// the local holds nothing but such an entity: stored whole once, or made up of the name (a composite literal)
		allocIsEntity := func(a *ssa.Alloc, depth int) bool {
			whole, fields, ok := 0, 0, true
			for _, r := range *a.Referrers() {
				switch x := r.(type) {
				case *ssa.Store:
					if x.Addr == ssa.Value(a) {
						whole++
						ok = ok && isEntity(x.Val, depth+1)
					}
				case *ssa.FieldAddr:
					if _, isName := core.FieldAddrOf(x, mod+"/db.Entity", "Name"); !isName {
						continue
					}
					for _, rr := range *x.Referrers() {
						if sto, isSt := rr.(*ssa.Store); isSt && sto.Addr == ssa.Value(x) {
							fields++
							ok = ok && st.spec == "EntityWithName" && sto.Val == ssa.Value(f.Params[1])
						}
					}
				}
			}
			return ok && whole+fields == 1
		}
		isEntity = func(v ssa.Value, depth int) bool {
			if depth > 6 {
				return false
			}
			return core.AllSources(v, func(s ssa.Value) bool {
				if s == ssa.Value(f.Params[1]) {
					return st.spec != "EntityWithName"
				}
				u, isU := s.(*ssa.UnOp)
				if !isU || u.Op != token.MUL {
					return false
				}
				a, isA := u.X.(*ssa.Alloc)
				return isA && allocIsEntity(a, depth)
			})
		}
		isName := func(v ssa.Value) bool {
			if st.spec == "EntityWithName" && v == ssa.Value(f.Params[1]) {
				return true
			}
			if base, ok := core.FieldLoad(v, mod+"/db.Entity", "Name"); ok {
				if a, isA := base.(*ssa.Alloc); isA {
					return allocIsEntity(a, 0)
				}
				return isEntity(base, 0)
			}
			if fl, ok := v.(*ssa.Field); ok && fieldIsName(fl) {
				return isEntity(fl.X, 0)
			}
			return false
		}
		full := false
		sfx := ""
		srcs := core.Sources(st.key)
		if len(srcs) == 1 {
			if b, ok := srcs[0].(*ssa.BinOp); ok && b.Op == token.ADD {
				if k, isK := core.ConstString(b.Y); isK {
					sfx = k
				}
				if call, ok := b.X.(*ssa.Call); ok && core.IsCall(call, "encoding/hex.EncodeToString") {
					if cv, ok := call.Call.Args[0].(*ssa.Convert); ok && isName(cv.X) {
						full = true
					}
				}
			}
		}
		if os.Getenv("HCSA_DEBUG") != "" {
			fmt.Fprintf(os.Stderr, "c18r3Inline %s key=%v srcs=%v full=%v sfx=%q\n", st.spec, st.key, srcs, full, sfx)
			if !full {
				f.WriteTo(os.Stderr)
			}
		}
		c.Check(full && sfx != "", "keyed-by-entity-key:"+st.spec, st.pos, st.spec+" keys by hex(name) in full + "+fmt.Sprintf("%q", sfx), st.spec+" does not key by the complete hex encoding of the entity's name plus a constant suffix: save, lookup and delete address different files, or different names map to the same file")
		if suffix == "" {
			suffix = sfx
		}
		if sfx != suffix || !full {
			allFull = false
		}
	}
	c.Check(allFull && suffix != "", "entity-key-injective@inline", sites[0].pos, "the three operations use key = hex(name) in full + "+fmt.Sprintf("%q", suffix),
		"the entity key is not the same complete hex encoding of the name plus one constant suffix in save, lookup and delete")
	c.Check(!strings.Contains(suffix, ":") && suffix != "", "entity-key-suffix-safe", sites[0].pos, "the suffix contains no ':' (which the path function strips)", "the entity suffix contains ':' or is empty")
	c18r3Rest(c, suffix)
	return true
}

// inlineLoaderNamesFromKey: f reads the storage itself ( Get(key) ) and the Name of the entity it hands back is decoded from that key.
func inlineLoaderNamesFromKey(f *ssa.Function) bool {
	var key ssa.Value
	n := 0
	core.Instrs(f, func(i ssa.Instruction) {
		if core.IsInvoke(i, qStorage, "Get") {
			key = core.Args(i)[0]
			n++
		}
	})
	if n != 1 {
		return false
	}
	fromKey := false
	core.Instrs(f, func(i ssa.Instruction) {
		st, ok := i.(*ssa.Store)
		if !ok {
			return
		}
		if _, isName := core.FieldAddrOf(st.Addr, mod+"/db.Entity", "Name"); !isName {
			return
		}
		walkOperands(st.Val, 8, func(v ssa.Value) {
			if pk := core.CallResult(v, 0, func(ci ssa.Instruction) bool { return core.IsCall(ci, "encoding/hex.DecodeString") }); pk != nil {
				walkOperands(core.CallOf(pk).Args[0], 8, func(a ssa.Value) {
					if valIs(a, key) {
						fromKey = true
					}
				})
			}
		})
	})
	return fromKey
}

// decodeAfter: a JSON decode (Unmarshal / Decoder.Decode) that can run after st.
func decodeAfter(st *ssa.Store) ssa.Instruction {
	isDecode := func(i ssa.Instruction) bool {
		return core.IsCall(i, "encoding/json.Unmarshal") || core.IsCall(i, "(*encoding/json.Decoder).Decode")
	}
	blk := st.Block()
	after := false
	for _, i := range blk.Instrs {
		if i == ssa.Instruction(st) {
			after = true
			continue
		}
		if after && isDecode(i) {
			return i
		}
	}
	var hit ssa.Instruction
	for _, s := range blk.Succs {
		for b := range core.Reach(s, nil, nil) {
			// a decode that is passed on the way to the store is reached again only around a loop: the next entity's decode
			if b == blk || b.Dominates(blk) {
				continue
			}
			for _, i := range b.Instrs {
				if isDecode(i) {
					hit = i
				}
			}
		}
	}
	return hit
}

func isString(t types.Type) bool {
	b, ok := t.Underlying().(*types.Basic)
	return ok && b.Kind() == types.String
}

func fieldIsName(f *ssa.Field) bool {
	st, ok := f.X.Type().Underlying().(*types.Struct)
	return ok && core.Active.CanonFieldName(st.Field(f.Field)) == "Name"
}

func c18r4(c *core.Ctx) {
	for _, n := range [][2]string{{"util", "(*fileStorage).Set"}, {"util", "(*fileStorage).Get"}, {"db", "(*database).entityForKey"}, {"db", "(*database).EntityWithName"}, {"db", "(*database).SaveEntity"}} {
		if f := c.P.Func(n[0], n[1]); f != nil {
			errorTestPolarity(c, f, nil)
		}
	}
	p := c.P
	databaseImplsReadStorage(c)
	// lookups read the storage on every successful path
	for _, spec := range []struct{ rel, fn, typ string }{{"db", "(*database).entityForKey", tDatabase}, {"db", "(*database).EntityWithName", tDatabase}} {
		f := p.Func(spec.rel, spec.fn)
		if f == nil {
			c.Undecided(spec.fn, token.NoPos, "not found")
			continue
		}
		bad, n := 0, 0
		var w core.Path
		core.EnumPaths(f, 2, 20000, func(pa core.Path) {
			ret := pa.Returns()
			if ret == nil || len(res(ret)) != 2 || provablyNonNil(pa, res(ret)[1]) {
				return
			}
			n++
			reads := false
			pa.Instrs(func(i ssa.Instruction) {
				if core.IsInvoke(i, qStorage, "Get") {
					reads = true
				}
				if g := core.Callee(i); g != nil && cn(g) == "entityForKey" {
					reads = true
				}
			})
			if !reads {
				bad++
				if w == nil {
					w = pa
				}
			}
		})
		if bad > 0 {
			c.BadPath("lookup-reads-storage@"+fname(f), f.Pos(), w.Describe(p), "%d path(s) return an entity with a nil error without reading the storage (memoised result): a deleted pairing, or one changed through another store object, is still reported", bad)
		} else {
			c.Check(n > 0, "lookup-reads-storage@"+fname(f), f.Pos(), fmt.Sprintf("all %d successful paths read the storage", n), "no successful path found")
		}
	}
	// the database keeps no state besides the storage handle
	if pk := p.Pkg("db"); pk != nil {
		if tn := p.LookupType("db", "database"); tn != nil {
			st := tn.Type().Underlying().(*types.Struct)
			extra := []string{}
			for i := 0; i < st.NumFields(); i++ {
				switch st.Field(i).Type().Underlying().(type) {
				case *types.Map, *types.Slice:
					extra = append(extra, st.Field(i).Name())
				}
			}
			c.Check(len(extra) == 0, "database-stateless", tn.Pos(), "the database holds no collection state besides the storage", "the database keeps collection state "+fmt.Sprint(extra)+" next to the storage: it diverges from the directory after deletes or a re-open")
		}
	}
	// errors
	if f := storageSet(p); f != nil {
		// the write error reaches the return on the failing path
		ok := false
		core.Instrs(f, func(i ssa.Instruction) {
			if r, isR := i.(*ssa.Return); isR && len(res(r)) == 1 {
				if carriesWriteErr(res(r)[0], 2) {
					ok = true
				}
			}
		})
		c.Check(ok, "set-returns-write-error", f.Pos(), "Set returns the write error", "Set does not return the error of the file write")
	}
	// Get hands back every byte it read: each chunk of a positive count is appended, the loop goes on after it, and the only way
	// out of the loop is a read that delivered nothing
	if g := p.Func("util", "(*fileStorage).Get"); g != nil {
		reads := bareReads(g)
		core.Instrs(g, func(i ssa.Instruction) {
			if call, ok := i.(*ssa.Call); ok && core.IsCall(call, "(*os.File).Read") {
				reads = append(reads, call)
			}
		})
		if len(reads) == 1 {
			rd := reads[0]
			var n ssa.Value
			for _, r := range *rd.Referrers() {
				if e, ok := r.(*ssa.Extract); ok && e.Index == 0 {
					n = e
				}
			}
			positive := func(cond ssa.Value) (bool, bool) { // fact: n > 0
				b, ok := cond.(*ssa.BinOp)
				if !ok || n == nil || b.X != n {
					return false, false
				}
				k, isK := core.ConstInt(b.Y)
				if !isK {
					return false, false
				}
				switch {
				case b.Op == token.GTR && k == 0, b.Op == token.GEQ && k == 1, b.Op == token.NEQ && k == 0:
					return true, false
				case b.Op == token.LEQ && k == 0, b.Op == token.LSS && k == 1, b.Op == token.EQL && k == 0:
					return false, true
				}
				return false, false
			}
			notPositive := func(cond ssa.Value) (bool, bool) { t, f := positive(cond); return f, t }
			var wr *ssa.Call
			core.Instrs(g, func(i ssa.Instruction) {
				call, ok := i.(*ssa.Call)
				if !ok || !core.IsCall(call, "(*bytes.Buffer).Write") {
					return
				}
				if sl, isSl := core.Args(call)[0].(*ssa.Slice); isSl && sl.High == n && sl.Low == nil && allocOf(sl) == allocOf(core.Args(rd)[0]) {
					wr = call
				}
			})
			okLoop := wr != nil && core.Dominated(wr, positive) && reachesAfter(wr, rd)
			okExit, okRet := true, false
			core.Instrs(g, func(i ssa.Instruction) {
				r, isR := i.(*ssa.Return)
				if !isR || len(res(r)) != 2 || core.IsNilConst(res(r)[0]) {
					return
				}
				if !core.Dominated(r, notPositive) {
					okExit = false
				}
				if wr != nil && core.AnySource(res(r)[0], func(sv ssa.Value) bool {
					call, ok := sv.(*ssa.Call)
					return ok && core.IsCall(call, "(*bytes.Buffer).Bytes") && call.Call.Args[0] == wr.Call.Args[0]
				}) {
					okRet = true
				}
			})
			c.Check(okLoop && okExit && okRet, "get-returns-what-it-read@"+fname(g), g.Pos(), "every chunk of a positive count is appended, the loop continues, it ends on an empty read and returns the accumulated bytes",
				"Get does not return exactly the bytes it read (a chunk is not appended, the loop ends after the first chunk, or it ends while data is still coming): values longer than the read buffer come back truncated or empty")
		} else if len(reads) > 1 {
			c.Note("get-read-loop", g.Pos(), "several bare reads in Get: the chunk-accumulation rule is not applied")
		}
	}
	if f := p.Func("db", "(*database).entityForKey"); f != nil {
		getErr, decErr := false, false
		core.Instrs(f, func(i ssa.Instruction) {
			if r, isR := i.(*ssa.Return); isR && len(res(r)) == 2 {
				for _, s := range core.Sources(res(r)[1]) {
					if e, isE := s.(*ssa.Extract); isE {
						if call, isC := e.Tuple.(*ssa.Call); isC && core.IsInvoke(call, qStorage, "Get") {
							getErr = true
						}
					}
					if call, isC := s.(*ssa.Call); isC && core.IsCall(call, "encoding/json.Unmarshal") {
						decErr = true
					}
				}
			}
		})
		c.Check(getErr && decErr, "lookup-returns-errors", f.Pos(), "read and decode errors are returned (not found after delete is an error)", "the lookup drops the read or the decode error: a missing entity looks like an empty one")
	}
	if f := p.Func("util", "(*fileStorage).Get"); f != nil {
		ok := false
		core.Instrs(f, func(i ssa.Instruction) {
			if r, isR := i.(*ssa.Return); isR && len(res(r)) == 2 && core.IsNilConst(res(r)[0]) && !core.IsNilConst(res(r)[1]) {
				ok = true
			}
		})
		c.Check(ok, "get-returns-open-error", f.Pos(), "Get returns the open error for a missing key", "Get does not report a missing key")
	}
}

// ---------------------------------------------------------------- C19

func c19r1(c *core.Ctx) {
	set := storageSet(c.P)
	inPlace := map[string]ssa.Instruction{}
	removed := map[string]ssa.Instruction{}
	n := 0
	if !forEachSetPath(c, func(pa core.Path, eff []fileEffect) {
		for _, e := range eff {
			n++
			if (e.op == "open" && e.path == "dest" && writable(e.flags)) || (e.op == "writefile" && e.path == "dest") {
				inPlace[c.P.Position(posOf(e.at))] = e.at
			}
			if e.op == "remove" && e.path == "dest" {
				removed[c.P.Position(posOf(e.at))] = e.at
			}
			if e.op == "rename" && e.path == "dest" {
				removed[c.P.Position(posOf(e.at))] = e.at
			}
		}
	}) {
		return
	}
	if len(inPlace) == 0 {
		c.OK("no-in-place-write@"+fname(set), set.Pos(), "on no path is the destination opened for writing")
	}
	for _, at := range inPlace {
		c.Bad("in-place-write@"+fname(set), posOf(at), "the destination file is opened for writing (on some path, e.g. when the key does not exist yet): a kill between open and write leaves an empty or partial value")
	}
	if len(removed) == 0 {
		c.OK("destination-never-removed@"+fname(set), set.Pos(), "on no path is the destination removed or renamed away")
	}
	for _, at := range removed {
		c.Bad("destination-removed@"+fname(set), posOf(at), "the destination is removed (or moved away) before it is replaced: a kill in that window leaves the key absent although it held a value")
	}
	// Delete is the only remover of destinations
	c.Count("file_effects", n)
}

func c19r2(c *core.Ctx) {
	p := c.P
	set := storageSet(p)
	bad := map[string]core.Path{}
	good := 0
	var rename ssa.Instruction
	if !forEachSetPath(c, func(pa core.Path, eff []fileEffect) {
		var seq []string
		exclusiveRetry := true
		for _, e := range eff {
			switch e.op {
			case "open", "write", "close", "rename", "defer-close":
				if e.op == "open" && !writable(e.flags) {
					continue
				}
				if e.op == "open" && e.flags&oEXCL == 0 {
					exclusiveRetry = false
				}
				s := e.op + ":" + e.path
				if e.op == "rename" {
					s += "->" + e.path2
					rename = e.at
				}
				seq = append(seq, s)
			}
		}
		hasRename := false
		for _, s := range seq {
			if strings.HasPrefix(s, "rename:") {
				hasRename = true
			}
		}
		ret := pa.Returns()
		failing := ret != nil && provablyNonNil(pa, res(ret)[0])
		if !hasRename {
			if ret != nil && !failing {
				bad["success-without-rename"] = pa
			}
			return
		}
		if failing {
			// allowed only if the returned error is the rename's own
			isRename := func(s ssa.Value) bool { call, ok := s.(*ssa.Call); return ok && core.IsCall(call, "os.Rename") }
			if rv := pa.ResolveAt(len(pa)-1, res(ret)[0]); !core.AnySource(res(ret)[0], isRename) && (rv == nil || !core.AnySource(rv, isRename)) {
				bad["rename-on-failing-path"] = pa
			}
		}
		want := "open:temp write:temp close:temp rename:temp->dest"
		// an exclusive create that is retried under another name ( for { f, err := open(random name, O_EXCL); if exists { continue } } )
		// is one open as far as the file that gets written is concerned
		var seq2 []string
		for k, x := range seq {
			if x == "open:temp" && k > 0 && seq[k-1] == "open:temp" && exclusiveRetry {
				continue
			}
			seq2 = append(seq2, x)
		}
		got := strings.Join(seq2, " ")
		if got != want {
			bad["order:"+got] = pa
		} else {
			good++
		}
	}) {
		return
	}
	for k, pa := range bad {
		switch {
		case strings.HasPrefix(k, "order:"):
			c.BadPath("write-close-rename-order@"+fname(set), set.Pos(), pa.Describe(p), "a path performs %q; crash-atomic replacement requires exactly: open temp (truncating), write, close, rename temp -> destination", strings.TrimPrefix(k, "order:"))
		case k == "rename-on-failing-path":
			c.BadPath("rename-after-failure@"+fname(set), set.Pos(), pa.Describe(p), "a path renames the temp file over the destination although the write or close failed")
		default:
			c.BadPath("success-without-rename@"+fname(set), set.Pos(), pa.Describe(p), "a path reports success without renaming a completely written temp file over the destination")
		}
	}
	if len(bad) == 0 {
		c.Check(good > 0, "write-close-rename-order@"+fname(set), set.Pos(), fmt.Sprintf("%d renaming path(s): open temp, write, close, rename temp -> destination", good), "no path renames")
	}
	// rename dominated by success of write and close
	if rename != nil && rename.Parent() == set {
		wOK := core.Dominated(rename, errNilOfAny(func(i ssa.Instruction) bool { return core.IsCall(i, "(*os.File).Write") }, 1))
		cOK := core.Dominated(rename, errNilOfAny(func(i ssa.Instruction) bool { return core.IsCall(i, "(*os.File).Close") }, 0))
		both := wOK && cOK
		if !both {
			// merged error variable: err = write error, or close error if nil  -> one test on the phi
			both = core.Dominated(rename, core.IsNilFact(func(v ssa.Value) bool { return isWriteCloseErr(v, 2) }))
		}
		c.Check(both, "rename-after-success@"+fname(set), posOf(rename), "the rename is dominated by the success of write and close", "the rename is not dominated by the success of both the write and the close")
	} else if rename != nil {
		c.Note("rename-in-helper", posOf(rename), "rename happens in a helper; success dominance is decided by the path check above")
	}
	// temp open flags
	okFlags := true
	forEachSetPath(c, func(pa core.Path, eff []fileEffect) {
		for _, e := range eff {
			if e.op == "open" && e.path == "temp" && writable(e.flags) {
				if !(e.flags&oCREATE != 0 && (e.flags&oTRUNC != 0 || e.flags&oEXCL != 0)) {
					okFlags = false
				}
			}
		}
	})
	c.Check(okFlags, "temp-open-flags@"+fname(set), set.Pos(), "the temp file is opened with O_CREATE and O_TRUNC (or O_EXCL)", "the temp file is not opened with O_CREATE|O_TRUNC or O_EXCL: a stale temp file of an interrupted write leaks into the next value")
	tempFileExclusive(c)
}

func errNilOfAny(pred func(ssa.Instruction) bool, idx int) core.CondFact {
	return core.IsNilFact(func(v ssa.Value) bool {
		found := false
		for _, s := range core.Sources(v) {
			if call, ok := s.(*ssa.Call); ok && idx == 0 && pred(call) {
				found = true
				continue
			}
			if e, ok := s.(*ssa.Extract); ok && e.Index == idx {
				if call, ok := e.Tuple.(*ssa.Call); ok && pred(call) {
					found = true
					continue
				}
			}
			return false // a merged error variable is judged per incoming edge (core.Explore), not as a whole
		}
		return found
	})
}

func c19r3(c *core.Ctx) {
	p := c.P
	// Get reads the file of the key and no other: a temporary file is complete only once it has been renamed, so a Get that
	// "recovers" a value from one hands out whatever part of it had been written when the process died
	if shs := readShapes(p); len(shs) > 0 {
		same := true
		for _, sh := range shs {
			if sh != shs[0] {
				same = false
			}
		}
		c.Check(same, "get-reads-only-the-destination", p.Func("util", "(*fileStorage).Get").Pos(), "every file Get opens is "+shs[0],
			"Get opens files of different names ("+strings.Join(shs, " | ")+"): besides the file of the key it reads another one (a temporary file of an interrupted write): a partly written value is handed out as the stored one")
	} else {
		c.Undecided("get-reads", token.NoPos, "no file is opened by Get")
	}
	set := storageSet(p)
	if set == nil {
		c.Undecided("Set", token.NoPos, "not found")
		return
	}
	suffixes := map[string]bool{}
	var walk func(g *ssa.Function, d int)
	walk = func(g *ssa.Function, d int) {
		core.Instrs(g, func(i ssa.Instruction) {
			if b, ok := i.(*ssa.BinOp); ok && b.Op == token.ADD {
				if s, isK := core.ConstString(b.Y); isK {
					if call, ok := b.X.(*ssa.Call); ok && core.Callee(call) != nil && cn(core.Callee(call)) == "filePathToFile" {
						suffixes[s] = true
					}
					// the destination path under other helper names, or written out
					if want := destShape(p); want != "" && strings.Contains(want, "KEY") {
						anyKey := func(v ssa.Value) bool {
							pr, ok := v.(*ssa.Parameter)
							return ok && pr.Type().String() == "string"
						}
						if pathShape(b.X, anyKey, pathEnv{}, 8) == want {
							suffixes[s] = true
						}
					}
				}
			}
			// a name of its own: <random part> + const in the function that creates the file exclusively
			if core.IsCall(i, "os.OpenFile") {
				if fl, isK := core.ConstInt(core.Args(i)[1]); isK && fl&oEXCL != 0 {
					core.Instrs(g, func(j ssa.Instruction) {
						if b, ok := j.(*ssa.BinOp); ok && b.Op == token.ADD {
							if sfx, isK := core.ConstString(b.Y); isK {
								if _, isCall := b.X.(*ssa.Call); isCall {
									suffixes[sfx] = true
								}
							}
						}
					})
				}
			}
			if h := core.Callee(i); h != nil && core.InModule(h) && h.Blocks != nil && d > 0 {
				walk(h, d-1)
			}
		})
	}
	walk(set, 2)
	// listing constants in the module
	var listed []string
	for _, f := range libFuncs(p) {
		core.Instrs(f, func(i ssa.Instruction) {
			if core.IsInvoke(i, qStorage, "KeysWithSuffix") || (core.Callee(i) != nil && cn(core.Callee(i)) == "KeysWithSuffix") {
				if s, ok := core.ConstString(core.Args(i)[0]); ok {
					listed = append(listed, s)
				}
			}
		})
	}
	if len(suffixes) == 0 {
		c.Undecided("temp-suffix", set.Pos(), "no constant temp suffix found (temp name built by an unknown idiom)")
		return
	}
	for s := range suffixes {
		ok := s != "" && !strings.Contains(s, ":") && !strings.ContainsAny(s, "/\\")
		for _, l := range listed {
			if strings.HasSuffix(s, l) {
				ok = false
			}
		}
		c.Check(ok, fmt.Sprintf("temp-suffix:%q", s), set.Pos(), fmt.Sprintf("temp suffix %q matches none of the listed suffixes %v and contains no ':'", s, listed),
			fmt.Sprintf("temp suffix %q is matched by a listing suffix %v (or contains ':' / a path separator): an interrupted write shows up as a key", s, listed))
	}
	_ = constant.MakeBool
}

func c19r4(c *core.Ctx) {
	p := c.P
	if f := p.Func("db", "(*database).SaveEntity"); f != nil {
		n := 0
		core.Instrs(f, func(i ssa.Instruction) {
			if core.IsInvoke(i, qStorage, "Set") {
				n++
			}
		})
		c.Check(n == 1 && !loopsIn(f), "one-set-per-entity", f.Pos(), "SaveEntity performs exactly one Set", "SaveEntity does not store the entity with exactly one Set: a kill between the writes leaves a half-stored entity")
	} else {
		c.Undecided("SaveEntity", token.NoPos, "not found")
	}
	if f := p.Func("", "(*Config).save"); f != nil {
		keys := map[string]int{}
		core.Instrs(f, func(i ssa.Instruction) {
			if core.IsInvoke(i, qStorage, "Set") {
				if s, ok := core.ConstString(core.Args(i)[0]); ok {
					keys[s]++
				}
			}
		})
		ok := len(keys) >= 3
		for _, n := range keys {
			if n != 1 {
				ok = false
			}
		}
		c.Check(ok, "config-keys-independent", f.Pos(), fmt.Sprintf("config is saved under %d distinct constant keys, one Set each", len(keys)), "config.save does not write each key with exactly one Set")
	} else {
		c.Undecided("Config.save", token.NoPos, "not found")
	}
}

func loopsIn(f *ssa.Function) bool {
	for _, b := range f.Blocks {
		for _, s := range b.Succs {
			if s.Index <= b.Index {
				return true
			}
		}
	}
	return false
}

// carriesWriteErr: the error result of (*os.File).Write is among the sources of v, directly or as what a same-package helper
// returns ( err = writeAndClose(file, value) ).
func carriesWriteErr(v ssa.Value, depth int) bool {
	return core.SomeSource(v, func(s ssa.Value) bool { // the returned error merges the write and the close error
		if e, isE := s.(*ssa.Extract); isE {
			if call, isC := e.Tuple.(*ssa.Call); isC && core.IsCall(call, "(*os.File).Write") {
				return true
			}
		}
		call, isC := s.(*ssa.Call)
		if !isC || depth == 0 {
			return false
		}
		g := call.Call.StaticCallee()
		if g == nil || !core.InModule(g) || g.Blocks == nil {
			return false
		}
		found := false
		core.Instrs(g, func(i ssa.Instruction) {
			if r, isR := i.(*ssa.Return); isR && len(res(r)) == 1 && carriesWriteErr(res(r)[0], depth-1) {
				found = true
			}
		})
		return found
	})
}

// isWriteCloseErr: v is the merged error of the write and the close ( err = write error, or the close error if that is nil ):
// a phi over both, or the result of a same-package helper all of whose returns hand back such a value.
func isWriteCloseErr(v ssa.Value, depth int) bool {
	if ph, ok := v.(*ssa.Phi); ok {
		hasW, hasC := false, false
		polarity := true
		var wcall ssa.Instruction
		for _, e := range ph.Edges {
			for _, s := range core.Sources(e) {
				if ex, ok := s.(*ssa.Extract); ok {
					if call, ok := ex.Tuple.(*ssa.Call); ok && core.IsCall(call, "(*os.File).Write") {
						hasW = true
						wcall = call
					}
				}
			}
		}
		for k, e := range ph.Edges {
			for _, s := range core.Sources(e) {
				if call, ok := s.(*ssa.Call); ok && core.IsCall(call, "(*os.File).Close") {
					hasC = true
					// the close error replaces the write error only where the write error is nil
					if wcall != nil && k < len(ph.Block().Preds) {
						pred := ph.Block().Preds[k]
						last := pred.Instrs[len(pred.Instrs)-1]
						wNil := errNilOfAny(func(i ssa.Instruction) bool { return i == wcall }, 1)
						if !core.Dominated(last, wNil) {
							polarity = false
						}
					}
				}
			}
		}
		if hasW && hasC && polarity {
			return true
		}
	}
	if depth == 0 {
		return false
	}
	call, ok := v.(*ssa.Call)
	if !ok {
		return false
	}
	g := call.Call.StaticCallee()
	if g == nil || !core.InModule(g) || g.Blocks == nil {
		return false
	}
	n, all := 0, true
	core.Instrs(g, func(i ssa.Instruction) {
		if r, isR := i.(*ssa.Return); isR {
			n++
			if len(res(r)) != 1 || !isWriteCloseErr(res(r)[0], depth-1) {
				all = false
			}
		}
	})
	return n > 0 && all
}

// ---------------------------------------------------------------- structural shape of a storage path

// pathShape renders how a path string is computed from the key and the storage directory, looking through module helpers
// (a helper call is replaced by the shape of what it returns under the binding of its parameters), so that
//
//	f.filePathToFile(key)      with  filePathToFile(k) = filepath.Join(f.dir(), removeInvalid(k))
//	f.filePath(fileName(key))  with  filePath(n) = filepath.Join(f.dir(), n), fileName(k) = strings.Replace(k, ":", "", -1)
//	filepath.Join(f.dirPath, strings.Replace(key, ":", "", -1))
//
// all have the shape  path/filepath.Join(DIR,strings.Replace(KEY,":","",-1)) . Operations on one key address the same file iff their
// shapes agree; the names of the helpers do not matter.
func pathShape(v ssa.Value, isKey func(ssa.Value) bool, env pathEnv, depth int) string {
	if depth == 0 {
		return "…"
	}
	v = resolve(core.StripConv(v), env)
	if isKey != nil && isKey(v) {
		return "KEY"
	}
	if s, ok := core.ConstString(v); ok {
		return fmt.Sprintf("%q", s)
	}
	if k, ok := core.ConstInt(v); ok {
		return fmt.Sprint(k)
	}
	if _, ok := core.FieldLoad(v, tFileStorage, "dirPath"); ok {
		return "DIR"
	}
	switch x := v.(type) {
	case *ssa.BinOp:
		if x.Op == token.ADD {
			return pathShape(x.X, isKey, env, depth-1) + "+" + pathShape(x.Y, isKey, env, depth-1)
		}
	case *ssa.Phi:
		// result variable of an inlined helper: the one non-zero edge (resolve did not find a unique one)
		return "φ"
	case *ssa.UnOp:
		if x.Op == token.MUL {
			if a, ok := x.X.(*ssa.Alloc); ok {
				var val ssa.Value
				n := 0
				for _, r := range *a.Referrers() {
					if st, ok := r.(*ssa.Store); ok && st.Addr == ssa.Value(a) {
						val = st.Val
						n++
					}
				}
				if n == 1 {
					return pathShape(val, isKey, env, depth-1)
				}
			}
		}
	case *ssa.Slice:
		// variadic argument list
		if a, ok := x.X.(*ssa.Alloc); ok {
			arr, isArr := a.Type().(*types.Pointer).Elem().Underlying().(*types.Array)
			if isArr {
				elems := make([]string, arr.Len())
				for _, r := range *a.Referrers() {
					if ia, ok := r.(*ssa.IndexAddr); ok {
						if k, isK := core.ConstInt(ia.Index); isK && k >= 0 && k < arr.Len() {
							for _, rr := range *ia.Referrers() {
								if st, ok := rr.(*ssa.Store); ok && st.Addr == ssa.Value(ia) {
									elems[k] = pathShape(st.Val, isKey, env, depth-1)
								}
							}
						}
					}
				}
				return strings.Join(elems, ",")
			}
		}
	case *ssa.Call:
		g := x.Call.StaticCallee()
		if g == nil {
			return "?"
		}
		if core.InModule(g) && g.Blocks != nil {
			// the accessor of the directory
			if cn(g) == "dir" && core.TypeIs(recvType(g), tFileStorage) {
				return "DIR"
			}
			// helper: shape of its single returned expression under the parameter binding
			var rets []*ssa.Return
			core.Instrs(g, func(i ssa.Instruction) {
				if r, ok := i.(*ssa.Return); ok {
					rets = append(rets, r)
				}
			})
			if len(rets) == 1 && len(res(rets[0])) >= 1 {
				env2 := pathEnv{}
				for k, val := range env {
					env2[k] = val
				}
				for k, pr := range g.Params {
					if k < len(x.Call.Args) {
						env2[pr] = resolve(x.Call.Args[k], env)
					}
				}
				return pathShape(res(rets[0])[0], isKey, env2, depth-1)
			}
			return "?" + cn(g)
		}
		var args []string
		for _, a := range x.Call.Args {
			args = append(args, pathShape(a, isKey, env, depth-1))
		}
		return core.QualName(g) + "(" + strings.Join(args, ",") + ")"
	}
	return "?"
}

// destShape: the shape of the path Get opens — the reference for "the file of a key".
func destShape(p *core.Program) string {
	if all := readShapes(p); len(all) > 0 {
		return all[0]
	}
	return ""
}

// readShapes: the shapes of all paths Get opens for reading, in program order.
func readShapes(p *core.Program) []string {
	get := p.Func("util", "(*fileStorage).Get")
	if get == nil {
		return nil
	}
	key := get.Params[1]
	var shapes []string
	var walk func(g *ssa.Function, env pathEnv, isKey func(ssa.Value) bool, d int)
	walk = func(g *ssa.Function, env pathEnv, isKey func(ssa.Value) bool, d int) {
		core.Instrs(g, func(i ssa.Instruction) {
			h := core.Callee(i)
			if h == nil {
				return
			}
			q := core.QualName(h)
			if q == "os.OpenFile" || q == "os.Open" || q == "io/ioutil.ReadFile" || q == "os.ReadFile" {
				shapes = append(shapes, pathShape(core.CallOf(i).Args[0], isKey, env, 8))
				return
			}
			if core.InModule(h) && h.Blocks != nil && d > 0 {
				env2 := pathEnv{}
				for k, v := range env {
					env2[k] = v
				}
				for k, pr := range h.Params {
					if k < len(core.CallOf(i).Args) {
						env2[pr] = resolve(core.CallOf(i).Args[k], env)
					}
				}
				walk(h, env2, isKey, d-1)
			}
		})
	}
	walk(get, pathEnv{}, func(v ssa.Value) bool { return v == ssa.Value(key) }, 2)
	return shapes
}

// tempFileExclusive: the temporary file of a write is created exclusively (O_EXCL), under a name no other write and no key has.
// A temporary name that is a function of the key — <file of the key> + ".tmp" — is itself the file of a key: Set("state") opens
// the file of the live key "state.tmp" truncating and renames it away (C18: a get of that key answers not-found although it was
// set and never deleted; C19: another key is not "untouched" — it is emptied when the process dies inside the write). And two
// overlapping Sets of one key (two connections saving an entity) share the file: the second open truncates what the first has
// written, the loser of the rename race writes into the live value in place — the very thing the temporary file was for.
func tempFileExclusive(c *core.Ctx) {
	set := storageSet(c.P)
	if set == nil {
		return
	}
	var shared ssa.Instruction
	forEachSetPath(c, func(pa core.Path, eff []fileEffect) {
		for _, e := range eff {
			if e.op == "open" && (e.path == "temp" || e.path == "temp?") && writable(e.flags) && e.flags&oEXCL == 0 {
				shared = e.at
			}
		}
	})
	pos := set.Pos()
	if shared != nil {
		pos = posOf(shared)
	}
	c.Check(shared == nil, "temp-file-exclusive@"+fname(set), pos, "the temporary file is created exclusively",
		"the temporary file of a write is opened without O_EXCL under a name derived from the key: it is the file of another key (Set(k) destroys the live key k+suffix) and it is shared by overlapping writes of one key (the stored value becomes a mixture, or is written in place)")
}

// c18LoaderDetails: the loader and the listing, looked at the way a mutation sweep looks at them (each condition below is an edit of
// db/database.go that every check let pass before): the suffix taken off the key is the suffix the key was given; on the path where
// nothing failed the stored bytes are decoded and the name is taken from the key; the listing tests the loader's error and goes on to
// the next key after it has appended an entity.
func c18LoaderDetails(c *core.Ctx, suffix string) {
	p := c.P
	isErrVal := func(v ssa.Value) bool { return v.Type().String() == "error" }
	// allSuccess: every test of an error value against nil on the path takes the nil edge
	allSuccess := func(pa core.Path) bool {
		for k := 0; k+1 < len(pa); k++ {
			iff, ok := pa[k].Instrs[len(pa[k].Instrs)-1].(*ssa.If)
			if !ok {
				continue
			}
			bo, ok := iff.Cond.(*ssa.BinOp)
			if !ok || (bo.Op != token.EQL && bo.Op != token.NEQ) {
				continue
			}
			var ev ssa.Value
			switch {
			case core.IsNilConst(bo.Y) && isErrVal(bo.X):
				ev = bo.X
			case core.IsNilConst(bo.X) && isErrVal(bo.Y):
				ev = bo.Y
			default:
				continue
			}
			_ = ev
			nilEdge := 0
			if bo.Op == token.NEQ {
				nilEdge = 1
			}
			if pa[k+1] != pa[k].Succs[nilEdge] {
				return false
			}
		}
		return true
	}
	if ld := p.Func("db", "(*database).entityForKey"); ld != nil && len(ld.Params) > 1 && len(bodies(ld)) == 1 {
		// suffix agreement
		core.Instrs(ld, func(i ssa.Instruction) {
			if !core.IsCall(i, "strings.TrimSuffix") {
				return
			}
			a := core.Args(i)
			got, isK := core.ConstString(a[1])
			c.Check(isK && got == suffix && valIs(a[0], ld.Params[1]), "loaded-name-suffix-agrees@"+fname(ld), posOf(i), fmt.Sprintf("the loader takes %q off the key, the suffix of toEntityKey", suffix),
				fmt.Sprintf("the loader removes %q from (its argument 0 of TrimSuffix) where entity keys end in %q: the rest is not the hex of the name, the name falls back to what the JSON kept (invalid bytes replaced) — or the arguments are exchanged", got, suffix))
		})
		var nameStore, decode ssa.Instruction
		core.Instrs(ld, func(i ssa.Instruction) {
			if st, ok := i.(*ssa.Store); ok {
				if _, isName := core.FieldAddrOf(st.Addr, mod+"/db.Entity", "Name"); isName {
					nameStore = i
				}
			}
			if core.IsCall(i, "encoding/json.Unmarshal") {
				decode = i
			}
		})
		if nameStore != nil && decode != nil {
			good, n := true, 0
			okEnum := core.EnumPaths(ld, 2, 20000, func(pa core.Path) {
				if pa.Returns() == nil || !allSuccess(pa) {
					return
				}
				n++
				hasStore, hasDecode := false, false
				pa.Instrs(func(i ssa.Instruction) {
					if i == nameStore {
						hasStore = true
					}
					if i == decode {
						hasDecode = true
					}
				})
				if !hasStore || !hasDecode {
					good = false
				}
			})
			if !okEnum {
				c.Undecided("loader-success-path@"+fname(ld), ld.Pos(), "too many paths")
			} else {
				c.Check(good && n > 0, "loader-success-path@"+fname(ld), ld.Pos(), "where nothing failed, the stored bytes are decoded and the name is taken from the key",
					"on the path of the loader on which no call failed the stored bytes are not decoded, or the name is not taken from the key (a test the wrong way round, or dropped): entities come back empty — a controller's key is not found, pair-verify fails — or under the name JSON kept")
			}
		}
	}
	if ent := p.Func("db", "(*database).Entities"); ent != nil && len(bodies(ent)) == 1 {
		var app, load ssa.Instruction
		core.Instrs(ent, func(i ssa.Instruction) {
			if cl, ok := i.(*ssa.Call); ok {
				if b, isB := cl.Call.Value.(*ssa.Builtin); isB && b.Name() == "append" && core.TypeIs(sliceElem(cl.Type()), mod+"/db.Entity") {
					app = i
				}
			}
			if g := core.Callee(i); g != nil && cn(g) == "entityForKey" {
				load = i
			}
		})
		if app != nil && load != nil {
			tested := false
			if cl, ok := load.(*ssa.Call); ok {
				for _, r := range *cl.Referrers() {
					if e, isE := r.(*ssa.Extract); isE && e.Index == 1 {
						for _, rr := range *e.Referrers() {
							if bo, isB := rr.(*ssa.BinOp); isB && (bo.Op == token.EQL || bo.Op == token.NEQ) {
								tested = true
							}
						}
					}
				}
			}
			c.Check(reachesAfter(app, app) && reachesAfter(load, app) && tested, "listing-covers-every-key@"+fname(ent), posOf(app), "the listing appends what it loaded, goes on to the next key, and tests the loader's error",
				"the listing stops after the first entity, does not append what it loaded, or does not test the loader's error: stored pairings are not listed (an accessory with pairings advertises itself as unpaired) or unreadable entries are listed as empty entities")
		} else {
			c.Note("listing-covers-every-key@"+fname(ent), ent.Pos(), "the listing does not have the shape 'load each key with the common loader and append' (decided by listing-loader)")
		}
	}
}

func sliceElem(t types.Type) types.Type {
	if sl, ok := t.Underlying().(*types.Slice); ok {
		return sl.Elem()
	}
	return t
}

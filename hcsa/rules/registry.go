// Package rules holds one file per property; each registers a *core.Property.
package rules

import (
	"sort"

	"hcsa/core"
)

var registry []*core.Property

func register(p *core.Property) { registry = append(registry, p) }

// All returns the registered properties sorted by id.
func All() []*core.Property {
	sort.Slice(registry, func(i, j int) bool { return registry[i].ID < registry[j].ID })
	return registry
}

package rules

import (
	"fmt"
	"go/constant"
	"go/token"
	"go/types"
	"strings"

	"golang.org/x/tools/go/ssa"

	"hcsa/core"
)

func init() {
	register(&core.Property{
		ID:    "C06",
		Level: "other",
		Explanation: "Structural facts without which the secure framing cannot round-trip or does not have the specified wire format: the per-frame write sequence of Encrypt " +
			"[2 length bytes (LE16) | ciphertext | 16-byte tag] agrees in order, width and byte order with the per-frame read sequence of Decrypt; the AAD of the seal is the very buffer that is " +
			"written as length; the nonce is LE64(encryptCount) with +1 per frame on every loop path; PacketLengthMax folds to 1024, is what the packetiser receives and what the reader's last-frame " +
			"test compares with, and fits 16 bits; packetisation and frame reads obey the io.Reader contract (no bare Read whose short count ends the data or is ignored; bytes delivered together " +
			"with an error are consumed); Decrypt's end-of-message condition does not reject a message that ends on a full frame.",
		Assumptions: []string{"encoding/binary, bytes.Buffer and io.ReadFull behave as documented"},
		NotDecided:  []string{"byte equality for all payload lengths and contents", "counter continuity across messages beyond '+1 per frame, no other writer'"},
		Rules: []core.Rule{
			{ID: "C06-R1", Title: "writer/reader frame layout agreement", Decides: "frames are parsed as they are written: [LE16 length | ciphertext | 16-byte tag]", Floor: 2, Run: c06r1},
			{ID: "C06-R2", Title: "AEAD inputs on the sealing side", Decides: "length as AAD, LE64 counter from 0 as nonce, +1 per frame", Floor: 4, Run: func(c *core.Ctx) {
				c06r2(c)
				copySourcesAreWritten(c, "crypto", "crypto/hkdf", "crypto/chacha20poly1305", "crypto/curve25519", "hap/pair", "hap")
			}},
			{ID: "C06-R3", Title: "frame-size constant agreement", Decides: "at most 1024 plaintext bytes per frame; reader and writer agree on the last-frame test", Floor: 4, Run: func(c *core.Ctx) { c06r3(c); passThrough(c, "C06"); returnsUndecorated(c, "C06") }},
			{ID: "C06-R4", Title: "io.Reader contract in packetisation and frame reads", Decides: "round-trip however the source reader delivers the data", Floor: 2, Run: func(c *core.Ctx) { c06r4(c); polarityEverywhere(c, "C06") }},
			{ID: "C06-R5", Title: "end of message on a full last frame, with or without end of input behind it", Decides: "exact multiples of the frame size round-trip, also on a connection that stays open", Floor: 2, Run: func(c *core.Ctx) { c06r5(c); frameAtATime(c) }},
			{ID: "C06-R6", Title: "no private read-ahead; message in one buffer; read-counter continuity", Decides: "sequences of messages on one session round-trip", Floor: 3, Run: c06r6},
		},
	})
}

func widthOf(t types.Type) (int64, bool) {
	switch u := t.Underlying().(type) {
	case *types.Basic:
		switch u.Kind() {
		case types.Uint16, types.Int16:
			return 2, true
		case types.Uint8, types.Int8:
			return 1, true
		case types.Uint32, types.Int32:
			return 4, true
		case types.Uint64, types.Int64:
			return 8, true
		}
	case *types.Array:
		if w, ok := widthOf(u.Elem()); ok {
			return u.Len() * w, true
		}
	}
	return 0, false
}

func c06r1(c *core.Ctx) {
	p := c.P
	enc := p.Func("crypto", "(*secureSession).Encrypt")
	dec := p.Func("crypto", "(*secureSession).Decrypt")
	if enc == nil || dec == nil {
		c.Undecided("Encrypt/Decrypt", token.NoPos, "not found")
		return
	}
	// writer: sequence of writes to the output buffer in the block(s) after the seal
	var seal *ssa.Call
	core.Instrs(enc, func(i ssa.Instruction) {
		if isSealCall(i) {
			seal = i.(*ssa.Call)
		}
	})
	if seal == nil {
		c.Undecided("seal@"+fname(enc), enc.Pos(), "no EncryptAndSeal call")
		return
	}
	var wdesc []string
	for _, b := range enc.Blocks {
		for _, i := range b.Instrs {
			if !(core.IsCall(i, "(*bytes.Buffer).Write") || core.IsInvoke(i, "io.Writer", "Write")) {
				continue
			}
			arg0 := core.Args(i)[0]
			if core.IsInvoke(i, "io.Writer", "Write") {
				arg0 = core.CallOf(i).Args[0]
			}
			for _, arg := range writtenPieces(arg0) {
				switch {
				case core.AnySource(arg, func(s ssa.Value) bool {
					return core.CallResult(s, 0, func(ci ssa.Instruction) bool { return ci == ssa.Instruction(seal) }) != nil
				}):
					wdesc = append(wdesc, "ciphertext")
				default:
					a := allocOf(arg)
					if a == nil {
						wdesc = append(wdesc, "?")
						continue
					}
					if _, bits, little, _ := putUint(enc, a); bits != 0 {
						wdesc = append(wdesc, fmt.Sprintf("uint%d/%s", bits, map[bool]string{true: "LE", false: "BE"}[little]))
						continue
					}
					w, _ := widthOf(a.Type().(*types.Pointer).Elem())
					fromTag := false
					for _, r := range *a.Referrers() {
						if st, ok := r.(*ssa.Store); ok && st.Addr == a {
							if core.CallResult(st.Val, 1, func(ci ssa.Instruction) bool { return ci == ssa.Instruction(seal) }) != nil {
								fromTag = true
							}
						}
					}
					if fromTag {
						wdesc = append(wdesc, fmt.Sprintf("tag[%d]", w))
					} else {
						wdesc = append(wdesc, fmt.Sprintf("bytes[%d]", w))
					}
				}
			}
		}
	}
	// reader: sequence of stream reads (frame model: locals or struct fields, uint16 or [2]byte + Uint16)
	var rdesc []string
	fm := buildFrameModel(dec)
	for _, b := range dec.Blocks {
		for _, i := range b.Instrs {
			if _, _, ok := isStreamRead(i); ok {
				for _, r := range fm.reads {
					if ssa.Instruction(r.call) == i {
						rdesc = append(rdesc, r.kind)
					}
				}
				continue
			}
			if cc, isC := i.(*ssa.Call); isC && cc.Call.IsInvoke() && cc.Call.Method.Name() == "Read" {
				rdesc = append(rdesc, "bare-Read")
			}
		}
	}
	want := "[uint16/LE ciphertext tag[16]]"
	c.Check(fmt.Sprint(wdesc) == want, "writer-layout@"+fname(enc), enc.Pos(), "per frame Encrypt writes "+want, fmt.Sprintf("Encrypt writes %v per frame, the wire format is %s", wdesc, want))
	c.Check(fmt.Sprint(rdesc) == want, "reader-layout@"+fname(dec), dec.Pos(), "per frame Decrypt reads "+want, fmt.Sprintf("Decrypt reads %v per frame, the wire format is %s (each piece must be read completely)", rdesc, want))
}

func c06r2(c *core.Ctx) {
	p := c.P
	enc := p.Func("crypto", "(*secureSession).Encrypt")
	if enc == nil {
		c.Undecided("Encrypt", token.NoPos, "not found")
		return
	}
	for _, s := range core.FindCalls(enc, isSealCall) {
		args := core.Args(s)
		// nonce
		a := allocOf(args[1])
		okN := false
		if a != nil {
			val, bits, little, _ := putUint(enc, a)
			_, fromCounter := core.FieldLoad(val, tSecure, "encryptCount")
			okN = val != nil && bits == 64 && little && fromCounter
		}
		c.Check(okN, "nonce@"+fname(enc), posOf(s), "nonce = LE64(encryptCount)", "the sealing nonce is not the little-endian 64-bit frame counter")
		// aad = the buffer written as length, holding LE16 of the plaintext length of this packet
		aad := allocOf(args[3])
		okA := false
		if aad != nil {
			val, bits, little, _ := putUint(enc, aad)
			written := false
			core.Instrs(enc, func(i ssa.Instruction) {
				if core.IsCall(i, "(*bytes.Buffer).Write") {
					for _, pc := range writtenPieces(core.Args(i)[0]) {
						if allocOf(pc) == aad {
							written = true
						}
					}
				}
			})
			lenOfMsg := val != nil && core.AnySource(val, func(sv ssa.Value) bool {
				if _, ok := core.FieldLoad(sv, mod+"/crypto.packet", "length"); ok {
					return true
				}
				if call, ok := sv.(*ssa.Call); ok {
					if b, ok := call.Call.Value.(*ssa.Builtin); ok && b.Name() == "len" {
						return sameValue(call.Call.Args[0], args[2])
					}
				}
				return false
			})
			okA = bits == 16 && little && written && lenOfMsg
		}
		c.Check(okA, "aad@"+fname(enc), posOf(s), "AAD = the LE16 length bytes that are written in front of the frame", "the AAD of the seal is not the length field that is put on the wire")
	}
	bad, total := 0, 0
	ok := core.EnumPaths(enc, 3, 200000, func(pa core.Path) {
		total++
		offs, plusOne, fromCtr := counterOnPath(pa, enc, "encryptCount", isSealCall, 1)
		good := plusOne && fromCtr
		for k, o := range offs {
			if o != k {
				good = false
			}
		}
		if !good {
			if bad == 0 {
				c.BadPath("counter-discipline@"+fname(enc), enc.Pos(), pa.Describe(p), "successive seals use counter offsets %v (want 0,1,2,...)", offs)
			}
			bad++
		}
	})
	c.Count("paths_enumerated", total)
	if !ok {
		c.Undecided("counter-discipline@"+fname(enc), enc.Pos(), "too many paths")
	} else if bad == 0 {
		c.OK("counter-discipline@"+fname(enc), enc.Pos(), "on all %d paths the k-th seal uses encryptCount+k", total)
	}
	// the packet's length field is the length of its value
	pk := p.Func("crypto", "packetsWithSizeFromBytes")
	if pk != nil {
		good := false
		core.Instrs(pk, func(i ssa.Instruction) {
			st, ok := i.(*ssa.Store)
			if !ok {
				return
			}
			if _, ok := core.FieldAddrOf(st.Addr, mod+"/crypto.packet", "length"); ok {
				// value must be the count that also bounds packet.value
				core.Instrs(pk, func(j ssa.Instruction) {
					st2, ok := j.(*ssa.Store)
					if !ok {
						return
					}
					if _, ok := core.FieldAddrOf(st2.Addr, mod+"/crypto.packet", "value"); ok {
						for _, vs := range core.Sources(st2.Val) {
							if ms, ok := vs.(*ssa.MakeSlice); ok && sameValue(ms.Len, st.Val) {
								good = true
							}
						}
						if sl, ok := core.StripConv(st2.Val).(*ssa.Slice); ok && sl.High != nil && sameValue(sl.High, st.Val) {
							good = true
						}
					}
				})
			}
		})
		c.Check(good, "packet-length=len(value)@"+fname(pk), pk.Pos(), "packet.length is the count that bounds packet.value", "packet.length is not the length of packet.value")
	}
	packetsOnlyFromPayload(c)
}

// packetsOnlyFromPayload: every packet that is put on the list of packets to seal was filled by a read of the payload — its length is
// the count of that read. A packet made up otherwise (an empty "terminator" after a full last frame, padding) is a frame the
// specification does not have: a conforming peer hands it up as data or, at least, its nonce counter is one ahead from then on.
func packetsOnlyFromPayload(c *core.Ctx) {
	p := c.P
	tPacket := mod + "/crypto.packet"
	n := 0
	for _, f := range libFuncs(p) {
		if !strings.HasSuffix(pkgPathOf(f), "/crypto") {
			continue
		}
		core.Instrs(f, func(i ssa.Instruction) {
			call, ok := i.(*ssa.Call)
			if !ok {
				return
			}
			if b, isB := call.Call.Value.(*ssa.Builtin); !isB || b.Name() != "append" {
				return
			}
			sl, isSl := call.Type().Underlying().(*types.Slice)
			if !isSl || !core.TypeIs(sl.Elem(), tPacket) {
				return
			}
			vals := appendedValues(call)
			if len(vals) == 0 {
				if len(call.Call.Args) == 2 && !core.IsNilConst(call.Call.Args[1]) {
					c.Note("packet-append@"+fname(f), posOf(call), "a whole slice of packets is appended (not an element list)")
				}
				return
			}
			for _, v := range vals {
				n++
				o := structOrigin(v, 4)
				if o == nil {
					c.Note("packet-origin@"+fname(f), posOf(call), "the appended packet is not a local composite value")
					continue
				}
				fromRead, stores := true, 0
				for _, r := range *o.Referrers() {
					fa, isFA := r.(*ssa.FieldAddr)
					if !isFA {
						continue
					}
					if _, isLen := core.FieldAddrOf(fa, tPacket, "length"); !isLen {
						continue
					}
					for _, rr := range *fa.Referrers() {
						st, isSt := rr.(*ssa.Store)
						if !isSt || st.Addr != ssa.Value(fa) {
							continue
						}
						stores++
						if !core.AnySource(st.Val, func(sv ssa.Value) bool {
							ci := core.CallResult(sv, 0, func(ci ssa.Instruction) bool {
								if core.IsCall(ci, "io.ReadFull") || core.IsCall(ci, "io.ReadAtLeast") {
									return true
								}
								cc := core.CallOf(ci)
								return cc != nil && cc.IsInvoke() && cc.Method.Name() == "Read"
							})
							return ci != nil
						}) {
							fromRead = false
						}
					}
				}
				c.Check(fromRead && stores > 0, "packet-from-payload@"+fname(f), posOf(call), "the appended packet's length is the count of a read of the payload",
					"a packet is put on the list whose length is not the count of a payload read (a made-up packet, e.g. an empty terminator after a full last frame): the stream contains a frame the specification does not have, and the peer's nonce counter is off by one afterwards")
			}
		})
	}
	if n == 0 {
		c.Undecided("packet-from-payload", token.NoPos, "no packet is appended to a packet list anywhere in the crypto package")
	}
}

func c06r3(c *core.Ctx) {
	p := c.P
	pkg := p.Pkg("crypto")
	if pkg == nil {
		c.Undecided("crypto", token.NoPos, "package not found")
		return
	}
	obj, _ := pkg.Types.Scope().Lookup("PacketLengthMax").(*types.Const)
	if obj == nil {
		c.Undecided("PacketLengthMax", token.NoPos, "constant not found")
		return
	}
	v, _ := constant.Int64Val(obj.Val())
	c.Check(v == 1024, "PacketLengthMax=1024", obj.Pos(), "frame size constant is 1024", fmt.Sprintf("PacketLengthMax is %d, the HAP frame size is 1024", v))
	c.Check(v < 65536, "PacketLengthMax-fits-16-bit", obj.Pos(), "fits the 16-bit length field", "frame size does not fit the 16-bit length field")
	pf := p.Func("crypto", "packetsFromBytes")
	if pf != nil {
		okc := false
		core.Instrs(pf, func(i ssa.Instruction) {
			if f := core.Callee(i); f != nil && cn(f) == "packetsWithSizeFromBytes" {
				// the size argument, wherever it stands in the parameter list
				for _, a := range core.Args(i) {
					if n, ok := core.ConstInt(a); ok && n == v {
						okc = true
					}
				}
			}
		})
		c.Check(okc, "packetiser-gets-constant@"+fname(pf), pf.Pos(), "packetiser is called with PacketLengthMax", "the packetiser is not called with PacketLengthMax")
	} else {
		c.Undecided("packetsFromBytes", token.NoPos, "not found")
	}
	enc := p.Func("crypto", "(*secureSession).Encrypt")
	if enc != nil {
		uses := false
		core.Instrs(enc, func(i ssa.Instruction) {
			if f := core.Callee(i); f != nil && (f == pf) {
				uses = true
			}
		})
		c.Check(uses, "Encrypt-uses-packetiser", enc.Pos(), "Encrypt frames its input with packetsFromBytes", "Encrypt does not use the constant-size packetiser")
	}
	dec := p.Func("crypto", "(*secureSession).Decrypt")
	if dec != nil {
		found := false
		core.Instrs(dec, func(i ssa.Instruction) {
			if b, ok := i.(*ssa.BinOp); ok && (b.Op == token.LSS || b.Op == token.GEQ || b.Op == token.EQL || b.Op == token.NEQ) {
				if n, ok := core.ConstInt(b.Y); ok && n == v {
					found = true
				}
			}
		})
		c.Check(found, "reader-last-frame-test@"+fname(dec), dec.Pos(), "the reader's last-frame test compares with the same constant", "the reader's last-frame test does not compare with PacketLengthMax")
		lastFramePolarity(c, dec, v)
	}
}

// lastFramePolarity: after a frame shorter than the frame size the message is complete (no further frame is read, whatever else is
// known about the stream), after a full frame the next length is read.
func lastFramePolarity(c *core.Ctx, dec *ssa.Function, v int64) {
	// polarity: after a frame shorter than the constant the message is complete (no further frame is read), after a full
	// frame the next length is read
	fm := buildFrameModel(dec)
	if fm.length != nil {
		nTests, good := 0, true
		var cutShort *ssa.BasicBlock
		for _, b := range dec.Blocks {
			iff, ok := b.Instrs[len(b.Instrs)-1].(*ssa.If)
			if !ok {
				continue
			}
			bo, ok := iff.Cond.(*ssa.BinOp)
			if !ok {
				continue
			}
			n, isK := core.ConstInt(bo.Y)
			if !isK || n != v {
				continue
			}
			shortIdx := -1 // successor taken when the frame is shorter than the constant
			switch bo.Op {
			case token.LSS, token.NEQ:
				shortIdx = 0
			case token.GEQ, token.EQL:
				shortIdx = 1
			}
			if shortIdx < 0 {
				continue
			}
			nTests++
			again := func(from *ssa.BasicBlock) bool {
				return core.Reach(from, nil, nil)[fm.length.call.Block()]
			}
			if again(b.Succs[shortIdx]) || !again(b.Succs[1-shortIdx]) {
				good = false
			}
			// … and unconditionally so: no path from the full-frame edge leaves the function before the next length was read
			lenBlk := fm.length.call.Block()
			for blk := range core.Reach(b.Succs[1-shortIdx], nil, func(x *ssa.BasicBlock) bool { return x == lenBlk }) {
				if blk == lenBlk {
					continue
				}
				if _, isRet := blk.Instrs[len(blk.Instrs)-1].(*ssa.Return); isRet {
					cutShort = blk
				}
			}
		}
		// the same test kept in a flag that runs the loop (  for last := false; !last; { ...; last = length < Max }  ): the walk
		// from the assignment, with the flag's value assumed, must (short) not come back to the length read / (full) come back to it
		// without leaving the function first
		for _, b := range dec.Blocks {
			for _, ins := range b.Instrs {
				bo, ok := ins.(*ssa.BinOp)
				if !ok {
					continue
				}
				n, isK := core.ConstInt(bo.Y)
				if !isK || n != v {
					continue
				}
				if iff, isIf := b.Instrs[len(b.Instrs)-1].(*ssa.If); isIf && iff.Cond == ssa.Value(bo) {
					continue // handled above
				}
				feedsPhi := false
				for _, r := range *bo.Referrers() {
					if _, isPhi := r.(*ssa.Phi); isPhi {
						feedsPhi = true
					}
				}
				var shortMeansTrue bool
				switch bo.Op {
				case token.LSS, token.NEQ:
					shortMeansTrue = true
				case token.GEQ, token.EQL:
					shortMeansTrue = false
				default:
					continue
				}
				if !feedsPhi || len(b.Succs) != 1 {
					continue
				}
				nTests++
				lenBlk := fm.length.call.Block()
				walk := func(assumeTrue bool) (again bool, leaves *ssa.BasicBlock) {
					assume := func(cond ssa.Value) (bool, bool) {
						if cond != ssa.Value(bo) {
							return false, false
						}
						// the edges that contradict the assumption are cut
						return !assumeTrue, assumeTrue
					}
					core.Explore(b.Succs[0], core.PredIndex(b, 0), assume, func(x *ssa.BasicBlock) bool {
						if x == lenBlk {
							again = true
							return false
						}
						if _, isRet := x.Instrs[len(x.Instrs)-1].(*ssa.Return); isRet {
							leaves = x
						}
						return true
					})
					return
				}
				shortAgain, _ := walk(shortMeansTrue)
				fullAgain, fullLeaves := walk(!shortMeansTrue)
				if shortAgain || !fullAgain {
					good = false
				}
				if fullLeaves != nil {
					cutShort = fullLeaves
				}
			}
		}
		if nTests > 0 {
			pos := dec.Pos()
			if cutShort != nil {
				pos = cutShort.Instrs[len(cutShort.Instrs)-1].Pos()
			}
			c.Check(cutShort == nil, "full-frame-always-continues@"+fname(dec), pos, "after a frame of the maximum size the next length is read on every path",
				"after a frame of the maximum size the reader can return without reading the next length: a message longer than the point where it stops is handed out cut off (the rest stays in the stream and is taken for the next message)")
		}
		c.Check(good && nTests > 0, "reader-last-frame-polarity@"+fname(dec), dec.Pos(), "a short frame ends the message, a full frame is followed by the next length read",
			"the last-frame test is inverted: after a full frame the reader stops (the message is cut at 1024 bytes), after the short last frame it goes on reading and swallows the next message")
	}
}

func c06r4(c *core.Ctx) {
	p := c.P
	enc := p.Func("crypto", "(*secureSession).Encrypt")
	dec := p.Func("crypto", "(*secureSession).Decrypt")
	if enc == nil || dec == nil {
		c.Undecided("Encrypt/Decrypt", token.NoPos, "not found")
		return
	}
	// module functions reachable from Encrypt/Decrypt by static calls inside package crypto
	seen := map[*ssa.Function]bool{}
	var walk func(f *ssa.Function)
	walk = func(f *ssa.Function) {
		if f == nil || seen[f] || !core.InModule(f) || f.Blocks == nil {
			return
		}
		seen[f] = true
		core.Instrs(f, func(i ssa.Instruction) { walk(core.Callee(i)) })
	}
	walk(enc)
	walk(dec)
	for _, f := range core.SortedFuncs(seen) {
		reads := bareReads(f)
		key := "reads@" + fname(f)
		if len(reads) == 0 {
			full := 0
			core.Instrs(f, func(i ssa.Instruction) {
				if _, _, ok := isStreamRead(i); ok {
					full++
				}
			})
			if full > 0 {
				c.OK(key, f.Pos(), "%d stream read(s), all through full-read helpers (io.ReadFull / binary.Read)", full)
			}
			continue
		}
		for _, r := range reads {
			if ok, why := countUsedOnAllPaths(r); !ok {
				c.Bad(key, posOf(r), "%s", why)
				continue
			}
			// short count must not end the data: n < requested -> exit without an error test
			if ok, why := shortCountEndsData(r); !ok {
				c.Bad(key, posOf(r), "%s", why)
				continue
			}
			c.OK(key, posOf(r), "bare Read whose count is consumed on every path and whose short count does not end the data")
		}
	}
}

// shortCountEndsData: a comparison n < X (X = requested size) whose true edge reaches a return without
// an error test and without reading again is the "short read == end of data" mistake.
func shortCountEndsData(c *ssa.Call) (bool, string) {
	var n *ssa.Extract
	var errv *ssa.Extract
	for _, r := range *c.Referrers() {
		if e, ok := r.(*ssa.Extract); ok {
			if e.Index == 0 {
				n = e
			} else {
				errv = e
			}
		}
	}
	if n == nil {
		return true, ""
	}
	fn := c.Parent()
	for _, r := range *n.Referrers() {
		b, ok := r.(*ssa.BinOp)
		if !ok || b.Op != token.LSS || b.X != ssa.Value(n) {
			continue
		}
		// find the If using b
		for _, blk := range fn.Blocks {
			iff, ok := blk.Instrs[len(blk.Instrs)-1].(*ssa.If)
			if !ok || iff.Cond != ssa.Value(b) {
				continue
			}
			// from the true successor: can we reach a Return without passing the Read again and without an If on err?
			seen := map[*ssa.BasicBlock]bool{}
			var dfs func(x *ssa.BasicBlock) bool
			dfs = func(x *ssa.BasicBlock) bool {
				if seen[x] || x == c.Block() {
					return false
				}
				seen[x] = true
				for _, i := range x.Instrs {
					if _, ok := i.(*ssa.Return); ok {
						return true
					}
				}
				if iff2, ok := x.Instrs[len(x.Instrs)-1].(*ssa.If); ok && errv != nil {
					if bo, ok := iff2.Cond.(*ssa.BinOp); ok && (bo.X == ssa.Value(errv) || bo.Y == ssa.Value(errv)) {
						return false // the error is examined on this way out
					}
				}
				for _, s := range x.Succs {
					if dfs(s) {
						return true
					}
				}
				return false
			}
			if dfs(blk.Succs[0]) {
				return false, "a count smaller than requested ends the data without looking at the error: io.Reader may return short counts at any time, the rest of the payload is dropped"
			}
		}
	}
	return true, ""
}

func c06r5(c *core.Ctx) {
	p := c.P
	dec := p.Func("crypto", "(*secureSession).Decrypt")
	if dec == nil {
		c.Undecided("Decrypt", token.NoPos, "not found")
		return
	}
	// On every path where the length read reports io.EOF (taken edge err == io.EOF), the function returns (reader, nil),
	// whatever has been buffered before: a message whose last frame is full ends exactly there.
	fm := buildFrameModel(dec)
	if fm.length == nil {
		c.Undecided("length-read@"+fname(dec), dec.Pos(), "not found")
		return
	}
	lengthErr := fm.length.errv
	eofFact := func(cond ssa.Value) (bool, bool) {
		b, ok := cond.(*ssa.BinOp)
		if !ok || (b.Op != token.EQL && b.Op != token.NEQ) {
			return false, false
		}
		isEOF := func(v ssa.Value) bool {
			u, ok := v.(*ssa.UnOp)
			if !ok {
				return false
			}
			g, ok := u.X.(*ssa.Global)
			return ok && g.Name() == "EOF" && g.Pkg.Pkg.Path() == "io"
		}
		isErr := func(v ssa.Value) bool { return v == lengthErr }
		if (isEOF(b.X) && isErr(b.Y)) || (isEOF(b.Y) && isErr(b.X)) {
			return b.Op == token.EQL, b.Op == token.NEQ
		}
		return false, false
	}
	bad, n := 0, 0
	core.EnumPaths(dec, 2, 200000, func(pa core.Path) {
		// the path's LAST length read hit EOF: approximated by "the path took a pure err==EOF edge of the length read"
		tookPure := false
		for k := 0; k+1 < len(pa); k++ {
			b := pa[k]
			iff, ok := b.Instrs[len(b.Instrs)-1].(*ssa.If)
			if !ok {
				continue
			}
			t, f := eofFact(resolvedCmp(pa, k, iff.Cond))
			if (t && pa[k+1] == b.Succs[0]) || (f && pa[k+1] == b.Succs[1]) {
				tookPure = true
			}
		}
		// a compound condition (err == EOF && something) shows up as: EOF edge taken, then another test, then an error return
		eofSeen := false
		for k := 0; k+1 < len(pa); k++ {
			b := pa[k]
			if iff, ok := b.Instrs[len(b.Instrs)-1].(*ssa.If); ok {
				if bo, ok := iff.Cond.(*ssa.BinOp); ok {
					t, f := eofFact(resolvedCmp(pa, k, bo))
					if (t && pa[k+1] == b.Succs[0]) || (f && pa[k+1] == b.Succs[1]) {
						eofSeen = true
					}
				}
			}
		}
		if !tookPure && !eofSeen {
			return
		}
		n++
		ret := pa.Returns()
		if ret == nil || core.IsNilConst(res(ret)[0]) || !core.IsNilConst(res(ret)[1]) {
			if bad == 0 {
				c.BadPath("eof-after-full-frame@"+fname(dec), dec.Pos(), pa.Describe(p),
					"on this path the length read hits end of input but Decrypt does not return the decrypted message: a payload that is an exact multiple of the frame size is rejected")
			}
			bad++
		}
	})
	if bad == 0 {
		c.Check(n > 0, "eof-ends-message@"+fname(dec), dec.Pos(), fmt.Sprintf("all %d paths on which the length read hits EOF return the message with a nil error", n),
			"no path models end of input on the length read")
	}
}

// writtenPieces: what one Write call puts on the wire, in order: the argument itself, or — when the argument is a frame composed
// from several pieces (append chain, bytes.Join, copy into a pre-sized buffer) — those pieces.
func writtenPieces(arg ssa.Value) []ssa.Value {
	if parts, ok := byteSeq(arg); ok && len(parts) > 1 {
		return parts
	}
	return []ssa.Value{arg}
}

// resolvedCmp: the comparison cond with its operands replaced by what they stand for on this path (merged error variables).
func resolvedCmp(pa core.Path, k int, cond ssa.Value) ssa.Value {
	bo, ok := cond.(*ssa.BinOp)
	if !ok {
		return cond
	}
	x, y := pa.ResolveAt(k, bo.X), pa.ResolveAt(k, bo.Y)
	if x == bo.X && y == bo.Y {
		return cond
	}
	return &ssa.BinOp{Op: bo.Op, X: x, Y: y}
}

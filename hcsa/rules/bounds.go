package rules

import (
	"fmt"
	"go/constant"
	"go/token"
	"go/types"

	"golang.org/x/tools/go/ssa"

	"hcsa/core"
)

// knownLen returns the constant length of the value being sliced/indexed when it is statically known
// (pointer to array, array, slice of a whole array, make with constant length).
func knownLen(v ssa.Value) (int64, bool) {
	v = core.StripConv(v)
	t := v.Type()
	if p, ok := t.Underlying().(*types.Pointer); ok {
		if a, ok := p.Elem().Underlying().(*types.Array); ok {
			return a.Len(), true
		}
	}
	if a, ok := t.Underlying().(*types.Array); ok {
		return a.Len(), true
	}
	switch x := v.(type) {
	case *ssa.Slice:
		if x.High == nil {
			if n, ok := knownLen(x.X); ok {
				lo := int64(0)
				if x.Low != nil {
					l, isK := core.ConstInt(x.Low)
					if !isK {
						return 0, false
					}
					lo = l
				}
				return n - lo, true
			}
		} else if hc, isCall := core.StripConv(x.High).(*ssa.Call); isCall {
			// x[:len(x)] has the length of x
			if b, isB := hc.Call.Value.(*ssa.Builtin); isB && b.Name() == "len" && x.Low == nil && (hc.Call.Args[0] == x.X || sameValue(hc.Call.Args[0], x.X)) {
				return knownLen(x.X)
			}
		} else if h, isK := core.ConstInt(x.High); isK {
			lo := int64(0)
			if x.Low != nil {
				l, isK := core.ConstInt(x.Low)
				if !isK {
					return 0, false
				}
				lo = l
			}
			return h - lo, true
		}
	case *ssa.MakeSlice:
		if n, ok := core.ConstInt(x.Len); ok {
			return n, true
		}
	case *ssa.Call:
		// a copy: append([]T(nil), x...) has the length of x
		if b, isB := x.Call.Value.(*ssa.Builtin); isB && b.Name() == "append" && len(x.Call.Args) == 2 && emptySlice(x.Call.Args[0]) {
			return knownLen(x.Call.Args[1])
		}
	case *ssa.Const:
		if s, ok := core.ConstString(x); ok {
			return int64(len(s)), true
		}
	}
	return 0, false
}

func typeMax(t types.Type) (int64, bool) {
	b, ok := t.Underlying().(*types.Basic)
	if !ok {
		return 0, false
	}
	switch b.Kind() {
	case types.Uint8:
		return 255, true
	case types.Uint16:
		return 65535, true
	}
	return 0, false
}

func isLenOf(v ssa.Value, x ssa.Value) bool {
	call, ok := core.StripConv(v).(*ssa.Call)
	if !ok {
		return false
	}
	b, ok := call.Call.Value.(*ssa.Builtin)
	if !ok || b.Name() != "len" {
		return false
	}
	return call.Call.Args[0] == x || sameValue(call.Call.Args[0], x)
}

// lenAtLeastFact: the fact len(x) >= k (k constant).
func lenAtLeastFact(x ssa.Value, k int64) core.CondFact {
	return func(cond ssa.Value) (bool, bool) {
		b, ok := cond.(*ssa.BinOp)
		if !ok {
			return false, false
		}
		var n int64
		var isK, lenLeft bool
		if isLenOf(b.X, x) {
			n, isK = core.ConstInt(b.Y)
			lenLeft = true
		} else if isLenOf(b.Y, x) {
			n, isK = core.ConstInt(b.X)
		}
		if !isK {
			return false, false
		}
		op := b.Op
		if !lenLeft { // k op len  ==> len flip(op) k
			switch op {
			case token.LSS:
				op = token.GTR
			case token.GTR:
				op = token.LSS
			case token.LEQ:
				op = token.GEQ
			case token.GEQ:
				op = token.LEQ
			}
		}
		switch op {
		case token.LSS: // len < n : false edge gives len >= n
			return false, n >= k
		case token.LEQ: // len <= n : false edge gives len >= n+1
			return false, n+1 >= k
		case token.GEQ:
			return n >= k, false
		case token.GTR:
			return n+1 >= k, false
		case token.EQL:
			return n >= k, false
		case token.NEQ:
			return false, n >= k
		}
		return false, false
	}
}

// boundLeLenFact: the fact v <= len(x) for a non-constant v.
func boundLeLenFact(v, x ssa.Value) core.CondFact {
	same := func(a ssa.Value) bool { return core.StripConv(a) == core.StripConv(v) || sameValue(a, v) }
	return func(cond ssa.Value) (bool, bool) {
		b, ok := cond.(*ssa.BinOp)
		if !ok {
			return false, false
		}
		switch {
		case same(b.X) && isLenOf(b.Y, x):
			switch b.Op {
			case token.GTR:
				return false, true
			case token.LEQ, token.LSS, token.EQL:
				return true, false
			case token.GEQ:
				return false, false
			}
		case isLenOf(b.X, x) && same(b.Y):
			switch b.Op {
			case token.LSS:
				return false, true
			case token.GEQ, token.GTR, token.EQL:
				return true, false
			}
		}
		return false, false
	}
}

// boundOK decides whether the slice bound `bound` of the sliced value x at instruction at is within len(x).
func boundOK(at ssa.Instruction, x ssa.Value, bound ssa.Value) (bool, string) {
	if bound == nil {
		return true, ""
	}
	n, lenKnown := knownLen(x)
	if k, isK := core.ConstInt(bound); isK {
		if lenKnown {
			if k <= n {
				return true, ""
			}
			return false, fmt.Sprintf("constant bound %d exceeds the length %d", k, n)
		}
		if k == 0 {
			return true, ""
		}
		if core.Dominated(at, lenAtLeastFact(x, k)) {
			return true, ""
		}
		return false, fmt.Sprintf("constant bound %d without a dominating test len >= %d", k, k)
	}
	b := core.StripConv(bound)
	if m, ok := typeMax(b.Type()); ok && lenKnown && m <= n {
		return true, ""
	}
	// the count of the latest of several reads into x ( n, _ := r.Read(x); for n > 0 { use x[:n]; n, _ = r.Read(x) } ): a merged value
	// all of whose inputs are such counts
	if ph, ok := b.(*ssa.Phi); ok {
		all := len(ph.Edges) > 0
		for _, e := range ph.Edges {
			if okE, _ := boundOK(at, x, e); !okE {
				all = false
			}
		}
		if all {
			return true, ""
		}
	}
	// count returned by a read/copy into (a slice of) x
	if e, ok := b.(*ssa.Extract); ok && e.Index == 0 {
		if call, ok := e.Tuple.(*ssa.Call); ok {
			for _, a := range call.Call.Args {
				if a == x || sameValue(a, x) || allocOf(a) != nil && allocOf(a) == allocOf(x) {
					return true, ""
				}
			}
		}
	}
	if call, ok := b.(*ssa.Call); ok {
		if bi, ok := call.Call.Value.(*ssa.Builtin); ok {
			switch bi.Name() {
			case "copy":
				return true, ""
			case "len":
				// len(y) where y is a prefix/suffix slice of x, or x itself
				y := call.Call.Args[0]
				if y == x || sameValue(y, x) {
					return true, ""
				}
				for _, s := range core.Sources(y) {
					if s == core.StripConv(x) {
						return true, ""
					}
				}
				if sl, ok := core.StripConv(y).(*ssa.Slice); ok && (sl.X == x || sameValue(sl.X, x)) {
					return true, ""
				}
				// x = aead.Seal(dst, nonce, y, aad): by the cipher.AEAD contract len(x) >= len(y)
				for _, s := range core.Sources(x) {
					if sc, ok := s.(*ssa.Call); ok && core.IsInvoke(sc, "crypto/cipher.AEAD", "Seal") && (sc.Call.Args[2] == y || sameValue(sc.Call.Args[2], y)) {
						return true, ""
					}
				}
			case "min":
				for _, a := range call.Call.Args {
					if isLenOf(a, x) {
						return true, ""
					}
				}
			}
		}
	}
	// len(x) - k
	if bo, ok := b.(*ssa.BinOp); ok && bo.Op == token.SUB && isLenOf(bo.X, x) {
		if k, isK := core.ConstInt(bo.Y); isK {
			if core.Dominated(at, lenAtLeastFact(x, k)) {
				return true, ""
			}
			return false, fmt.Sprintf("bound len-%d without a dominating test len >= %d: a shorter input panics", k, k)
		}
	}
	// phi of guarded values (end = min(nn+chunk, max) idiom): every edge is len(x) or dominated comparison
	if ph, ok := b.(*ssa.Phi); ok {
		hasLen := false
		for _, e := range ph.Edges {
			if isLenOf(e, x) {
				hasLen = true
			}
		}
		if hasLen {
			return true, ""
		}
	}
	if core.Dominated(at, boundLeLenFact(bound, x)) {
		return true, ""
	}
	return false, "non-constant bound without a dominating comparison against the length"
}

// sliceSites checks every Slice instruction of f on []byte/string values; report is called for unguarded ones.
func unguardedSlices(f *ssa.Function) []struct {
	At  *ssa.Slice
	Why string
} {
	var out []struct {
		At  *ssa.Slice
		Why string
	}
	core.Instrs(f, func(i ssa.Instruction) {
		sl, ok := i.(*ssa.Slice)
		if !ok {
			return
		}
		// bounds: low <= high <= len
		if ok2, why := boundOK(sl, sl.X, sl.High); !ok2 {
			out = append(out, struct {
				At  *ssa.Slice
				Why string
			}{sl, "high: " + why})
			return
		}
		if sl.High == nil {
			if ok2, why := boundOK(sl, sl.X, sl.Low); !ok2 {
				out = append(out, struct {
					At  *ssa.Slice
					Why string
				}{sl, "low: " + why})
			}
		}
	})
	return out
}

func constantInt(k int64) constant.Value { return constant.MakeInt64(k) }

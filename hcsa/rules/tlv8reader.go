package rules

import (
	"fmt"
	"go/constant"
	"go/token"
	"go/types"

	"golang.org/x/tools/go/ssa"

	"hcsa/core"
)

// The struct decoder reads its input through a small reader object: a map from tag to the list of values ("buckets") still to be
// read, consumed front to back. The decoder's loops and width promotions rest on four facts about it, each a two- or three-line
// method whose inversion or hollowing-out the other rules did not notice (mutation sweep over tlv8/reader.go, DESIGN.md section 11):
//
//	eof()           is true exactly when nothing is left                      (list loops end, and only then)
//	len(tag)        is the length of the next value of the tag, 0 if none     (width promotion picks the right reader)
//	readBytes(tag)  hands out the first value and removes exactly that one    (lists advance; nothing is read twice)
//	readBool(tag)   is true for the byte 1 and false for 0
//
// They are decided by folding the method body over a few abstract inputs (core.Eval: the length of the map, of the list, of the
// first value are given as constants; the body's own comparisons and branches decide the path), so the check follows the method's
// logic and not its spelling.
func tlv8ReaderModel(c *core.Ctx) {
	p := c.P
	tReader := mod + "/tlv8.reader"
	kInt := func(n int64) constant.Value { return constant.MakeInt64(n) }
	isLenOf := func(v ssa.Value, what func(ssa.Value) bool) bool {
		call, ok := v.(*ssa.Call)
		if !ok {
			return false
		}
		b, ok := call.Call.Value.(*ssa.Builtin)
		return ok && b.Name() == "len" && what(call.Call.Args[0])
	}
	isMap := func(v ssa.Value) bool { _, ok := core.FieldLoad(v, tReader, "m"); return ok }
	nilTest := func(v ssa.Value, what func(ssa.Value) bool) (eq bool, ok bool) {
		b, isB := v.(*ssa.BinOp)
		if !isB || (b.Op != token.EQL && b.Op != token.NEQ) {
			return false, false
		}
		if core.IsNilConst(b.Y) && what(b.X) || core.IsNilConst(b.X) && what(b.Y) {
			return b.Op == token.EQL, true
		}
		return false, false
	}

	// eof
	eofFn := p.Func("tlv8", "(*reader).eof")
	if eofFn == nil {
		// eof(m) — a function of the map: every caller hands it the reader's map
		if g := p.Func("tlv8", "eof"); g != nil && len(g.Params) == 1 {
			if _, isMapT := g.Params[0].Type().Underlying().(*types.Map); isMapT {
				all, n := true, 0
				for _, e := range p.CallersOf(g) {
					n++
					if e.Site == nil || e.Site.Common().StaticCallee() != g || len(e.Site.Common().Args) != 1 {
						all = false
						continue
					}
					if _, ok := core.FieldLoad(e.Site.Common().Args[0], tReader, "m"); !ok {
						all = false
					}
				}
				if all && n > 0 {
					eofFn = g
					isMapRecv := isMap
					isMap = func(v ssa.Value) bool { return v == ssa.Value(g.Params[0]) || isMapRecv(v) }
				}
			}
		}
	}
	if f := eofFn; f != nil {
		good := true
		for _, n := range []int64{0, 1, 3} {
			r, ok := core.Eval(f, func(v ssa.Value) (constant.Value, bool) {
				if isLenOf(v, isMap) {
					return kInt(n), true
				}
				if eq, ok := nilTest(v, isMap); ok {
					return constant.MakeBool(eq == (n == 0)), true
				}
				return nil, false
			})
			if !ok || len(r.Values) != 1 || r.Values[0] == nil || r.Values[0].Kind() != constant.Bool || constant.BoolVal(r.Values[0]) != (n == 0) {
				good = false
			}
		}
		c.Check(good, "reader-eof@"+fname(f), f.Pos(), "eof() is true for an empty map and false otherwise", "eof() does not answer 'nothing left to read' (inverted, constant, or not a function of the map's size): list decoding stops after the first element, or never")
	} else {
		c.Undecided("reader-eof", token.NoPos, "(*reader).eof not found")
	}

	// the list looked up for the tag parameter
	listOf := func(f *ssa.Function) func(ssa.Value) bool {
		return func(v ssa.Value) bool {
			return core.SomeSource(v, func(s ssa.Value) bool {
				if e, ok := s.(*ssa.Extract); ok && e.Index == 0 {
					s = e.Tuple
				}
				lk, ok := s.(*ssa.Lookup)
				return ok && isMap(lk.X) && len(f.Params) > 1 && valIs(lk.Index, f.Params[1])
			})
		}
	}
	isFirst := func(isList func(ssa.Value) bool) func(ssa.Value) bool {
		return func(v ssa.Value) bool {
			u, ok := core.StripConv(v).(*ssa.UnOp)
			if !ok || u.Op != token.MUL {
				return false
			}
			ia, ok := u.X.(*ssa.IndexAddr)
			if !ok || !isList(ia.X) {
				return false
			}
			k, isK := core.ConstInt(ia.Index)
			return isK && k == 0
		}
	}

	// len(tag)
	if f := p.Func("tlv8", "(*reader).len"); f != nil {
		isList := listOf(f)
		first := isFirst(isList)
		good := true
		for _, tc := range []struct{ l, b, want int64 }{{0, 9, 0}, {1, 5, 5}, {2, 7, 7}, {1, 1, 1}} {
			r, ok := core.Eval(f, func(v ssa.Value) (constant.Value, bool) {
				if isLenOf(v, isList) {
					return kInt(tc.l), true
				}
				if isLenOf(v, first) {
					return kInt(tc.b), true
				}
				if eq, ok := nilTest(v, isList); ok {
					return constant.MakeBool(eq == (tc.l == 0)), true
				}
				if e, ok := v.(*ssa.Extract); ok && e.Index == 1 {
					if lk, ok := e.Tuple.(*ssa.Lookup); ok && isMap(lk.X) {
						return constant.MakeBool(tc.l > 0), true
					}
				}
				return nil, false
			})
			if !ok || len(r.Values) != 1 || r.Values[0] == nil || r.Values[0].Kind() != constant.Int {
				good = false
				continue
			}
			if got, _ := constant.Int64Val(r.Values[0]); got != tc.want {
				good = false
			}
		}
		c.Check(good, "reader-len@"+fname(f), f.Pos(), "len(tag) is the length of the first value of the tag, 0 if there is none", "len(tag) is not the length of the next value of the tag (constant, inverted presence test, wrong element): the width promotion of the integer readers picks a narrower or wider reader than the item has — values come back truncated, or a short item is indexed beyond its end")
	} else if inlineLenGuards(c) {
		// the question is asked where it is needed: every fixed-width reader compares the length of the first value of its tag (0 if
		// there is none) itself — decided per reader by the guarded-read obligations
		c.OK("reader-len@inline", token.NoPos, "no len(tag) method: the fixed-width readers test the length of the first value of their tag themselves")
	} else {
		c.Undecided("reader-len", token.NoPos, "(*reader).len not found")
	}

	// readBytes
	if f := p.Func("tlv8", "(*reader).readBytes"); f != nil {
		isList := listOf(f)
		first := isFirst(isList)
		run := func(l int64) (core.EvalResult, bool) {
			return core.Eval(f, func(v ssa.Value) (constant.Value, bool) {
				if isLenOf(v, isList) {
					return kInt(l), true
				}
				if eq, ok := nilTest(v, isList); ok {
					return constant.MakeBool(eq == (l == 0)), true
				}
				if e, ok := v.(*ssa.Extract); ok && e.Index == 1 {
					if lk, ok := e.Tuple.(*ssa.Lookup); ok && isMap(lk.X) {
						return constant.MakeBool(l > 0), true
					}
				}
				return nil, false
			})
		}
		// absent
		r0, ok0 := run(0)
		absent := ok0 && len(r0.Raw) == 2 && core.IsNilConst(r0.Raw[0]) && !core.IsNilConst(r0.Raw[1])
		c.Check(absent, "reader-readBytes/absent@"+fname(f), f.Pos(), "an absent tag is answered with (nil, error)", "readBytes does not answer (nil, error) for a tag that has no value left: the caller takes nil for a value, or an existing value is refused")
		// present: first value handed out, exactly that one removed
		removes := func(pa core.Path, l int64) (first, rest, deleted bool) {
			pa.Instrs(func(i ssa.Instruction) {
				if call, ok := i.(*ssa.Call); ok {
					if b, isB := call.Call.Value.(*ssa.Builtin); isB && b.Name() == "delete" && isMap(call.Call.Args[0]) && valIs(call.Call.Args[1], f.Params[1]) {
						deleted = true
					}
				}
				if mu, ok := i.(*ssa.MapUpdate); ok && isMap(mu.Map) && valIs(mu.Key, f.Params[1]) {
					// the stored list is the looked-up list from index 1 on
					from1 := false
					walkOperands(mu.Value, 6, func(v ssa.Value) {
						if sl, ok := v.(*ssa.Slice); ok && isList(sl.X) && sl.Low != nil {
							if k, isK := core.ConstInt(sl.Low); isK && k == 1 {
								from1 = true
							}
						}
					})
					if from1 {
						rest = true
					}
				}
			})
			return
		}
		for _, l := range []int64{1, 2, 3} {
			r, ok := run(l)
			key := fmt.Sprintf("reader-readBytes/present%d@%s", l, fname(f))
			if !ok || len(r.Raw) != 2 {
				c.Bad(key, f.Pos(), "readBytes with %d value(s) left does not come to a return that depends on the list length alone", l)
				continue
			}
			hands := first(r.Raw[0]) && core.IsNilConst(r.Raw[1])
			_, rest, deleted := removes(r.Path, l)
			consumed := (l == 1 && (deleted || rest)) || (l > 1 && rest && !deleted)
			c.Check(hands && consumed, key, f.Pos(), "the first value is handed out and exactly that one is removed",
				fmt.Sprintf("with %d value(s) left for the tag readBytes does not hand out the first one with a nil error, or does not remove exactly that one (hands out first: %v, rest kept: %v, entry deleted: %v): a list element is decoded twice or skipped, or eof() never becomes true", l, hands, rest, deleted))
		}
	} else {
		c.Undecided("reader-readBytes", token.NoPos, "(*reader).readBytes not found")
	}

	// readBool
	if f := p.Func("tlv8", "(*reader).readBool"); f != nil {
		good := true
		for _, b := range []int64{0, 1} {
			r, ok := core.Eval(f, func(v ssa.Value) (constant.Value, bool) {
				if e, ok := v.(*ssa.Extract); ok {
					if call, isC := e.Tuple.(*ssa.Call); isC && core.Callee(call) != nil && core.TypeIs(recvType(core.Callee(call)), tReader) {
						if e.Index == 0 {
							return kInt(b), true
						}
					}
				}
				if eq, ok := nilTest(v, func(x ssa.Value) bool {
					e, ok := x.(*ssa.Extract)
					return ok && e.Index == 1
				}); ok {
					return constant.MakeBool(eq), true // the read succeeded: err == nil
				}
				return nil, false
			})
			if !ok || len(r.Values) != 2 || r.Values[0] == nil || r.Values[0].Kind() != constant.Bool || constant.BoolVal(r.Values[0]) != (b == 1) {
				good = false
			}
		}
		c.Check(good, "reader-readBool@"+fname(f), f.Pos(), "the byte 1 is true, the byte 0 is false", "readBool does not decode 1 as true and 0 as false: every boolean field comes back inverted (the writer writes 1 for true)")
	}
}

// tlv8ReadLoop: the item loop of tlv8.read.
//
//	(a) the error of every stream read is tested (a forced or removed test turns a truncated item into zero bytes of data);
//	(b) what happens with an item depends on whether its tag was seen before, the right way round: the first value of a tag starts
//	    the list of that tag, a later one is appended to / merged into the list that was looked up — a merge on the "not seen" side
//	    indexes a nil list;
//	(c) the first value of a tag is stored at all.
func tlv8ReadLoop(c *core.Ctx) {
	rd := c.P.Func("tlv8", "read")
	if rd == nil {
		c.Undecided("tlv8.read", token.NoPos, "not found")
		return
	}
	// (a)
	n := 0
	core.Instrs(rd, func(i ssa.Instruction) {
		if _, _, ok := isStreamRead(i); !ok {
			return
		}
		n++
		call := i.(*ssa.Call)
		var errv ssa.Value = call
		if call.Type().String() != "error" {
			errv = nil
			for _, rr := range *call.Referrers() {
				if e, ok := rr.(*ssa.Extract); ok && e.Index == call.Call.Signature().Results().Len()-1 {
					errv = e
				}
			}
		}
		c.Check(errv != nil && nilTested(errv, 4), fmt.Sprintf("read-error-tested@%s#%d", fname(rd), n), call.Pos(), "the error of the stream read is tested against nil",
			"the error of a stream read in tlv8.read is never tested: a truncated item is taken for zero bytes (or for the end of the input) and Unmarshal answers with a value for bytes that are not a TLV8 encoding")
	})
	if n == 0 {
		c.Undecided("read-error-tested@"+fname(rd), rd.Pos(), "no stream read found in tlv8.read")
	}
	// (b), (c)
	var okv ssa.Value // the "seen before" result of the comma-ok lookup of the tag
	var list ssa.Value
	core.Instrs(rd, func(i ssa.Instruction) {
		if e, ok := i.(*ssa.Extract); ok {
			if lk, isL := e.Tuple.(*ssa.Lookup); isL && lk.CommaOk {
				if e.Index == 1 {
					okv = e
				} else {
					list = e
				}
			}
		}
	})
	if okv == nil || list == nil {
		c.Note("read-lookup@"+fname(rd), rd.Pos(), "tlv8.read does not use a comma-ok lookup of the tag: (b) and (c) are decided by the delimiter-flag rules only")
		return
	}
	seen := core.TrueFact(func(v ssa.Value) bool { return v == okv })
	unseen := core.FalseFact(func(v ssa.Value) bool { return v == okv })
	usesList := func(v ssa.Value) bool {
		found := false
		walkOperands(v, 8, func(x ssa.Value) {
			if x == list {
				found = true
			}
		})
		return found
	}
	good, firstStored, sites := true, false, 0
	core.Instrs(rd, func(i ssa.Instruction) {
		switch x := i.(type) {
		case *ssa.MapUpdate:
			sites++
			if usesList(x.Value) {
				if !core.Dominated(x, seen) {
					good = false
				}
			} else {
				if !core.Dominated(x, unseen) {
					good = false
				} else {
					firstStored = true
				}
			}
		case *ssa.Store:
			if ia, ok := x.Addr.(*ssa.IndexAddr); ok && usesList(ia.X) {
				sites++
				if !core.Dominated(x, seen) {
					good = false
				}
			}
		}
	})
	c.Check(good && sites > 0, "seen-before-polarity@"+fname(rd), okv.Pos(), "a value is appended to / merged into the list of its tag only where the tag was seen before, and starts a new list only where it was not",
		"the decision 'tag seen before' is the wrong way round in tlv8.read: the first value of a tag is merged into a nil list (index out of range for any input with one item), or every later value of a tag replaces what was stored")
	c.Check(firstStored, "first-value-stored@"+fname(rd), okv.Pos(), "the first value of a tag is stored", "the first value of a tag is never stored by tlv8.read: every field decodes as absent")
}

// nilTested: v (an error value) reaches an If through a comparison with nil, directly, through a phi or through a spilled variable.
func nilTested(v ssa.Value, depth int) bool {
	if depth == 0 || v == nil || v.Referrers() == nil {
		return false
	}
	for _, u := range *v.Referrers() {
		switch x := u.(type) {
		case *ssa.BinOp:
			if (x.Op == token.NEQ || x.Op == token.EQL) && (core.IsNilConst(x.X) || core.IsNilConst(x.Y)) {
				for _, uu := range *x.Referrers() {
					if _, isIf := uu.(*ssa.If); isIf {
						return true
					}
				}
			}
		case *ssa.Phi:
			if nilTested(x, depth-1) {
				return true
			}
		case *ssa.Store:
			if a, ok := x.Addr.(*ssa.Alloc); ok {
				for _, rr := range *a.Referrers() {
					if ld, ok := rr.(*ssa.UnOp); ok && ld.Op == token.MUL && nilTested(ld, depth-1) {
						return true
					}
				}
			}
		}
	}
	return false
}

// tlv8ReadFailureFatal: in an item parser (tlv8.read, util.NewTLV8ContainerFromReader) a failed stream read ends the call with an
// error — the one exception is end of input at an item boundary (io.EOF on the tag read), which ends it with what was parsed. A
// parser that reads on after a failure (an inverted test) files garbage, or hands back "nothing, no error".
func tlv8ReadFailureFatal(c *core.Ctx, f *ssa.Function) {
	if f == nil {
		return
	}
	nres := f.Signature.Results().Len()
	errOf := map[ssa.Value]ssa.Instruction{} // error value -> its stream read
	first := true
	var tagRead ssa.Instruction
	core.Instrs(f, func(i ssa.Instruction) {
		if _, _, ok := isStreamRead(i); !ok {
			return
		}
		if first {
			tagRead, first = i, false
		}
		call := i.(*ssa.Call)
		if call.Type().String() == "error" {
			errOf[call] = i
			return
		}
		for _, rr := range *call.Referrers() {
			if e, ok := rr.(*ssa.Extract); ok && e.Type().String() == "error" {
				errOf[e] = i
			}
		}
	})
	if len(errOf) == 0 {
		return
	}
	readOf := func(pa core.Path, k int, v ssa.Value) ssa.Instruction {
		v = pa.ResolveAt(k, v)
		for _, s := range core.Sources(v) {
			if r, ok := errOf[s]; ok {
				return r
			}
		}
		return nil
	}
	bad, total := 0, 0
	var w core.Path
	okEnum := core.EnumPaths(f, 2, 200000, func(pa core.Path) {
		total++
		failedAt := -1
		var failedRead ssa.Instruction
		eof := false
		for k := 0; k+1 < len(pa); k++ {
			b := pa[k]
			iff, ok := b.Instrs[len(b.Instrs)-1].(*ssa.If)
			if !ok {
				continue
			}
			bin, ok := iff.Cond.(*ssa.BinOp)
			if !ok {
				continue
			}
			tookTrue := pa[k+1] == b.Succs[0]
			if failedAt < 0 && (core.IsNilConst(bin.X) || core.IsNilConst(bin.Y)) {
				v := bin.X
				if core.IsNilConst(bin.X) {
					v = bin.Y
				}
				if r := readOf(pa, k, v); r != nil {
					if (bin.Op == token.NEQ && tookTrue) || (bin.Op == token.EQL && !tookTrue) {
						failedAt, failedRead = k, r
					}
				}
				continue
			}
			if failedAt >= 0 && failedRead == tagRead {
				for _, side := range []ssa.Value{bin.X, bin.Y} {
					if u, ok := side.(*ssa.UnOp); ok {
						if g, ok := u.X.(*ssa.Global); ok && g.Name() == "EOF" && g.Pkg != nil && g.Pkg.Pkg.Path() == "io" {
							if (bin.Op == token.EQL && tookTrue) || (bin.Op == token.NEQ && !tookTrue) {
								eof = true
							}
						}
					}
				}
			}
		}
		if failedAt < 0 {
			return
		}
		after := 0
		for m := failedAt + 1; m < len(pa); m++ {
			for _, i := range pa[m].Instrs {
				if _, _, ok := isStreamRead(i); ok {
					after++
				}
				if _, ok := i.(*ssa.MapUpdate); ok {
					after++
				}
			}
		}
		ret := pa.Returns()
		good := after == 0 && ret != nil
		if good && !eof {
			rv := res(ret)[nres-1]
			if !provablyNonNil(pa, pa.ResolveAt(len(pa)-1, rv)) && !provablyNonNil(pa, rv) {
				good = false
			}
		}
		if !good {
			if bad == 0 {
				w = pa
			}
			bad++
		}
	})
	if !okEnum {
		c.Undecided("read-failure-fatal@"+fname(f), f.Pos(), "too many paths")
		return
	}
	if bad > 0 {
		c.BadPath("read-failure-fatal@"+fname(f), f.Pos(), w.Describe(c.P), "after a failed stream read %d path(s) of %s read on, store an item, or return without a non-nil error (only end of input on the tag read may end the parse quietly): the test of a read error is the wrong way round or without consequence", bad, fname(f))
	} else {
		c.OK("read-failure-fatal@"+fname(f), f.Pos(), "on all %d paths a failed stream read ends the call with an error (end of input on the tag read: with what was parsed)", total)
	}
}

// tlv8ReaderResultsUsed: inside the tlv8 package every call of a reader method uses both what it returns: the value (a method that
// drops it answers with the zero value for every field) and the error (a method that drops it takes a missing item for a present one).
// A branch forced to one side leaves the other result without a use once dead code is removed — which is how this shows.
func tlv8ReaderResultsUsed(c *core.Ctx) {
	tReader := mod + "/tlv8.reader"
	n := 0
	for _, f := range libFuncs(c.P) {
		if pkgPathOf(f) != mod+"/tlv8" || f.Blocks == nil {
			continue
		}
		core.Instrs(f, func(i ssa.Instruction) {
			call, ok := i.(*ssa.Call)
			if !ok {
				return
			}
			g := call.Call.StaticCallee()
			if g == nil || !core.TypeIs(recvType(g), tReader) || g.Signature.Results().Len() != 2 {
				return
			}
			n++
			used := map[int]bool{}
			for _, rr := range *call.Referrers() {
				if e, ok := rr.(*ssa.Extract); ok && len(*e.Referrers()) > 0 {
					used[e.Index] = true
				}
			}
			c.Check(used[0] && used[1], "reader-results-used@"+fname(f)+"/"+g.Name(), call.Pos(), "value and error of the reader call are both used",
				fmt.Sprintf("a call of reader.%s in %s does not use %s: the decoded value is dropped (every such field comes back as zero) or a missing item goes unnoticed", g.Name(), fname(f), map[bool]string{true: "its error", false: "the value it read"}[used[0]]))
		})
	}
	if n == 0 {
		c.Undecided("reader-results-used", token.NoPos, "no call of a reader method found in the tlv8 package")
	}
}

// tlv8MergeOnlyPreviousItem: a long value is split into consecutive items of one tag, so an item continues a value only if the item
// directly before it has the same tag. Merging every repeated tag (unless a list delimiter came in between) glues the second field
// of every later element of an inline list of structs — [a b] 00 00 [a b] — onto the first element's: the list comes back with the
// fields of the later elements missing. The merge therefore lies behind "tag == tag of the previous item", where the previous tag
// is a variable carried around the item loop.
func tlv8MergeOnlyPreviousItem(c *core.Ctx) {
	rd := c.P.Func("tlv8", "read")
	if rd == nil {
		return
	}
	// the tag variable: target of the first stream read
	var tagCell ssa.Value
	core.Instrs(rd, func(i ssa.Instruction) {
		if tagCell != nil {
			return
		}
		if t, _, ok := isStreamRead(i); ok {
			tagCell = core.StripConv(t)
			if mi, isMI := tagCell.(*ssa.MakeInterface); isMI {
				tagCell = mi.X
			}
		}
	})
	if tagCell == nil {
		c.Undecided("merge-only-previous-item@"+fname(rd), rd.Pos(), "tag read not found")
		return
	}
	isTagLoad := func(v ssa.Value) bool {
		u, ok := core.StripConv(v).(*ssa.UnOp)
		return ok && u.Op == token.MUL && u.X == tagCell
	}
	// the previous tag: a loop-carried variable one of whose incoming values is a load of the tag variable — or, where the
	// dominance query has replaced that variable by the value it has on the edge taken, one of those incoming values itself
	prevVals := map[ssa.Value]bool{}
	prevInit := map[int64]bool{}
	core.Instrs(rd, func(i ssa.Instruction) {
		if ph, ok := i.(*ssa.Phi); ok {
			carried := false
			for _, e := range ph.Edges {
				if isTagLoad(e) {
					carried = true
				}
			}
			if carried {
				prevVals[ph] = true
				for _, e := range ph.Edges {
					if k, isK := e.(*ssa.Const); isK {
						if v, ok := core.ConstInt(k); ok {
							prevInit[v] = true // the value before the first item
						}
						continue
					}
					prevVals[e] = true
				}
			}
		}
	})
	isPrevTag := func(v ssa.Value) bool {
		if prevVals[core.StripConv(v)] {
			return true
		}
		if k, isK := core.StripConv(v).(*ssa.Const); isK {
			if n, ok := core.ConstInt(k); ok && prevInit[n] {
				return true
			}
		}
		ph, ok := core.StripConv(v).(*ssa.Phi)
		if !ok {
			return false
		}
		carried := false
		for _, e := range ph.Edges {
			if isTagLoad(e) {
				carried = true
			}
		}
		return carried
	}
	sameAsPrev := core.CmpFact(func(x, y ssa.Value) (bool, bool) {
		if (isTagLoad(x) && isPrevTag(y)) || (isTagLoad(y) && isPrevTag(x)) {
			return true, false
		}
		return false, false
	})
	n, good := 0, true
	core.Instrs(rd, func(i ssa.Instruction) {
		st, ok := i.(*ssa.Store)
		if !ok {
			return
		}
		ia, ok := st.Addr.(*ssa.IndexAddr)
		if !ok {
			return
		}
		sl, ok := ia.X.Type().Underlying().(*types.Slice)
		if !ok {
			return
		}
		if _, inner := sl.Elem().Underlying().(*types.Slice); !inner {
			return
		}
		if call, isC := st.Val.(*ssa.Call); isC {
			if b, isB := call.Call.Value.(*ssa.Builtin); isB && b.Name() == "append" {
				n++
				if !core.Dominated(st, sameAsPrev) {
					good = false
				}
			}
		}
	})
	if n == 0 {
		c.Note("merge-only-previous-item@"+fname(rd), rd.Pos(), "no in-place merge of a continuation fragment in tlv8.read")
		return
	}
	c.Check(good, "merge-only-previous-item@"+fname(rd), rd.Pos(), "a fragment is merged only where its tag equals the tag of the item before it",
		"an item is merged into the last value of its tag whenever the tag was seen before and no list delimiter came directly before it — whatever other items lie in between: in an inline list of structs with two or more fields the fields of every element after the first are glued onto the first element's value and the later elements come back without them")
}

// firstValueLenOrZero: v is "the length of the first value left for tag, 0 if there is none" written out — a merge of the constant 0
// and len(r.m[tag][0]) (the form a helper  firstLen(r.m[tag])  has after inlining).
func firstValueLenOrZero(v ssa.Value, tag ssa.Value) bool {
	ph, ok := core.StripConv(v).(*ssa.Phi)
	if !ok {
		return false
	}
	tReader := mod + "/tlv8.reader"
	isList := func(x ssa.Value) bool {
		return core.AllSources(x, func(s ssa.Value) bool {
			if e, ok := s.(*ssa.Extract); ok && e.Index == 0 {
				s = e.Tuple
			}
			lk, ok := s.(*ssa.Lookup)
			if !ok || !valIs(lk.Index, tag) {
				return false
			}
			_, isM := core.FieldLoad(lk.X, tReader, "m")
			return isM
		})
	}
	lens, zeros := 0, 0
	for _, e := range ph.Edges {
		if k, isK := core.ConstInt(e); isK && k == 0 {
			zeros++
			continue
		}
		call, ok := e.(*ssa.Call)
		if !ok {
			return false
		}
		bi, ok := call.Call.Value.(*ssa.Builtin)
		if !ok || bi.Name() != "len" {
			return false
		}
		u, ok := core.StripConv(call.Call.Args[0]).(*ssa.UnOp)
		if !ok || u.Op != token.MUL {
			return false
		}
		ia, ok := u.X.(*ssa.IndexAddr)
		if !ok || !isList(ia.X) {
			return false
		}
		if k, isK := core.ConstInt(ia.Index); !isK || k != 0 {
			return false
		}
		lens++
	}
	return lens > 0 && zeros > 0
}

// inlineLenGuards: every fixed-width reader has a comparison of firstValueLenOrZero with a constant.
func inlineLenGuards(c *core.Ctx) bool {
	for _, name := range []string{"readUint16", "readUint32", "readUint64", "readint16", "readint32", "readint64"} {
		f := c.P.Func("tlv8", "(*reader)."+name)
		if f == nil || len(f.Params) < 2 {
			return false
		}
		found := false
		core.Instrs(f, func(i ssa.Instruction) {
			if bo, ok := i.(*ssa.BinOp); ok {
				if _, isK := core.ConstInt(bo.Y); isK && firstValueLenOrZero(bo.X, f.Params[1]) {
					found = true
				}
			}
		})
		if !found {
			return false
		}
	}
	return true
}

package rules

import (
	"fmt"
	"go/token"
	"go/types"
	"os"
	"sort"
	"strings"

	"golang.org/x/tools/go/ssa"

	"hcsa/core"
)

func init() {
	register(&core.Property{
		ID:    "C13",
		Level: "other",
		Explanation: "Reachability plus taint. Entry points are the ServeHTTP functions of every route registered on an http.ServeMux (with the wrappers' closures) and (*hap.Connection).Read/Write/Close; the module functions " +
			"reachable from them in the VTA call graph are analysed with a forward taint (sources: the *http.Request of a handler and the raw socket of a Connection; propagation through SSA values, out-parameters of " +
			"reads, fields (field-sensitive, object-insensitive), call arguments and results; results of library callees depend on all arguments except for a one-symbol table of infallible results). " +
			"Violations: an explicit panic (panic, log Panic*/Fatal*, os.Exit) that is control-dependent on a tainted condition, in the function or in a caller; a slice or index expression on tainted bytes whose bound " +
			"is not proved by a dominating length test (or a listed construction invariant); a single-value type assertion on a value decoded from the request; a mutex that is locked on a handler path and can reach " +
			"a return or be locked again without having been unlocked; a wrong-state start request that does not reset the controller.",
		Assumptions: []string{"standard-library and third-party callees do not panic on well-typed arguments (ed25519.Verify / Sign are guarded by their wrappers, C04-R3)", "net/http answers 200 when a handler returns without writing"},
		NotDecided:  []string{"nil dereferences in general", "resource exhaustion", "panics inside callees outside the module"},
		NeedsCG:     true,
		Rules: []core.Rule{
			{ID: "C13-R1", Title: "no explicit panic controlled by peer input; the controllers' session field is never nil", Decides: "no bytes a peer can send make a handler panic", Floor: 3, Run: func(c *core.Ctx) { c13r1(c); controllerSessionNeverNil(c) }},
			{ID: "C13-R2", Title: "slice and index bounds on peer bytes are proved; constant indices into map-held slices are guarded", Decides: "truncated / short items do not panic", Floor: 4, Run: func(c *core.Ctx) {
				c13r2(c)
				constIndexOfMapSliceGuarded(c, "tlv8", "util")
				inputIndexGuarded(c, "tlv8", "util", "hap/pair", "hap/endpoint", "hap", "crypto", "crypto/chacha20poly1305", "crypto/hkdf", "crypto/curve25519")
			}},
			{ID: "C13-R3", Title: "no single-value type assertion on decoded request values", Decides: "arbitrary JSON (wrong types) does not panic", Floor: 2, Run: c13r3},
			{ID: "C13-R4", Title: "no lock leaked on a handler path", Decides: "the accessory is not wedged", Floor: 2, Run: func(c *core.Ctx) { c13r4(c); noResponseWriteUnderServerMutex(c) }},
			{ID: "C13-R5", Title: "a wrong-state start request resets the controller", Decides: "after at most one rejected start request a correct handshake succeeds on the same connection", Floor: 2, Run: func(c *core.Ctx) {
				c13r5(c)
				endpointPlumbingPolarity(c)
				polarityEverywhere(c, "C13")
				handlerErrorStatusPolarity(c, "C13")
			}},
			{ID: "C13-R6", Title: "handlers keep no state that outlives the connection", Decides: "an abandoned exchange does not wedge later connections", Floor: 1, Run: c13r6},
		},
	})
}

type remoteModel struct {
	entries []*ssa.Function
	reach   map[*ssa.Function]bool
	taint   *taintState
}

var remoteMemo = map[*core.Program]*remoteModel{}

func remote(p *core.Program) *remoteModel {
	if m, ok := remoteMemo[p]; ok {
		return m
	}
	m := &remoteModel{}
	seen := map[*ssa.Function]bool{}
	add := func(f *ssa.Function) {
		if f != nil && !seen[f] {
			seen[f] = true
			m.entries = append(m.entries, f)
		}
	}
	for _, r := range routes(p) {
		fns, w := handlerFuncs(p, r.Handler)
		for _, f := range fns {
			add(f)
		}
		if w != nil {
			for _, cl := range returnedClosures(w.Call.StaticCallee()) {
				add(cl)
			}
			for _, a := range w.Call.Args {
				f2, _ := handlerFuncs(p, a)
				for _, f := range f2 {
					add(f)
				}
			}
		}
	}
	for _, n := range []string{"Read", "Write", "Close"} {
		add(p.Func("hap", "(*Connection)."+n))
	}
	m.reach = p.ReachableFuncs(m.entries...)
	for f := range m.reach {
		if isTestFunc(p, f) || !core.IsLibraryPkg(pkgPathOf(f)) {
			delete(m.reach, f)
		}
	}
	m.taint = newTaint(p, m.reach)
	m.taint.run(func(t *taintState) {
		for _, e := range m.entries {
			if pr := paramOfType(e, "net/http.Request"); pr != nil {
				t.mark(pr)
			}
		}
		if !t.field[mod+"/hap.Connection.connection"] {
			t.field[mod+"/hap.Connection.connection"] = true
			t.changed = true
		}
	})
	remoteMemo[p] = m
	return m
}

func c13r1(c *core.Ctx) {
	p := c.P
	stdlibPanicsGuarded(c)
	cryptographerFieldsLocked(c)
	m := remote(p)
	c.Count("entry_points", len(m.entries))
	c.Count("functions_reachable", len(m.reach))
	c.Count("taint_rounds", m.taint.rounds)
	nt := 0
	for v := range m.taint.val {
		_ = v
		nt++
	}
	c.Count("tainted_values", nt)
	sites, internal := 0, 0
	for _, f := range core.SortedFuncs(m.reach) {
		core.Instrs(f, func(i ssa.Instruction) {
			isP, what := isPanicCall(i)
			if !isP {
				return
			}
			sites++
			key := fmt.Sprintf("panic:%s@%s", what, fname(f))
			tainted, why := controlledByTaint(m, i, 2)
			if tainted {
				c.Bad(key, posOf(i), "a %s call reachable from a remote entry point is control-dependent on peer input (%s): one crafted message takes the handler down", what, why)
				return
			}
			internal++
			c.OK(key, posOf(i), "internal-fault panic: not control-dependent on peer input")
		})
	}
	c.Count("panic_sites_reachable", sites)
	parsedContainerUse(c, m.reach)
	closeRemovesOwnSession(c)
	if dbg := os.Getenv("HCSA_DEBUG"); dbg != "" {
		for _, f := range core.SortedFuncs(m.reach) {
			if !strings.Contains(fname(f), dbg) {
				continue
			}
			fmt.Println("REACH", fname(f))
			for _, pr := range f.Params {
				fmt.Println("   param", pr.Name(), m.taint.is(pr))
			}
			core.Instrs(f, func(i ssa.Instruction) {
				if v, ok := i.(ssa.Value); ok && m.taint.is(v) {
					fmt.Println("   tainted", v.Name(), i.String())
				}
			})
			fmt.Println("   ret", m.taint.ret[f])
		}
	}
	if sites == 0 {
		c.OK("no-panic-sites", token.NoPos, "no explicit panic site is reachable from a remote entry point")
	}
}

// controlledByTaint: instruction i is control-dependent on a tainted condition in its function, or its function is
// (transitively, depth-bounded) called at a site that is.
func controlledByTaint(m *remoteModel, i ssa.Instruction, depth int) (bool, string) {
	// the innermost controlling conditions decide: a panic behind a test that only an internal fault can satisfy
	// (e.g. the error of an infallible derivation) is not peer-triggerable even if outer tests are peer-controlled.
	deps := controlDeps(i.Block())
	for _, iff := range deps {
		inner := true
		for _, other := range deps {
			if other == iff {
				continue
			}
			// is `other` strictly between iff and the site? (site reachable from iff only through other's block)
			for idx := range iff.Block().Succs {
				r := core.Reach(iff.Block().Succs[idx], nil, func(y *ssa.BasicBlock) bool { return y == other.Block() || y == iff.Block() })
				rAll := core.Reach(iff.Block().Succs[idx], nil, func(y *ssa.BasicBlock) bool { return y == iff.Block() })
				if rAll[i.Block()] && !r[i.Block()] {
					inner = false
				}
			}
		}
		if !inner {
			continue
		}
		if m.taint.is(iff.Cond) {
			return true, "condition at " + m.taint.p.Position(condPosOf(iff))
		}
		if b, ok := iff.Cond.(*ssa.BinOp); ok && (m.taint.is(b.X) || m.taint.is(b.Y)) {
			return true, "condition at " + m.taint.p.Position(condPosOf(iff))
		}
	}
	if len(deps) > 0 {
		// the site has controlling conditions in its own function and the innermost are not peer-controlled:
		// reaching it needs an internal fault, whatever the callers' conditions are
		return false, ""
	}
	if depth == 0 {
		return false, ""
	}
	f := i.Parent()
	for _, e := range m.taint.p.CallersOf(f) {
		if e.Site == nil || !m.reach[e.Caller.Func] {
			continue
		}
		if ok, why := controlledByTaint(m, e.Site, depth-1); ok {
			return true, "via caller " + fname(e.Caller.Func) + ", " + why
		}
	}
	return false, ""
}

func condPosOf(i *ssa.If) token.Pos {
	if i.Cond.Pos().IsValid() {
		return i.Cond.Pos()
	}
	for k := len(i.Block().Instrs) - 1; k >= 0; k-- {
		if p := i.Block().Instrs[k].Pos(); p.IsValid() {
			return p
		}
	}
	return token.NoPos
}

// construction invariants that justify an index without a local guard (one symbol each, with the obligation that proves it)
var indexInvariants = map[string]string{
	"(*" + mod + "/tlv8.reader).readByte": "buckets are non-empty by construction (C17-R3 buckets-non-empty); readBytes fails for an absent tag",
}

func c13r2(c *core.Ctx) {
	p := c.P
	m := remote(p)
	n, bad := 0, 0
	for _, f := range core.SortedFuncs(m.reach) {
		core.Instrs(f, func(i ssa.Instruction) {
			switch x := i.(type) {
			case *ssa.Slice:
				if !m.taint.is(x.X) && !(baseAlloc(x.X) != nil && m.taint.alloc[baseAlloc(x.X)]) {
					return
				}
				if !isBytesOrString(x.X.Type()) {
					return
				}
				if x.High == nil && x.Low == nil {
					return
				}
				n++
				okH, whyH := boundOK(x, x.X, x.High)
				okL, whyL := true, ""
				if x.High == nil {
					okL, whyL = boundOK(x, x.X, x.Low)
				}
				if !okH || !okL {
					bad++
					c.Bad("slice-bound@"+fname(f), x.Pos(), "slice expression on peer-controlled bytes with an unproved bound (%s%s): a short input panics the handler", whyH, whyL)
				}
			case *ssa.IndexAddr:
				if !m.taint.is(x.X) || !isBytesOrString(x.X.Type()) && !isSliceOfString(x.X.Type()) {
					return
				}
				if _, known := knownLen(x.X); known {
					return
				}
				n++
				if _, ok := indexInvariants[core.QualName(f)]; ok {
					return
				}
				k, isK := core.ConstInt(x.Index)
				if isK {
					if ok, _ := boundOK(x, x.X, constPlusOne(x, k)); ok {
						return
					}
					// strings.Split always yields at least one element
					if k == 0 && core.AnySource(x.X, func(s ssa.Value) bool { call, ok := s.(*ssa.Call); return ok && core.IsCall(call, "strings.Split") }) {
						return
					}
				} else if rangeIndex(x.Index) {
					return
				}
				bad++
				c.Bad("index@"+fname(f), x.Pos(), "index expression on peer-controlled data without a dominating length test")
			}
		})
	}
	c.Count("tainted_slice_and_index_sites", n)
	if bad == 0 {
		c.OK("bounds-proved", token.NoPos, "%d slice/index expressions on peer-controlled data, each with a proved bound", n)
		for k, v := range indexInvariants {
			c.OK("invariant:"+core.Rel(k), token.NoPos, "%s", v)
		}
	}
	// the two AEAD payload splits must exist and be guarded (anchors of the original defect)
	for _, fn := range []string{"(*SetupServerController).handleKeyExchange", "(*VerifyServerController).handlePairVerifyFinish"} {
		f := p.Func("hap/pair", fn)
		if f == nil {
			c.Undecided("aead-split@"+fn, token.NoPos, "not found")
			continue
		}
		var splits []*ssa.Slice
		core.Instrs(f, func(i ssa.Instruction) {
			if sl, ok := i.(*ssa.Slice); ok && isBytesOrString(sl.X.Type()) && (sl.High != nil || sl.Low != nil) {
				if _, _, tag, ok := tlvRead(sl.X); ok && tag == 5 {
					splits = append(splits, sl)
				}
			}
		})
		okAll := len(splits) > 0
		for _, sl := range splits {
			if ok, _ := boundOK(sl, sl.X, sl.High); !ok {
				okAll = false
			}
			if sl.High == nil {
				if ok, _ := boundOK(sl, sl.X, sl.Low); !ok {
					okAll = false
				}
			}
		}
		c.Check(okAll, "aead-split-guarded@"+fname(f), f.Pos(), fmt.Sprintf("%d split(s) of the encrypted data into message and tag, each guarded by a length test", len(splits)),
			"the encrypted data is split into message and 16-byte tag without a dominating length test: fewer than 16 bytes panic (slice bounds out of range)")
	}
}

func isBytesOrString(t types.Type) bool {
	switch u := t.Underlying().(type) {
	case *types.Slice:
		b, ok := u.Elem().Underlying().(*types.Basic)
		return ok && b.Kind() == types.Uint8
	case *types.Basic:
		return u.Info()&types.IsString != 0
	case *types.Pointer:
		if a, ok := u.Elem().Underlying().(*types.Array); ok {
			b, ok := a.Elem().Underlying().(*types.Basic)
			return ok && b.Kind() == types.Uint8
		}
	}
	return false
}

func isSliceOfString(t types.Type) bool {
	if s, ok := t.Underlying().(*types.Slice); ok {
		b, ok := s.Elem().Underlying().(*types.Basic)
		return ok && b.Info()&types.IsString != 0
	}
	return false
}

// rangeIndex: the index is the induction variable of a range/for loop bounded by len (phi +1 pattern).
func rangeIndex(v ssa.Value) bool {
	if b, ok := v.(*ssa.BinOp); ok && b.Op == token.ADD {
		if _, isPhi := b.X.(*ssa.Phi); isPhi {
			if k, ok := core.ConstInt(b.Y); ok && k == 1 {
				return true
			}
		}
	}
	_, isPhi := v.(*ssa.Phi)
	return isPhi
}

func c13r3(c *core.Ctx) {
	p := c.P
	m := remote(p)
	n, bad := 0, 0
	for _, f := range core.SortedFuncs(m.reach) {
		pp := pkgPathOf(f)
		core.Instrs(f, func(i ssa.Instruction) {
			ta, ok := i.(*ssa.TypeAssert)
			if !ok || ta.CommaOk {
				return
			}
			if _, toIface := ta.AssertedType.Underlying().(*types.Interface); toIface {
				// interface-to-interface assertions on context-store values: not peer values
				if !m.taint.is(ta.X) {
					return
				}
			}
			if !m.taint.is(ta.X) {
				return
			}
			n++
			key := "type-assert@" + fname(f)
			switch {
			case pp == mod+"/characteristic":
				// justified when the operand is the result of convert/clamp (C12-R1/R3 prove the type)
				okSrc := core.AllSources(ta.X, func(s ssa.Value) bool {
					if call, isC := s.(*ssa.Call); isC {
						if g := core.Callee(call); g != nil && (cn(g) == "convert" || strings.HasPrefix(cn(g), "clamp") || cn(g) == "getValue" || cn(g) == "GetValue") {
							return true
						}
					}
					if pr, isP := s.(*ssa.Parameter); isP {
						// callback adapters receive the converted value (C12-R3 adapter obligations)
						return pr.Parent().Parent() != nil || cn(pr.Parent()) == "updateValue"
					}
					if _, isLoad := core.FieldLoad(s, tChar, "Value"); isLoad {
						return true
					}
					if _, isLoad := core.FieldLoad(s, tChar, "MinValue"); isLoad {
						return true
					}
					if _, isLoad := core.FieldLoad(s, tChar, "MaxValue"); isLoad {
						return true
					}
					if _, isLoad := core.FieldLoad(s, tChar, "StepValue"); isLoad {
						return true
					}
					return false
				})
				if okSrc {
					return
				}
				bad++
				c.Bad(key, ta.Pos(), "single-value type assertion on a peer value that did not pass through convert: a JSON value of another type panics")
			default:
				// is the asserted value decoded from the request (a field of a request struct / a decoded map)?
				fromReq := core.AnySource(ta.X, func(s ssa.Value) bool {
					if u, ok := s.(*ssa.UnOp); ok {
						if fa, ok := u.X.(*ssa.FieldAddr); ok {
							n := core.FieldName(fa)
							return strings.Contains(n, "Request.") || strings.Contains(n, "hap/data.")
						}
					}
					if _, ok := s.(*ssa.Lookup); ok {
						return true
					}
					return false
				})
				if !fromReq {
					return // e.g. the session object stored in the context under the connection key
				}
				bad++
				c.Bad(key, ta.Pos(), "single-value type assertion on a value decoded from the request: JSON of another type panics the handler")
			}
		})
	}
	c.Count("tainted_type_assertions", n)
	if bad == 0 {
		c.OK("type-assertions", token.NoPos, "%d type assertions on peer-derived values: all comma-ok, or on values whose type convert establishes (C12)", n)
	}
	// comma-ok on the 'ev' member (anchor)
	if f := p.Func("hap/http", "(*Server).Characteristics"); f != nil {
		ok := true
		k := 0
		core.Instrs(f, func(i ssa.Instruction) {
			if ta, isTA := i.(*ssa.TypeAssert); isTA {
				if _, isEv := core.FieldLoad(ta.X, tCharReq, "Events"); isEv {
					k++
					if !ta.CommaOk {
						ok = false
					}
				}
			}
		})
		c.Check(ok, "ev-member-comma-ok", f.Pos(), fmt.Sprintf("%d assertion(s) on the 'ev' member, all comma-ok", k), "the 'ev' member is asserted without comma-ok")
	}
}

func c13r4(c *core.Ctx) {
	eofDoesNotCloseSocket(c)
	p := c.P
	m := remote(p)
	n := 0
	var names []string
	for _, f := range core.SortedFuncs(m.reach) {
		var locks, unlocks, deferred []ssa.Instruction
		core.Instrs(f, func(i ssa.Instruction) {
			if _, isDefer := i.(*ssa.Defer); isDefer {
				if core.IsCall(i, "(*sync.Mutex).Unlock") || core.IsCall(i, "(*sync.RWMutex).Unlock") || core.IsCall(i, "(*sync.RWMutex).RUnlock") {
					deferred = append(deferred, i)
				}
				return
			}
			switch {
			case core.IsCall(i, "(*sync.Mutex).Lock"), core.IsCall(i, "(*sync.RWMutex).Lock"), core.IsCall(i, "(*sync.RWMutex).RLock"):
				locks = append(locks, i)
			case core.IsCall(i, "(*sync.Mutex).Unlock"), core.IsCall(i, "(*sync.RWMutex).Unlock"), core.IsCall(i, "(*sync.RWMutex).RUnlock"):
				unlocks = append(unlocks, i)
			}
		})
		// an Unlock (also a deferred one) needs the Lock before it: unlocking an unlocked mutex is a fatal error that no recover catches
		for _, u := range append(append([]ssa.Instruction{}, unlocks...), deferred...) {
			mu := core.CallOf(u).Args[0]
			held := false
			for _, l := range locks {
				if mutexKey(core.CallOf(l).Args[0]) == mutexKey(mu) && (instrDominates(l, u) || (l.Block() == u.Block() && func() bool {
					for _, x := range l.Block().Instrs {
						if x == l {
							return true
						}
						if x == u {
							return false
						}
					}
					return false
				}())) {
					held = true
				}
			}
			c.Check(held, "unlock-after-lock@"+fname(f)+":"+mutexKey(mu), posOf(u), "the mutex is locked on every path to this Unlock", "an Unlock (or deferred Unlock) is reachable without the Lock before it: 'sync: unlock of unlocked mutex' is fatal and takes the whole accessory down on the first request that gets here")
		}
		for _, l := range locks {
			n++
			mu := core.CallOf(l).Args[0]
			same := func(x ssa.Instruction) bool { return mutexKey(core.CallOf(x).Args[0]) == mutexKey(mu) }
			hasDefer := false
			for _, d := range deferred {
				if same(d) && instrDominates(l, d) || same(d) && d.Block() == l.Block() {
					hasDefer = true
				}
			}
			leak, relock := lockLeaks(l, unlocks, locks, same, hasDefer)
			key := "lock@" + fname(f) + ":" + mutexKey(mu)
			switch {
			case relock:
				c.Bad(key, posOf(l), "the mutex can be locked again (next loop iteration or a later Lock) on a path that has not unlocked it: the handler deadlocks and every later request that needs the mutex hangs")
			case leak:
				c.Bad(key, posOf(l), "a return is reachable with the mutex still locked (no Unlock on that path, no deferred Unlock): every later request that needs the mutex hangs")
			default:
				names = append(names, fname(f))
				c.OK(key, posOf(l), "released on every path (explicit Unlock before every return and re-lock, or deferred Unlock)")
			}
		}
	}
	c.Count("lock_sites_on_handler_paths", n)
	sort.Strings(names)
	if len(names) > 0 {
		c.OK("locks-released", token.NoPos, "%d lock site(s) in functions reachable from remote entry points are released on every path: %s", len(names), strings.Join(uniqStr(names), ", "))
	}
	if n == 0 {
		c.Undecided("lock-sites", token.NoPos, "no lock site reachable from the remote entry points (expected at least the accessories handler and the session/context mutexes)")
	}
}

func uniqStr(s []string) []string {
	var out []string
	for i, x := range s {
		if i == 0 || s[i-1] != x {
			out = append(out, x)
		}
	}
	return out
}

func mutexKey(v ssa.Value) string {
	v = core.StripConv(v)
	if u, ok := v.(*ssa.UnOp); ok {
		if fa, ok := u.X.(*ssa.FieldAddr); ok {
			return core.FieldName(fa)
		}
	}
	if fa, ok := v.(*ssa.FieldAddr); ok {
		return core.FieldName(fa)
	}
	return v.Name()
}

// lockLeaks explores forward from the lock l: leak = a Return reached without Unlock (and no deferred unlock);
// relock = a Lock of the same mutex reached without Unlock.
func lockLeaks(l ssa.Instruction, unlocks, locks []ssa.Instruction, same func(ssa.Instruction) bool, hasDefer bool) (leak, relock bool) {
	isUnlock := map[ssa.Instruction]bool{}
	for _, u := range unlocks {
		if same(u) {
			isUnlock[u] = true
		}
	}
	isLock := map[ssa.Instruction]bool{}
	for _, x := range locks {
		if same(x) {
			isLock[x] = true
		}
	}
	type pos struct {
		b *ssa.BasicBlock
		k int
	}
	seen := map[*ssa.BasicBlock]bool{}
	var walk func(b *ssa.BasicBlock, from int)
	walk = func(b *ssa.BasicBlock, from int) {
		for k := from; k < len(b.Instrs); k++ {
			i := b.Instrs[k]
			if isUnlock[i] {
				return
			}
			if isLock[i] {
				relock = true
				return
			}
			if _, ok := i.(*ssa.Return); ok {
				if !hasDefer {
					leak = true
				}
				return
			}
		}
		for _, s := range b.Succs {
			if seen[s] {
				continue
			}
			seen[s] = true
			walk(s, 0)
		}
	}
	start := -1
	for k, i := range l.Block().Instrs {
		if i == l {
			start = k
		}
	}
	walk(l.Block(), start+1)
	return
}

func c13r5(c *core.Ctx) {
	handlerErrorHandling(c)
	p := c.P
	for _, spec := range []struct{ ctrl, typ string }{{"SetupServerController", tSetupCtrl}, {"VerifyServerController", tVerifyCtrl}} {
		mo := buildStepModel(p, "hap/pair", spec.ctrl, spec.typ)
		if mo == nil {
			c.Undecided(spec.ctrl+".Handle", token.NoPos, "not found")
			continue
		}
		rsVal, _, rsOK := resetState(p, spec.ctrl, spec.typ)
		if !rsOK {
			c.Undecided(spec.ctrl+".reset", token.NoPos, "reset does not store one constant")
			continue
		}
		rs := struct{ val int64 }{rsVal}
		// the start handler: the one dispatched under the reset constant
		var start *ssa.Function
		for _, h := range mo.handlers {
			if mo.guardOK[h] && mo.guard[h] == rs.val {
				start = h
			}
		}
		if start == nil {
			c.Bad("start-handler:"+spec.ctrl, mo.handle.Pos(), "no step handler is dispatched under the reset state: a start request is never accepted")
			continue
		}
		// paths of Handle that enter the start case but do not call the start handler must end with step == reset constant
		// the start case is identified by the If that dominates the start call (its sibling edge is the wrong-state branch)
		site := mo.site[start]
		bad, n := 0, 0
		var w core.Path
		// the sequence test "seq == StartRequest": the closest dominating If comparing a TLV-read byte with a constant
		var seqIf *ssa.If
		var seqTrue int
		for _, b := range mo.handle.Blocks {
			iff, ok := b.Instrs[len(b.Instrs)-1].(*ssa.If)
			if !ok {
				continue
			}
			bin, ok := iff.Cond.(*ssa.BinOp)
			if !ok || bin.Op != token.EQL {
				continue
			}
			if _, _, tag, ok := tlvRead(bin.X); !(ok && tag == 6) {
				if _, _, tag2, ok2 := tlvRead(bin.Y); !(ok2 && tag2 == 6) {
					continue
				}
			}
			// does its true edge dominate the start site?
			blk := b
			if !core.ReachableFromEntry(site, func(from *ssa.BasicBlock, idx int) bool { return from == blk && idx == 0 }) {
				seqIf, seqTrue = iff, 0
			}
		}
		if seqIf == nil {
			c.Undecided("start-case:"+spec.ctrl, mo.handle.Pos(), "the dispatch test for the start request was not recognised")
			continue
		}
		core.EnumPaths(mo.handle, 2, 20000, func(pa core.Path) {
			if !pa.TookEdge(seqIf.Block(), seqTrue) {
				return
			}
			called := false
			pa.Instrs(func(i ssa.Instruction) {
				if i == site {
					called = true
				}
			})
			if called {
				return
			}
			n++
			set, known, val := stepOnPath(pa, spec.typ, "step", nil)
			// deferred resets
			pa.Instrs(func(i ssa.Instruction) {
				if d, ok := i.(*ssa.Defer); ok && d.Call.StaticCallee() != nil {
					// a deferred reset(), or the same store in a deferred closure
					if e := stepSummary(d.Call.StaticCallee(), spec.typ, "step", 3); e.kind == 1 && e.val == rs.val {
						set, known, val = true, true, rs.val
					}
				}
			})
			if !(set && known && val == rs.val) {
				bad++
				if w == nil {
					w = pa
				}
			}
		})
		key := "wrong-state-start-resets:" + spec.ctrl
		if bad > 0 {
			c.BadPath(key, mo.handle.Pos(), w.Describe(p), "a start request that arrives in the wrong state is rejected without resetting the controller: after a failed exchange every later start on this connection is rejected too")
		} else {
			c.Check(n > 0, key, mo.handle.Pos(), fmt.Sprintf("%d rejected-start path(s), each leaves step == %d (the state in which a start is accepted)", n, rs.val), "no rejected-start path found")
		}
	}
}

// parsedContainerUse: the TLV8 parser answers (nil, error) for a body it cannot parse (truncated item, short read). Every use of the
// container it returns — a method call on it, handing it to a controller — lies behind the test that the parse succeeded; a use
// above that test is a nil dereference that any peer can trigger with a two-byte body.
func parsedContainerUse(c *core.Ctx, reach map[*ssa.Function]bool) {
	n := 0
	for _, f := range core.SortedFuncs(reach) {
		for _, s := range core.FindCalls(f, func(i ssa.Instruction) bool { return core.IsCall(i, mod+"/util.NewTLV8ContainerFromReader") }) {
			s := s
			okFact := errNilFact(1, func(i ssa.Instruction) bool { return i == s })
			fromParse := func(v ssa.Value) bool {
				if v == nil {
					return false
				}
				return core.SomeSource(v, func(sv ssa.Value) bool {
					return core.CallResult(sv, 0, func(i ssa.Instruction) bool { return i == s }) != nil
				})
			}
			uses, bad := 0, 0
			core.Instrs(f, func(i ssa.Instruction) {
				cc := core.CallOf(i)
				if cc == nil || i == s {
					return
				}
				used := cc.IsInvoke() && fromParse(cc.Value)
				for _, a := range cc.Args {
					if fromParse(a) {
						used = true
					}
				}
				if !used {
					return
				}
				uses++
				if !core.Dominated(i, okFact) {
					bad++
					c.Bad("parsed-container-use@"+fname(f), posOf(i), "the container returned by the TLV8 parser is used on a path where the parse error has not been tested to be nil: for a body that does not parse the container is nil and the handler panics")
				}
			})
			n++
			if bad == 0 {
				c.OK("parsed-container-use@"+fname(f), posOf(s), "%d use(s) of the parsed container, each behind err == nil of the parse", uses)
			}
		}
	}
	if n == 0 {
		c.Undecided("parsed-container-use", token.NoPos, "no handler parses a TLV8 body")
	}
}

// closeRemovesOwnSession: sessions are looked up by the addresses of a connection. When a peer resets a connection and reconnects
// from the same port while the server is still busy with the old one, the new connection's session is stored under the same key;
// the old connection's Close — which comes later — must not remove it: the handlers of the new connection find no session and panic
// (a correct start request on a new connection is answered with a dropped connection). Close therefore removes the entry only
// when the session stored there is the closing connection's own.
func closeRemovesOwnSession(c *core.Ctx) {
	f := c.P.Func("hap", "(*Connection).Close")
	if f == nil {
		c.Undecided("Connection.Close", token.NoPos, "not found")
		return
	}
	n := 0
	for _, s := range core.FindCalls(f, func(i ssa.Instruction) bool { return core.IsInvoke(i, qContext, "DeleteSessionForConnection") }) {
		n++
		own := core.CmpFact(func(x, y ssa.Value) (bool, bool) {
			isSessConn := func(v ssa.Value) bool {
				found := false
				walkOperands(v, 4, func(o ssa.Value) {
					if call, ok := o.(*ssa.Call); ok && core.IsInvoke(call, qSession, "Connection") {
						found = true
					}
				})
				return found
			}
			isRecv := func(v ssa.Value) bool {
				found := false
				walkOperands(v, 4, func(o ssa.Value) {
					if valIs(o, f.Params[0]) {
						found = true
					}
				})
				return found
			}
			if (isSessConn(x) && isRecv(y)) || (isSessConn(y) && isRecv(x)) {
				return true, false
			}
			return false, false
		})
		c.Check(core.Dominated(s, own), "close-removes-own-session@"+fname(f), posOf(s), "the session entry is removed only where the stored session's connection is the closing one",
			"Close removes whatever session is stored under the connection's addresses: when the peer has reconnected from the same port in the meantime, the new connection loses its session and every request on it panics in the handler (nil session) instead of being answered")
	}
	if n == 0 {
		c.Undecided("close-removes-own-session", f.Pos(), "Close does not remove the session (C10-R5)")
	}
}

// stdlibPanicsGuarded: the two standard-library calls on the request paths that panic on a malformed argument are reached only
// with arguments of the right size (the rest of the rule treats callees outside the module as total): ed25519.Verify panics on a
// public key that is not 32 bytes — the key is the peer's (pair-setup M5) or a stored controller's (pair-verify M3) — and
// ed25519.Sign on a private key that is not 64 bytes. Shared with C04-R3.
func stdlibPanicsGuarded(c *core.Ctx) {
	for _, spec := range []struct {
		fn, callee string
		size       int64
	}{{"ValidateED25519Signature", "crypto/ed25519.Verify", 32}, {"ED25519Signature", "crypto/ed25519.Sign", 64}} {
		f := c.P.Func("crypto", spec.fn)
		if f == nil {
			c.Undecided("panic-guard:"+spec.fn, token.NoPos, "not found")
			continue
		}
		for _, call := range core.FindCalls(f, func(i ssa.Instruction) bool { g := core.Callee(i); return g != nil && core.QualName(g) == spec.callee }) {
			c.Check(core.Dominated(call, lenEqualsFact(f.Params[0], spec.size)), "panic-guard:"+spec.callee+"@"+fname(f), posOf(call),
				fmt.Sprintf("reached only with a key of %d bytes", spec.size),
				fmt.Sprintf("%s is reached with a key whose length is not known to be %d: it panics on any other size, and the key is supplied by the peer (a truncated public-key item in pair-setup M5, or a stored controller key of the wrong size in pair-verify M3) — the handler panics instead of answering", spec.callee, spec.size))
		}
	}
}

// eofDoesNotCloseSocket: the end of the peer's sending direction is not a reason to close the socket. A controller that sends its
// request and shuts down its sending side (FIN) is still reading; net/http's background read reaches DecryptedRead while the
// handler is at work, the read-ahead Peek answers io.EOF, and a DecryptedRead that closes the socket on every error other than a
// time-out tears the connection down under the response: the request is answered with a dropped connection (20 of 20 GET
// /accessories of a 30-accessory bridge). Returning the error is enough — net/http closes the connection once the response is out.
func eofDoesNotCloseSocket(c *core.Ctx) {
	f := c.P.Func("hap", "(*Connection).DecryptedRead")
	if f == nil {
		c.Undecided("DecryptedRead", token.NoPos, "not found")
		return
	}
	isEOF := func(v ssa.Value) bool {
		u, ok := v.(*ssa.UnOp)
		if !ok {
			return false
		}
		g, ok := u.X.(*ssa.Global)
		return ok && g.Pkg != nil && g.Pkg.Pkg.Path() == "io" && g.Name() == "EOF"
	}
	notEOF := core.CmpFact(func(x, y ssa.Value) (bool, bool) {
		if isEOF(x) || isEOF(y) {
			return false, true
		}
		return false, false
	})
	n := 0
	core.Instrs(f, func(i ssa.Instruction) {
		cc := core.CallOf(i)
		if cc == nil || !cc.IsInvoke() || cc.Method.Name() != "Close" || !fromRawSocket(cc.Value) {
			return
		}
		n++
		c.Check(core.Dominated(i, notEOF), "eof-does-not-close-socket@"+fname(f), posOf(i), "the socket is closed on a read error only when the error is not io.EOF",
			"DecryptedRead closes the socket when the read-ahead reports io.EOF: a peer that has sent its request and shut down its sending side gets the connection closed under the response that is being written")
	})
	if n == 0 {
		c.OK("eof-does-not-close-socket@"+fname(f), f.Pos(), "DecryptedRead never closes the socket")
	}
}

// cryptographerFieldsLocked: the two cryptographer fields of a session are read and written under the session's mutex. They are
// interface values — two machine words — and three goroutines touch them: the handler of the pair-verify finish request stores the
// next cryptographer, the read that net/http keeps pending moves it into place (Decrypter), writers of responses and events read it
// (Encrypter). Without a lock a copy taken between the two word stores installs an interface that is not nil and holds a nil pointer,
// for good. Encrypt dereferences it inside net/http's finishRequest; conn.serve recovers that panic and closes the connection,
// which flushes the same buffer through Connection.Write again — the second panic is inside the deferred function, nobody
// recovers it, the process exits. Nothing but correct pair-verify exchanges of a paired controller is needed (35 000 of them from
// one sequential client, four to thirty-six seconds with eight). The ordering of the hand-over (C08-R5) is a different matter.
func cryptographerFieldsLocked(c *core.Ctx) {
	p := c.P
	sessT := mod + "/hap.session"
	isMu := func(v ssa.Value) bool {
		if _, ok := core.FieldLoad(v, sessT, "mu"); ok {
			return true
		}
		_, ok := core.FieldAddrOf(v, sessT, "mu")
		return ok
	}
	n := 0
	for _, f := range libFuncs(p) {
		if isTestFunc(p, f) || cn(f) == "NewSession" {
			continue // the constructor: nobody else has the session yet
		}
		core.Instrs(f, func(i ssa.Instruction) {
			var fa *ssa.FieldAddr
			switch x := i.(type) {
			case *ssa.Store:
				fa, _ = x.Addr.(*ssa.FieldAddr)
			case *ssa.UnOp:
				if x.Op == token.MUL {
					fa, _ = x.X.(*ssa.FieldAddr)
				}
			}
			if fa == nil || !core.TypeIs(fa.X.Type(), sessT) {
				return
			}
			if name := fieldNameOf(fa); name != "cryptographer" && name != "nextCryptographer" {
				return
			}
			n++
			in, why := inCriticalSection(f, i, isMu)
			c.Check(in, "cryptographer-fields-locked@"+fname(f), posOf(i), "the session's cryptographer fields are accessed under the session's mutex",
				"a cryptographer field of the session is read or written without the session's mutex ("+why+"): the interface value is two words, a reader between the two stores of a concurrent writer installs a non-nil interface around a nil pointer — the next Encrypt panics inside net/http's finishRequest, again inside the deferred close that follows the recovery, and the process exits")
		})
	}
	if n == 0 {
		c.Undecided("cryptographer-fields-locked", token.NoPos, "no access to the session's cryptographer fields found")
	}
}

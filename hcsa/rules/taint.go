package rules

import (
	"go/token"
	"go/types"
	"strings"

	"golang.org/x/tools/go/ssa"

	"hcsa/core"
)

// taintState: forward taint over SSA values of the module functions reachable from the remote entry points.
// Object-insensitive for fields (a tainted store taints the field everywhere), context-insensitive for calls.
type taintState struct {
	p       *core.Program
	funcs   map[*ssa.Function]bool
	val     map[ssa.Value]bool
	field   map[string]bool // "pkg.Type.field"
	alloc   map[*ssa.Alloc]bool
	ret     map[*ssa.Function]map[int]bool
	out     map[*ssa.Parameter]bool // parameters through which the callee writes tainted data to the caller's memory
	changed bool
	rounds  int
}

// untaintedResults: external or module functions whose listed results do not depend on peer-controlled *content*
// (one symbol per line, with the reason). idx -1 = all results.
var untaintedResults = map[string]struct {
	idx    int
	reason string
}{
	mod + "/crypto/hkdf.Sha512#1":                     {1, "HKDF-SHA-512 with a 32-byte output never fails; the error does not depend on the inputs' content"},
	mod + "/crypto.ED25519Signature#1":                {1, "fails only for a private key of the wrong length; the key is the device's own"},
	mod + "/crypto.NewSecureSessionFromSharedKey#1":   {1, "only HKDF errors, see hkdf.Sha512"},
	"(*" + mod + "/crypto.secureSession).Encrypt#1":   {1, "sealing with a 32-byte key and 8-byte nonce never fails"},
	mod + "/crypto/chacha20poly1305.EncryptAndSeal#2": {2, "fails only for wrong key/nonce sizes, which are fixed arrays at every call site"},
	"io.ReadFull#0": {0, "the count is bounded by len(buf) by contract"},
}

func newTaint(p *core.Program, funcs map[*ssa.Function]bool) *taintState {
	allocAnywhere = map[*ssa.Alloc]bool{}
	allocStores = map[*ssa.Alloc][]*ssa.Store{}
	return &taintState{p: p, funcs: funcs, val: map[ssa.Value]bool{}, field: map[string]bool{}, alloc: map[*ssa.Alloc]bool{}, ret: map[*ssa.Function]map[int]bool{}, out: map[*ssa.Parameter]bool{}}
}

func (t *taintState) mark(v ssa.Value) {
	if v == nil || t.val[v] {
		return
	}
	if _, isConst := v.(*ssa.Const); isConst {
		return
	}
	t.val[v] = true
	t.changed = true
}

func (t *taintState) is(v ssa.Value) bool { return v != nil && t.val[v] }

func (t *taintState) markAlloc(a *ssa.Alloc) {
	if a != nil && !t.alloc[a] {
		t.alloc[a] = true
		t.changed = true
	}
	if a != nil && !allocAnywhere[a] {
		allocAnywhere[a] = true
		t.changed = true
	}
}

// markAllocAt: a tainted value is stored into the local variable a by st. A variable that is only ever tainted by plain stores is
// tainted for the loads a tainting store can reach, not for the ones before it ( n, err = f(); if err != nil {..}; ...; err = g(peer) ).
func (t *taintState) markAllocAt(a *ssa.Alloc, st *ssa.Store) {
	if a == nil {
		return
	}
	if !t.alloc[a] {
		t.alloc[a] = true
		t.changed = true
	}
	for _, s := range allocStores[a] {
		if s == st {
			return
		}
	}
	allocStores[a] = append(allocStores[a], st)
	t.changed = true
}

// allocAnywhere / allocStores are reset by newTaint (one analysis at a time).
var (
	allocAnywhere = map[*ssa.Alloc]bool{}
	allocStores   = map[*ssa.Alloc][]*ssa.Store{}
)

// loadTainted: the load u of the tainted variable a sees peer data.
func loadTainted(a *ssa.Alloc, u *ssa.UnOp) bool {
	if allocAnywhere[a] || u.X != ssa.Value(a) {
		return true
	}
	for _, st := range allocStores[a] {
		if st.Parent() != u.Parent() || instrDominates(st, u) || reachesAfter(st, u) {
			return true
		}
	}
	return false
}

// baseAlloc: the allocation behind an address expression (&x, &x.f, &x[i], slice of x ...).
func baseAlloc(v ssa.Value) *ssa.Alloc {
	for k := 0; k < 10; k++ {
		switch x := v.(type) {
		case *ssa.Alloc:
			return x
		case *ssa.FieldAddr:
			v = x.X
		case *ssa.IndexAddr:
			v = x.X
		case *ssa.Slice:
			v = x.X
		case *ssa.MakeInterface:
			v = x.X
		case *ssa.ChangeType:
			v = x.X
		case *ssa.Convert:
			v = x.X
		default:
			return nil
		}
	}
	return nil
}

func (t *taintState) run(seed func(t *taintState)) {
	for t.rounds = 0; t.rounds < 40; t.rounds++ {
		t.changed = false
		seed(t)
		for f := range t.funcs {
			t.stepFunc(f)
		}
		if !t.changed {
			break
		}
	}
}

func (t *taintState) stepFunc(f *ssa.Function) {
	for _, b := range f.Blocks {
		for _, i := range b.Instrs {
			switch x := i.(type) {
			case *ssa.Alloc:
				if t.alloc[x] {
					t.mark(x) // a pointer to memory holding peer data
				}
			case *ssa.Phi:
				for _, e := range x.Edges {
					if t.is(e) {
						t.mark(x)
					}
				}
			case *ssa.UnOp:
				if x.Op == token.MUL {
					if a := baseAlloc(x.X); a != nil && t.alloc[a] && loadTainted(a, x) {
						t.mark(x)
					}
					if fa, ok := x.X.(*ssa.FieldAddr); ok {
						if t.field[core.FieldName(fa)] || t.is(fa.X) && false {
							t.mark(x)
						}
					}
					if ia, ok := x.X.(*ssa.IndexAddr); ok && t.is(ia.X) {
						t.mark(x)
					}
					if _, direct := x.X.(*ssa.Alloc); t.is(x.X) && !direct { // loads of a local variable itself: loadTainted above
						t.mark(x)
					}
				} else if t.is(x.X) {
					t.mark(x)
				}
			case *ssa.BinOp:
				if t.is(x.X) || t.is(x.Y) {
					t.mark(x)
				}
			case *ssa.Convert:
				if t.is(x.X) {
					t.mark(x)
				}
			case *ssa.ChangeType:
				if t.is(x.X) {
					t.mark(x)
				}
			case *ssa.ChangeInterface:
				if t.is(x.X) {
					t.mark(x)
				}
			case *ssa.MakeInterface:
				if t.is(x.X) {
					t.mark(x)
				}
			case *ssa.TypeAssert:
				if t.is(x.X) {
					t.mark(x)
				}
			case *ssa.Extract:
				if call, ok := x.Tuple.(*ssa.Call); ok {
					if t.callResultTainted(call, x.Index) {
						t.mark(x)
					}
				} else if t.is(x.Tuple) {
					t.mark(x)
				}
			case *ssa.Slice:
				if t.is(x.X) {
					t.mark(x)
				}
				if a := baseAlloc(x.X); a != nil && t.alloc[a] {
					t.mark(x)
				}
			case *ssa.Field:
				if t.is(x.X) {
					t.mark(x)
				}
			case *ssa.FieldAddr:
				if t.is(x.X) {
					// pointer to a tainted struct: loads are handled at UnOp via t.is(x.X)
					t.mark(x)
				}
			case *ssa.IndexAddr:
				if t.is(x.X) {
					t.mark(x)
				}
			case *ssa.Index:
				if t.is(x.X) {
					t.mark(x)
				}
			case *ssa.Lookup:
				if t.is(x.X) {
					t.mark(x)
				}
			case *ssa.Range, *ssa.Next:
				for _, op := range x.Operands(nil) {
					if *op != nil && t.is(*op) {
						t.mark(x.(ssa.Value))
					}
				}
			case *ssa.Store:
				if t.is(x.Val) {
					if a := baseAlloc(x.Addr); a != nil {
						if x.Addr == ssa.Value(a) {
							t.markAllocAt(a, x)
						} else {
							t.markAlloc(a)
						}
					}
					if fa, ok := x.Addr.(*ssa.FieldAddr); ok {
						n := core.FieldName(fa)
						if !t.field[n] {
							t.field[n] = true
							t.changed = true
						}
					}
				}
			case *ssa.MapUpdate:
				if t.is(x.Value) || t.is(x.Key) {
					t.mark(x.Map)
				}
			case *ssa.Call:
				t.stepCall(x)
			case *ssa.Return:
				for k, r := range x.Results {
					if t.is(r) {
						if t.ret[f] == nil {
							t.ret[f] = map[int]bool{}
						}
						if !t.ret[f][k] {
							t.ret[f][k] = true
							t.changed = true
						}
					}
				}
			}
		}
	}
}

func (t *taintState) callResultTainted(call *ssa.Call, idx int) bool {
	callees := t.p.CalleesAt(call)
	anyArg := false
	for _, a := range call.Call.Args {
		if t.is(a) {
			anyArg = true
		}
		if al := baseAlloc(a); al != nil && t.alloc[al] {
			anyArg = true
		}
	}
	if call.Call.IsInvoke() && t.is(call.Call.Value) {
		anyArg = true
	}
	res := false
	resolved := false
	for _, g := range callees {
		if g == nil {
			continue
		}
		q := core.QualName(g)
		if u, ok := untaintedResults[q+"#"+itoa(idx)]; ok && u.idx == idx {
			resolved = true
			continue
		}
		if core.InModule(g) && g.Blocks != nil && t.funcs[g] {
			resolved = true
			if t.ret[g][idx] {
				res = true
			}
			continue
		}
		resolved = true
		if anyArg {
			res = true
		}
	}
	if !resolved && anyArg {
		res = true
	}
	return res
}

func itoa(i int) string {
	return string(rune('0' + i))
}

func (t *taintState) stepCall(call *ssa.Call) {
	// arguments -> parameters of module callees
	for _, g := range t.p.CalleesAt(call) {
		if g == nil || !core.InModule(g) || g.Blocks == nil || !t.funcs[g] {
			continue
		}
		args := call.Call.Args
		params := g.Params
		off := 0
		if call.Call.IsInvoke() {
			// receiver is params[0]
			if len(params) > 0 && t.is(call.Call.Value) {
				t.mark(params[0])
			}
			off = 1
		}
		for k, a := range args {
			if k+off < len(params) && t.is(a) {
				t.mark(params[k+off])
			}
		}
		// out-parameters of module callees
		for k, a := range args {
			if k+off < len(params) && t.out[params[k+off]] {
				t.taintPointee(a)
			}
		}
	}
	// single-result calls
	if _, isTuple := call.Type().(*types.Tuple); !isTuple {
		if t.callResultTainted(call, 0) {
			t.mark(call)
		}
	}
	// out-parameters: a pointer argument of a call that reads peer data becomes tainted
	anyArg := false
	for _, a := range call.Call.Args {
		if t.is(a) {
			anyArg = true
		}
	}
	if call.Call.IsInvoke() && t.is(call.Call.Value) {
		anyArg = true
	}
	if anyArg {
		g := call.Call.StaticCallee()
		ext := g == nil || !core.InModule(g)
		if ext {
			for _, a := range call.Call.Args {
				if _, isPtr := a.Type().Underlying().(*types.Pointer); isPtr || isSliceOrIface(a.Type()) {
					t.taintPointee(a)
				}
			}
		}
	}
}

func isSliceOrIface(t types.Type) bool {
	switch t.Underlying().(type) {
	case *types.Slice, *types.Interface:
		return true
	}
	return false
}

// postDominators computes, for every block, the set of blocks that post-dominate it (iterative set algorithm with a
// virtual exit joining all blocks without successors).
func postDominators(fn *ssa.Function) map[*ssa.BasicBlock]map[*ssa.BasicBlock]bool {
	all := map[*ssa.BasicBlock]bool{}
	for _, b := range fn.Blocks {
		all[b] = true
	}
	pd := map[*ssa.BasicBlock]map[*ssa.BasicBlock]bool{}
	for _, b := range fn.Blocks {
		if len(b.Succs) == 0 {
			pd[b] = map[*ssa.BasicBlock]bool{b: true}
		} else {
			m := map[*ssa.BasicBlock]bool{}
			for x := range all {
				m[x] = true
			}
			pd[b] = m
		}
	}
	changed := true
	for changed {
		changed = false
		for k := len(fn.Blocks) - 1; k >= 0; k-- {
			b := fn.Blocks[k]
			if len(b.Succs) == 0 {
				continue
			}
			var inter map[*ssa.BasicBlock]bool
			for _, s := range b.Succs {
				if inter == nil {
					inter = map[*ssa.BasicBlock]bool{}
					for x := range pd[s] {
						inter[x] = true
					}
				} else {
					for x := range inter {
						if !pd[s][x] {
							delete(inter, x)
						}
					}
				}
			}
			inter[b] = true
			if len(inter) != len(pd[b]) {
				pd[b] = inter
				changed = true
			}
		}
	}
	return pd
}

var pdomMemo = map[*ssa.Function]map[*ssa.BasicBlock]map[*ssa.BasicBlock]bool{}

// controlDeps returns the If instructions that block b is control-dependent on: b post-dominates one successor of the
// If but does not strictly post-dominate the If's block (Ferrante/Ottenstein/Warren).
func controlDeps(b *ssa.BasicBlock) []*ssa.If {
	fn := b.Parent()
	pd, ok := pdomMemo[fn]
	if !ok {
		pd = postDominators(fn)
		pdomMemo[fn] = pd
	}
	var out []*ssa.If
	for _, x := range fn.Blocks {
		iff, ok := x.Instrs[len(x.Instrs)-1].(*ssa.If)
		if !ok {
			continue
		}
		strictly := pd[x][b] && x != b
		if strictly {
			continue
		}
		for _, s := range x.Succs {
			if pd[s][b] {
				out = append(out, iff)
				break
			}
		}
	}
	return out
}

// controlDepsAll is the transitive closure of controlDeps: every condition whose outcome decides whether b runs
// ( if a || b { continue }; if c { X }  makes X depend on c directly and on a, b through c's block ).
func controlDepsAll(b *ssa.BasicBlock) []*ssa.If {
	seen := map[*ssa.If]bool{}
	var out []*ssa.If
	work := []*ssa.BasicBlock{b}
	done := map[*ssa.BasicBlock]bool{b: true}
	for len(work) > 0 {
		x := work[len(work)-1]
		work = work[:len(work)-1]
		for _, iff := range controlDeps(x) {
			if !seen[iff] {
				seen[iff] = true
				out = append(out, iff)
			}
			if !done[iff.Block()] {
				done[iff.Block()] = true
				work = append(work, iff.Block())
			}
		}
	}
	return out
}

func isPanicCall(i ssa.Instruction) (bool, string) {
	if _, ok := i.(*ssa.Panic); ok {
		return true, "panic"
	}
	g := core.Callee(i)
	if g == nil {
		return false, ""
	}
	q := core.QualName(g)
	if strings.HasPrefix(q, "(*log.Logger).Panic") || strings.HasPrefix(q, "(*log.Logger).Fatal") || strings.HasPrefix(q, "log.Panic") || strings.HasPrefix(q, "log.Fatal") || q == "os.Exit" {
		return true, cn(g)
	}
	return false, ""
}

// taintPointee: the memory the pointer-like value a refers to receives tainted data.
func (t *taintState) taintPointee(a ssa.Value) {
	if al := baseAlloc(a); al != nil {
		t.markAlloc(al)
		return
	}
	x := core.StripConv(a)
	if fa, ok := x.(*ssa.FieldAddr); ok {
		n := core.FieldName(fa)
		if !t.field[n] {
			t.field[n] = true
			t.changed = true
		}
		return
	}
	if pr, ok := x.(*ssa.Parameter); ok {
		if !t.out[pr] {
			t.out[pr] = true
			t.changed = true
		}
		return
	}
	if fv, ok := x.(*ssa.FreeVar); ok {
		for _, b := range core.FreeVarBinding(fv) {
			t.taintPointee(b)
		}
	}
}

package rules

import (
	"fmt"
	"go/constant"
	"go/token"
	"go/types"
	"sort"
	"strings"

	"golang.org/x/tools/go/ssa"

	"hcsa/core"
)

func init() {
	register(&core.Property{
		ID:    "C12",
		Level: "other",
		Explanation: "Exhaustiveness and type agreement of the conversion layer. The Format* constants of package characteristic are enumerated from the type-checked package; (*Characteristic).convert must have an " +
			"explicit case for each, returning on every path of that case a value of one concrete comparable basic Go type T(format), never the input itself; the clamp switch in updateValue covers every numeric format " +
			"and asserts exactly T; the typed getters and remote-update adapters of Int/Float/Bool/String/Bytes assert the T of their format family, and the Set{Min,Max,Step}Value setters store that same type; " +
			"clampInt/clampFloat return only the value, the minimum or the maximum (no arithmetic on the result), and each bound is enforced whether or not the other is declared; a float result that can stem from " +
			"parsing a string is dominated by the negative branches of both IsNaN and IsInf.",
		Assumptions: []string{"xiam/to returns the advertised Go type", "C15 shows each constructor embeds the wrapper of its format family"},
		NotDecided:  []string{"numeric edge behaviour of xiam/to (negative or huge numbers into an unsigned conversion)", "formats without declared minimum/maximum have no range to enforce"},
		Rules: []core.Rule{
			{ID: "C12-R1", Title: "convert is exhaustive over the declared formats and typed", Decides: "the stored value always has the type its format declares; typed getters never fail", Floor: 12, Run: func(c *core.Ctx) { c12r1(c); polarityEverywhere(c, "C12") }},
			{ID: "C12-R2", Title: "clamp is exhaustive, pure and enforces each bound independently", Decides: "the stored value lies within its declared minimum and maximum", Floor: 8, Run: c12r2},
			{ID: "C12-R3", Title: "getters, adapters and bound setters agree with the conversion types", Decides: "typed getters never fail; a declared bound is never skipped", Floor: 10, Run: func(c *core.Ctx) { c12r3(c); boundsHaveTheFormatsType(c) }},
			{ID: "C12-R4", Title: "non-finite floats are excluded before the store", Decides: "the attribute database always encodes; value within range", Floor: 1, Run: c12r4},
			{ID: "C12-R5", Title: "every stored value is converted; interface comparisons only on converted values", Decides: "null and repeated composite writes keep the declared type and do not panic", Floor: 2, Run: func(c *core.Ctx) { c12r5(c); passThrough(c, "C12"); returnsUndecorated(c, "C12") }},
		},
	})
}

// formatConstants returns name -> string value of the Format* constants.
func formatConstants(p *core.Program) map[string]string {
	out := map[string]string{}
	pk := p.Pkg("characteristic")
	if pk == nil {
		return out
	}
	for _, n := range pk.Types.Scope().Names() {
		if !strings.HasPrefix(n, "Format") {
			continue
		}
		if k, ok := pk.Types.Scope().Lookup(n).(*types.Const); ok && k.Val().Kind() == constant.String {
			out[n] = constant.StringVal(k.Val())
		}
	}
	return out
}

// formatCases maps a format string to the blocks reached when "c.Format == that string" holds, for a switch over c.Format in f.
func formatSwitch(f *ssa.Function) map[string]*ssa.BasicBlock {
	out := map[string]*ssa.BasicBlock{}
	for _, b := range f.Blocks {
		iff, ok := b.Instrs[len(b.Instrs)-1].(*ssa.If)
		if !ok {
			continue
		}
		bin, ok := iff.Cond.(*ssa.BinOp)
		if !ok || bin.Op != token.EQL {
			continue
		}
		for _, pair := range [][2]ssa.Value{{bin.X, bin.Y}, {bin.Y, bin.X}} {
			if _, isFmt := core.FieldLoad(pair[0], tChar, "Format"); isFmt {
				if s, isK := core.ConstString(pair[1]); isK {
					out[s] = b.Succs[0]
				}
			}
		}
	}
	return out
}

// switchDefault: the block reached when none of the format comparisons holds.
func returnsInCase(start *ssa.BasicBlock, stopAt map[*ssa.BasicBlock]bool) []*ssa.Return {
	var out []*ssa.Return
	seen := map[*ssa.BasicBlock]bool{}
	var walk func(b *ssa.BasicBlock)
	walk = func(b *ssa.BasicBlock) {
		if seen[b] {
			return
		}
		seen[b] = true
		for _, i := range b.Instrs {
			if r, ok := i.(*ssa.Return); ok {
				out = append(out, r)
			}
		}
		for _, s := range b.Succs {
			walk(s)
		}
	}
	walk(start)
	return out
}

// caseResults: the values a case of a format switch returns. With one return per case that is the returned value; with a result
// variable ( switch { case A: r = x; case B: r = y }; return r ) the single return hands back a phi, and the case's share of it are
// the edges that come out of the case's own region.
func caseResults(start *ssa.BasicBlock) []ssa.Value {
	var out []ssa.Value
	for _, r := range returnsInCase(start, nil) {
		if len(res(r)) != 1 {
			continue
		}
		out = append(out, regionShare(res(r)[0], start, 4)...)
	}
	return out
}

func regionShare(v ssa.Value, start *ssa.BasicBlock, d int) []ssa.Value {
	ph, ok := v.(*ssa.Phi)
	if !ok || d == 0 || start.Dominates(ph.Block()) {
		return []ssa.Value{v} // no merge, or a merge inside the case itself
	}
	var out []ssa.Value
	for k, e := range ph.Edges {
		pred := ph.Block().Preds[k]
		if start.Dominates(pred) {
			out = append(out, e)
		} else if inner, isPhi := e.(*ssa.Phi); isPhi && !start.Dominates(inner.Block()) {
			out = append(out, regionShare(inner, start, d-1)...)
		}
	}
	return out
}

func convertTypes(p *core.Program) (map[string]types.Type, map[string]string, *ssa.Function) {
	f := p.Func("characteristic", "(*Characteristic).convert")
	if f == nil {
		return nil, nil, nil
	}
	ty := map[string]types.Type{}
	problems := map[string]string{}
	for fmtStr, blk := range formatSwitch(f) {
		var t types.Type
		for _, rv := range caseResults(blk) {
			for _, s := range core.Sources(rv) {
				if s == ssa.Value(f.Params[1]) {
					problems[fmtStr] = "returns its input unchanged"
					continue
				}
				var st types.Type
				if mi, ok := rv.(*ssa.MakeInterface); ok {
					st = mi.X.Type()
				} else if mi, ok := s.(*ssa.MakeInterface); ok {
					st = mi.X.Type()
				} else {
					st = s.Type()
				}
				if _, isIface := st.Underlying().(*types.Interface); isIface {
					problems[fmtStr] = "returns a value of interface type"
					continue
				}
				if t != nil && !types.Identical(t, st) {
					problems[fmtStr] = fmt.Sprintf("returns both %s and %s", t, st)
				}
				t = st
			}
		}
		if t != nil {
			ty[fmtStr] = t
		}
	}
	return ty, problems, f
}

func c12r1(c *core.Ctx) {
	p := c.P
	consts := formatConstants(p)
	c.Count("format_constants", len(consts))
	if len(consts) < 10 {
		c.Undecided("format-constants", token.NoPos, "fewer than 10 Format* constants found")
	}
	ty, problems, f := convertTypes(p)
	if f == nil {
		c.Undecided("convert", token.NoPos, "not found")
		return
	}
	var names []string
	for n := range consts {
		names = append(names, n)
	}
	sort.Strings(names)
	for _, n := range names {
		v := consts[n]
		key := "convert-case:" + n
		t, has := ty[v]
		switch {
		case !has && problems[v] == "":
			c.Bad(key, f.Pos(), "convert has no case for format %q: a value written to such a characteristic is stored with whatever type the peer's JSON had; typed getters panic and repeated writes of a composite value panic in the comparison", v)
		case problems[v] != "":
			c.Bad(key, f.Pos(), "convert for format %q %s", v, problems[v])
		default:
			b, isBasic := t.Underlying().(*types.Basic)
			c.Check(isBasic && b.Info()&(types.IsNumeric|types.IsString|types.IsBoolean) != 0, key, f.Pos(), fmt.Sprintf("%q -> %s (comparable basic type)", v, t), fmt.Sprintf("convert for %q yields %s which is not a comparable basic type", v, t))
		}
	}
	// no path returns the input parameter itself
	ident := false
	core.Instrs(f, func(i ssa.Instruction) {
		if r, ok := i.(*ssa.Return); ok && len(res(r)) == 1 && valIs(res(r)[0], f.Params[1]) {
			// allowed only if unreachable for every declared format: i.e. it is the default after all cases
			covered := true
			for _, v := range consts {
				if _, has := ty[v]; !has {
					covered = false
				}
			}
			if !covered {
				ident = true
			}
		}
	})
	c.Check(!ident, "no-identity-for-declared-format", f.Pos(), "no declared format falls through to 'return v'", "some declared format falls through to the identity return")
	// updateValue stores the converted value: the stored value's provenance passes through convert
	uv := p.Func("characteristic", "(*Characteristic).updateValue")
	if uv != nil {
		store, _ := updateValueEffects(uv)
		ok := store != nil
		if ok {
			ok = core.AllSources(store.Val, func(s ssa.Value) bool {
				call, isC := s.(*ssa.Call)
				if !isC {
					return false
				}
				g := core.Callee(call)
				if g == f {
					return true
				}
				if g != nil && (cn(g) == "clampInt" || cn(g) == "clampFloat") {
					// clamp argument must itself come from convert
					_, vp := clampFunc(p, cn(g))
					vi := 1
					for k, q := range g.Params {
						if q == vp {
							vi = k
						}
					}
					return core.AllSources(call.Call.Args[vi], func(x ssa.Value) bool {
						cc, ok := x.(*ssa.Call)
						return ok && core.Callee(cc) == f
					})
				}
				return false
			})
		}
		c.Check(ok, "stored-value-is-converted@"+fname(uv), uv.Pos(), "the stored value always passes through convert (and clamp)", "a value can be stored without passing through convert")
	}
}

func c12r2(c *core.Ctx) {
	boundsBeforeValue(c)
	p := c.P
	consts := formatConstants(p)
	ty, _, _ := convertTypes(p)
	uv := p.Func("characteristic", "(*Characteristic).updateValue")
	if uv == nil {
		c.Undecided("updateValue", token.NoPos, "not found")
		return
	}
	sw := formatSwitch(uv)
	var names []string
	for n := range consts {
		names = append(names, n)
	}
	sort.Strings(names)
	for _, n := range names {
		v := consts[n]
		t := ty[v]
		if t == nil {
			continue
		}
		b, _ := t.Underlying().(*types.Basic)
		if b == nil || b.Info()&types.IsNumeric == 0 {
			continue
		}
		key := "clamp-case:" + n
		blk, has := sw[v]
		if !has {
			c.Bad(key, uv.Pos(), "the clamp switch of updateValue has no case for numeric format %q: its declared minimum/maximum are not enforced", v)
			continue
		}
		// the case asserts T and calls the clamp for T
		assertOK, clampOK := false, false
		for _, i := range blk.Instrs {
			if ta, ok := i.(*ssa.TypeAssert); ok && types.Identical(ta.AssertedType, t) {
				assertOK = true
			}
			if g := core.Callee(i); g != nil && strings.HasPrefix(cn(g), "clamp") {
				if _, vp := clampFunc(p, cn(g)); vp != nil && types.Identical(vp.Type(), t) {
					clampOK = true
				}
			}
		}
		c.Check(assertOK && clampOK, key, uv.Pos(), fmt.Sprintf("%q: asserts %s and clamps with the %s clamp", v, t, t), fmt.Sprintf("the clamp case for %q does not assert/clamp with type %s (convert yields %s): a type assertion panics or bounds are skipped", v, t, t))
	}
	for _, name := range []string{"clampInt", "clampFloat"} {
		f, val := clampFunc(p, name)
		if f == nil {
			c.Undecided(name, token.NoPos, "not found")
			continue
		}
		var minV, maxV, minOK, maxOK ssa.Value
		core.Instrs(f, func(i ssa.Instruction) {
			ta, ok := i.(*ssa.TypeAssert)
			if !ok || !ta.CommaOk {
				return
			}
			var v, okv ssa.Value
			for _, r := range *ta.Referrers() {
				if e, ok := r.(*ssa.Extract); ok {
					if e.Index == 0 {
						v = e
					} else {
						okv = e
					}
				}
			}
			if isBoundOf(ta.X, "MinValue") {
				minV, minOK = v, okv
			}
			if isBoundOf(ta.X, "MaxValue") {
				maxV, maxOK = v, okv
			}
		})
		if minV == nil || maxV == nil || minOK == nil || maxOK == nil {
			c.Undecided("clamp-bounds@"+fname(f), f.Pos(), "MinValue/MaxValue comma-ok assertions not found")
			continue
		}
		// pure: returned value sources within {value, min, max}
		pure := returnsOnly(f, func(s ssa.Value) bool { return s == ssa.Value(val) || s == minV || s == maxV })
		c.Check(pure, "clamp-pure@"+fname(f), f.Pos(), "returns only the value, the minimum or the maximum", "the clamp result is computed from the value (arithmetic after clamping): it can leave the declared range")
		// each bound enforced independently
		find := func(op token.Token, bound ssa.Value) *ssa.BinOp {
			var res *ssa.BinOp
			core.Instrs(f, func(i ssa.Instruction) {
				if b, ok := i.(*ssa.BinOp); ok {
					if (b.Op == op && b.X == ssa.Value(val) && b.Y == bound) || (b.Op == flip(op) && b.Y == ssa.Value(val) && b.X == bound) {
						res = b
					}
				}
			})
			return res
		}
		for _, spec := range []struct {
			what  string
			cmp   *ssa.BinOp
			other ssa.Value
			bound ssa.Value
			this  ssa.Value
		}{{"maximum", find(token.GTR, maxV), minOK, maxV, maxOK}, {"minimum", find(token.LSS, minV), maxOK, minV, minOK}} {
			key := "clamp-" + spec.what + "@" + fname(f)
			if spec.cmp == nil {
				c.Bad(key, f.Pos(), "the "+spec.what+" is never compared with the value")
				continue
			}
			// reachable although the other bound is not declared: cut edges on which other-ok is true
			otherTrue := core.TrueFact(func(v ssa.Value) bool { return v == spec.other })
			reach := core.ReachableFromEntry(spec.cmp, core.CutWhere(otherTrue))
			// and its true edge leads to a return of the bound
			c.Check(reach, key, spec.cmp.Pos(), "the "+spec.what+" is enforced whether or not the other bound is declared",
				"the "+spec.what+" is only enforced when the other bound is declared as well: characteristics with a one-sided range accept out-of-range values")
			// ... it is consulted only where it is declared, and where the value is beyond it the bound is what comes back
			var cmpIf *ssa.If
			for _, r := range *spec.cmp.Referrers() {
				if iff, ok := r.(*ssa.If); ok {
					cmpIf = iff
				}
				// `case declared && value > bound:` of a tagless switch materialises the conjunction: the branch is on that value
				if ph, ok := r.(*ssa.Phi); ok {
					for _, rr := range *ph.Referrers() {
						if iff, ok := rr.(*ssa.If); ok {
							cmpIf = iff
						}
						if b2, ok := rr.(*ssa.BinOp); ok {
							for _, r3 := range *b2.Referrers() {
								if iff, ok := r3.(*ssa.If); ok {
									if k, isK := core.ConstInt(b2.Y); isK && k == 1 && b2.Op == token.EQL {
										cmpIf = iff
									}
								}
							}
						}
					}
				}
			}
			if cmpIf == nil {
				c.Undecided("clamp-effect-"+spec.what+"@"+fname(f), spec.cmp.Pos(), "the comparison does not decide a branch")
				continue
			}
			declared := core.TrueFact(func(v ssa.Value) bool { return v == spec.this })
			okDecl := core.Dominated(spec.cmp, declared)
			beyond, wrong := 0, 0
			core.EnumPaths(f, 2, 20000, func(pa core.Path) {
				ret := pa.Returns()
				if ret == nil || !pa.TookEdge(cmpIf.Block(), 0) {
					return
				}
				beyond++
				got := core.StripConv(pa.ResolveAt(len(pa)-1, core.StripConv(res(ret)[0])))
				if got != core.StripConv(spec.bound) {
					wrong++
				}
			})
			c.Check(okDecl && beyond > 0 && wrong == 0, "clamp-effect-"+spec.what+"@"+fname(f), spec.cmp.Pos(), "where the value is beyond the declared "+spec.what+" the "+spec.what+" is returned",
				"the "+spec.what+" is compared but not enforced (the value is returned unchanged, or the bound is consulted where it is not declared): values outside the declared range are stored")
		}
	}
}

// clampFunc finds the clamp for ints / floats: the method of Characteristic, or a function of the package under that name which is
// handed the bounds ( clampInt(value, c.MinValue, c.MaxValue) ). val is its value parameter (the first of a numeric basic type).
func clampFunc(p *core.Program, name string) (f *ssa.Function, val *ssa.Parameter) {
	f = p.Func("characteristic", "(*Characteristic)."+name)
	if f == nil {
		f = p.Func("characteristic", name)
	}
	if f == nil {
		return nil, nil
	}
	for _, pr := range f.Params {
		if b, ok := pr.Type().Underlying().(*types.Basic); ok && b.Info()&types.IsNumeric != 0 {
			return f, pr
		}
	}
	return nil, nil
}

// isBoundOf: x (the operand of a comma-ok assertion in a clamp) is the declared bound field of the characteristic — loaded there, or
// handed in by the only caller as that field of its characteristic.
func isBoundOf(x ssa.Value, field string) bool {
	if _, ok := core.FieldLoad(x, tChar, field); ok {
		return true
	}
	if pr, ok := x.(*ssa.Parameter); ok {
		if a := core.Active.SoleCallArg(pr); a != nil {
			if _, ok := core.FieldLoad(a, tChar, field); ok {
				return true
			}
		}
		// several callers (one per clamp case of updateValue): every one of them hands in the field
		es := core.Active.CallersOf(pr.Parent())
		if len(es) > 1 {
			all := true
			for _, e := range es {
				if e.Site == nil || e.Site.Common().StaticCallee() != pr.Parent() {
					return false
				}
				for k, q := range pr.Parent().Params {
					if q == pr {
						if k >= len(e.Site.Common().Args) {
							return false
						}
						if _, ok := core.FieldLoad(e.Site.Common().Args[k], tChar, field); !ok {
							all = false
						}
					}
				}
			}
			return all
		}
	}
	return false
}

func flip(op token.Token) token.Token {
	switch op {
	case token.GTR:
		return token.LSS
	case token.LSS:
		return token.GTR
	}
	return op
}

func c12r3(c *core.Ctx) {
	// what the typed getters assert is the stored, converted and clamped Value — not a raw result of the application's get function
	// (shared with C11-R6)
	getValueRevealsOnlyStored(c)
	baseConstructorsUsable(c)
	readableCtorsHoldAValue(c)
	p := c.P
	consts := formatConstants(p)
	ty, _, _ := convertTypes(p)
	family := map[string][]string{
		"Int":    {"FormatUInt8", "FormatUInt16", "FormatUInt32", "FormatUInt64", "FormatInt32"},
		"Float":  {"FormatFloat"},
		"Bool":   {"FormatBool"},
		"String": {"FormatString", "FormatTLV8", "FormatData"},
	}
	for wrapper, fmts := range family {
		var want types.Type
		agree := true
		for _, fn := range fmts {
			t := ty[consts[fn]]
			if t == nil {
				agree = false
				continue
			}
			if want != nil && !types.Identical(want, t) {
				agree = false
			}
			want = t
		}
		if want == nil || !agree {
			c.Bad("family:"+wrapper, token.NoPos, "the formats of the %s family are not converted to one common type", wrapper)
			continue
		}
		// getter
		if g := p.Func("characteristic", "(*"+wrapper+").GetValue"); g != nil {
			ok, n := true, 0
			tolerant := true
			core.Instrs(g, func(i ssa.Instruction) {
				if ta, isTA := i.(*ssa.TypeAssert); isTA {
					n++
					if !types.Identical(ta.AssertedType, want) {
						ok = false
					}
					x := ta.X
					if !ta.CommaOk && !core.Dominated(ta, core.NonNilFact(func(v ssa.Value) bool { return v == x })) {
						tolerant = false
					}
				}
			})
			c.Check(ok && n > 0, "getter:"+wrapper+".GetValue", g.Pos(), fmt.Sprintf("asserts %s, the type convert yields for its formats", want), fmt.Sprintf("%s.GetValue asserts a different type than convert yields (%s): the getter panics", wrapper, want))
			// "the typed getters never fail" includes the empty history: a characteristic made by the generic constructor, or a
			// write-only one (Identify, the camera's setup endpoints…), stores nil until something is set; an unchecked assertion on nil panics.
			if n > 0 {
				c.Check(tolerant, "getter-tolerates-no-value:"+wrapper+".GetValue", g.Pos(), "the assertion on the stored value is checked (no value stored reads as the zero value)",
					wrapper+".GetValue asserts the type of the stored value unchecked: on a characteristic that holds no value yet (the generic constructor, every write-only characteristic) the stored value is nil and the getter panics")
			}
		} else {
			c.Undecided("getter:"+wrapper, token.NoPos, "GetValue not found")
		}
		// the getters of the declared range: a bound the metadata does not declare is nil (about sixty catalogue constructors have no
		// minimum, maximum or step), and "usable object" / "the typed getters never fail" covers them like the value getter
		if wrapper == "Int" || wrapper == "Float" {
			for _, gn := range []string{"GetMinValue", "GetMaxValue", "GetStepValue"} {
				g := p.Func("characteristic", "(*"+wrapper+")."+gn)
				if g == nil {
					continue
				}
				tolerant, n := true, 0
				core.Instrs(g, func(i ssa.Instruction) {
					if ta, isTA := i.(*ssa.TypeAssert); isTA {
						n++
						x := ta.X
						if !ta.CommaOk && !core.Dominated(ta, core.NonNilFact(func(v ssa.Value) bool { return v == x })) {
							tolerant = false
						}
					}
				})
				if n > 0 {
					c.Check(tolerant, "getter-tolerates-no-value:"+wrapper+"."+gn, g.Pos(), "the assertion on the declared bound is checked (no bound declared reads as the zero value)",
						wrapper+"."+gn+" asserts the type of the declared bound unchecked: a characteristic whose metadata declares no such bound (NewActive().GetMaxValue(), NewCarbonDioxideLevel().GetStepValue(), every generic constructor) holds nil there and the getter panics")
				}
			}
		}
		// remote-update adapter closure
		if g := p.Func("characteristic", "(*"+wrapper+").OnValueRemoteUpdate"); g != nil {
			ok, n := true, 0
			for _, cl := range g.AnonFuncs {
				core.Instrs(cl, func(i ssa.Instruction) {
					if ta, isTA := i.(*ssa.TypeAssert); isTA && !ta.CommaOk {
						n++
						if !types.Identical(ta.AssertedType, want) {
							ok = false
						}
					}
				})
			}
			c.Check(ok && n > 0, "adapter:"+wrapper+".OnValueRemoteUpdate", g.Pos(), fmt.Sprintf("asserts %s", want), fmt.Sprintf("%s.OnValueRemoteUpdate asserts a different type than convert yields (%s)", wrapper, want))
		}
		// bound setters (numeric wrappers)
		if wrapper == "Int" || wrapper == "Float" {
			for _, setter := range []string{"SetMinValue", "SetMaxValue", "SetStepValue"} {
				g := p.Func("characteristic", "(*"+wrapper+")."+setter)
				if g == nil {
					c.Undecided("setter:"+wrapper+"."+setter, token.NoPos, "not found")
					continue
				}
				ok := len(g.Params) == 2 && types.Identical(g.Params[1].Type(), want)
				stored := false
				core.Instrs(g, func(i ssa.Instruction) {
					if st, isSt := i.(*ssa.Store); isSt {
						if mi, isMI := st.Val.(*ssa.MakeInterface); isMI && mi.X == ssa.Value(g.Params[1]) {
							stored = true
						}
					}
				})
				c.Check(ok && stored, "setter:"+wrapper+"."+setter, g.Pos(), fmt.Sprintf("stores a %s, the type the clamp asserts", want), fmt.Sprintf("%s.%s does not store a %s: the clamp's comma-ok assertion fails silently and the bound is skipped", wrapper, setter, want))
			}
		}
	}
	// Bytes builds on String
	if g := p.Func("characteristic", "(*Bytes).GetValue"); g != nil {
		ok := false
		core.Instrs(g, func(i ssa.Instruction) {
			if h := core.Callee(i); h != nil && cn(h) == "GetValue" && core.TypeIs(recvType(h), mod+"/characteristic.String") {
				ok = true
			}
		})
		c.Check(ok, "getter:Bytes.GetValue", g.Pos(), "reads through String.GetValue", "Bytes.GetValue does not read through the string getter")
	}
	// the comparison c.Value == value is between values of comparable type: follows from R1 (every case a basic type)
}

func c12r4(c *core.Ctx) {
	p := c.P
	f := p.Func("characteristic", "(*Characteristic).convert")
	if f == nil {
		c.Undecided("convert", token.NoPos, "not found")
		return
	}
	n := 0
	core.Instrs(f, func(i ssa.Instruction) {
		r, ok := i.(*ssa.Return)
		if !ok || len(res(r)) != 1 {
			return
		}
		// the float boxed for the return: directly, or on an edge of the result variable's phi
		var boxed []*ssa.MakeInterface
		var gather func(v ssa.Value, d int)
		gather = func(v ssa.Value, d int) {
			switch x := v.(type) {
			case *ssa.MakeInterface:
				boxed = append(boxed, x)
			case *ssa.Phi:
				if d > 0 {
					for _, e := range x.Edges {
						gather(e, d-1)
					}
				}
			}
		}
		gather(res(r)[0], 4)
		var mi *ssa.MakeInterface
		for _, m := range boxed {
			if b, ok := m.X.Type().Underlying().(*types.Basic); ok && b.Info()&types.IsFloat != 0 {
				for _, s := range core.Sources(m.X) {
					if call, ok := s.(*ssa.Call); ok && call.Call.StaticCallee() != nil && !core.InModule(call.Call.StaticCallee()) {
						mi = m
					}
					if ex, ok := s.(*ssa.Extract); ok {
						if call, ok := ex.Tuple.(*ssa.Call); ok && call.Call.StaticCallee() != nil && !core.InModule(call.Call.StaticCallee()) {
							mi = m
						}
					}
				}
			}
		}
		if mi == nil {
			return
		}
		// a float that comes from a conversion call of a peer value
		var src ssa.Value
		for _, s := range core.Sources(mi.X) {
			if call, ok := s.(*ssa.Call); ok && call.Call.StaticCallee() != nil && !core.InModule(call.Call.StaticCallee()) {
				src = call
			}
			// one result of a multi-valued conversion ( f, err := strconv.ParseFloat(s, 64) )
			if ex, ok := s.(*ssa.Extract); ok {
				if call, ok := ex.Tuple.(*ssa.Call); ok && call.Call.StaticCallee() != nil && !core.InModule(call.Call.StaticCallee()) {
					src = ex
				}
			}
		}
		if src == nil {
			return
		}
		n++
		notNaN := core.FalseFact(func(v ssa.Value) bool {
			call, ok := v.(*ssa.Call)
			return ok && core.IsCall(call, "math.IsNaN") && call.Call.Args[0] == src
		})
		notInf := core.FalseFact(func(v ssa.Value) bool {
			call, ok := v.(*ssa.Call)
			if !ok || !core.IsCall(call, "math.IsInf") || call.Call.Args[0] != src {
				return false
			}
			s, isK := core.ConstInt(call.Call.Args[1])
			return isK && s == 0
		})
		// the converted value reaches the return only over edges behind both negative branches (the return itself may be shared with
		// the paths that substitute another value: a helper with several returns, inlined, ends in one merged return)
		finite := true
		var visit func(v ssa.Value, at ssa.Instruction, d int)
		visit = func(v ssa.Value, at ssa.Instruction, d int) {
			if d == 0 {
				return
			}
			switch x := v.(type) {
			case *ssa.Phi:
				for k, e := range x.Edges {
					pred := x.Block().Preds[k]
					visit(e, pred.Instrs[len(pred.Instrs)-1], d-1)
				}
			case *ssa.MakeInterface:
				visit(x.X, at, d-1)
			default:
				if v == src && !(core.Dominated(at, notNaN) && core.Dominated(at, notInf)) {
					finite = false
				}
			}
		}
		visit(res(r)[0], r, 8)
		c.Check(finite, "finite-float@"+fname(f), r.Pos(), "the converted float is returned only on the negative branches of IsNaN and IsInf(.,0)",
			"a float parsed from the peer's value can be returned although it is NaN or infinite (\"NaN\", \"Inf\", \"1e999\"): the clamp cannot bring it into range and encoding/json refuses to encode the attribute database")
	})
	if n == 0 {
		c.Undecided("float-conversion@"+fname(f), f.Pos(), "no float conversion of a peer value found in convert")
	}
}

// readableCtorsHoldAValue (C12-R3): every characteristic constructor of the library that grants read permission stores a value of
// its format before it returns (for the empty history of updates the typed getter must not fail either: it asserts the Go type of
// the stored value, and nil has none). Decided on the constructor catalogue that C15 evaluates.
func readableCtorsHoldAValue(c *core.Ctx) {
	cat := buildCatalogue(c.P)
	n := 0
	for _, k := range sortedKeys(cat.chars) {
		x := cat.chars[k]
		if len(x.Problems) > 0 {
			continue // C15-R1 reports constructors it cannot evaluate
		}
		readable := false
		for _, pm := range x.Perms {
			if pm == "pr" {
				readable = true
			}
		}
		if !readable {
			continue
		}
		n++
		if !x.HasDefault {
			c.Bad("readable-ctor-holds-a-value:New"+k, x.Pos, "New%s grants read permission but sets no value: the stored value is nil and the typed getter (an unchecked type assertion on the stored value) panics", k)
		}
	}
	c.Check(n > 100, "readable-ctors-hold-a-value", token.NoPos, fmt.Sprintf("%d readable constructors looked at", n), "fewer than 100 readable characteristic constructors found")
}

// boundsBeforeValue (C12-R2): where library code configures a characteristic — sets its value and its minimum / maximum — the bounds are
// set first. SetValue clamps against the bounds in force at that moment; the bound setters only assign. With the value first, the
// value is clamped against the *default* range of the characteristic type and the range the caller asked for is installed
// afterwards: NewTemperatureSensor(150, 120, 200) stores 100, below its own minimum of 120, and serves it.
func boundsBeforeValue(c *core.Ctx) {
	p := c.P
	n := 0
	isSetter := func(i ssa.Instruction, names ...string) (ssa.Value, bool) {
		g := core.Callee(i)
		if g == nil || !strings.HasSuffix(pkgPathOf(g), "/characteristic") {
			return nil, false
		}
		for _, nm := range names {
			if cn(g) == nm {
				return core.Receiver(i), true
			}
		}
		return nil, false
	}
	sameObj := func(a, b ssa.Value) bool {
		if a == b || sameValue(a, b) {
			return true
		}
		// loads of the same field of the same object ( svc.TempSensor.CurrentTemperature )
		ua, ok1 := a.(*ssa.UnOp)
		ub, ok2 := b.(*ssa.UnOp)
		if ok1 && ok2 {
			fa, ok3 := ua.X.(*ssa.FieldAddr)
			fb, ok4 := ub.X.(*ssa.FieldAddr)
			if ok3 && ok4 && fa.Field == fb.Field {
				return sameObjDeep(fa.X, fb.X, 4)
			}
		}
		return false
	}
	for _, f := range libFuncs(p) {
		if strings.HasSuffix(pkgPathOf(f), "/characteristic") {
			continue // the generated constructors: bounds first, checked by C15 (and the setters themselves)
		}
		var vals, bounds []ssa.Instruction
		core.Instrs(f, func(i ssa.Instruction) {
			if _, ok := isSetter(i, "SetValue"); ok {
				vals = append(vals, i)
			}
			if _, ok := isSetter(i, "SetMinValue", "SetMaxValue"); ok {
				bounds = append(bounds, i)
			}
		})
		for _, v := range vals {
			rv, _ := isSetter(v, "SetValue")
			for _, b := range bounds {
				rb, _ := isSetter(b, "SetMinValue", "SetMaxValue")
				if !sameObj(rv, rb) {
					continue
				}
				n++
				// a bound setter that also comes *before* the value on every path ( for _, c := range … { c.SetMinValue(…); c.SetValue(…) } ) is
				// reached again only around the loop — for the next object, or with the same bounds
				c.Check(!reachesAfter(v, b) || instrDominates(b, v), "bounds-before-value@"+fname(f), posOf(v), "the bounds of the characteristic are set before its value",
					"in "+fname(f)+" a characteristic's value is set before its minimum / maximum: the value is clamped against the default range of the characteristic type, the requested range is installed afterwards, and the stored value can lie outside it (NewTemperatureSensor(150, 120, 200) stores and serves 100)")
			}
		}
	}
	c.Count("value_bound_pairs", n)
}

func sameObjDeep(a, b ssa.Value, d int) bool {
	if a == b || sameValue(a, b) {
		return true
	}
	if d == 0 {
		return false
	}
	ua, ok1 := a.(*ssa.UnOp)
	ub, ok2 := b.(*ssa.UnOp)
	if ok1 && ok2 {
		fa, ok3 := ua.X.(*ssa.FieldAddr)
		fb, ok4 := ub.X.(*ssa.FieldAddr)
		if ok3 && ok4 && fa.Field == fb.Field {
			return sameObjDeep(fa.X, fb.X, d-1)
		}
	}
	return false
}

package rules

import (
	"fmt"
	"go/token"
	"sort"

	"golang.org/x/tools/go/ssa"

	"hcsa/core"
)

const (
	tVerifyCtrl = mod + "/hap/pair.VerifyServerController"
	tVerifySess = mod + "/hap/pair.VerifySession"
)

func init() {
	register(&core.Property{
		ID:    "C03",
		Level: "other",
		Explanation: "Product analysis of the pair-verify controller and the /pair-verify endpoint. From the endpoint, the set G of tests on the response container (state tag, error-code tag, error value) that " +
			"dominate the SetCryptographer call is extracted. Every path of every step handler of the controller that returns a container satisfying G (abstractly evaluated: constants set per tag, first value wins, " +
			"as util.Container.GetByte reads them) must contain the true branch of ValidateED25519Signature. The signature call's key must be the stored key of the entity looked up under the name read from the " +
			"AEAD plaintext, and the signed material must be [controller ephemeral key, name, accessory ephemeral key] of this controller's own session object. Also: dispatch guards, reset on every exit of the " +
			"finish case, writers of the session keys, plaintext fallback in Connection.Read/Write.",
		Assumptions: []string{"crypto/ed25519, x/crypto curve25519 and chacha20poly1305 are correct", "util.Container.GetByte returns the first byte set for a tag (checked by C16-R2)"},
		NotDecided:  []string{"cryptographic strength", "freshness of the accessory's ephemeral key beyond: one VerifySession per controller object, created per connection"},
		NeedsCG:     true,
		Rules: []core.Rule{
			{ID: "C03-R1", Title: "controller return paths x endpoint guards: no install without the signature-valid branch", Decides: "verified only by a valid signature; any other outcome does not verify", Floor: 3, Run: c03r1},
			{ID: "C03-R2", Title: "the signature is checked under the stored key of the named controller over this exchange's material", Decides: "valid signature with the stored long-term key over controller key, name, accessory key", Floor: 4, Run: func(c *core.Ctx) {
				c03r2(c)
				addedPairingKeepsItsKey(c)
				returnsUndecorated(c, "C03")
				polarityEverywhere(c, "C03")
			}},
			{ID: "C03-R3", Title: "dispatch guards, reset on every finish exit, writers of the verify-session keys, session built from this controller's shared key", Decides: "out-of-order steps are rejected; keys come from this exchange", Floor: 7, Run: c03r3},
			{ID: "C03-R4", Title: "an unverified connection stays in plaintext", Decides: "unverified connection stays unverified and in plaintext", Floor: 4, Run: c03r4},
			{ID: "C03-R5", Title: "stateless wrappers, fresh per-connection verify state, lookups read storage, endpoint keeps no shared state", Decides: "replayed finish messages and removed pairings do not verify; verification is per connection", Floor: 6, Run: func(c *core.Ctx) {
				c03r5(c)
				c18r3(c) // "the key stored for the claimed name": distinct names have distinct entries
				entityCtorPasses(c)
			}},
		},
	})
}

// tagConstraint: GetByte(tag) ==/!= val must hold for the install to happen.
type tagConstraint struct {
	tag, val int64
	eq       bool
}

func (t tagConstraint) String() string {
	op := "=="
	if !t.eq {
		op = "!="
	}
	return fmt.Sprintf("GetByte(0x%02x) %s %d", t.tag, op, t.val)
}

// endpointGuards extracts the container tests dominating site in fn; cont must be the container tested.
func endpointGuards(site ssa.Instruction) (gs []tagConstraint, contVals []ssa.Value) {
	fn := site.Parent()
	for _, b := range fn.Blocks {
		iff, ok := b.Instrs[len(b.Instrs)-1].(*ssa.If)
		if !ok {
			continue
		}
		bin, ok := iff.Cond.(*ssa.BinOp)
		if !ok || (bin.Op != token.EQL && bin.Op != token.NEQ) {
			continue
		}
		var read, k ssa.Value
		if _, isK := core.ConstInt(bin.Y); isK {
			read, k = bin.X, bin.Y
		} else if _, isK := core.ConstInt(bin.X); isK {
			read, k = bin.Y, bin.X
		} else {
			continue
		}
		cont, m, tag, ok := tlvRead(read)
		if !ok || m != "GetByte" {
			continue
		}
		kv, _ := core.ConstInt(k)
		// which edge dominates the site?
		blk := b
		cutIdx := func(idx int) core.EdgeCut {
			return func(from *ssa.BasicBlock, i int) bool { return from == blk && i == idx }
		}
		domTrue := !core.ReachableFromEntry(site, cutIdx(0))
		domFalse := !core.ReachableFromEntry(site, cutIdx(1))
		if domTrue == domFalse {
			continue
		}
		eq := (bin.Op == token.EQL) == domTrue
		gs = append(gs, tagConstraint{tag: tag, val: kv, eq: eq})
		contVals = append(contVals, cont)
	}
	sort.Slice(gs, func(i, j int) bool { return gs[i].tag < gs[j].tag })
	return
}

// containerFacts evaluates, along a path, the SetByte calls on container values: tag -> first value (known or not).
type tagVal struct {
	known bool
	val   int64
}

func containerFactsOnPath(pa core.Path, typ string) map[ssa.Value]map[int64]tagVal {
	facts := map[ssa.Value]map[int64]tagVal{}
	stepOnPath(pa, typ, "step", func(i ssa.Instruction, known bool, val int64, set bool) {
		if !core.IsInvoke(i, qContainer, "SetByte") && !core.IsInvoke(i, qContainer, "SetBytes") && !core.IsInvoke(i, qContainer, "SetString") {
			return
		}
		c := core.CallOf(i)
		contSrc := core.Sources(c.Value)
		tag, ok := core.ConstInt(c.Args[0])
		if !ok {
			// unknown tag: every tag of this container becomes unknown
			for _, cs := range contSrc {
				if facts[cs] == nil {
					facts[cs] = map[int64]tagVal{}
				}
				facts[cs][-1] = tagVal{}
			}
			return
		}
		tv := tagVal{}
		if c.Method.Name() == "SetByte" {
			arg := core.StripConv(c.Args[1])
			if n, isK := core.ConstInt(arg); isK {
				tv = tagVal{true, n}
			} else if call, isC := arg.(*ssa.Call); isC && core.Callee(call) != nil && cn(core.Callee(call)) == "Byte" && len(call.Call.Args) == 1 {
				inner := core.StripConv(call.Call.Args[0])
				// an error code carried in a variable ( code = ...; if code != 0 { out.SetByte(TagErrCode, code.Byte()) } ): the value
				// this path assigned
				for k := len(pa) - 1; k >= 0; k-- {
					if pa[k] == i.Block() {
						inner = core.StripConv(pa.ResolveAt(k, inner))
						break
					}
				}
				if n, isK := core.ConstInt(inner); isK {
					tv = tagVal{true, n}
				} else if _, isStep := core.FieldLoad(inner, typ, "step"); isStep && set && known {
					tv = tagVal{true, val}
				}
			}
		}
		for _, cs := range contSrc {
			if facts[cs] == nil {
				facts[cs] = map[int64]tagVal{}
			}
			if _, already := facts[cs][tag]; !already { // first value wins (GetByte reads the first byte)
				facts[cs][tag] = tv
			}
		}
	})
	return facts
}

func satisfies(f map[int64]tagVal, gs []tagConstraint) bool {
	if _, unknownTag := f[-1]; unknownTag {
		return true
	}
	for _, g := range gs {
		tv, set := f[g.tag]
		if !set {
			tv = tagVal{true, 0} // GetByte of an absent tag is 0
		}
		if !tv.known {
			continue // could be anything
		}
		if (tv.val == g.val) != g.eq {
			return false
		}
	}
	return true
}

// provablyNonNil: on this path the error value v is known to be non-nil.
func provablyNonNil(pa core.Path, v ssa.Value) bool {
	if core.IsNilConst(v) {
		return false
	}
	// a field read back right after it was assigned on this path ( s.err = fmt.Errorf(...); return nil, s.err )
	if u, ok := v.(*ssa.UnOp); ok && u.Op == token.MUL {
		if fa, ok := u.X.(*ssa.FieldAddr); ok {
			var last *ssa.Store
			done := false
			pa.Instrs(func(i ssa.Instruction) {
				if done {
					return
				}
				if i == ssa.Instruction(u) {
					done = true
					return
				}
				if st, ok := i.(*ssa.Store); ok {
					if x, ok := st.Addr.(*ssa.FieldAddr); ok && x.Field == fa.Field && x.X == fa.X {
						last = st
					}
				}
			})
			if done && last != nil && last.Val != v {
				return provablyNonNil(pa, last.Val)
			}
		}
	}
	all := true
	for _, s := range core.Sources(v) {
		ok := false
		if call, isC := s.(*ssa.Call); isC {
			if core.IsCall(call, "fmt.Errorf") || core.IsCall(call, "errors.New") {
				ok = true
			}
			if f := core.Callee(call); f != nil && core.InModule(f) && f.Signature.Results().Len() == 1 && isErrorCtor(f) {
				ok = true
			}
		}
		if _, isGlobalLoad := s.(*ssa.UnOp); isGlobalLoad {
			if g, isG := s.(*ssa.UnOp).X.(*ssa.Global); isG && g.Pkg != nil && core.InModule(anyFunc(g.Pkg)) {
				ok = true // package-level error variable (errInvalid...)
			}
		}
		if !ok {
			all = false
		}
	}
	if all {
		return true
	}
	// or the path took the "v != nil" edge
	return pathEstablishes(pa, core.NonNilFact(func(x ssa.Value) bool { return valIs(x, v) || x == v || sameFieldLoadOnPath(pa, x, v) }))
}

// sameFieldLoadOnPath: a and b are two loads of the same field of the same object ( if s.err != nil { return nil, s.err } — go/ssa
// has no common subexpression elimination), and the path does not store to that field.
func sameFieldLoadOnPath(pa core.Path, a, b ssa.Value) bool {
	fieldOf := func(v ssa.Value) *ssa.FieldAddr {
		u, ok := v.(*ssa.UnOp)
		if !ok || u.Op != token.MUL {
			return nil
		}
		fa, _ := u.X.(*ssa.FieldAddr)
		return fa
	}
	fa, fb := fieldOf(a), fieldOf(b)
	if fa == nil || fb == nil || fa.X != fb.X || fa.Field != fb.Field {
		return false
	}
	stored := false
	pa.Instrs(func(i ssa.Instruction) {
		if st, ok := i.(*ssa.Store); ok {
			if x, ok := st.Addr.(*ssa.FieldAddr); ok && x.Field == fa.Field && x.X.Type() == fa.X.Type() {
				stored = true
			}
		}
	})
	return !stored
}

func anyFunc(p *ssa.Package) *ssa.Function {
	for _, m := range p.Members {
		if f, ok := m.(*ssa.Function); ok {
			return f
		}
	}
	return nil
}

// isErrorCtor: a module function whose every return is a freshly constructed error.
func isErrorCtor(f *ssa.Function) bool {
	if f.Blocks == nil {
		return false
	}
	ok := true
	core.Instrs(f, func(i ssa.Instruction) {
		if r, isR := i.(*ssa.Return); isR {
			for _, res := range res(r) {
				for _, s := range core.Sources(res) {
					call, isC := s.(*ssa.Call)
					if !isC || !(core.IsCall(call, "fmt.Errorf") || core.IsCall(call, "errors.New")) {
						ok = false
					}
				}
			}
		}
	})
	return ok
}

func c03r1(c *core.Ctx) {
	p := c.P
	ep := p.Func("hap/endpoint", "(*PairVerify).ServeHTTP")
	if ep == nil {
		c.Undecided("PairVerify.ServeHTTP", token.NoPos, "not found")
		return
	}
	var installs []ssa.Instruction
	seenAt := map[ssa.Instruction]bool{}
	for _, l := range liftedSites(ep, func(i ssa.Instruction) bool { return core.IsInvoke(i, qSession, "SetCryptographer") }) {
		if !seenAt[l.at] {
			seenAt[l.at] = true
			installs = append(installs, l.at) // the install itself, or the call of the helper that installs
		}
	}
	if len(installs) == 0 {
		c.Undecided("SetCryptographer@PairVerify.ServeHTTP", ep.Pos(), "the endpoint does not install a cryptographer: anchor lost")
		return
	}
	m := buildStepModel(p, "hap/pair", "VerifyServerController", tVerifyCtrl)
	if m == nil || len(m.handlers) == 0 {
		c.Undecided("VerifyServerController.Handle", token.NoPos, "step handlers not found")
		return
	}
	for _, site := range installs {
		gs, conts := endpointGuards(site)
		// the tested container must be the result of the controller's Handle
		fromHandle := len(conts) > 0
		for _, cv := range conts {
			if !core.AnySource(cv, func(s ssa.Value) bool {
				return core.CallResult(s, 0, func(i ssa.Instruction) bool {
					return core.IsInvoke(i, mod+"/hap.PairVerifyHandler", "Handle") || core.IsInvoke(i, mod+"/hap.ContainerHandler", "Handle")
				}) != nil
			}) {
				fromHandle = false
			}
		}
		// error guard: Handle's error must be nil
		errGuard := core.Dominated(site, errNilFact(1, func(i ssa.Instruction) bool {
			return core.IsInvoke(i, mod+"/hap.PairVerifyHandler", "Handle") || core.IsInvoke(i, mod+"/hap.ContainerHandler", "Handle")
		}))
		gdesc := []string{}
		for _, g := range gs {
			gdesc = append(gdesc, g.String())
		}
		c.Check(fromHandle && errGuard, "install-guards@"+fname(ep), posOf(site),
			fmt.Sprintf("install is dominated by err == nil of Handle and by %v on Handle's response", gdesc),
			"the SetCryptographer call is not dominated by tests on the controller's own response (err == nil and container tests)")
		// product with the controller
		total, accepting := 0, 0
		// the step handlers, and the dispatcher itself: an answer it builds on its own (for a request out of sequence, say) reaches the
		// endpoint's guards like any other; what a step handler hands back through it is that handler's path
		producers := append([]*ssa.Function(nil), m.handlers...)
		if m.handle != nil {
			producers = append(producers, m.handle)
		}
		for _, h := range producers {
			bad := 0
			ok := core.EnumPaths(h, 2, 50000, func(pa core.Path) {
				total++
				ret := pa.Returns()
				if ret == nil || len(res(ret)) != 2 {
					return // panics do not return a response
				}
				if core.IsNilConst(res(ret)[0]) || provablyNonNil(pa, res(ret)[1]) {
					return
				}
				facts := containerFactsOnPath(pa, tVerifyCtrl)
				f := map[int64]tagVal{}
				for _, s := range core.Sources(res(ret)[0]) {
					for t, v := range facts[s] {
						if _, dup := f[t]; !dup {
							f[t] = v
						}
					}
				}
				if !satisfies(f, gs) {
					return
				}
				accepting++
				sigOK := core.TrueFact(func(v ssa.Value) bool { call, ok := v.(*ssa.Call); return ok && core.IsCall(call, qValidate) })
				if pathEstablishes(pa, sigOK) {
					return
				}
				bad++
				c.BadPath(fmt.Sprintf("accepting-path-without-signature:%s", fname(h)), posOf(ret), pa.Describe(p),
					"a path of %s returns a response that passes the endpoint's guards %v (and a nil error) without the true branch of ValidateED25519Signature: the endpoint installs the secure session for an unauthenticated peer", fname(h), gdesc)
			})
			if !ok {
				c.Undecided("paths:"+fname(h), h.Pos(), "too many paths")
				continue
			}
			if bad == 0 {
				c.OK("product:"+fname(h)+"x"+fname(ep), h.Pos(), "every response of this handler that passes the endpoint guards was produced after a valid signature")
			}
		}
		c.Count("paths_enumerated", total)
		c.Count("accepting_paths", accepting)
		if accepting == 0 {
			c.Undecided("accepting-paths", posOf(site), "no controller path satisfies the endpoint guards: the abstraction lost the success path (or verification can never succeed)")
		}
	}
	// Handle itself must not build or modify response containers
	mod := 0
	core.Instrs(m.handle, func(i ssa.Instruction) {
		if cc := core.CallOf(i); cc != nil && cc.IsInvoke() && core.TypeIs(cc.Value.Type(), qContainer) {
			switch cc.Method.Name() {
			case "SetByte", "SetBytes", "SetString":
				mod++
			}
		}
	})
	c.Check(mod == 0, "Handle-passes-response-through", m.handle.Pos(), "Handle does not modify the response container of its step handlers",
		"Handle modifies a container itself; the product rule does not model that")
}

func c03r2(c *core.Ctx) {
	wrapperErrors(c, "VerifyServerController", tVerifyCtrl)
	p := c.P
	m := buildStepModel(p, "hap/pair", "VerifyServerController", tVerifyCtrl)
	if m == nil {
		c.Undecided("VerifyServerController.Handle", token.NoPos, "not found")
		return
	}
	n := 0
	for _, h := range m.handlers {
		for _, si := range core.FindCalls(h, func(i ssa.Instruction) bool { return core.IsCall(i, qValidate) }) {
			n++
			sig := si.(*ssa.Call)
			key := "signature@" + fname(h)
			keyArg, material := sig.Call.Args[0], sig.Call.Args[1]
			// key = PublicKey of the entity returned by EntityWithName(name)
			var lookup *ssa.Call
			for _, s := range core.Sources(keyArg) {
				base, ok := core.FieldLoad(s, mod+"/db.Entity", "PublicKey")
				if !ok {
					continue
				}
				for _, bs := range core.Sources(base) {
					if call := core.CallResult(bs, 0, func(i ssa.Instruction) bool { return core.IsInvoke(i, qDatabase, "EntityWithName") }); call != nil {
						lookup = call.(*ssa.Call)
					}
				}
				// base may be an Alloc holding the entity (struct value): follow stores
			}
			if lookup == nil {
				lookup = entityLookupFor(keyArg)
			}
			if lookup == nil {
				c.Bad(key+"/stored-key", posOf(sig), "the verification key is not the PublicKey of the entity returned by Database.EntityWithName: the signature is not checked against the stored long-term key")
				continue
			}
			c.OK(key+"/stored-key", posOf(sig), "key argument is PublicKey of the entity returned by EntityWithName")
			// lookup error checked before the signature
			c.Check(core.Dominated(sig, errNilFact(1, func(i ssa.Instruction) bool { return i == ssa.Instruction(lookup) })), key+"/lookup-error-checked", posOf(lookup),
				"an unknown name is rejected before the signature check", "the error of EntityWithName is not checked before the signature is accepted: an unknown name yields the zero entity")
			// name = TLV read of the plaintext of DecryptAndVerify under session.EncryptionKey
			name := lookup.Call.Args[0]
			cont, _, _, ok := tlvRead(name)
			okProv := false
			if ok {
				if data, ok2 := containerParsedFrom(cont); ok2 {
					okProv = core.AnySource(data, func(sv ssa.Value) bool {
						call := core.CallResult(sv, 0, func(i ssa.Instruction) bool { return core.IsCall(i, qDecrypt) })
						return call != nil && sliceOfField(core.Args(call)[0], tVerifySess, "EncryptionKey")
					})
				}
			}
			c.Check(okProv, key+"/name-provenance", posOf(lookup), "the name is read from the plaintext of DecryptAndVerify under the verify session's EncryptionKey",
				"the controller name used for the lookup does not come from the authenticated finish message")
			// material order: OtherPublicKey, name, PublicKey of the same session
			parts, okSeq := byteSeq(material)
			if !okSeq {
				c.Undecided(key+"/material", posOf(sig), "signed material is built by an idiom the byte-sequence abstraction does not know")
				continue
			}
			desc := []string{}
			for _, pt := range parts {
				switch {
				case sliceOfField(pt, tVerifySess, "OtherPublicKey"):
					desc = append(desc, "session.OtherPublicKey")
				case sliceOfField(pt, tVerifySess, "PublicKey"):
					desc = append(desc, "session.PublicKey")
				case sameValue(pt, name):
					desc = append(desc, "name")
				default:
					desc = append(desc, "?")
				}
			}
			want := []string{"session.OtherPublicKey", "name", "session.PublicKey"}
			c.Check(fmt.Sprint(desc) == fmt.Sprint(want), key+"/material", posOf(sig), "signed material = [controller ephemeral key, name, accessory ephemeral key]",
				fmt.Sprintf("signed material is %v, the specification's iOSDeviceInfo is %v: stale or reordered material would verify", desc, want))
		}
	}
	if n == 0 {
		c.Undecided("signature-site", token.NoPos, "no ValidateED25519Signature call in the verify controller")
	}
}

// entityLookupFor handles the case where the entity struct is held in a local (Alloc) and the key is a field load of it.
func entityLookupFor(keyArg ssa.Value) *ssa.Call {
	var res *ssa.Call
	for _, s := range core.Sources(keyArg) {
		var base ssa.Value
		switch x := s.(type) {
		case *ssa.UnOp:
			if fa, ok := x.X.(*ssa.FieldAddr); ok {
				base = fa.X
			}
		case *ssa.Field:
			base = x.X
		}
		if base == nil {
			continue
		}
		for _, bs := range core.Sources(base) {
			if call := core.CallResult(bs, 0, func(i ssa.Instruction) bool { return core.IsInvoke(i, qDatabase, "EntityWithName") }); call != nil {
				res = call.(*ssa.Call)
			}
			if a, ok := bs.(*ssa.Alloc); ok {
				for _, r := range *a.Referrers() {
					if st, ok := r.(*ssa.Store); ok && st.Addr == a {
						for _, vs := range core.Sources(st.Val) {
							if call := core.CallResult(vs, 0, func(i ssa.Instruction) bool { return core.IsInvoke(i, qDatabase, "EntityWithName") }); call != nil {
								res = call.(*ssa.Call)
							}
						}
					}
				}
			}
		}
	}
	return res
}

func c03r3(c *core.Ctx) {
	p := c.P
	freshEphemeralKeyPerExchange(c)
	m := buildStepModel(p, "hap/pair", "VerifyServerController", tVerifyCtrl)
	if m == nil {
		c.Undecided("VerifyServerController.Handle", token.NoPos, "not found")
		return
	}
	var finish, start *ssa.Function
	for _, h := range m.handlers {
		if len(core.FindCalls(h, func(i ssa.Instruction) bool { return core.IsCall(i, qValidate) })) > 0 {
			finish = h
		} else {
			start = h
		}
	}
	for _, h := range m.handlers {
		key := "dispatch:" + fname(h)
		if m.guardOK[h] {
			c.OK(key, posOf(m.site[h]), "dispatched only under step == %d", m.guard[h])
		} else {
			c.Bad(key, posOf(m.site[h]), "the call of %s in Handle is not dominated by an equality test of step against exactly one constant", fname(h))
		}
	}
	if finish == nil || start == nil {
		c.Undecided("handlers", token.NoPos, "start/finish handlers not identified")
		return
	}
	// finish guard constant is what start leaves on its returning-success paths
	vals, unknown, _, ok := finalSteps(start, tVerifyCtrl, func(pa core.Path) bool { return pa.Returns() != nil })
	if ok && !unknown && m.guardOK[finish] {
		c.Check(vals[m.guard[finish]], "chain:"+fname(finish), finish.Pos(), "finish is enabled by the constant the start handler stores", "the guard constant of the finish handler is never stored by the start handler")
	}
	// a rejected start request does not open an exchange: no exit of the start handler that reports an error (no response container,
	// or a non-nil error) leaves the step at the constant that enables the finish handler. With the step advanced first and the request
	// validated afterwards, the finish that follows is checked against whatever the session still holds — the keys of an earlier,
	// aborted exchange, or zeros.
	if m.guardOK[finish] {
		enabling := m.guard[finish]
		nfail, badStart := 0, 0
		var w core.Path
		okEnum := core.EnumPaths(start, 2, 20000, func(pa core.Path) {
			ret := pa.Returns()
			if ret == nil || len(res(ret)) != 2 {
				return
			}
			r0 := pa.ResolveAt(len(pa)-1, res(ret)[0])
			r1 := pa.ResolveAt(len(pa)-1, res(ret)[1])
			failing := core.IsNilConst(r0) || provablyNonNil(pa, r1)
			if !failing {
				return
			}
			nfail++
			set, known, v := stepOnPath(pa, tVerifyCtrl, "step", nil)
			if set && (!known || v == enabling) {
				if badStart == 0 {
					w = pa
				}
				badStart++
			}
		})
		if !okEnum {
			c.Undecided("rejected-start-opens-nothing@"+fname(start), start.Pos(), "too many paths")
		} else if badStart > 0 {
			c.BadPath("rejected-start-opens-nothing@"+fname(start), start.Pos(), w.Describe(p), "%d failing exit(s) of the start handler leave step == %d, the state in which a finish request is accepted: after a start request that was answered with an error, a finish is validated against the keys of an earlier exchange (or none) and can verify the connection", badStart, enabling)
		} else {
			c.OK("rejected-start-opens-nothing@"+fname(start), start.Pos(), "none of the %d failing exits of the start handler leaves the finish-enabling state", nfail)
		}
	}
	// reset on every exit of Handle that went through the finish handler: final step == reset constant
	rsVal, _, rsOK := resetState(p, "VerifyServerController", tVerifyCtrl)
	if !rsOK {
		c.Undecided("reset", token.NoPos, "reset() does not store one constant")
		return
	}
	rs := struct{ val int64 }{rsVal}
	bad := 0
	npaths := 0
	core.EnumPaths(m.handle, 2, 20000, func(pa core.Path) {
		through := false
		var deferred []*ssa.Function
		set, known, val := false, false, int64(0)
		pa.Instrs(func(i ssa.Instruction) {
			if i == m.site[finish] {
				through = true
				// effect of the finish handler: take the worst case of its exits = any of its final values;
				// we only need: after it, is reset applied? so mark as unknown and let later effects decide.
				set, known = true, false
				return
			}
			if d, ok := i.(*ssa.Defer); ok {
				if f := d.Call.StaticCallee(); f != nil {
					deferred = append(deferred, f)
				}
				return
			}
			if _, ok := i.(*ssa.RunDefers); ok {
				for k := len(deferred) - 1; k >= 0; k-- {
					if e := stepSummary(deferred[k], tVerifyCtrl, "step", 3); e.kind == 1 {
						set, known, val = true, true, e.val
					} else if e.kind == 2 {
						set, known = true, false
					}
				}
				return
			}
			if st, ok := i.(*ssa.Store); ok {
				if _, ok := core.FieldAddrOf(st.Addr, tVerifyCtrl, "step"); ok {
					set = true
					val, known = core.ConstInt(st.Val)
				}
				return
			}
			if f := core.Callee(i); f != nil && core.TypeIs(recvType(f), tVerifyCtrl) && i != m.site[start] {
				if e := stepSummary(f, tVerifyCtrl, "step", 3); e.kind == 1 {
					set, known, val = true, true, e.val
				} else if e.kind == 2 {
					set, known = true, false
				}
			}
		})
		if !through {
			return
		}
		npaths++
		if !(set && known && val == rs.val) {
			bad++
		}
	})
	c.Count("handle_paths_through_finish", npaths)
	c.Check(bad == 0 && npaths > 0, "reset-after-finish@"+fname(m.handle), m.handle.Pos(), "every exit of Handle after the finish handler leaves step == reset constant (one finish attempt per start)",
		"some exit of Handle after the finish handler does not reset the step: a finish message can be retried against the same ephemeral keys")
	// writers of the verify-session keys
	for _, fld := range []string{"SharedKey", "EncryptionKey", "OtherPublicKey", "PublicKey", "PrivateKey"} {
		for _, st := range p.FieldStores(tVerifySess, fld) {
			f := st.Parent()
			if isTestFunc(p, f) {
				continue
			}
			allowed := map[string]bool{"GenerateSharedKeyWithOtherPublicKey": fld == "SharedKey" || fld == "OtherPublicKey", "SetupEncryptionKey": fld == "EncryptionKey", "NewVerifySession": fld == "PublicKey" || fld == "PrivateKey"}
			ok := allowed[cn(f)] && (core.TypeIs(recvType(f), tVerifySess) || cn(f) == "NewVerifySession")
			c.Check(ok, "write:VerifySession."+fld+"@"+fname(f), st.Pos(), "written only by its designated method", "VerifySession."+fld+" is written outside its designated method")
		}
	}
	// the start handler performs the key agreement with the key the controller sent, before it seals its answer
	if start != nil {
		var gen, setup ssa.Instruction
		core.Instrs(start, func(i ssa.Instruction) {
			if core.IsCall(i, "(*"+tVerifySess+").GenerateSharedKeyWithOtherPublicKey") {
				gen = i
			}
			if core.IsCall(i, "(*"+tVerifySess+").SetupEncryptionKey") {
				setup = i
			}
		})
		fromRequest := false
		if gen != nil {
			// argument: a local array filled by copy(arr[:], <TLV item 3 of the request>)
			if a := allocOf(core.Args(gen)[0]); a != nil {
				core.Instrs(start, func(i ssa.Instruction) {
					call, ok := i.(*ssa.Call)
					if !ok {
						return
					}
					if b, isB := call.Call.Value.(*ssa.Builtin); isB && b.Name() == "copy" && allocOf(call.Call.Args[0]) == a {
						if _, _, tag, ok := tlvRead(call.Call.Args[1]); ok && tag == 3 {
							fromRequest = true
						}
					}
				})
			}
			for _, src := range core.Sources(core.Args(gen)[0]) {
				if _, _, tag, ok := tlvRead(src); ok && tag == 3 {
					fromRequest = true
				}
			}
		}
		order := gen != nil && setup != nil && instrDominates(gen, setup)
		for _, sl := range core.FindCalls(start, isSealCall) {
			if setup == nil || !instrDominates(setup, sl) {
				order = false
			}
		}
		c.Check(gen != nil && setup != nil && fromRequest && order, "key-agreement-performed@"+fname(start), start.Pos(),
			"the shared key is computed from the controller's public key item, then the encryption key, then the answer is sealed",
			"the start handler does not (in this order) compute the shared key from the controller's public key item, derive the encryption key and seal: both ends hold different keys (or a key derived from zeros)")
	}
	// those methods are called only from the start handler (server side)
	for _, f := range libFuncs(p) {
		if !core.TypeIs(recvType(f), tVerifyCtrl) {
			continue
		}
		for _, s := range core.FindCalls(f, func(i ssa.Instruction) bool {
			return core.IsCall(i, "(*"+tVerifySess+").GenerateSharedKeyWithOtherPublicKey") || core.IsCall(i, "(*"+tVerifySess+").SetupEncryptionKey")
		}) {
			c.Check(f == start, "key-agreement@"+fname(f), posOf(s), "session keys are derived only in the start handler", "verify session keys are (re)derived outside the start handler")
		}
	}
	// the secure session is built from the shared key of the same controller that produced the response
	ep := p.Func("hap/endpoint", "(*PairVerify).ServeHTTP")
	if ep != nil {
		for _, l := range liftedSites(ep, func(i ssa.Instruction) bool { return core.IsInvoke(i, qSession, "SetCryptographer") }) {
			l := l
			site := l.inner
			arg := core.Args(site)[0]
			ok := core.AnySource(arg, func(s ssa.Value) bool {
				call := core.CallResult(s, 0, func(i ssa.Instruction) bool { return core.IsCall(i, mod+"/crypto.NewSecureSessionFromSharedKey") })
				if call == nil {
					return false
				}
				return core.AnySource(core.Args(call)[0], func(k ssa.Value) bool {
					kc, isC := k.(*ssa.Call)
					if !isC || !core.IsInvoke(kc, mod+"/hap.PairVerifyHandler", "SharedKey") {
						return false
					}
					// same controller value as the one whose Handle produced the response
					same := false
					core.Instrs(ep, func(i ssa.Instruction) {
						if (core.IsInvoke(i, mod+"/hap.PairVerifyHandler", "Handle") || core.IsInvoke(i, mod+"/hap.ContainerHandler", "Handle")) && sameValue(core.Receiver(i), l.val(kc.Call.Value)) {
							same = true
						}
					})
					return same
				})
			})
			c.Check(ok, "session-key@"+fname(ep), posOf(site), "secure session = NewSecureSessionFromSharedKey(ctlr.SharedKey()) of the controller that handled the message",
				"the installed cryptographer is not derived from the shared key of the controller that handled this exchange")
		}
		if f := p.Func("hap/pair", "(*VerifyServerController).SharedKey"); f != nil {
			ok := returnsOnly(f, func(v ssa.Value) bool {
				base, ok := core.FieldLoad(v, tVerifySess, "SharedKey")
				if !ok {
					return false
				}
				_, ok = core.FieldLoad(base, tVerifyCtrl, "session")
				return ok
			})
			c.Check(ok, "SharedKey-accessor", f.Pos(), "returns session.SharedKey of the controller's own session", "SharedKey() does not return the controller's own session key")
		}
	}
	// one controller per connection (same shape as C02-R5)
	ctor := p.Func("hap/pair", "NewVerifyServerController")
	if ctor != nil {
		for _, e := range p.CallersOf(ctor) {
			f := e.Caller.Func
			if isTestFunc(p, f) || !core.IsLibraryPkg(pkgPathOf(f)) {
				continue
			}
			req := paramOfType(f, "net/http.Request")
			stored := false
			if req != nil {
				core.Instrs(f, func(i ssa.Instruction) {
					if core.IsInvoke(i, qSession, "SetPairVerifyHandler") && sessionOfRequest(core.Receiver(i), req) {
						stored = true
					}
				})
			}
			c.Check(stored, "NewVerifyServerController@"+fname(f), e.Pos(), "stored on the session of the request's own connection", "a verify controller is created but not tied to the request's own connection")
		}
	}
}

func c03r4(c *core.Ctx) {
	p := c.P
	for _, spec := range []struct{ name, enc, getter string }{{"Read", "DecryptedRead", "getDecrypter"}, {"Write", "EncryptedWrite", "getEncrypter"}} {
		f := p.Func("hap", "(*Connection)."+spec.name)
		if f == nil {
			c.Undecided("Connection."+spec.name, token.NoPos, "not found")
			continue
		}
		method := map[string]string{"getDecrypter": "Decrypter", "getEncrypter": "Encrypter"}[spec.getter]
		isGetter := func(v ssa.Value) bool { return cryptoQuery(v, spec.getter, method) }
		nonNil := core.NonNilFact(isGetter)
		isNil := core.IsNilFact(isGetter)
		encSites := core.FindCalls(f, func(i ssa.Instruction) bool { return core.Callee(i) != nil && cn(core.Callee(i)) == spec.enc })
		rawSites := core.FindCalls(f, func(i ssa.Instruction) bool {
			if !core.IsInvoke(i, "net.Conn", spec.name) {
				return false
			}
			_, ok := core.FieldLoad(core.Receiver(i), mod+"/hap.Connection", "connection")
			return ok
		})
		if spec.name == "Read" {
			// the plain-text read may take its byte from the connection's read-ahead buffer (the reader it waited on) instead of the socket
			rawSites = append(rawSites, core.FindCalls(f, func(i ssa.Instruction) bool {
				if !core.IsCall(i, "(*bufio.Reader).Read") {
					return false
				}
				_, ok := core.FieldLoad(core.Receiver(i), mod+"/hap.Connection", "bufferedReader")
				return ok
			})...)
		}
		okEnc := len(encSites) > 0
		for _, s := range encSites {
			if !core.Dominated(s, nonNil) {
				okEnc = false
			}
		}
		okRaw := len(rawSites) > 0
		for _, s := range rawSites {
			if !core.Dominated(s, isNil) {
				okRaw = false
			}
		}
		c.Check(okEnc, "Connection."+spec.name+"/encrypted-branch", f.Pos(), "the encrypted path is taken only when the session has a cryptographer", "Connection."+spec.name+" can take the encrypted path without a cryptographer")
		c.Check(okRaw, "Connection."+spec.name+"/plaintext-branch", f.Pos(), "the plaintext path is taken only when the session has no cryptographer", "Connection."+spec.name+" can use the raw socket although a cryptographer is installed")
	}
}

// freshEphemeralKeyPerExchange: the accessory's Curve25519 key pair belongs to one exchange. The signature in the finish message is
// over (controller ephemeral key, name, accessory ephemeral key) and sealed under a key derived from the two ephemeral keys; with
// an accessory key that lives as long as the connection, a start request repeated byte for byte is answered with the same key, the
// shared secret is the same, and the finish message recorded in an earlier exchange fits: the connection becomes verified by
// a party that only repeats bytes (start, out-of-order start, genuine finish — refused — then both again). The start handler
// stores a session created by NewVerifySession in that handler before it sends its public key. (The setup controller's twin is
// fresh-challenge-per-exchange, C02-R5.)
func freshEphemeralKeyPerExchange(c *core.Ctx) {
	p := c.P
	m := buildStepModel(p, "hap/pair", "VerifyServerController", tVerifyCtrl)
	if m == nil {
		return
	}
	isKeyLoad := func(v ssa.Value) bool {
		found := false
		walkOperands(v, 5, func(x ssa.Value) {
			if sliceOfField(x, tVerifySess, "PublicKey") {
				found = true
			}
			if fa, ok := x.(*ssa.FieldAddr); ok && core.TypeIs(fa.X.Type(), tVerifySess) && fieldNameOf(fa) == "PublicKey" {
				found = true
			}
		})
		return found
	}
	n := 0
	for _, h := range m.handlers {
		var send ssa.Instruction
		core.Instrs(h, func(i ssa.Instruction) {
			if core.IsInvoke(i, qContainer, "SetBytes") && isKeyLoad(core.Args(i)[1]) {
				send = i
			}
		})
		if send == nil {
			continue
		}
		n++
		fresh := false
		core.Instrs(h, func(i ssa.Instruction) {
			st, ok := i.(*ssa.Store)
			if !ok {
				return
			}
			if _, isF := core.FieldAddrOf(st.Addr, tVerifyCtrl, "session"); !isF {
				return
			}
			made := core.AnySource(st.Val, func(sv ssa.Value) bool {
				return core.CallResult(sv, 0, func(ci ssa.Instruction) bool { return core.IsCall(ci, mod+"/hap/pair.NewVerifySession") }) != nil
			})
			if made && instrDominates(st, send) {
				fresh = true
			}
		})
		c.Check(fresh, "fresh-ephemeral-key-per-exchange@"+fname(h), posOf(send), "the public key sent belongs to a verify session created in this start handler",
			"the start handler answers with the key pair the controller was created with: every exchange on a connection uses the same accessory ephemeral key, a repeated start request yields the same shared secret, and a finish message replayed from an earlier exchange verifies the connection")
	}
	if n == 0 {
		c.Undecided("fresh-ephemeral-key-per-exchange", token.NoPos, "no step handler of the verify controller sends the session's public key")
	}
}

// verifySessionFreshPerStart: every start handler of the verify controller that sends the session's public key has stored a
// session created by NewVerifySession before (the silent form of freshEphemeralKeyPerExchange). When it holds, the session the
// constructor creates is never used for an exchange, and what the constructor does with it is of no consequence.
func verifySessionFreshPerStart(p *core.Program) bool {
	m := buildStepModel(p, "hap/pair", "VerifyServerController", tVerifyCtrl)
	if m == nil {
		return false
	}
	n, ok := 0, true
	for _, h := range m.handlers {
		var send ssa.Instruction
		core.Instrs(h, func(i ssa.Instruction) {
			if !core.IsInvoke(i, qContainer, "SetBytes") {
				return
			}
			walkOperands(core.Args(i)[1], 5, func(x ssa.Value) {
				if sliceOfField(x, tVerifySess, "PublicKey") {
					send = i
				}
				if fa, isF := x.(*ssa.FieldAddr); isF && core.TypeIs(fa.X.Type(), tVerifySess) && fieldNameOf(fa) == "PublicKey" {
					send = i
				}
			})
		})
		if send == nil {
			continue
		}
		n++
		fresh := false
		core.Instrs(h, func(i ssa.Instruction) {
			st, isSt := i.(*ssa.Store)
			if !isSt {
				return
			}
			if _, isF := core.FieldAddrOf(st.Addr, tVerifyCtrl, "session"); !isF {
				return
			}
			if core.AnySource(st.Val, func(sv ssa.Value) bool {
				return core.CallResult(sv, 0, func(ci ssa.Instruction) bool { return core.IsCall(ci, mod+"/hap/pair.NewVerifySession") }) != nil
			}) && instrDominates(st, send) {
				fresh = true
			}
		})
		if !fresh {
			ok = false
		}
	}
	return ok && n > 0
}

// cryptoQuery: v is what the connection's session answers to Decrypter() / Encrypter() at this moment (or nil when there is no
// session): the result of the getter under its reference name, of the Session method itself (the getter written out or inlined),
// or of another module function that returns nothing else (the getter under another name and parameter list).
func cryptoQuery(v ssa.Value, getter, method string) bool {
	found := false
	for _, s := range core.Sources(v) {
		if core.IsNilConst(s) {
			continue
		}
		call, ok := s.(*ssa.Call)
		if !ok {
			return false
		}
		switch {
		case core.IsInvoke(call, qSession, method):
			found = true
		case core.Callee(call) != nil && cn(core.Callee(call)) == getter:
			found = true
		case core.Callee(call) != nil && core.InModule(core.Callee(call)) && core.Callee(call).Blocks != nil &&
			returnsOnly(core.Callee(call), func(r ssa.Value) bool {
				if core.IsNilConst(r) {
					return true
				}
				rc, ok := r.(*ssa.Call)
				return ok && core.IsInvoke(rc, qSession, method)
			}):
			found = true
		default:
			return false
		}
	}
	return found
}
